"""Residual of 75ec723: in a stacked repository per-file heads are taken from the REVISION graph, which differs from the
per-file graph once a file id was removed and added again: check() reports inconsistent parents; the same commit in an
unstacked repository is consistent."""
import os, sys, tempfile
sys.path.insert(0, os.environ.get("VERIF_REPO", "/repo"))
home = tempfile.mkdtemp(); os.environ["BRZ_HOME"] = home; os.environ["HOME"] = home; os.environ["BRZ_EMAIL"] = "T <t@e.com>"
import breezy, breezy.bzr
breezy.initialize()
from breezy import trace; trace.be_quiet(True)
from breezy import branch as B, transport as T
from breezy.branchbuilder import BranchBuilder
from dromedary import memory
srv = memory.MemoryServer(); srv.start_server(); url = srv.get_url()
t = T.get_transport(url + "base"); t.ensure_base()
bb = BranchBuilder(t, format="2a"); bb.start_series()
bb.build_snapshot(None, [("add", ("", b"root-id", "directory", None)), ("add", ("b", b"id-b", "file", b"b1\n")), ("add", ("c", b"id-c", "file", b"c1\n"))], revision_id=b"r1")
bb.build_snapshot([b"r1"], [("unversion", "b")], revision_id=b"r2")                       # b removed ...
bb.build_snapshot([b"r2"], [("add", ("b", b"id-b", "file", b"b3\n"))], revision_id=b"r3")   # ... and added again, same file id
bb.build_snapshot([b"r1"], [("modify", ("c", b"c4\n"))], revision_id=b"r4")                # other line keeps (b, r1)
bb.finish_series()
base = bb.get_branch()
def merge_commit(br):
    t = br.create_memorytree()
    with t.lock_write():
        t.set_parent_ids([b"r4", b"r3"])          # keep THIS's b: per-file heads are (b, r1) and (b, r3)
        t.commit("merge", rev_id=b"m")
    repo = B.Branch.open(br.base).repository
    with repo.lock_read():
        return repo.texts.get_parent_map([(b"id-b", b"m")]), repo.check().inconsistent_parents
plain = base.controldir.sprout(url + "plain", revision_id=b"r4").open_branch()
plain.repository.fetch(base.repository, revision_id=b"r3")
print("unstacked:", merge_commit(plain))
stacked = base.controldir.sprout(url + "stacked", revision_id=b"r4", stacked=True).open_branch()
print("stacked:  ", merge_commit(stacked))
