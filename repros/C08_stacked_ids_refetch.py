"""Second local cross-format fetch into a STACKED pre-2a repository fails with KnitCorrupt: InterDifferingSerializer._fetch_batch
re-adds the inventories of the new revisions' parents although the stacked repository already holds them."""
import os, sys, tempfile
sys.path.insert(0, os.environ.get("VERIF_REPO", "/repo"))
home = tempfile.mkdtemp(); os.environ["BRZ_HOME"] = home; os.environ["HOME"] = home; os.environ["BRZ_EMAIL"] = "T <t@e.com>"
import breezy, breezy.bzr
breezy.initialize()
from breezy import trace; trace.be_quiet(True)
from breezy.branch import Branch
from breezy.branchbuilder import BranchBuilder
from breezy.controldir import ControlDir, format_registry
from breezy.repository import InterRepository
from breezy.transport import get_transport
work = tempfile.mkdtemp()
bb = BranchBuilder(get_transport(work).clone("dev"), format="pack-0.92")
bb.start_series()
bb.build_snapshot(None, [("add", ("", b"root-id", "directory", "")), ("add", ("a", b"a-id", "file", b"1\n"))], revision_id=b"r1")
bb.build_snapshot([], [("add", ("", b"root-id", "directory", "")), ("add", ("a", b"a-id", "file", b"2\n"))], revision_id=b"r2")   # a second root
bb.build_snapshot([b"r1"], [("modify", ("a", b"3\n"))], revision_id=b"r3")
bb.build_snapshot([b"r2", b"r3"], [("modify", ("a", b"4\n"))], revision_id=b"r4")
bb.build_snapshot([b"r4", b"r2"], [("modify", ("a", b"5\n"))], revision_id=b"r5")
bb.finish_series()
dev = bb.get_branch()
fmt = format_registry.make_controldir("1.9-rich-root")
trunk = ControlDir.create_branch_convenience(work + "/trunk", format=fmt, force_new_tree=False)
trunk.repository.fetch(dev.repository, b"r1")
st = ControlDir.create_branch_convenience(work + "/stacked", format=fmt, force_new_tree=False)
st.set_stacked_on_url("../trunk")
st = Branch.open(work + "/stacked")
print("path:", type(InterRepository.get(dev.repository, st.repository)).__name__)
st.repository.fetch(dev.repository, b"r4")
print("first fetch ok")
st = Branch.open(work + "/stacked")
try:
    st.repository.fetch(dev.repository, b"r5")
    print("second fetch ok")
except Exception as e:
    print("second fetch FAILED:", type(e).__name__, str(e)[:200]); sys.exit(1)
