import os, sys, tempfile
sys.path.insert(0, os.environ.get("VERIF_REPO", "/repo"))
home = tempfile.mkdtemp(); os.environ["BRZ_HOME"] = home; os.environ["HOME"] = home; os.environ["BRZ_EMAIL"] = "T <t@e.com>"
import breezy, breezy.bzr, breezy.git
breezy.initialize()
from breezy import trace; trace.be_quiet(True)
from breezy.controldir import ControlDir, format_registry
from breezy.git.dir import BareLocalGitControlDirFormat
import dulwich.repo
w = tempfile.mkdtemp(); p = w + "/t"; g = w + "/g"; os.mkdir(p); os.mkdir(g)
wt = ControlDir.create_standalone_workingtree(p, format=format_registry.make_controldir("2a"))
os.mkdir(p + "/d"); open(p + "/d/x", "w").write("x\n"); open(p + "/d/y", "w").write("y\n")
wt.add(["d", "d/x", "d/y"]); wt.commit("one")
wt.rename_one("d", "e"); wt.remove(["e/x"], keep_files=False)
wt.commit("two")
gb = BareLocalGitControlDirFormat().initialize(g).create_branch()
wt.branch.push(gb, lossy=True)
r = dulwich.repo.Repo(g)
head = r.refs[b"refs/heads/master"]
root = r[r[head].tree]
bad = 0
for e in root.items():
    ok = e.sha in r.object_store
    print(e.path, e.sha, "present" if ok else "MISSING")
    bad += not ok
sys.exit(1 if bad else 0)
