"""before:revno:N:BRANCH resolved by in_history used the CONTEXT branch's revision N-1 (fixed)."""
import os, sys, tempfile
sys.path.insert(0, os.environ.get("VERIF_REPO", "/repo"))
home = tempfile.mkdtemp(); os.environ["BRZ_HOME"] = home; os.environ["HOME"] = home; os.environ["BRZ_EMAIL"] = "T <t@e.com>"
import breezy, breezy.bzr
breezy.initialize()
from breezy import transport as T
from breezy.branchbuilder import BranchBuilder
from breezy.revisionspec import RevisionSpec
from dromedary import memory
srv = memory.MemoryServer(); srv.start_server(); url = srv.get_url()
def mk(name, pre):
    t = T.get_transport(url + name); t.ensure_base()
    bb = BranchBuilder(t, format="2a"); bb.start_series()
    bb.build_snapshot(None, [("add", ("", (pre + "root").encode(), "directory", None))], revision_id=(pre + "1").encode())
    bb.build_snapshot([(pre + "1").encode()], [], revision_id=(pre + "2").encode())
    bb.build_snapshot([(pre + "2").encode()], [], revision_id=(pre + "3").encode())
    bb.finish_series(); return bb.get_branch()
trunk, feature = mk("trunk", "a"), mk("feature", "b")
trunk.fetch(feature)
bad = 0
for text in ("before:revno:3:" + feature.base, "before:-1:" + feature.base):
    spec = RevisionSpec.from_string(text)
    with trunk.lock_read():
        got, want = spec.in_history(trunk).rev_id, spec.as_revision_id(trunk)
    print(text.split(":")[1], got, want)
    bad += got != b"b2" or want != b"b2"
sys.exit(1 if bad else 0)
