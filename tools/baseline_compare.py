#!/venv/bin/python -B
"""Compare a junit xml of the repository's test run with /root/.vp/BASELINE.json stable_pass."""
import json, sys
import xml.etree.ElementTree as ET
base = json.load(open('/root/.vp/BASELINE.json'))
stable = set(base['stable_pass'])
t = ET.parse(sys.argv[1]).getroot()
passed, failed = set(), set()
for tc in t.iter('testcase'):
    name = "%s::%s" % (tc.get('classname'), tc.get('name'))
    bad = any(c.tag in ('failure', 'error') for c in tc)
    skipped = any(c.tag == 'skipped' for c in tc)
    if bad: failed.add(name)
    elif not skipped: passed.add(name)
print("stable_pass %d; now passed %d; stable tests not passing now: %d" % (len(stable), len(passed), len(stable - passed)))
for n in sorted(stable - passed)[:40]: print("  REGRESSION", n, "(failed)" if n in failed else "(missing/skipped)")
