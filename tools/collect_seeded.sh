#!/bin/sh
# usage: tools/collect_seeded.sh sN   - copy /tmp/seed/sN-out/<name>/ into /verif/seeded/ and re-verify each demo in /tmp/seed/sN
S=$1
for d in /tmp/seed/$S-out/*/; do
  n=$(basename $d)
  [ -f $d/patch.diff ] && [ -f $d/meta.json ] || continue
  demo=$d/demo.py
  [ -f $demo ] || demo=$(ls $d/*.py 2>/dev/null | head -1)
  [ -n "$demo" ] || { echo "$n: no demo"; continue; }
  mkdir -p /verif/seeded/$n
  cp $d/patch.diff $d/meta.json /verif/seeded/$n/; cp $demo /verif/seeded/$n/demo.py
  cd /tmp/seed/$S && git checkout -q -- . && cp $demo ./_demo.py
  /venv/bin/python _demo.py >/dev/null 2>&1; a=$?
  git apply $d/patch.diff && /venv/bin/python _demo.py >/dev/null 2>&1; b=$?
  git checkout -q -- .; rm -f _demo.py
  echo "$n without=$a with=$b"
done
