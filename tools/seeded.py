#!/venv/bin/python -B
"""Run the registered checks against the seeded breaking changes under /verif/seeded/<id>/.

  tools/seeded.py run <id>|all [--tier quick|thorough] [--in-repo]

Default: a scratch git worktree of /repo (removed afterwards) gets the patch and the check runs with VERIF_REPO
pointing at it (python-only patches; Rust patches get a copy of /repo/target so cargo rebuilds there).
--in-repo: apply to /repo itself (git apply), run, and restore (git checkout -- .) - only when nothing else uses /repo.
Writes seeded/<id>/result.json: {caught, exit, violations: [signature...], wall_s}.
"""
import json
import os
import re
import shutil
import subprocess
import sys
import time

V = os.path.dirname(os.path.dirname(os.path.abspath(__file__)))


def run(sid, tier="quick", in_repo=False):
    d = os.path.join(V, "seeded", sid)
    meta = json.load(open(os.path.join(d, "meta.json")))
    patch = os.path.join(d, "patch.diff")
    props = meta["property"] if isinstance(meta["property"], list) else [meta["property"]]
    rust = any(l.startswith("+++ b/") and (l.strip().endswith(".rs")) for l in open(patch))
    env = dict(os.environ)
    wt = None
    try:
        if in_repo:
            subprocess.run(["git", "-C", "/repo", "apply", patch], check=True)
        else:
            wt = "/tmp/seed-wt-%s-%d" % (sid, os.getpid())
            subprocess.run(["git", "-C", "/repo", "worktree", "add", "--detach", "-q", wt, "HEAD"], check=True)
            if subprocess.run(["git", "-C", wt, "apply", patch]).returncode != 0:
                out = {p: {"exit": None, "caught": None, "violations": [], "tier": tier,
                           "tail": ["patch does not apply to the current /repo HEAD (a later fix: commit touched the same lines)"]}
                       for p in props}
                json.dump(out, open(os.path.join(d, "result.json"), "w"), indent=1)
                return out
            if rust:
                subprocess.run(["cp", "-a", "/repo/target", wt + "/target"], check=True)
            env["VERIF_REPO"] = wt
        out = {}
        for p in props:
            t0 = time.time()
            r = subprocess.run([os.path.join(V, "check"), p, "--tier", tier], cwd=V, env=env, capture_output=True, text=True)
            sigs = re.findall(r"^  signature=(\S+)", r.stdout, re.M)
            out[p] = {"exit": r.returncode, "caught": r.returncode == 1 and "VIOLATION property=%s" % p in r.stdout,
                      "violations": sorted(set(sigs))[:12], "wall_s": round(time.time() - t0, 1), "tier": tier,
                      "tail": r.stdout.strip().splitlines()[-1:] }
        json.dump(out, open(os.path.join(d, "result.json"), "w"), indent=1)
        return out
    finally:
        if in_repo:
            subprocess.run(["git", "-C", "/repo", "checkout", "--", "."], check=False)
        elif wt:
            subprocess.run(["git", "-C", "/repo", "worktree", "remove", "--force", wt], check=False)
            shutil.rmtree(wt, ignore_errors=True)
        subprocess.run(["git", "-C", V, "checkout", "--", "evidence"], check=False)   # evidence must describe the real tree


if __name__ == "__main__":
    args = [a for a in sys.argv[1:] if not a.startswith("--")]
    tier = "thorough" if "--tier=thorough" in sys.argv or "thorough" in sys.argv[3:] else "quick"
    ids = sorted(os.listdir(os.path.join(V, "seeded"))) if args[1] == "all" else [args[1]]
    for sid in ids:
        if not os.path.exists(os.path.join(V, "seeded", sid, "meta.json")):
            continue
        if args[1] == "all" and os.path.exists(os.path.join(V, "seeded", sid, "result.json")) and "--force" not in sys.argv:
            continue
        res = run(sid, tier, "--in-repo" in sys.argv)
        for p, r in res.items():
            print("%-28s %s %s exit=%s %ss %s" % (sid, p, "CAUGHT" if r["caught"] else "MISSED", r["exit"], r.get("wall_s"), r["violations"][:2]))
