#!/venv/bin/python -B
"""Rewrite the generated blocks of DESIGN.md (findings table, seeded-change table) from known_findings.json and
seeded/*/{meta,result}.json so that the document cannot drift from the data the checks use."""
import glob, json, os, re
V = os.path.dirname(os.path.dirname(os.path.abspath(__file__)))
kf = json.load(open(os.path.join(V, "known_findings.json")))["findings"]
rows = ["| property | status | signature | what |", "|---|---|---|---|"]
for e in sorted(kf, key=lambda e: (e["property"], e["status"], e["signature"])):
    d = re.sub(r"^fixed: property=\S+ \S+ ", "", e["description"]).replace("|", "\\|").replace("\n", " ")
    st = "**fixed** `%s`" % e["commit"] if e["status"] == "fixed" else "finding"
    rows.append("| %s | %s | `%s` | %s |" % (e["property"], st, e["signature"], d))
findings = "\n".join(rows)
srows = ["| seeded change | property | what it breaks / what it needs | caught by (quick tier) |", "|---|---|---|---|"]
for d in sorted(glob.glob(os.path.join(V, "seeded", "*"))):
    try:
        m = json.load(open(os.path.join(d, "meta.json")))
    except Exception:
        continue
    res = {}
    if os.path.exists(os.path.join(d, "result.json")):
        res = json.load(open(os.path.join(d, "result.json")))
    what = (m.get("what_breaks", "") + " — needs: " + m.get("needs_to_manifest", "")).replace("|", "\\|").replace("\n", " ")
    if len(what) > 420:
        what = what[:417] + "..."
    for p, r in (res or {"?": {}}).items():
        c = "not run yet" if not r else ("**caught**: " + ", ".join("`%s`" % s for s in r.get("new_violations", r["violations"])[:3]) if r["caught"] else "MISSED (%s)" % r.get("note", "exit %s" % r.get("exit")))
        srows.append("| `%s` | %s | %s | %s |" % (os.path.basename(d), p, what, c))
seeded = "\n".join(srows)
sweeps = ""
sp = os.path.join(V, "tools", "sweeps.json")
if os.path.exists(sp):
    sw = json.load(open(sp))
    seeds = sorted(sw["seeds"], key=int)
    w = ["| check | thorough tier: runs (exit, wall s under load) | last thorough run: evaluations / spec states / real executions | "
         + " | ".join("quick seed %s" % x for x in seeds) + " |", "|---|---|---|" + "---|" * len(seeds)]
    for c in sorted(set(sw["thorough"]) | {c for x in seeds for c in sw["seeds"][x]}):
        th = sw["thorough"].get(c, [])
        last = th[-1] if th else {}
        w.append("| %s | %s | %s | %s |" % (
            c, "; ".join("exit %d, %d s" % (r["exit"], r["wall_s"]) for r in th) or "run by its builder (9.5)",
            "%s / %s / %s" % (last.get("evaluations", "-"), last.get("spec_states", "-"), last.get("impl_traces", "-")) if last else "-",
            " | ".join("; ".join("exit %d, %d s" % (r["exit"], r["wall_s"]) for r in sw["seeds"][x].get(c, [])) or "-" for x in seeds)))
    sweeps = "\n".join(w)
s = open(os.path.join(V, "DESIGN.md")).read()
for tag, body in (("FINDINGS", findings), ("SEEDED", seeded), ("SWEEPS", sweeps)):
    a, b = "<!-- BEGIN GENERATED %s -->" % tag, "<!-- END GENERATED %s -->" % tag
    if a in s:
        s = s[:s.index(a) + len(a)] + "\n" + body + "\n" + s[s.index(b):]
open(os.path.join(V, "DESIGN.md"), "w").write(s)
print("findings %d, seeded %d" % (len(rows) - 2, len(srows) - 2))
