#!/venv/bin/python -B
"""Fold the sweep logs of the build round (thorough tier of every check, quick tier with other seeds; run on the
unchanged tree) into tools/sweeps.json, which tools/gen_design_tables.py renders into DESIGN.md section 9.6.
usage: tools/collect_sweeps.py /tmp/pk/thorough.log /tmp/pk/seedsweep.log"""
import json, os, re, sys
V = os.path.dirname(os.path.dirname(os.path.abspath(__file__)))
out = {"thorough": {}, "seeds": {}}
for line in open(sys.argv[1]):
    m = re.match(r"(C\d\d) exit=(\d+) (\d+)s (.*)", line)
    if m:
        mm = re.search(r"(\d+) evaluations, (\d+) distinct non-trivial, (\d+) spec states, (\d+) impl traces, (\d+) known-finding classes, (\d+) unlisted", m.group(4))
        out["thorough"].setdefault(m.group(1), []).append({"exit": int(m.group(2)), "wall_s": int(m.group(3)),
            **({"evaluations": int(mm.group(1)), "spec_states": int(mm.group(3)), "impl_traces": int(mm.group(4)),
                "known": int(mm.group(5)), "unlisted": int(mm.group(6))} if mm else {"note": m.group(4)[:120]})})
for line in open(sys.argv[2]):
    m = re.match(r"(C\d\d) seed=(\d+) exit=(\d+) (\d+)s", line)
    if m:
        out["seeds"].setdefault(m.group(2), {}).setdefault(m.group(1), []).append({"exit": int(m.group(3)), "wall_s": int(m.group(4))})
json.dump(out, open(os.path.join(V, "tools", "sweeps.json"), "w"), indent=1, sort_keys=True)
print({k: len(v) for k, v in out["thorough"].items()}.__len__(), "thorough ids;", {s: len(v) for s, v in out["seeds"].items()})
