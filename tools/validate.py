#!/opt/veriftools/pyvenv/bin/python
import json, jsonschema, glob, sys
jsonschema.validate(json.load(open('/verif/MANIFEST.json')), json.load(open('/root/.vp/MANIFEST.schema.json')))
s = json.load(open('/root/.vp/EVIDENCE.schema.json'))
for f in sorted(glob.glob('/verif/evidence/*.json')):
    jsonschema.validate(json.load(open(f)), s)
man = json.load(open('/verif/MANIFEST.json'))
ids = [c['property_id'] for c in man['checks']] + [n['property_id'] for n in man.get('not_applicable', [])]
assert len(ids) == len(set(ids)) == 52, (len(ids), len(set(ids)))
print('manifest + %d evidence files valid' % len(glob.glob('/verif/evidence/*.json')))
