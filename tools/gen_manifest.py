#!/venv/bin/python -B
"""Regenerate MANIFEST.json from harness/*.py META blocks (single source of truth)."""
import ast
import glob
import json
import os
import sys

V = os.path.dirname(os.path.dirname(os.path.abspath(__file__)))
props = [json.loads(l) for l in open(os.path.join(V, "properties.jsonl"))]
na_reasons = json.load(open(os.path.join(V, "tools", "not_applicable.json")))


def meta_of(path):
    tree = ast.parse(open(path).read())
    for node in tree.body:
        if isinstance(node, ast.Assign) and getattr(node.targets[0], "id", None) == "META":
            return eval(compile(ast.Expression(node.value), path, "eval"))
    return None


ready = set(json.load(open(os.path.join(V, "tools", "ready.json"))))
checks, claimed = [], set()
for f in sorted(glob.glob(os.path.join(V, "harness", "C*.py"))):
    m = meta_of(f)
    if not m or m.get("disabled") or m["property_id"] not in ready:
        continue
    pid = m["property_id"]
    claimed.add(pid)
    checks.append({
        "property_id": pid,
        "quick_cmd": "./check %s --tier quick" % pid,
        "thorough_cmd": "./check %s --tier thorough" % pid,
        "evidence_file": "/verif/evidence/%s.json" % pid,
        "replay_cmd_template": "./check %s --replay {path}" % pid,
        "engine": "tlc+harness",
        "level_claimed": {"category": m.get("level", "model_checking"), "text": m["level_text"],
                          "design_ref": m.get("design_ref", "DESIGN.md §4 " + pid)},
        "level_note": m["level_note"],
        "technique": m["technique"],
    })
na = []
for p in props:
    if p["id"] not in claimed:
        na.append({"property_id": p["id"],
                   "reason": na_reasons.get(p["id"], "check not built yet in this round (planned: DESIGN.md §4 %s); "
                                            "not claimed until its TLA+ spec and binding exist" % p["id"])})
man = {
    "version": 1,
    "setup_cmd": "./setup.sh",
    "hooks": {"guard": "BRZ_VERIF_TRACE",
              "enable": "no source hooks are needed: checks import breezy from /repo in place, rebuild the Rust "
                        "extension crates offline (cargo build --offline) and observe through transport decorators "
                        "and public APIs; BRZ_VERIF_TRACE=1 is set by the harness for any future guarded hook",
              "baseline_off_cmd": "cd /repo && /venv/bin/python -m pytest -ra -q -p no:cacheprovider --timeout=900 "
                                  "--continue-on-collection-errors",
              "source_commits": json.load(open(os.path.join(V, "tools", "source_commits.json"))),
              "add_only": True},
    "engines": [
        {"name": "tlc", "path": "vf/tlc.py", "serves_properties": sorted(claimed),
         "kind_free_text": "TLC 1.8 model checking / simulation / trace validation of specs/*.tla"},
        {"name": "harness", "path": "check", "serves_properties": sorted(claimed),
         "kind_free_text": "per-property binding of the TLA+ specs to the real breezy code (replay + trace validation)"},
    ],
    "checks": checks,
    "not_applicable": na,
    "notes": "All checks: ./check <id> --tier quick|thorough; VERIF_SEED / VERIF_TIER honoured. Exit 0 held, 1 VIOLATION, "
             "2 machinery failure. Known findings: known_findings.json.",
}
json.dump(man, open(os.path.join(V, "MANIFEST.json"), "w"), indent=1)
print("claimed %d, not claimed %d" % (len(checks), len(na)))
