----------------------------- MODULE GlobTrace -----------------------------
(* E3 for C48: results recorded from the real Globster / ExceptionGlobster / _OrderedGlobster / WorkingTree.
   is_ignored are judged by the laws of Glob.  One row per ignore list:

     L     : the list (entries [pre, pat]);   nn : number of names the harness evaluated (must be all of them);
     obs   : the observers that were run (subset of eg, g, og, tr);
     hits  : the names for which some observer reported something: [name, eg, g, og(, tr)] (see Glob: 0 = None,
             i = canonical index of the reported pattern, 99 = not a pattern of the list / exception raised);
             every other name was reported None by every observer;
     fills : the same observation (eg, g, og) repeated on the names fon (all names of hits and a sample of the
             others) with never-matching filler patterns inserted, grouped by identical outcome: [labels, hits].

   Laws are evaluated on the names of hits and on the names on which some pattern matches under the spec; for
   all other names the observation is "all silent" and GlobGen proved (LawsHoldOnSpec, second conjunct) that
   this satisfies every law for exactly these lists.
   Output: rows with failed laws ("chunk": some filler variant changed an outcome; "coverage": nn # NN) or
   drift (reported pattern differs from the implementation-shaped prediction).                              *)
EXTENDS Glob, Json, IOUtils
Rows == JsonDeserialize(IOEnv.VF_IN)
VARIABLE rowno    \* (not "i": a variable named like a bound identifier of Glob stops TLC caching its tables)
Init == rowno \in 1..Len(Rows)
Next == UNCHANGED rowno

Cand(L) == UNION {MT[L[k].pat] \cup CT[L[k].pat] : k \in DOMAIN L}
HitNames(r) == {IndexOf[r.hits[k].name] : k \in DOMAIN r.hits}
ObsRec(r, h) == [f \in Range(r.obs) |-> h[f]]
Zero(r)      == [f \in Range(r.obs) |-> 0]
Proj(h) == [name |-> h.name, eg |-> h.eg, g |-> h.g, og |-> h.og]
HitSet(hs) == {Proj(hs[k]) : k \in {j \in DOMAIN hs : hs[j].eg # 0 \/ hs[j].g # 0 \/ hs[j].og # 0}}
ChunkOK(r) == LET B == {h \in HitSet(r.hits) : h.name \in Range(r.fon)} IN
              \A k \in DOMAIN r.fills : HitSet(r.fills[k].hits) = B
Judge(r) == LET Q == Cand(r.L) \ HitNames(r)  z == Zero(r) IN        \* Q: names that match but were reported by nobody
    [failed |-> UNION {Failed(r.L, IndexOf[r.hits[k].name], ObsRec(r, r.hits[k])) : k \in DOMAIN r.hits}
                \cup UNION {Failed(r.L, n, z) : n \in Q}
                \cup (IF ChunkOK(r) THEN {} ELSE {"chunk"}) \cup (IF r.nn = NN THEN {} ELSE {"coverage"}),
     drift  |-> \/ \E k \in DOMAIN r.hits : Drift(r.L, IndexOf[r.hits[k].name], ObsRec(r, r.hits[k]))
                \/ \E n \in Q : Drift(r.L, n, z)]
Bad == SelectSeq([k \in 1..Len(Rows) |-> LET j == Judge(Rows[k]) IN
                    [row |-> k, failed |-> SetToSeq(j.failed), drift |-> j.drift]],
                 LAMBDA r : r.failed # <<>> \/ r.drift)
ASSUME JsonSerialize(IOEnv.VF_OUT, [n |-> Len(Rows), bad |-> Bad])
=============================================================================
