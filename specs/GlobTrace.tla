----------------------------- MODULE GlobTrace -----------------------------
(* E3 for C48: results recorded from the real Globster / ExceptionGlobster / _OrderedGlobster / WorkingTree.
   is_ignored are judged by the laws of Glob.  One row per ignore list; names are given by their index in NameSeq
   (the harness gets NameSeq from GlobGen; chk = [n, name] of every row re-checks that the numbering agrees):

     L     : the list (entries [pre, pat]);   nn : number of names the harness evaluated (must be all of them);
     obs   : the observers that were run (subset of eg, g, og, tr);
     hits  : the names for which some observer reported something: [n, eg, g, og(, tr)] (see Glob: 0 = None,
             i = canonical index of the reported pattern, 99 = not a pattern of the list / exception raised);
             every other name was reported None by every observer;
     fills : the same observation (eg, g, og) repeated on the names fon (a sample of the names of hits and of the
             others) with never-matching filler patterns inserted, grouped by identical outcome: [labels, hits].

   Laws are evaluated on the names of hits and on the names on which some pattern matches under the spec; for
   all other names the observation is "all silent" and GlobGen proved (LawsHoldOnSpec, second conjunct) that
   this satisfies every law for exactly these lists.
   Output: rows with failed laws ("chunk": some filler variant changed an outcome; "coverage": nn # NN or the
   numbering of names disagrees) or drift (reported pattern differs from the implementation-shaped prediction). *)
EXTENDS Glob, Json, IOUtils
Rows == JsonDeserialize(IOEnv.VF_IN)
VARIABLE rowno    \* (not "i": a variable named like a bound identifier of Glob stops TLC caching its tables)
Init == rowno \in 1..Len(Rows)
Next == UNCHANGED rowno

Cand(L) == UNION {MT[L[k].pat] \cup CT[L[k].pat] : k \in DOMAIN L}
HitNames(r) == {r.hits[k].n : k \in DOMAIN r.hits}
ObsRec(r, h) == [f \in Range(r.obs) |-> h[f]]
Zero(r)      == [f \in Range(r.obs) |-> 0]
Proj(h) == [n |-> h.n, eg |-> h.eg, g |-> h.g, og |-> h.og]
HitSet(hs) == {Proj(hs[k]) : k \in {j \in DOMAIN hs : hs[j].eg # 0 \/ hs[j].g # 0 \/ hs[j].og # 0}}
ChunkOK(r) == LET B == {h \in HitSet(r.hits) : h.n \in Range(r.fon)} IN
              \A k \in DOMAIN r.fills : HitSet(r.fills[k].hits) = B
Covered(r) == r.nn = NN /\ r.chk.n \in NameIdx /\ NameSeq[r.chk.n] = r.chk.name /\ HitNames(r) \subseteq NameIdx
Judge(r) == LET Q == Cand(r.L) \ HitNames(r)  z == Zero(r) IN        \* Q: names that match but were reported by nobody
    IF ~Covered(r) THEN [failed |-> {"coverage"}, drift |-> FALSE] ELSE
    [failed |-> UNION {Failed(r.L, r.hits[k].n, ObsRec(r, r.hits[k])) : k \in DOMAIN r.hits}
                \cup UNION {Failed(r.L, n, z) : n \in Q}
                \cup (IF ChunkOK(r) THEN {} ELSE {"chunk"}),
     drift  |-> \/ \E k \in DOMAIN r.hits : Drift(r.L, r.hits[k].n, ObsRec(r, r.hits[k]))
                \/ \E n \in Q : Drift(r.L, n, z)]
\* (Rows is passed as an argument so that it is evaluated once: TLC does not cache a definition that reads a file,
\*  every reference to Rows parses the file again)
Verdict(R) ==
    [n |-> Len(R),
     bad |-> SelectSeq([k \in 1..Len(R) |-> LET j == Judge(R[k]) IN
                          [row |-> k, failed |-> SetToSeq(j.failed), drift |-> j.drift]],
                       LAMBDA r : r.failed # <<>> \/ r.drift)]
ASSUME JsonSerialize(IOEnv.VF_OUT, Verdict(Rows))
=============================================================================
