------------------------------- MODULE Shelf -------------------------------
(* C15 - shelving and unshelving restore exactly the shelved changes
   (breezy/shelf.py ShelfCreator.iter_shelvable / shelve_* / write_shelf, Unshelver.from_tree_and_shelf / make_merger,
    breezy/shelf_ui.py Shelver._select_hunks / Unshelver.run).

   The basis tree holds two text files a, b, a symlink l -> t0 and a directory d.  Text files follow the two-region
   model: a header line, region A (one line), eight separator lines, region B (one line), a trailer - far enough apart
   that a unified diff with three lines of context gives one hunk per region, so the regions are independently
   selectable hunks.  A local edit of region A replaces its line AND adds one, so the positions of a later hunk depend
   on whether the first one is shelved.  A pending change set D is a set of ATOMS [f, k]:

       a: modA modB   edit region A / B                 ren    move into d/ under a new name (d/ar)
          del         brz rm (unversioned and gone)     miss   file deleted on disk, still versioned
          unver       brz rm --keep (unversioned, file stays; may be combined with modA: the kept file is edited)
          kind        file replaced by a symlink        exec   chmod +x
       b: modA ren exec
       l: tgt (retarget t0 -> t1)  ren  del  kind (symlink replaced by a text file)
       n: add (new versioned file n)  addx (new versioned executable file n)

   iter_shelvable offers UNITS: one per atom, except that del / miss / unver are all offered as "delete file" [f, del],
   add / addx as "add file" [n, add], and a pure exec change is not offered at all (it can never be shelved; it must
   stay in the tree).  A selection S is a subset of the offered units; text hunks are selected one by one.

   The property: after Shelve(S) the tree is Tree(D \ Shelved(D, S)); after Unshelve it is Tree(D) again. *)
EXTENDS Naturals, Sequences, FiniteSets, TLC, SequencesExt

At(f, k) == [f |-> f, k |-> k]
KindsOf == [a |-> {"modA", "modB", "ren", "del", "miss", "unver", "kind", "exec"},
            b |-> {"modA", "ren", "exec"},
            l |-> {"tgt", "ren", "del", "kind"},
            n |-> {"add", "addx"}]
FileNames == {"a", "b", "l", "n"}
AllAtoms == UNION {{At(f, k) : k \in KindsOf[f]} : f \in FileNames}
Gone == {"del", "miss", "unver"}

KS(D, f) == {x.k : x \in {y \in D : y.f = f}}
Valid(D) == \A f \in FileNames : LET ks == KS(D, f) IN
    /\ (ks \cap Gone # {} => (Cardinality(ks) = 1 \/ ks = {"unver", "modA"}))
    /\ ("kind" \in ks => ks \cap {"modA", "modB", "exec", "tgt"} = {})
    /\ (f = "n" => Cardinality(ks) <= 1)

(* ---- units offered by iter_shelvable, and the atoms a selection takes out of the tree *)
Unit(x) == IF x.k \in Gone THEN At(x.f, "del") ELSE IF x.k = "addx" THEN At(x.f, "add") ELSE x
\* iter_shelvable offers "modify target" for EVERY reported change of something that stays a symlink, also when only
\* its path changed: a unit that shelves nothing
NullUnits(D) == IF KS(D, "l") \cap (Gone \cup {"kind", "tgt"}) = {} /\ KS(D, "l") # {} THEN {At("l", "tgt")} ELSE {}
Units(D) == NullUnits(D) \cup
            UNION {LET ks == KS(D, f) IN
                   IF ks \cap Gone # {} THEN {At(f, "del")}
                   ELSE {Unit(At(f, k)) : k \in ks \ {"exec"}} : f \in FileNames}
\* an edit of an unversioned (kept) file is invisible to iter_changes: only the deletion can be shelved
Shelved(D, S) == {x \in D : Unit(x) \in S /\ (x.k \in Gone \/ KS(D, x.f) \cap Gone = {})}
Kept(D, S) == D \ Shelved(D, S)

(* ---- the abstract tree: one record per file *)
Dash == "-"
Moved(f) == "d/" \o f \o "r"                \* a rename changes the parent directory and the name
Absent(f) == [ver |-> FALSE, disk |-> FALSE, path |-> f, kind |-> Dash, ra |-> Dash, rb |-> Dash, tgt |-> Dash, exec |-> FALSE]
St(f, ks) ==
    IF f = "n" THEN
        IF ks = {} THEN Absent("n")
        ELSE [ver |-> TRUE, disk |-> TRUE, path |-> "n", kind |-> "file", ra |-> "L", rb |-> "0", tgt |-> Dash,
              exec |-> ("addx" \in ks)]
    ELSE LET ver  == ks \cap {"del", "unver"} = {}
             disk == ks \cap {"del", "miss"} = {}
             kind == IF "kind" \in ks THEN (IF f = "l" THEN "file" ELSE "symlink")
                     ELSE (IF f = "l" THEN "symlink" ELSE "file")
         IN IF ~disk THEN [Absent(f) EXCEPT !.ver = ver, !.path = IF ver /\ "ren" \in ks THEN Moved(f) ELSE f]
            ELSE [ver |-> ver, disk |-> TRUE, path |-> IF "ren" \in ks THEN Moved(f) ELSE f, kind |-> kind,
                  ra |-> IF kind # "file" THEN Dash ELSE IF f = "l" \/ "modA" \in ks THEN "L" ELSE "0",
                  rb |-> IF kind # "file" THEN Dash ELSE IF "modB" \in ks THEN "L" ELSE "0",
                  tgt |-> IF kind # "symlink" THEN Dash ELSE IF f # "l" THEN "k1" ELSE IF "tgt" \in ks THEN "t1" ELSE "t0",
                  exec |-> "exec" \in ks]
Tree(D) == [f \in FileNames |-> St(f, KS(D, f))]
Changed(D) == {f \in FileNames : St(f, KS(D, f)) # St(f, {})}
Proj(D) == [files |-> Tree(D), changed |-> SetToSeq(Changed(D)), extra |-> <<>>]

(* ---- the laws of C15 on OBSERVED projections (same text judges the model and the implementation).
   c = [D, S]; o = [pre, mid, post, shelved]: projections before shelving, after shelving, after unshelving
   (post = mid when nothing was shelved), each [files, changed, extra]: `extra` lists anything else found in the tree
   directory or its conflict list (helper files, conflicts) and must be empty. *)
D_(c) == Range(c.D)
S_(c) == Range(c.S)
Same(p, D) == p.files = Tree(D) /\ Range(p.changed) = Changed(D) /\ p.extra = <<>>
\* shelving removes exactly the selected changes and keeps all others
LawShelveExact(c, o) == Same(o.mid, Kept(D_(c), S_(c)))
\* unshelving onto the unchanged result restores content and versioning
LawUnshelveRestores(c, o) == S_(c) # {} => (o.post = o.pre /\ Same(o.post, D_(c)))
\* selecting nothing shelves nothing
LawNothing(c, o) == (S_(c) = {} => ~o.shelved) /\ (S_(c) \subseteq NullUnits(D_(c)) => o.mid = o.pre)
LawNames == <<"shelve-exact", "unshelve-restores", "nothing">>
Law(n, c, o) == CASE n = "shelve-exact" -> LawShelveExact(c, o) [] n = "unshelve-restores" -> LawUnshelveRestores(c, o)
                  [] n = "nothing" -> LawNothing(c, o)
Failed(c, o) == {n \in Range(LawNames) : ~Law(n, c, o)}
\* the fixture built the change set the case asked for (binding check, not a property clause)
PreOk(c, o) == Same(o.pre, D_(c))

SpecOut(D, S) == [pre |-> Proj(D), mid |-> Proj(Kept(D, S)), post |-> IF S = {} THEN Proj(Kept(D, S)) ELSE Proj(D),
                  shelved |-> S # {}]
=============================================================================
