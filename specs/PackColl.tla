------------------------------ MODULE PackColl ------------------------------
(* The pack collection of a breezy pack repository (breezy/bzr/pack_repo.py RepositoryPackCollection) at the
   granularity of the transport operations through which processes can observe each other:

     pack-names          read without the lock (load / reload), read + rewritten under the names lock
     lock/held           the names mutex (LockDir; C26 justifies treating acquire/release as atomic here)
     packs/P.pack        appears by  move upload/RAND.pack -> packs/P.pack  (after its indices were streamed into
     indices/P.*         indices/ under the final name), disappears by  move -> obsolete_packs/
     obsolete_packs/     cleared (except a preserve set) under the names lock by whoever autopacks / packs

   Everything a process does to files that only it knows the name of (upload/RAND.*, writing indices/P.* of a pack
   not yet listed) is local and folded into the next action.

   Writers: Commit = StartWG . [Insert] . Publish(new pack) . [autopack: PackerRead . Publish(combined)] .
            LockNames . ReadDiskNames . PutNames . [ClearObsolete] . UnlockNames . [ObsoletePack/ObsoleteIdx]* . SetTip
   `chosen` (the packs an autopack combines) is a parameter of the action, so the same actions serve the
   model-checking configuration (PackCollMC: plan = everything once more than MaxPacks are listed) and trace
   validation (PackCollTrace: plan as recorded from the real planner).
   Readers: Load . (ReadPack(P) | Reload)* .
   Crash(p) is enabled everywhere: every reachable state is a crash state (C04).                                 *)
EXTENDS Naturals, FiniteSets, Sequences, TLC

CONSTANTS Writers, Readers,   \* process names (strings)
          Packers,            \* processes that run pack() (repack everything they know) instead of committing
          InitPacks,          \* number of packs (one key each) present initially
          MaxCommits,         \* commits per writer
          MaxPacks,           \* autopack when a writer has more than this many packs in memory (MC only)
          MaxCrashes

Procs == Writers \cup Readers \cup Packers
NoPack == 0
InitIds == 1..InitPacks

VARIABLES
  namesFile,   \* set of pack ids listed in pack-names
  packsDir,    \* ids whose packs/P.pack exists
  idxDir,      \* ids whose indices/P.* exist
  obsDir,      \* set of <<id, "pack"|"idx">> present in obsolete_packs/
  content,     \* id -> set of keys (write-once)
  nextId,      \* next pack id (creation order)
  lock,        \* "" or the writer holding the names lock
  pc, mem, atLoad, newp, obs, done, alive,
  committed,   \* history: keys whose commit completed (tip written)
  crashes,
  viol         \* history: names of property clauses violated so far (latched; must stay {})

vars == <<namesFile, packsDir, idxDir, obsDir, content, nextId, lock, pc, mem, atLoad, newp, obs, done, alive,
          committed, crashes, viol>>

Key(p, n) == <<p, n>>
Present == namesFile \cap packsDir \cap idxDir
Visible == UNION {content[i] : i \in Present}
AllIds == 1..(nextId - 1)

Init ==
  /\ namesFile = InitIds /\ packsDir = InitIds /\ idxDir = InitIds /\ obsDir = {}
  /\ content = [i \in InitIds |-> {Key("init", i)}]
  /\ nextId = InitPacks + 1
  /\ lock = ""
  /\ pc = [p \in Procs |-> "idle"]
  /\ mem = [p \in Procs |-> {}] /\ atLoad = [p \in Procs |-> {}]
  /\ newp = [p \in Procs |-> NoPack] /\ obs = [p \in Procs |-> {}]
  /\ done = [p \in Procs |-> 0] /\ alive = [p \in Procs |-> TRUE]
  /\ committed = {Key("init", i) : i \in InitIds}
  /\ crashes = 0 /\ viol = {}

Goto(p, l) == pc' = [pc EXCEPT ![p] = l]
Latch(S) == viol' = viol \cup S

(* ---- load / reload: read pack-names without the lock ---- *)
\* first read in a lock scope (ensure_loaded): memory := disk
Load(p) ==
  /\ alive[p] /\ pc[p] = "idle" /\ done[p] < MaxCommits
  /\ mem' = [mem EXCEPT ![p] = namesFile] /\ atLoad' = [atLoad EXCEPT ![p] = namesFile]
  /\ Goto(p, IF p \in Readers THEN "read" ELSE "write")
  /\ UNCHANGED <<namesFile, packsDir, idxDir, obsDir, content, nextId, lock, newp, obs, done, alive, committed, crashes, viol>>

\* reload_pack_names: three-way merge of memory with the new disk list; _packs_at_load := disk
Merge(p, disk) == (disk \ (atLoad[p] \ mem[p])) \cup (mem[p] \ atLoad[p])
Reload(p, next) ==
  /\ mem' = [mem EXCEPT ![p] = Merge(p, namesFile)] /\ atLoad' = [atLoad EXCEPT ![p] = namesFile]
  /\ Goto(p, next)

(* ---- writer: write group committed -> new pack published under its final name ---- *)
Publish(p, keys) ==
  /\ alive[p] /\ pc[p] = "write"
  /\ packsDir' = packsDir \cup {nextId} /\ idxDir' = idxDir \cup {nextId}
  /\ content' = [i \in DOMAIN content \cup {nextId} |-> IF i = nextId THEN keys ELSE content[i]]
  /\ newp' = [newp EXCEPT ![p] = nextId] /\ nextId' = nextId + 1
  /\ mem' = [mem EXCEPT ![p] = @ \cup {nextId}]
  /\ Goto(p, "lock")
  /\ UNCHANGED <<namesFile, obsDir, lock, atLoad, obs, done, alive, committed, crashes, viol>>

\* autopack: the packer has read every chosen pack (earlier, while they were present) and publishes the combination
PackOk(p, chosen) ==
  /\ alive[p] /\ pc[p] \in {"lock", "write"} /\ obs[p] = {} /\ chosen \subseteq mem[p] /\ Cardinality(chosen) >= 1
  /\ pc[p] = "write" => newp[p] = NoPack          \* pack(): no write group of its own
  /\ packsDir' = packsDir \cup {nextId} /\ idxDir' = idxDir \cup {nextId}
  /\ content' = [i \in DOMAIN content \cup {nextId} |->
                   IF i = nextId THEN UNION {content[j] : j \in chosen} ELSE content[i]]
  /\ nextId' = nextId + 1
  /\ mem' = [mem EXCEPT ![p] = (@ \ chosen) \cup {nextId}]
  /\ obs' = [obs EXCEPT ![p] = chosen \X {"pack", "idx"}]
  /\ Goto(p, "lock")
  /\ UNCHANGED <<namesFile, obsDir, lock, atLoad, newp, done, alive, committed, crashes, viol>>

\* reload_pack_names outside the names lock: at lock time (_refresh_data), after a packer found a pack missing
\* (RetryAutopack), after a reader found a pack missing
Refresh(p) ==
  /\ alive[p] /\ pc[p] \in {"write", "lock", "read"} /\ lock # p /\ obs[p] = {}
  /\ Reload(p, pc[p])
  /\ UNCHANGED <<namesFile, packsDir, idxDir, obsDir, content, nextId, lock, newp, obs, done, alive, committed, crashes, viol>>

(* ---- _save_pack_names ---- *)
LockNames(p) ==
  /\ alive[p] /\ pc[p] = "lock" /\ lock = ""
  /\ lock' = p /\ Goto(p, "put")
  /\ UNCHANGED <<namesFile, packsDir, idxDir, obsDir, content, nextId, mem, atLoad, newp, obs, done, alive, committed, crashes, viol>>

\* read pack-names under the lock, merge, write.  `written` is what the implementation wrote (= the merge, in MC).
PutNames(p, written) ==
  /\ alive[p] /\ pc[p] = "put" /\ lock = p
  /\ namesFile' = written
  /\ atLoad' = [atLoad EXCEPT ![p] = written] /\ mem' = [mem EXCEPT ![p] = written]
  /\ Latch((IF written # Merge(p, namesFile) THEN {"MergeCorrect"} ELSE {})
           \cup (IF written \subseteq (packsDir \cap idxDir) THEN {} ELSE {"ListedPresent"}))
  /\ Goto(p, IF obs[p] # {} THEN "clear" ELSE "unlock")
  /\ UNCHANGED <<packsDir, idxDir, obsDir, content, nextId, lock, newp, obs, done, alive, committed, crashes>>

\* _clear_obsolete_packs(preserve = names being obsoleted): delete everything else found in obsolete_packs/;
\* packs already found there are not moved again
ClearObsolete(p) ==
  /\ alive[p] /\ pc[p] = "clear" /\ lock = p
  /\ obsDir' = {e \in obsDir : e[1] \in {o[1] : o \in obs[p]}}
  /\ LET already == {e[1] : e \in {x \in obsDir : x[2] = "pack"}}
     IN obs' = [obs EXCEPT ![p] = {o \in @ : o[1] \notin already}]
  /\ Goto(p, "unlock")
  /\ UNCHANGED <<namesFile, packsDir, idxDir, content, nextId, lock, mem, atLoad, newp, done, alive, committed, crashes, viol>>

UnlockNames(p) ==
  /\ alive[p] /\ pc[p] = "unlock" /\ lock = p
  /\ lock' = "" /\ Goto(p, IF obs[p] # {} THEN "obsolete" ELSE "tip")
  /\ UNCHANGED <<namesFile, packsDir, idxDir, obsDir, content, nextId, mem, atLoad, newp, obs, done, alive, committed, crashes, viol>>

\* move packs/P.pack -> obsolete_packs/ ; a missing source is ignored.  (pack before its indices, any pack order)
ObsoletePack(p, i) ==
  /\ alive[p] /\ pc[p] = "obsolete" /\ <<i, "pack">> \in obs[p]
  /\ IF i \in packsDir THEN packsDir' = packsDir \ {i} /\ obsDir' = obsDir \cup {<<i, "pack">>}
                       ELSE UNCHANGED <<packsDir, obsDir>>
  /\ Latch(IF i \in namesFile THEN {"ObsoleteOnlyUnlisted"} ELSE {})
  /\ obs' = [obs EXCEPT ![p] = @ \ {<<i, "pack">>}]
  /\ UNCHANGED <<namesFile, idxDir, content, nextId, lock, pc, mem, atLoad, newp, done, alive, committed, crashes>>

\* move indices/P.* -> obsolete_packs/
ObsoleteIdx(p, i) ==
  /\ alive[p] /\ pc[p] = "obsolete" /\ <<i, "idx">> \in obs[p] /\ <<i, "pack">> \notin obs[p]
  /\ IF i \in idxDir THEN idxDir' = idxDir \ {i} /\ obsDir' = obsDir \cup {<<i, "idx">>}
                     ELSE UNCHANGED <<idxDir, obsDir>>
  /\ Latch(IF i \in namesFile THEN {"ObsoleteOnlyUnlisted"} ELSE {})
  /\ obs' = [obs EXCEPT ![p] = @ \ {<<i, "idx">>}]
  /\ Goto(p, IF obs[p] \ {<<i, "idx">>} # {} THEN "obsolete" ELSE "tip")
  /\ UNCHANGED <<namesFile, packsDir, content, nextId, lock, mem, atLoad, newp, done, alive, committed, crashes>>

\* pack() is finished
EndPack(p) ==
  /\ alive[p] /\ pc[p] = "tip" /\ newp[p] = NoPack
  /\ done' = [done EXCEPT ![p] = @ + 1] /\ Goto(p, "idle")
  /\ UNCHANGED <<namesFile, packsDir, idxDir, obsDir, content, nextId, lock, mem, atLoad, newp, obs, alive, committed, crashes, viol>>

\* the commit completes (branch tip written): from now on the data must stay visible
SetTip(p) ==
  /\ alive[p] /\ pc[p] = "tip" /\ newp[p] # NoPack
  /\ committed' = committed \cup content[newp[p]]
  /\ done' = [done EXCEPT ![p] = @ + 1]
  /\ newp' = [newp EXCEPT ![p] = NoPack]
  /\ Goto(p, "idle")
  /\ UNCHANGED <<namesFile, packsDir, idxDir, obsDir, content, nextId, lock, mem, atLoad, obs, alive, crashes, viol>>

(* ---- reader ---- *)
\* open/read pack i from its memory list: fails iff the file was moved away -> reload_pack_names and retry
ReadPack(p, i) ==
  /\ alive[p] /\ pc[p] = "read" /\ i \in mem[p]
  /\ IF i \in packsDir /\ i \in idxDir
     THEN UNCHANGED <<mem, atLoad>> /\ Goto(p, "read")
     ELSE Reload(p, "read")
  /\ Latch(IF i \in namesFile /\ ~(i \in packsDir /\ i \in idxDir) THEN {"ListedPresent"} ELSE {})
  /\ UNCHANGED <<namesFile, packsDir, idxDir, obsDir, content, nextId, lock, newp, obs, done, alive, committed, crashes>>

ReaderDone(p) ==
  /\ alive[p] /\ pc[p] = "read" /\ p \in Readers
  /\ done' = [done EXCEPT ![p] = @ + 1] /\ Goto(p, "idle")
  /\ UNCHANGED <<namesFile, packsDir, idxDir, obsDir, content, nextId, lock, mem, atLoad, newp, obs, alive, committed, crashes, viol>>

Crash(p) ==
  /\ alive[p] /\ crashes < MaxCrashes /\ pc[p] # "idle"
  /\ alive' = [alive EXCEPT ![p] = FALSE] /\ crashes' = crashes + 1
  /\ lock' = IF lock = p THEN "stale" ELSE lock      \* a dead holder's lock needs an explicit break (C26/C27)
  /\ UNCHANGED <<namesFile, packsDir, idxDir, obsDir, content, nextId, pc, mem, atLoad, newp, obs, done, committed, viol>>

(* ------------------------------- properties ------------------------------- *)
TypeOK == /\ namesFile \subseteq AllIds /\ packsDir \subseteq AllIds /\ idxDir \subseteq AllIds
          /\ lock \in Procs \cup {"", "stale"}
\* C04 (I1): every listed pack is completely present -> a fresh open can read everything that is listed
ListedPresent == namesFile \subseteq (packsDir \cap idxDir)
\* C04/C05: data of a completed commit stays visible through pack-names, whatever others do, at every crash point
NoLoss == committed \subseteq Visible
\* C05: clauses latched at the actions (merge written = three-way merge; obsoleting only what is no longer listed)
NoLatched == viol = {}
\* C04 (I2): what a fresh open sees is the committed data plus possibly complete in-flight packs - never a part of one
VisibleWhole == \A i \in namesFile : content[i] \subseteq Visible
=============================================================================
