--------------------------- MODULE HistoryC22Trace ---------------------------
(* E3 for C22: observations of real branches judged by the laws of History.  Rows
     [c |-> [par, t], kind, ob |-> [getrev, getrev2, map, back, res]]
   (res entries carry the specifier as a tuple <<k, a, b, o>>).  Written back: failed laws and, for the specifier law,
   the offending resolutions as <<index, resolution path>>. *)
EXTENDS History, TLC, Json, IOUtils, SequencesExt
VARIABLE i
Init == i = 0
Next == UNCHANGED i
ObOf(row) == [getrev |-> row.ob.getrev, map |-> row.ob.map, back |-> row.ob.back,
              res |-> [k \in DOMAIN row.ob.res |-> [sp |-> SpecO(row.ob.res[k].sp[1], row.ob.res[k].sp[2], row.ob.res[k].sp[3], row.ob.res[k].sp[4]),
                                                     ih |-> row.ob.res[k].ih, ar |-> row.ob.res[k].ar]]]
Judge(row) ==
    LET P == row.c.par
        ob == ObOf(row)
        f == C22Failed(P, row.c.t, ob)
              \cup (IF LawGetRev(P, row.c.t, [ob EXCEPT !.getrev = row.ob.getrev2]) THEN {} ELSE {"getrev"})
        paths(k) == (IF ob.res[k].ih \notin Meaning(P, row.c.t, ob.res[k].sp) THEN {"in_history"} ELSE {})
                    \cup (IF ob.res[k].ar \notin Meaning(P, row.c.t, ob.res[k].sp) THEN {"as_revision_id"} ELSE {})
    IN [failed |-> SetToSeq(f), badspecs |-> SetToSeq(UNION {{<<k, p>> : p \in paths(k)} : k \in BadSpecs(P, row.c.t, ob)})]
Bad(R) == SelectSeq([k \in 1..Len(R) |-> LET j == Judge(R[k]) IN [row |-> k, failed |-> j.failed, badspecs |-> j.badspecs]],
                    LAMBDA r : r.failed # <<>>)
ASSUME LET R == JsonDeserialize(IOEnv.VF_IN) IN JsonSerialize(IOEnv.VF_OUT, [n |-> Len(R), bad |-> Bad(R)])
=============================================================================
