---------------------------- MODULE UploadTrace ----------------------------
(* C43 judge.  One row per finished cmd_upload call of a replayed behaviour, recorded from the REAL code:
       tree    = projection of the uploaded revision's tree (branch.repository.revision_tree), marker / ignored excluded
       remote  = projection of the remote directory after the call (marker file excluded)
       before  = projection of the remote directory before the call
       outcome = "ok" | "failed" (the call raised) | "refused" (DivergedUploadedTree without --overwrite)
   all as sequences of [path, kind, val, exec].  The property: after an upload the remote directory is exactly the tree. *)
EXTENDS Naturals, Sequences, FiniteSets, TLC, Json, IOUtils, SequencesExt
Rng(s) == {s[k] : k \in DOMAIN s}
Rows == JsonDeserialize(IOEnv.VF_IN)
VARIABLE i
Init == i \in 1..Len(Rows)
Next == UNCHANGED i
Failed(r) == (IF r.outcome = "failed" THEN {"completes"} ELSE {})
             \cup (IF r.outcome = "ok" /\ Rng(r.remote) # Rng(r.tree) THEN {"equal"} ELSE {})
             \cup (IF r.outcome = "ok" /\ Cardinality(Rng(r.remote)) # Len(r.remote) THEN {"equal"} ELSE {})
\* conformance only: a refused upload must leave the remote directory alone
Drift(r) == r.outcome = "refused" /\ Rng(r.remote) # Rng(r.before)
Bad == SelectSeq([k \in 1..Len(Rows) |-> [row |-> k, failed |-> SetToSeq(Failed(Rows[k])), drift |-> Drift(Rows[k])]],
                 LAMBDA r : r.failed # <<>> \/ r.drift)
ASSUME JsonSerialize(IOEnv.VF_OUT, [n |-> Len(Rows), bad |-> Bad])
=============================================================================
