---------------------------- MODULE TextConflict ----------------------------
(* C19 - text conflicts are reported exactly when conflict markers are written (breezy/merge.py Merge3Merger.text_merge,
   WeaveMerger.text_merge, _dump_conflicts, _conflict_file; breezy/bzr/conflicts.py TextConflict._resolve;
   breezy/conflicts.py resolve).

   One versioned FILE with texts B (BASE), T (THIS), O (OTHER) in a tree merge, as a state machine:

       unmerged --TextMerge(h)--> merged --Resolve(a)--> resolved          (Resolve only when a conflict is recorded)

   st = [phase, rec, file, helpers]:  rec = a TextConflict for the file is in WorkingTree.conflicts(); file = what the
   file holds ("this" = T, "other" = O, "merged" = the cleanly merged text, "marked" = the merged text with the
   conflicting regions between conflict markers); helpers = state of file.BASE / file.THIS / file.OTHER
   ("absent" | "equal" = holds exactly B / T / O).

   h = HasConflictRegions(B, T, O, options) is NOT defined here: the line-level three-way merge depends on the
   patience-diff matching.  For merge type merge3 (scope "full") h and the merged / marked text come from the
   external merge3 package run independently by the harness on the same texts and options (trusted oracle); for weave
   and lca (scope "bookkeeping") the plan-merge output defines h, and only record <=> helpers <=> markers and the
   resolve actions are specified.

   An OBSERVATION of the real tree is ob = [rec, file, regions, helpers, others]: file = the set (as a sequence) of
   labels among "oracle" (the oracle's output for these texts and options), "this", "other", "base", "absent" whose bytes
   the file equals; regions = the file contains the start marker, later the separator, later the end marker (as byte strings);
   helpers[s] in {"absent", "equal", "differs"}; others = number of conflicts of other types recorded for the path. *)
EXTENDS Naturals, Sequences, FiniteSets, TLC

Actions  == {"take_this", "take_other", "done"}
Takes    == {"take_this", "take_other"}
Suffixes == {"BASE", "THIS", "OTHER"}
Range(s) == {s[i] : i \in DOMAIN s}
None3 == [s \in Suffixes |-> "absent"]
All3  == [s \in Suffixes |-> "equal"]

S0 == [phase |-> "unmerged", rec |-> FALSE, file |-> "this", helpers |-> None3]
StepMerge(s, h) == [phase |-> "merged", rec |-> h, file |-> IF h THEN "marked" ELSE "merged",
                    helpers |-> IF h THEN All3 ELSE None3]
StepResolve(s, a) == [phase |-> "resolved", rec |-> FALSE,
                      file |-> CASE a = "take_this" -> "this" [] a = "take_other" -> "other" [] OTHER -> s.file,
                      helpers |-> None3]
CanMerge(s)   == s.phase = "unmerged"
CanResolve(s) == s.phase = "merged" /\ s.rec

(* ---- the state machine (model-checked in TextConflictGen for every case) *)
VARIABLE st
TextMerge(h) == CanMerge(st) /\ st' = StepMerge(st, h)
Resolve(a)   == CanResolve(st) /\ st' = StepResolve(st, a)

\* the clauses of C19 as invariants of the machine
RecordIffHelpers   == (st.rec <=> st.helpers = All3) /\ (~st.rec <=> st.helpers = None3)
RecordIffMarked    == st.phase = "merged" => (st.rec <=> st.file = "marked")
CleanIsMerged      == (st.phase = "merged" /\ ~st.rec) => st.file = "merged"
ResolvedIsClean    == st.phase = "resolved" => ~st.rec /\ st.helpers = None3
TypeOk == /\ st.phase \in {"unmerged", "merged", "resolved"} /\ st.rec \in BOOLEAN
          /\ st.file \in {"this", "other", "merged", "marked"} /\ st.helpers \in {None3, All3}

(* ---- observations against states.  scope "full": the oracle's text is the reference; "bookkeeping": markers only *)
F(ob) == Range(ob.file)
FileOk(scope, f, ob) ==
    CASE f = "marked" -> IF scope = "full" THEN "oracle" \in F(ob) ELSE ob.regions
      [] f = "merged" -> IF scope = "full" THEN "oracle" \in F(ob) ELSE ~ob.regions /\ "absent" \notin F(ob)
      [] f = "this"   -> "this" \in F(ob)
      [] f = "other"  -> "other" \in F(ob)
HelpersOk(scope, h, ob) ==
    IF h = All3
    THEN /\ ob.helpers.THIS = "equal" /\ ob.helpers.OTHER = "equal"
         \* weave / lca write the base reconstructed from the merge plan into .BASE
         /\ (IF scope = "full" THEN ob.helpers.BASE = "equal" ELSE ob.helpers.BASE # "absent")
    ELSE \A s \in Suffixes : ob.helpers[s] = "absent"
Match(scope, s, ob) == /\ ob.rec = s.rec /\ ob.others = 0
                       /\ FileOk(scope, s.file, ob) /\ HelpersOk(scope, s.helpers, ob)
                       /\ (scope = "full" /\ s.file = "marked" => ob.regions)

(* ---- the laws of C19 on a recorded trace.
   c  = [b, t, o, mt, scope, rp, sb, cp, act];  hc = the oracle's HasConflictRegions (scope "full");
   tr = <<observation after the merge>> or <<after the merge, after resolve(c.act)>> *)
H(c, hc, tr) == IF c.scope = "full" THEN hc ELSE tr[1].rec
LawShape(c, hc, tr)    == Len(tr) \in {1, 2} /\ (Len(tr) = 2 => tr[1].rec)
LawIff(c, hc, tr)      == tr[1].rec = H(c, hc, tr)
LawMarked(c, hc, tr)   == H(c, hc, tr) => FileOk(c.scope, "marked", tr[1])
LawHelpers(c, hc, tr)  == H(c, hc, tr) => HelpersOk(c.scope, All3, tr[1])
LawClean(c, hc, tr)    == ~H(c, hc, tr) => FileOk(c.scope, "merged", tr[1])
LawTake(c, hc, tr)     == (Len(tr) = 2 /\ c.act \in Takes) =>
                              FileOk(c.scope, StepResolve(StepMerge(S0, TRUE), c.act).file, tr[2])
LawLeftover(c, hc, tr) == (Len(tr) = 2 /\ c.act \in Takes) => ~tr[2].rec /\ HelpersOk(c.scope, None3, tr[2])

LawNames == <<"shape", "iff", "marked", "helpers", "clean", "take", "leftover">>
Law(n, c, hc, tr) == CASE n = "shape" -> LawShape(c, hc, tr) [] n = "iff" -> LawIff(c, hc, tr)
                       [] n = "marked" -> LawMarked(c, hc, tr) [] n = "helpers" -> LawHelpers(c, hc, tr)
                       [] n = "clean" -> LawClean(c, hc, tr) [] n = "take" -> LawTake(c, hc, tr)
                       [] n = "leftover" -> LawLeftover(c, hc, tr)
Failed(c, hc, tr) == IF ~LawShape(c, hc, tr) THEN {"shape"} ELSE {n \in Range(LawNames) : ~Law(n, c, hc, tr)}

\* conformance (drift): the whole trace is a behaviour of the machine, every observation matches its state
\* (this adds: no helpers without a record, nothing else recorded for the path, resolve --done keeps the file)
Conforms(c, hc, tr) ==
    LET s1 == StepMerge(S0, H(c, hc, tr)) IN
    /\ LawShape(c, hc, tr) /\ Match(c.scope, s1, tr[1])
    /\ (Len(tr) = 2 => /\ CanResolve(s1) /\ Match(c.scope, StepResolve(s1, c.act), tr[2])
                       /\ (c.act = "done" => F(tr[2]) = F(tr[1])))
    /\ (Len(tr) = 1 => ~CanResolve(s1))
=============================================================================
