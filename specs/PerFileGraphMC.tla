--------------------------- MODULE PerFileGraphMC ---------------------------
(* Histories over NB branches sharing one repository, built by the actions C02 quantifies over: modify, move (rename
   into / out of a directory), chmod, directory rename, remove / re-add, commit, merge of any revision the branch does
   not have (both ways, so criss-cross merges are reachable; the merged tree is chosen per file: THIS or OTHER, so
   revert-after-merge and take-other are both covered; up to MaxMerge merges may be pending at once - `merge --force` -
   so commits with three parents are reachable), pull, and switch (the branch is set to any revision, as pull --overwrite /
   uncommit do, so any DAG shape can be grown from few branches).  Identical parallel changes and cherry-picks arise from the
   same edit on both branches.  Every commit applies the RULE of PerFileGraph.tla; the invariants are C02 on the model. *)
EXTENDS PerFileGraph
CONSTANTS Files,        \* file ids (strings), e.g. {"f", "g"}; the directory id is "d"
          MaxRev, MaxEdits, WithRemove,
          NB,           \* number of branches
          MaxMerge,     \* pending merge parents per commit (1: ordinary merges, 2: three-parent merges too)
          WithSwitch,   \* BOOLEAN: Switch enabled
          EditKinds     \* subset of {"modify", "move", "chmod", "renamedir"} (remove / re-add: WithRemove)
VARIABLES P, T, fv, fp,          \* the repository: graph, trees, per-file data (sequences over revisions)
          tip, wt, pm, ne,       \* per branch: tip revision, working tree, pending merge parents (a sequence), edits since commit
          step                   \* what the last action was (for replay): [a, b, r]
vars == <<P, T, fv, fp, tip, wt, pm, ne, step>>
Branches == 1..NB
DirId == "d"
FileEntry(par, ex, c, f) == [parent |-> par, name |-> f, kind |-> "file", exec |-> ex, content |-> c]
DirEntry(n) == [parent |-> "R", name |-> n, kind |-> "directory", exec |-> FALSE, content |-> "-"]
Tree0 == [i \in Files \cup {DirId} |-> IF i = DirId THEN DirEntry("d") ELSE FileEntry("R", FALSE, "x", i)]
Flip(c) == IF c = "x" THEN "y" ELSE "x"

Init == /\ P = <<<<>>>> /\ T = <<Tree0>>
        /\ fv = <<[i \in DOMAIN Tree0 |-> 1]>> /\ fp = <<[i \in DOMAIN Tree0 |-> {}]>>
        /\ tip = [b \in Branches |-> 1] /\ wt = [b \in Branches |-> Tree0] /\ pm = [b \in Branches |-> <<>>]
        /\ ne = [b \in Branches |-> 0] /\ step = [a |-> "init", b |-> 0, r |-> 0]
\* a limitation of the working tree, not of the rule: an id that the basis lacks and the pending merge parent has must sit
\* at the merge parent's path (re-adding it elsewhere makes the dirstate unusable: commit raises DirstateCorrupt)
PathIn(t, f) == IF t[f].parent = "R" THEN <<t[f].name>> ELSE <<t[t[f].parent].name, t[f].name>>
WtOk(b, t, basisRev, mergeRevs) ==
    \A mr \in Rng(mergeRevs) : \A f \in DOMAIN t \ {DirId} :
        (f \notin DOMAIN T[basisRev] /\ f \in DOMAIN T[mr]) => PathIn(t, f) = PathIn(T[mr], f)
EditTo(b, t, name) == /\ name \in EditKinds \cup {"remove", "readd"} /\ ne[b] < MaxEdits /\ t # wt[b] /\ WtOk(b, t, tip[b], pm[b])
                      /\ wt' = [wt EXCEPT ![b] = t] /\ ne' = [ne EXCEPT ![b] = @ + 1]
                      /\ step' = [a |-> name, b |-> b, r |-> 0]
                      /\ UNCHANGED <<P, T, fv, fp, tip, pm>>
Modify(b, f) == f \in DOMAIN wt[b] /\ EditTo(b, [wt[b] EXCEPT ![f].content = Flip(@)], "modify")
Move(b, f) == f \in DOMAIN wt[b] /\ EditTo(b, [wt[b] EXCEPT ![f].parent = IF @ = "R" THEN DirId ELSE "R"], "move")
Chmod(b, f) == f \in DOMAIN wt[b] /\ EditTo(b, [wt[b] EXCEPT ![f].exec = ~@], "chmod")
RenameDir(b) == EditTo(b, [wt[b] EXCEPT ![DirId].name = IF @ = "d" THEN "e" ELSE "d"], "renamedir")
Remove(b, f) == WithRemove /\ f \in DOMAIN wt[b] /\ EditTo(b, [i \in DOMAIN wt[b] \ {f} |-> wt[b][i]], "remove")
\* (no re-add while a merge is pending: with two parent trees the working tree reports a removed and re-added id twice and
\*  commit then drops the file - a working-tree defect outside C02)
ReAdd(b, f) == WithRemove /\ f \notin DOMAIN wt[b] /\ pm[b] = <<>>
               /\ EditTo(b, [i \in DOMAIN wt[b] \cup {f} |-> IF i = f THEN FileEntry("R", FALSE, "x", f) ELSE wt[b][i]], "readd")
Commit(b) ==
    LET r == Len(P) + 1
        ps == <<tip[b]>> \o pm[b]
    IN /\ r <= MaxRev /\ (wt[b] # T[tip[b]] \/ pm[b] # <<>>)
       /\ \E s \in {StepFor(T, fv, fp, ps, wt[b], r)} :
            /\ P' = Append(P, ps) /\ T' = Append(T, wt[b]) /\ fv' = Append(fv, s.fv) /\ fp' = Append(fp, s.fp)
       /\ tip' = [tip EXCEPT ![b] = r] /\ pm' = [pm EXCEPT ![b] = <<>>] /\ ne' = [ne EXCEPT ![b] = 0]
       /\ step' = [a |-> "commit", b |-> b, r |-> r] /\ UNCHANGED wt
\* merge revision r (into a clean tree; a further merge - `merge --force` - into the tree as it is); per id the result is
\* THIS's or OTHER's entry (or absence).  WorkingTree.set_parent_ids keeps only heads, so the pending parents are
\* mutually unrelated and none is in the tip's ancestry.
Merge(b, r, takeOther) ==
    /\ Len(pm[b]) < MaxMerge /\ (pm[b] = <<>> => wt[b] = T[tip[b]]) /\ Len(P) < MaxRev
    /\ r \in DOMAIN P /\ r \notin Ancestry(P, tip[b])
    /\ \A q \in Rng(pm[b]) : r \notin Ancestry(P, q) /\ q \notin Ancestry(P, r)
    /\ wt' = [wt EXCEPT ![b] = [i \in {j \in DOMAIN wt[b] \cup DOMAIN T[r] : IF j \in takeOther THEN j \in DOMAIN T[r] ELSE j \in DOMAIN wt[b]} |->
                                   IF i \in takeOther THEN T[r][i] ELSE wt[b][i]]]
    /\ WtOk(b, wt'[b], tip[b], Append(pm[b], r))
    /\ pm' = [pm EXCEPT ![b] = Append(@, r)] /\ step' = [a |-> "merge", b |-> b, r |-> r]
    /\ UNCHANGED <<P, T, fv, fp, tip, ne>>
MoveTip(b, r, name) == /\ pm[b] = <<>> /\ wt[b] = T[tip[b]] /\ tip[b] # r
                       /\ tip' = [tip EXCEPT ![b] = r] /\ wt' = [wt EXCEPT ![b] = T[r]]
                       /\ step' = [a |-> name, b |-> b, r |-> r] /\ UNCHANGED <<P, T, fv, fp, pm, ne>>
Pull(b, o) == tip[b] \in Ancestry(P, tip[o]) /\ MoveTip(b, tip[o], "pull")
Switch(b, r) == WithSwitch /\ MoveTip(b, r, "switch")
Next == \E b \in Branches :
            \/ Commit(b) \/ RenameDir(b)
            \/ \E o \in Branches \ {b} : Pull(b, o)
            \/ \E r \in DOMAIN P : Switch(b, r)
            \/ \E f \in Files : Modify(b, f) \/ Move(b, f) \/ Chmod(b, f) \/ Remove(b, f) \/ ReAdd(b, f)
            \/ \E r \in DOMAIN P, S \in SUBSET (Files \cup {DirId}) : Merge(b, r, S)
Spec == Init /\ [][Next]_vars

(* ---- C02 on the model *)
AllRevs == DOMAIN P
\* the last-changed revision is an ancestor (or the revision itself) that holds exactly this entry ...
VersionInAncestry == \A r \in AllRevs : \A f \in DOMAIN T[r] :
                        fv[r][f] \in Ancestry(P, r) /\ f \in DOMAIN T[fv[r][f]] /\ T[fv[r][f]][f] = T[r][f] /\ fv[fv[r][f]][f] = fv[r][f]
\* ... and it is the most recent change: a version with a single per-file parent differs from that parent
ActuallyChanged == \A r \in AllRevs : \A f \in DOMAIN fp[r] : \A h \in fp[r][f] : Cardinality(fp[r][f]) = 1 => T[h][f] # T[r][f]
\* per-file parents are versions found in the revision's parents, heads among them, and name existing keys
ParentsAreHeads == \A r \in AllRevs : \A f \in DOMAIN fp[r] :
                      /\ fp[r][f] \subseteq Candidates(T, fv, P[r], f)
                      /\ fp[r][f] = FileHeads(fp, f, Candidates(T, fv, P[r], f))
                      /\ \A h \in fp[r][f] : h < r /\ f \in DOMAIN fp[h]
KeysMatch == \A r \in AllRevs : DOMAIN fp[r] = {f \in DOMAIN T[r] : fv[r][f] = r}
\* the rule applied to the whole history from scratch gives the same data (the Trace module relies on it)
RuleAgrees == Let(Rule(P, T), LAMBDA R : R.fv = fv /\ R.fp = fp)
\* anti-vacuity
IsMergeRev(r) == Len(P[r]) >= 2
WitnessTwoHeads == ~(\E r \in AllRevs : \E f \in DOMAIN fp[r] : Cardinality(fp[r][f]) = 2)
WitnessTookOther == ~(\E r \in AllRevs : IsMergeRev(r) /\ \E f \in DOMAIN T[r] : fv[r][f] # r /\ f \in DOMAIN T[P[r][1]] /\ fv[r][f] # fv[P[r][1]][f])
WitnessRevertAfterMerge == ~(\E r \in AllRevs : IsMergeRev(r) /\ \E f \in DOMAIN fp[r] : f \in DOMAIN T[P[r][1]] /\ T[r][f] = T[P[r][1]][f])
WitnessCrissCross == ~(\E r, s \in AllRevs : r # s /\ IsMergeRev(r) /\ IsMergeRev(s) /\ r \notin Ancestry(P, s) /\ s \notin Ancestry(P, r)
                          /\ Cardinality(LCAs(P, r, s)) = 2)
\* three parents: both merged parents carry the same version of f, newer than the basis's, and it is carried over
WitnessOctopusSameVersion == ~(\E r \in AllRevs : Len(P[r]) = 3 /\ \E f \in DOMAIN T[r] :
                                  /\ \A k \in 1..3 : f \in DOMAIN T[P[r][k]]
                                  /\ fv[P[r][2]][f] = fv[P[r][3]][f] /\ fv[P[r][1]][f] # fv[P[r][2]][f] /\ fv[r][f] = fv[P[r][2]][f])
WitnessOctopusThreeHeads == ~(\E r \in AllRevs : \E f \in DOMAIN fp[r] : Cardinality(fp[r][f]) = 3)
WitnessIdenticalParallel == ~(\E r \in AllRevs : IsMergeRev(r) /\ \E f \in DOMAIN fp[r] : Cardinality(fp[r][f]) = 2
                                 /\ \A h \in fp[r][f] : T[h][f] = T[r][f])
=============================================================================
