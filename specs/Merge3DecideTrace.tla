------------------------ MODULE Merge3DecideTrace ------------------------
(* E3 for C18: results recorded from the real Merge3Merger._three_way / _lca_multi_way are judged by the laws
   of Merge3Decide; one state per recorded row.  The verdict table (rows with failed laws, and rows where the
   implementation differs from the transcription = drift) is written back as JSON. *)
EXTENDS Merge3Decide, TLC, Json, IOUtils, SequencesExt
Rows == JsonDeserialize(IOEnv.VF_IN)
VARIABLE i
Init == i \in 1..Len(Rows)
Next == UNCHANGED i
Bad == SelectSeq([k \in 1..Len(Rows) |->
                    [row |-> k, failed |-> SetToSeq(Failed(Rows[k].c, Rows[k].impl)),
                     drift |-> Rows[k].impl # SpecOut(Rows[k].c)]],
                 LAMBDA r : r.failed # <<>> \/ r.drift)
ASSUME JsonSerialize(IOEnv.VF_OUT, [n |-> Len(Rows), bad |-> Bad])
=============================================================================
