------------------------------ MODULE LockDir ------------------------------
(* breezy.lockdir.LockDir as a transition system: ONE ACTION PER TRANSPORT OPERATION (mkdir, put, rename, get,
   delete, rmdir) together with the local code that follows it up to the next operation.  Shared state is the
   lock directory on the transport; everything else is per-process.

   Programs (what the conformance harness runs on real LockDir objects):
     locker :  repeat <=MaxAttempts times:  attempt_lock(); if acquired: unlock()    (stops when "stuck")
     breaker:  repeat <=MaxAttempts times:  info := peek(); if info # None: force_break(info)
   With Steal = TRUE the global option locks.steal_dead is on, so a contending locker that sees a holder which
   is_lock_holder_known_dead() calls force_break(holder) and retries the rename.

   Deliberate deviations of the code from an ideal design are modelled as the code has them:
     * force_break renames `held` away BEFORE re-reading the holder info (FbRename / FbReadBack);
     * _attempt_lock lets an error of the confirming peek propagate with the lock held (Fail at "peek_after");
     * unlock swallows every error except LockNotHeld/LockBroken (only_raises).
   Crash(p) stops a process for good at any point; Fail(p) makes its pending operation raise TransportError
   (operation not performed).                                                                              *)
EXTENDS Naturals, FiniteSets, Sequences, TLC

CONSTANTS Lockers, Breakers,      \* sets of process names (strings)
          MaxAttempts,            \* attempts per process
          Steal,                  \* BOOLEAN: locks.steal_dead
          DeadStart,              \* BOOLEAN: the lock starts out held by a dead process
          MaxFaults, MaxCrashes

Procs == Lockers \cup Breakers
None == <<"none", 0>>
DeadInfo == <<"dead", 0>>
IsDead(info) == info[1] = "dead"      \* same host, same user, pid not running (see LockInfo.tla for the Rust rule)

VARIABLES held,      \* None or <<owner, attempt>> : the nonce in <lock>/held/info
          tmpdirs,   \* set of [kind : {"pending","releasing","broken"}, owner, info] ; info = None: no info file
          pc, att, lockHeld, examined, result, pend, ret, alive,
          faults, crashes,
          brokenLive,  \* history: some break/removal hit a lock whose holder was alive and believed it held it
          wrongBreak,  \* history: a force_break moved away a lock other than the one it examined
          heldAfterFail, \* history: an attempt_lock failed while <lock>/held/info carried the failing nonce
          step         \* <<process, transport op>> of the last action (observation only; hidden by VIEW in MC)

vars == <<held, tmpdirs, pc, att, lockHeld, examined, result, pend, ret, alive, faults, crashes,
          brokenLive, wrongBreak, heldAfterFail, step>>
View == <<held, tmpdirs, pc, att, lockHeld, examined, result, pend, ret, alive, faults, crashes,
          brokenLive, wrongBreak, heldAfterFail>>

Mine(p) == <<p, att[p]>>
\* n = the owner's attempt number when the directory was created (keeps left-over junk of earlier attempts distinct)
Dir(k, p, i) == [kind |-> k, owner |-> p, n |-> att[p], info |-> i]

Init == /\ held = IF DeadStart THEN DeadInfo ELSE None
        /\ tmpdirs = {}
        /\ pc = [p \in Procs |-> IF p \in Lockers THEN "idle" ELSE "b_idle"]
        /\ att = [p \in Procs |-> 0]
        /\ lockHeld = [p \in Procs |-> FALSE]
        /\ examined = [p \in Procs |-> None]
        /\ result = [p \in Procs |-> "none"]
        /\ pend = [p \in Procs |-> "none"]
        /\ ret = [p \in Procs |-> "none"]
        /\ alive = [p \in Procs |-> TRUE]
        /\ faults = 0 /\ crashes = 0
        /\ brokenLive = FALSE /\ wrongBreak = FALSE /\ heldAfterFail = FALSE
        /\ step = <<"-", "init">>

Goto(p, l) == pc' = [pc EXCEPT ![p] = l]
Res(p, r) == result' = [result EXCEPT ![p] = r]
Op(p, o) == step' = <<p, o>>
Live(p) == alive[p]
\* an attempt ends in failure: remember whether the failing nonce is what held/info says (C27 clause)
AttemptFails(p, h) == heldAfterFail' = (heldAfterFail \/ h = Mine(p))
HolderLive(h) == \E q \in Lockers : alive[q] /\ lockHeld[q] /\ h = Mine(q)

(* ------------------------------ attempt_lock ------------------------------ *)
Mkdir(p) ==
    /\ Live(p) /\ pc[p] = "idle" /\ att[p] < MaxAttempts /\ ~lockHeld[p]
    /\ att' = [att EXCEPT ![p] = @ + 1]
    /\ tmpdirs' = tmpdirs \cup {[kind |-> "pending", owner |-> p, n |-> att[p] + 1, info |-> None]}
    /\ Goto(p, "put") /\ Op(p, "mkdir")
    /\ UNCHANGED <<held, lockHeld, examined, result, pend, ret, alive, faults, crashes, brokenLive, wrongBreak, heldAfterFail>>

PutInfo(p) ==
    /\ Live(p) /\ pc[p] = "put"
    /\ tmpdirs' = (tmpdirs \ {Dir("pending", p, None)}) \cup {Dir("pending", p, Mine(p))}
    /\ Goto(p, "rename_in") /\ Op(p, "put")
    /\ UNCHANGED <<held, att, lockHeld, examined, result, pend, ret, alive, faults, crashes, brokenLive, wrongBreak, heldAfterFail>>

RenameIn(p) ==
    /\ Live(p) /\ pc[p] = "rename_in"
    /\ IF held = None
       THEN /\ held' = Mine(p)
            /\ tmpdirs' = tmpdirs \ {Dir("pending", p, Mine(p))}
            /\ Goto(p, "peek_after")
       ELSE /\ UNCHANGED <<held, tmpdirs>> /\ Goto(p, "contend_peek")
    /\ Op(p, "rename")
    /\ UNCHANGED <<att, lockHeld, examined, result, pend, ret, alive, faults, crashes, brokenLive, wrongBreak, heldAfterFail>>

\* peek() after a failed rename, then _handle_lock_contention(other_holder)
ContendPeek(p) ==
    /\ Live(p) /\ pc[p] = "contend_peek"
    /\ IF held # None /\ Steal /\ IsDead(held)
       THEN /\ examined' = [examined EXCEPT ![p] = held]
            /\ ret' = [ret EXCEPT ![p] = "steal"]
            /\ Goto(p, "fb_peek") /\ UNCHANGED pend
       ELSE /\ pend' = [pend EXCEPT ![p] = "contention"]
            /\ Goto(p, "rm_pending_info") /\ UNCHANGED <<examined, ret>>
    /\ Op(p, "get")
    /\ UNCHANGED <<held, tmpdirs, att, lockHeld, result, alive, faults, crashes, brokenLive, wrongBreak, heldAfterFail>>

RmPendingInfo(p) ==
    /\ Live(p) /\ pc[p] = "rm_pending_info"
    /\ tmpdirs' = (tmpdirs \ {Dir("pending", p, Mine(p))}) \cup {Dir("pending", p, None)}
    /\ Goto(p, "rm_pending_dir") /\ Op(p, "delete")
    /\ UNCHANGED <<held, att, lockHeld, examined, result, pend, ret, alive, faults, crashes, brokenLive, wrongBreak, heldAfterFail>>

RmPendingDir(p) ==
    /\ Live(p) /\ pc[p] = "rm_pending_dir"
    /\ tmpdirs' = tmpdirs \ {Dir("pending", p, None)}
    /\ Goto(p, "idle") /\ Res(p, pend[p]) /\ Op(p, "rmdir") /\ AttemptFails(p, held)
    /\ UNCHANGED <<held, att, lockHeld, examined, pend, ret, alive, faults, crashes, brokenLive, wrongBreak>>

\* the confirming peek after a successful rename
PeekAfter(p) ==
    /\ Live(p) /\ pc[p] = "peek_after"
    /\ IF held = Mine(p)
       THEN /\ lockHeld' = [lockHeld EXCEPT ![p] = TRUE] /\ Goto(p, "locked") /\ Res(p, "acquired")
            /\ UNCHANGED heldAfterFail
       ELSE /\ UNCHANGED lockHeld /\ Goto(p, "idle")
            /\ Res(p, IF held = None THEN "lock_failed" ELSE "contention")
            /\ AttemptFails(p, held)
    /\ Op(p, "get")
    /\ UNCHANGED <<held, tmpdirs, att, examined, pend, ret, alive, faults, crashes, brokenLive, wrongBreak>>

(* --------------------------------- unlock --------------------------------- *)
ConfirmPeek(p) ==
    /\ Live(p) /\ pc[p] = "locked"
    /\ IF held = Mine(p) THEN Goto(p, "rename_out") /\ UNCHANGED result
                         ELSE Goto(p, "stuck") /\ Res(p, "lock_broken")
    /\ Op(p, "get")
    /\ UNCHANGED <<held, tmpdirs, att, lockHeld, examined, pend, ret, alive, faults, crashes, brokenLive, wrongBreak, heldAfterFail>>

\* rename(held, releasing.*): moves WHATEVER is in held (the holder may have changed since confirm)
RenameOut(p) ==
    /\ Live(p) /\ pc[p] = "rename_out"
    /\ IF held = None
       THEN /\ Goto(p, "stuck") /\ Res(p, "unlock_error_swallowed")
            /\ UNCHANGED <<held, tmpdirs, lockHeld, brokenLive>>
       ELSE /\ tmpdirs' = tmpdirs \cup {Dir("releasing", p, held)}
            /\ held' = None
            /\ lockHeld' = [lockHeld EXCEPT ![p] = FALSE]
            /\ brokenLive' = (brokenLive \/ (held # Mine(p) /\ HolderLive(held)))
            /\ Goto(p, "rel_del") /\ UNCHANGED result
    /\ Op(p, "rename")
    /\ UNCHANGED <<att, examined, pend, ret, alive, faults, crashes, wrongBreak, heldAfterFail>>

RelDel(p) ==
    /\ Live(p) /\ pc[p] = "rel_del"
    /\ \E d \in tmpdirs : /\ d.kind = "releasing" /\ d.owner = p /\ d.n = att[p] /\ d.info # None
                          /\ tmpdirs' = (tmpdirs \ {d}) \cup {Dir("releasing", p, None)}
    /\ Goto(p, "rel_rmdir") /\ Op(p, "delete")
    /\ UNCHANGED <<held, att, lockHeld, examined, result, pend, ret, alive, faults, crashes, brokenLive, wrongBreak, heldAfterFail>>

RelRmdir(p) ==
    /\ Live(p) /\ pc[p] = "rel_rmdir"
    /\ tmpdirs' = tmpdirs \ {Dir("releasing", p, None)}
    /\ Goto(p, "idle") /\ Res(p, "released") /\ Op(p, "rmdir")
    /\ UNCHANGED <<held, att, lockHeld, examined, pend, ret, alive, faults, crashes, brokenLive, wrongBreak, heldAfterFail>>

(* ------------------- break_lock = peek + force_break(info) ------------------- *)
UserPeek(p) ==
    /\ Live(p) /\ pc[p] = "b_idle" /\ att[p] < MaxAttempts
    /\ att' = [att EXCEPT ![p] = @ + 1]
    /\ examined' = [examined EXCEPT ![p] = held]
    /\ ret' = [ret EXCEPT ![p] = "user"]
    /\ IF held = None THEN Goto(p, "b_idle") /\ Res(p, "nothing_to_break") ELSE Goto(p, "fb_peek") /\ UNCHANGED result
    /\ Op(p, "get")
    /\ UNCHANGED <<held, tmpdirs, lockHeld, pend, alive, faults, crashes, brokenLive, wrongBreak, heldAfterFail>>

\* force_break returns normally / raises: where control goes depends on who called it
FbReturn(p, r) == IF ret[p] = "steal" THEN Goto(p, "rename_in") /\ UNCHANGED <<result, pend>>
                                      ELSE Goto(p, "b_idle") /\ Res(p, r) /\ UNCHANGED pend
FbRaise(p, r)  == IF ret[p] = "steal" THEN Goto(p, "rm_pending_info") /\ pend' = [pend EXCEPT ![p] = r] /\ UNCHANGED result
                                      ELSE Goto(p, "b_idle") /\ Res(p, r) /\ UNCHANGED pend

FbPeek(p) ==
    /\ Live(p) /\ pc[p] = "fb_peek"
    /\ IF held = None THEN FbReturn(p, "already_released")
       ELSE IF held # examined[p] THEN FbRaise(p, "mismatch_before")
       ELSE Goto(p, "fb_rename") /\ UNCHANGED <<result, pend>>
    /\ Op(p, "get")
    /\ UNCHANGED <<held, tmpdirs, att, lockHeld, examined, ret, alive, faults, crashes, brokenLive, wrongBreak, heldAfterFail>>

FbRename(p) ==
    /\ Live(p) /\ pc[p] = "fb_rename"
    /\ IF held = None
       THEN FbRaise(p, "break_error") /\ UNCHANGED <<held, tmpdirs, wrongBreak, brokenLive>>
       ELSE /\ tmpdirs' = tmpdirs \cup {Dir("broken", p, held)}
            /\ held' = None
            /\ wrongBreak' = (wrongBreak \/ held # examined[p])
            /\ brokenLive' = (brokenLive \/ HolderLive(held))
            /\ Goto(p, "fb_readback") /\ UNCHANGED <<result, pend>>
    /\ Op(p, "rename")
    /\ UNCHANGED <<att, lockHeld, examined, ret, alive, faults, crashes, heldAfterFail>>

FbReadBack(p) ==
    /\ Live(p) /\ pc[p] = "fb_readback"
    /\ \E d \in tmpdirs : /\ d.kind = "broken" /\ d.owner = p /\ d.n = att[p] /\ d.info # None
                          /\ IF d.info # examined[p] THEN FbRaise(p, "mismatch_after")
                                                     ELSE Goto(p, "fb_delete") /\ UNCHANGED <<result, pend>>
    /\ Op(p, "get")
    /\ UNCHANGED <<held, tmpdirs, att, lockHeld, examined, ret, alive, faults, crashes, brokenLive, wrongBreak, heldAfterFail>>

FbDelete(p) ==
    /\ Live(p) /\ pc[p] = "fb_delete"
    /\ \E d \in tmpdirs : /\ d.kind = "broken" /\ d.owner = p /\ d.n = att[p] /\ d.info = examined[p]
                          /\ tmpdirs' = (tmpdirs \ {d}) \cup {Dir("broken", p, None)}
    /\ Goto(p, "fb_rmdir") /\ Op(p, "delete")
    /\ UNCHANGED <<held, att, lockHeld, examined, result, pend, ret, alive, faults, crashes, brokenLive, wrongBreak, heldAfterFail>>

FbRmdir(p) ==
    /\ Live(p) /\ pc[p] = "fb_rmdir"
    /\ tmpdirs' = tmpdirs \ {Dir("broken", p, None)}
    /\ FbReturn(p, "broke") /\ Op(p, "rmdir")
    /\ UNCHANGED <<held, att, lockHeld, examined, ret, alive, faults, crashes, brokenLive, wrongBreak, heldAfterFail>>

(* ------------------------------ crash and fault ------------------------------ *)
Terminal == {"stuck", "crashed"}
HasPendingOp(p) == /\ pc[p] \notin Terminal
                   /\ ~(pc[p] \in {"idle", "b_idle"} /\ att[p] >= MaxAttempts)

Crash(p) ==
    /\ Live(p) /\ crashes < MaxCrashes /\ HasPendingOp(p)
    /\ alive' = [alive EXCEPT ![p] = FALSE] /\ crashes' = crashes + 1
    /\ Goto(p, "crashed") /\ Op(p, "crash")
    /\ UNCHANGED <<held, tmpdirs, att, lockHeld, examined, result, pend, ret, faults, brokenLive, wrongBreak, heldAfterFail>>

\* The pending operation raises TransportError and is not performed; control follows the code's handlers.
Fail(p) ==
    /\ Live(p) /\ faults < MaxFaults /\ HasPendingOp(p)
    /\ faults' = faults + 1
    /\ LET l == pc[p] IN
       CASE l = "idle" ->           \* mkdir fails -> LockFailed
              /\ att[p] < MaxAttempts /\ ~lockHeld[p]
              /\ att' = [att EXCEPT ![p] = @ + 1] /\ Goto(p, "idle") /\ Res(p, "error")
              /\ heldAfterFail' = (heldAfterFail \/ held = <<p, att[p] + 1>>)
              /\ UNCHANGED <<lockHeld, pend, examined, ret>>
         [] l = "put" ->            \* LockFailed, pending dir left behind
              /\ Goto(p, "idle") /\ Res(p, "error") /\ AttemptFails(p, held) /\ UNCHANGED <<att, lockHeld, pend, examined, ret>>
         [] l = "rename_in" ->      \* any TransportError on the rename is treated as contention
              /\ Goto(p, "contend_peek") /\ UNCHANGED <<att, lockHeld, pend, result, heldAfterFail, examined, ret>>
         [] l \in {"contend_peek", "rm_pending_info", "rm_pending_dir"} ->   \* propagates, no (further) cleanup
              /\ Goto(p, "idle") /\ Res(p, "error") /\ AttemptFails(p, held) /\ UNCHANGED <<att, lockHeld, pend, examined, ret>>
         [] l = "peek_after" ->     \* propagates out of _attempt_lock WITH THE LOCK HELD ON DISK
              /\ Goto(p, "idle") /\ Res(p, "error") /\ AttemptFails(p, held) /\ UNCHANGED <<att, lockHeld, pend, examined, ret>>
         [] l \in {"locked", "rename_out"} ->     \* swallowed by only_raises; still believes it holds the lock
              /\ Goto(p, "stuck") /\ Res(p, "unlock_error_swallowed")
              /\ UNCHANGED <<att, lockHeld, pend, heldAfterFail, examined, ret>>
         [] l \in {"rel_del", "rel_rmdir"} ->     \* swallowed; lock already released
              /\ Goto(p, "idle") /\ Res(p, "released") /\ UNCHANGED <<att, lockHeld, pend, heldAfterFail, examined, ret>>
         [] l = "b_idle" ->
              /\ att[p] < MaxAttempts
              /\ att' = [att EXCEPT ![p] = @ + 1] /\ Goto(p, "b_idle") /\ Res(p, "error")
              /\ UNCHANGED <<lockHeld, pend, heldAfterFail, examined, ret>>
         [] l \in {"fb_peek", "fb_rename", "fb_readback", "fb_delete", "fb_rmdir"} ->
              /\ FbRaise(p, "break_error") /\ UNCHANGED <<att, lockHeld, heldAfterFail, examined, ret>>
    /\ Op(p, "fault")
    /\ UNCHANGED <<held, tmpdirs, alive, crashes, brokenLive, wrongBreak>>

Act(p) == \/ Mkdir(p) \/ PutInfo(p) \/ RenameIn(p) \/ ContendPeek(p) \/ RmPendingInfo(p) \/ RmPendingDir(p)
          \/ PeekAfter(p) \/ ConfirmPeek(p) \/ RenameOut(p) \/ RelDel(p) \/ RelRmdir(p)
          \/ UserPeek(p) \/ FbPeek(p) \/ FbRename(p) \/ FbReadBack(p) \/ FbDelete(p) \/ FbRmdir(p)
Next == \E p \in Procs : Act(p) \/ Crash(p) \/ Fail(p)
Spec == Init /\ [][Next]_vars

(* ------------------------------- properties ------------------------------- *)
TypeOK == /\ held = None \/ held = DeadInfo \/ (held[1] \in Lockers /\ held[2] \in 1..MaxAttempts)
          /\ \A d \in tmpdirs : d.kind \in {"pending", "releasing", "broken"} /\ d.owner \in Procs

\* C26: at most one live process believes it holds the lock, unless a live holder's lock was broken
MutualExclusion == \A p, q \in Lockers :
    (p # q /\ alive[p] /\ alive[q] /\ lockHeld[p] /\ lockHeld[q]) => brokenLive
\* C26: whoever believes it holds the lock and was never broken is what held/info says
HolderOnDisk == \A p \in Lockers : (alive[p] /\ lockHeld[p] /\ ~brokenLive /\ pc[p] # "rel_del") => held = Mine(p)
\* C26: a break removes only the lock it examined            (the code violates this: FbRename, see DESIGN §7)
BreakOnlyExamined == ~wrongBreak
\* C26: policy breaks (steal) only ever examine dead holders
StealOnlyDead == \A p \in Lockers : ret[p] = "steal" => IsDead(examined[p])
\* C27: the lock is free or held with readable info: by construction of `held`; junk never blocks acquisition
Recoverable == held = None \/ held[1] \in Lockers \cup {"dead"}
\* C27: a failed acquisition never leaves the lock held by the failing process  (violated via Fail at peek_after)
FailedNotHeld == ~heldAfterFail
\* no process leaves junk of a *successful* path behind: when everyone is idle and nothing failed/crashed/was broken
QuiescentClean == (\A p \in Procs : pc[p] \in {"idle", "b_idle"}) /\ faults = 0 /\ crashes = 0 /\ ~wrongBreak
                     => \A d \in tmpdirs : FALSE

\* anti-vacuity witnesses (TLC must violate them)
WitnessBothTried == ~(\E p, q \in Lockers : p # q /\ result[p] = "acquired" /\ result[q] = "contention")
WitnessBroke == ~(\E b \in Breakers : result[b] = "broke")
WitnessStole == ~(\E p \in Lockers : ret[p] = "steal" /\ lockHeld[p])
WitnessBrokenLive == ~brokenLive
=============================================================================
