----------------------------- MODULE SmartJail -----------------------------
(* C31 - smart server clients cannot reach files outside the served directory.

   What is modelled (the composition the server really runs, layer by layer):
     client path  --SmartServerRequest.translate_client_path-->  relpath       (root match, joinpath, escape)
                  --VfsRequest.translate_client_path-->          relpath'      (VFS verbs only: unescape once more)
                  --PathFilteringTransport(_expand_userdirs) / ChrootTransport--> path handed to the served
                    transport (URL normalisation: ".", "..", "%2E", "%2E%2E" and empty segments are resolved,
                    ".." is clamped at the root; "~" as first segment is expanded)
                  --LocalTransport--> percent-decoded once, appended to the served directory, resolved by the OS.

   A string is a sequence of tokens [k |-> kind, l |-> level]; level = how many times the token is
   percent-encoded.  k = "sep" is "/", "dd" is "..", "d" is ".", "z" the NUL byte, "e" a non-ASCII letter,
   "t" "~", the rest are plain names.  E.g. "%2F" = [sep,1], "%252E%252E" = [dd,2], "%00" = [z,1].
   urlutils.escape raises the level of everything that needs quoting, unescape lowers every level >= 1.

   HISTORY (DESIGN.md section 7, C31): the above-root check of joinpath runs on the still-encoded path and
   VfsRequest un-escapes afterwards; the chroot transport treats a segment such as "..%2F.." as an ordinary name
   and LocalTransport decodes it to "../..".  Until /repo commit 797f5cb VFS verbs therefore escaped for inputs
   with a "%2F" separator inside a segment that also contains ".." (and cloning verbs for a segment starting with
   "%2F").  VfsRequest.translate_client_path now refuses any un-escaped result that still contains an escaped
   separator, and the model says so (TranslateVfs, guard = TRUE): JailInvariant HOLDS on the model.  The model
   without the guard (SpecOutUnguarded) is kept to state which input classes the guard is there for
   (EscapesOnlyKnown): those classes key the violation signatures, so a regression is reported under the old names. *)
EXTENDS Naturals, Sequences, FiniteSets

Tok(k, l) == [k |-> k, l |-> l]
S0 == Tok("sep", 0)
Dot == Tok("d", 0)
DotDot == Tok("dd", 0)
Rng(s) == {s[i] : i \in DOMAIN s}
ButLast(s) == SubSeq(s, 1, Len(s) - 1)
StartsWith(p, s) == Len(p) <= Len(s) /\ SubSeq(s, 1, Len(p)) = p

(* ------------------------------------------------------------------ the hostile alphabet *)
Names == {"a", ".", "..", "", "%2E%2E", "%252E%252E", "~", "~user", "U+00E9", "%00"}      \* U+00E9: the raw letter e-acute
NameToks(n) ==
    CASE n = "a" -> <<Tok("a", 0)>>
      [] n = "." -> <<Dot>>
      [] n = ".." -> <<DotDot>>
      [] n = "" -> <<>>
      [] n = "%2E%2E" -> <<Tok("dd", 1)>>
      [] n = "%252E%252E" -> <<Tok("dd", 2)>>
      [] n = "~" -> <<Tok("t", 0)>>
      [] n = "~user" -> <<Tok("t", 0), Tok("u", 0)>>
      [] n = "U+00E9" -> <<Tok("e", 0)>>
      [] n = "%00" -> <<Tok("z", 1)>>
Roots == {"/", "/srv/", "/a/"}
RootToks(r) == CASE r = "/" -> <<S0>>
                 [] r = "/srv/" -> <<S0, Tok("srv", 0), S0>>
                 [] r = "/a/" -> <<S0, Tok("a", 0), S0>>
Forms == {"rel", "abs", "rooted"}

(* a case: names joined by separators; seps[i] is the encoding level of the separator between names[i] and
   names[i+1]: 0 = "/", 1 = "%2F", 2 = "%252F" *)
RECURSIVE Body(_, _)
Body(names, seps) ==
    IF Len(names) = 0 THEN <<>>
    ELSE IF Len(names) = 1 THEN NameToks(names[1])
    ELSE NameToks(names[1]) \o <<Tok("sep", seps[1])>> \o Body(Tail(names), Tail(seps))
ClientPath(c) ==
    CASE c.form = "rel" -> Body(c.names, c.seps)
      [] c.form = "abs" -> <<S0>> \o Body(c.names, c.seps)
      [] c.form = "rooted" -> RootToks(c.root) \o Body(c.names, c.seps)

(* ------------------------------------------------------------------ urlutils *)
RECURSIVE SplitR(_, _, _)
SplitR(s, i, cur) == IF i > Len(s) THEN <<cur>>
                     ELSE IF s[i] = S0 THEN <<cur>> \o SplitR(s, i + 1, <<>>)
                     ELSE SplitR(s, i + 1, Append(cur, s[i]))
Split(s) == SplitR(s, 1, <<>>)           \* str.split("/"): k separators -> k+1 chunks
RECURSIVE Join(_)
Join(chunks) == IF Len(chunks) = 0 THEN <<>>
                ELSE IF Len(chunks) = 1 THEN chunks[1]
                ELSE chunks[1] \o <<S0>> \o Join(Tail(chunks))

Above == << <<Tok("above-root", 9)>> >>          \* stack value: refused
AboveP == <<Tok("above-root", 9)>>             \* the same as a path value
(* urlutils.joinpath("/", path): a stack machine over the "/"-separated chunks; "." is skipped, ".." pops and is
   refused when only the root is left, everything else (also empty chunks) is pushed. *)
RECURSIVE JoinStep(_, _, _)
JoinStep(stack, chunks, i) ==
    IF i > Len(chunks) THEN stack
    ELSE LET ch == chunks[i] IN
         IF ch = <<Dot>> THEN JoinStep(stack, chunks, i + 1)
         ELSE IF ch = <<DotDot>> THEN
              IF stack = << <<>> >> \/ stack = <<>> THEN Above
              ELSE JoinStep(ButLast(stack), chunks, i + 1)
         ELSE JoinStep(Append(stack, ch), chunks, i + 1)
JoinPath(path) ==
    LET start == IF Len(path) > 0 /\ path[1] = S0 THEN <<>> ELSE << <<>> >>
        st == JoinStep(start, Split(path), 1)
    IN IF st = Above THEN AboveP ELSE IF st = << <<>> >> THEN <<S0>> ELSE Join(st)

SafeKinds == {"sep", "a", "d", "dd", "t", "u", "srv", "h"}      \* characters urlutils.escape leaves alone
EscTok(t) == IF t.l = 0 /\ t.k \in SafeKinds THEN t ELSE Tok(t.k, t.l + 1)
UnescTok(t) == IF t.l = 0 THEN t ELSE Tok(t.k, t.l - 1)
Escape(s) == [i \in DOMAIN s |-> EscTok(s[i])]
Unescape(s) == [i \in DOMAIN s |-> UnescTok(s[i])]

(* ------------------------------------------------------------------ request.py / vfs.py *)
Rej(why) == [rej |-> why, rel |-> <<>>]
\* SmartServerRequest.translate_client_path
TranslatePlain(root, cp0) ==
    LET cp == IF Len(cp0) > 0 /\ cp0[1] = S0 THEN cp0 ELSE <<S0>> \o cp0
        rt == RootToks(root)
    IN IF cp \o <<S0>> = rt THEN [rej |-> "no", rel |-> <<Dot>>]
       ELSE IF StartsWith(rt, cp) THEN
            LET jp == JoinPath(SubSeq(cp, Len(rt) + 1, Len(cp))) IN
            IF jp = AboveP THEN Rej("above-root") ELSE [rej |-> "no", rel |-> Escape(<<Dot>> \o jp)]
       ELSE Rej("not-child")
\* VfsRequest.translate_client_path: un-escape once more, then (guard) refuse a result containing "%2f"
HasEscapedSep(rel) == \E i \in DOMAIN rel : rel[i] = Tok("sep", 1)
VfsOf(p, guard) ==
    IF p.rej # "no" THEN p
    ELSE LET rel == Unescape(p.rel) IN
         IF guard /\ HasEscapedSep(rel) THEN Rej("escaped-separator") ELSE [rej |-> "no", rel |-> rel]
TranslateVfs(root, cp) == VfsOf(TranslatePlain(root, cp), TRUE)

(* ------------------------------------------------------------------ server.py: pathfilter(userdirs) over chroot *)
IsDotSeg(seg) == Len(seg) = 1 /\ seg[1].k = "d" /\ seg[1].l <= 1         \* "." and "%2E"
IsDotDotSeg(seg) == Len(seg) = 1 /\ seg[1].k = "dd" /\ seg[1].l <= 1     \* ".." and "%2E%2E"
RECURSIVE NormStep(_, _, _)
NormStep(stack, segs, i) ==
    IF i > Len(segs) THEN stack
    ELSE LET sg == segs[i] IN
         IF sg = <<>> \/ IsDotSeg(sg) THEN NormStep(stack, segs, i + 1)
         ELSE IF IsDotDotSeg(sg) THEN NormStep(IF stack = <<>> THEN stack ELSE ButLast(stack), segs, i + 1)
         ELSE NormStep(Append(stack, sg), segs, i + 1)
Norm(rel) == NormStep(<<>>, Split(rel), 1)        \* sequence of segments below the chroot, clamped at its root
\* BzrServerFactory._expand_userdirs with the harness's expander: "~" -> <served>/a/h (inside), "~user" -> a
\* directory outside the served one (so the path is left alone)
HomeSegs == << <<Tok("a", 0)>>, <<Tok("h", 0)>> >>
ExpandUser(segs) == IF Len(segs) > 0 /\ segs[1] = <<Tok("t", 0)>> THEN HomeSegs \o Tail(segs) ELSE segs
ServedRel(rel) == Norm(Join(ExpandUser(Norm(rel))))   \* filter, then the chroot normalises again

(* ------------------------------------------------------------------ LocalTransport + OS *)
NonAscii(segs) == \E i \in DOMAIN segs : \E j \in DOMAIN segs[i] : segs[i][j] = Tok("e", 0)
RECURSIVE WalkStep(_, _, _, _)
\* up = how many levels above the served directory, names = stack below that directory
WalkStep(up, names, chunks, i) ==
    IF i > Len(chunks) THEN [up |-> up, names |-> names]
    ELSE LET ch == chunks[i] IN
         IF ch = <<>> \/ ch = <<Dot>> THEN WalkStep(up, names, chunks, i + 1)
         ELSE IF ch = <<DotDot>> THEN
              IF names = <<>> THEN WalkStep(up + 1, names, chunks, i + 1)
              ELSE WalkStep(up, ButLast(names), chunks, i + 1)
         ELSE WalkStep(up, Append(names, ch), chunks, i + 1)
\* the served transport decodes the path once and appends it to the served directory (a leading decoded "/"
\* is just an empty component); the OS then resolves "." and ".." for real
Location(segs) == WalkStep(0, <<>>, Split(Unescape(Join(segs))), 1)
Where(rel) == LET segs == ServedRel(rel) IN
              IF NonAscii(segs) THEN "unres"                 \* refused by the transport: not a URL
              ELSE IF Location(segs).up = 0 THEN "in" ELSE "out"
\* Verbs the chroot implements by CLONING the served transport (iter_files_recursive): clone() quotes raw non-ASCII,
\* and LocalTransport.clone(p) treats a decoded p that starts with "/" as an absolute path of the host.
LeadingEncodedSlash(segs) == Len(segs) > 0 /\ Len(segs[1]) > 0 /\ segs[1][1] = Tok("sep", 1)
WhereClone(rel) == LET segs == ServedRel(rel) IN
                   IF LeadingEncodedSlash(segs) \/ Location(segs).up > 0 THEN "out" ELSE "in"

(* ------------------------------------------------------------------ Resolve *)
Kinds == {"plain", "vfs", "vfsclone"}
TrKinds == {"plain", "vfs"}                  \* the two translate_client_path implementations
Resolved(t, clone) == [rej |-> t.rej, rel |-> t.rel,
                       where |-> IF t.rej # "no" THEN "none" ELSE IF clone THEN WhereClone(t.rel) ELSE Where(t.rel)]
\* all verb kinds at once (the VFS translation is the plain one, un-escaped and guarded)
SpecOutG(c, guard) == LET tp == TranslatePlain(c.root, ClientPath(c))
                          tv == VfsOf(tp, guard)
                      IN [plain |-> Resolved(tp, FALSE), vfs |-> Resolved(tv, FALSE), vfsclone |-> Resolved(tv, TRUE)]
SpecOut(c) == SpecOutG(c, TRUE)                \* the code as it is
SpecOutUnguarded(c) == SpecOutG(c, FALSE)      \* the code before 797f5cb / if the guard were lost
Resolve(kind, c) == SpecOut(c)[kind]
\* the property on the model: not rejected => inside the jail      (s = SpecOut(c))
JailInvariantS(s) == \A kind \in Kinds : s[kind].rej = "no" => s[kind].where # "out"
JailInvariant(c) == JailInvariantS(SpecOut(c))

(* input classes the guard exists for (they key the violation signatures).
   first: a run of names joined by "%2F" (level-1 separators) that contains ".." or "%2E%2E" *)
DotDotNames == {"..", "%2E%2E"}
KnownDeviation(c) ==
    \E i \in 1..Len(c.names) : \E j \in i..Len(c.names) :
        /\ j > i
        /\ \A k \in i..(j - 1) : c.seps[k] = 1
        /\ \E k \in i..j : c.names[k] \in DotDotNames
\* second (found by this check): a segment that STARTS with "%2F" makes cloning verbs absolute
SlashFirstDeviation(c) == \E i \in 1..(Len(c.names) - 1) : c.names[i] = "" /\ c.seps[i] = 1
EscapesOnlyKnownS(c, s) == /\ s.plain.where # "out"
                           /\ s.vfs.where = "out" => KnownDeviation(c)
                           /\ s.vfsclone.where = "out" => KnownDeviation(c) \/ SlashFirstDeviation(c)
\* without the guard nothing outside those classes would escape; with it nothing escapes at all
EscapesOnlyKnown(c) == EscapesOnlyKnownS(c, SpecOutUnguarded(c))
GuardedHolds(c) == LET s == SpecOut(c) IN
                   /\ JailInvariantS(s)
                   /\ (s.vfs.rej = "escaped-separator" => EscapesOnlyKnown(c))

(* ------------------------------------------------------------------ the jail for control directories
   (request.py _pre_open_hook / setup_jail): during a request a control directory may be opened only at a URL below
   the jail root transport.  oc = [jail |-> "root" (the backing transport) | "a" (its subdirectory a),
   scheme |-> "backing" | "foreign-in" | "foreign-out", names |-> path below that scheme's root].
   The hook compares transport.base, which the path-filtering transport computes by URL joining (an EMPTY segment
   is a segment ".." can pop: "a//.." -> "a/"), whereas operations are normalised by dropping empty segments first
   ("a//.." -> the root).  Third named deviation: with a jail root narrower than the backing transport the two
   disagree and the hook lets such a URL through. *)
RECURSIVE UrlStep(_, _, _)
UrlStep(stack, segs, i) ==
    IF i > Len(segs) THEN stack
    ELSE LET sg == segs[i] IN
         IF IsDotSeg(sg) THEN UrlStep(stack, segs, i + 1)
         ELSE IF IsDotDotSeg(sg) THEN UrlStep(IF stack = <<>> THEN stack ELSE ButLast(stack), segs, i + 1)
         ELSE UrlStep(Append(stack, sg), segs, i + 1)
OpenPath(oc) == Join([i \in DOMAIN oc.names |-> NameToks(oc.names[i])])
BaseSegs(oc) == UrlStep(<<>>, Split(OpenPath(oc)), 1)      \* what .base shows (empty segments are kept)
OpenSegs(oc) == Norm(OpenPath(oc))                                                        \* where operations go
JailSegs(oc) == IF oc.jail = "root" THEN <<>> ELSE << <<Tok("a", 0)>> >>
JailAllows(oc) == oc.scheme = "backing" /\ StartsWith(JailSegs(oc), BaseSegs(oc))
OpenOut(oc) == IF JailAllows(oc)
               THEN [rej |-> "no", where |-> IF StartsWith(JailSegs(oc), OpenSegs(oc)) THEN "in" ELSE "out"]
               ELSE [rej |-> "jailbreak", where |-> "none"]
OpenInvariant(oc) == OpenOut(oc).where # "out"
EmptyBeforeDotDot(oc) == \E i \in 1..Len(oc.names) : \E j \in (i + 1)..Len(oc.names) :
                            oc.names[i] = "" /\ oc.names[j] \in DotDotNames
OpenEscapesOnlyKnown(oc) == OpenOut(oc).where = "out" => oc.jail # "root" /\ EmptyBeforeDotDot(oc)

(* ------------------------------------------------------------------ laws on OBSERVED outcomes (verdict)
   o is a function verb -> [w |-> sequence of the distinct places operations of the served transport were
   addressed to ("in" the served directory / jail, "out" of it, "unres" = the transport refused to resolve),
   leak |-> content of a sentinel outside the served directory came back or something outside changed]. *)
Verbs(o) == DOMAIN o
Rejected(o, v) == o[v].w = <<>>                 \* nothing reached the served transport
LawConfined(o, v) == ~Rejected(o, v) => "out" \notin Rng(o[v].w)
LawNoLeak(o, v) == ~o[v].leak
Failed(c, o) == {[law |-> "confined", verb |-> v] : v \in {x \in Verbs(o) : ~LawConfined(o, x)}}
                \cup {[law |-> "noleak", verb |-> v] : v \in {x \in Verbs(o) : ~LawNoLeak(o, x)}}

(* conformance of the observation with the model (drift, not verdict) *)
VerbKind(v) == IF v = "iter_files_recursive" THEN "vfsclone"
               ELSE IF v \in {"get", "has", "stat", "put", "mkdir", "list_dir", "delete", "rmdir", "readv", "append"}
                    THEN "vfs" ELSE "plain"
ExpectW(r) == IF r.rej # "no" THEN {} ELSE {r.where}
ConformsPath(c, o, tr) ==
    LET s == SpecOut(c) IN
    /\ \A v \in Verbs(o) : Rng(o[v].w) = ExpectW(s[VerbKind(v)])
    /\ \A kind \in TrKinds : tr[kind].rej = s[kind].rej /\ tr[kind].rel = s[kind].rel
ConformsOpen(oc, o) == \A v \in Verbs(o) : Rng(o[v].w) = ExpectW(OpenOut(oc))
=============================================================================
