----------------------------- MODULE ShelfMgr -----------------------------
(* C15, second half: "shelves are numbered uniquely and survive until deleted"
   (breezy/shelf.py ShelfManager.new_shelf / shelve_changes / get_unshelver / delete_shelf / active_shelves / last_shelf,
    breezy/shelf_ui.py Unshelver.run with actions apply / keep / delete-only).

   The working tree has the independent pending changes 1..NCh (change i = "file n<i> added").  A shelf is
   [id, ch, ser]: its number, the change it holds, and a serial number that is unique over the whole behaviour (the
   harness stores it as the shelf's message), so that "the same shelf still exists" is observable even when an id is
   used again.  new_shelf allocates max(existing ids) + 1: the id of a deleted TOP shelf is reused - "numbered
   uniquely" means unique among the shelves that exist. *)
EXTENDS Naturals, FiniteSets, Sequences, TLC
CONSTANTS NCh,        \* number of independent pending changes
          MaxSer,     \* at most MaxSer shelves are ever created
          Fill        \* SpecMany only: the behaviours start by putting Fill changes on Fill shelves
VARIABLES tree,       \* changes currently present in the working tree
          shelves,    \* set of [id, ch, ser]
          ser         \* shelves created so far
vars == <<tree, shelves, ser>>

Ids == {s.id : s \in shelves}
Max(S) == CHOOSE m \in S : \A x \in S : x <= m
NextId == IF shelves = {} THEN 1 ELSE Max(Ids) + 1
ById(i) == CHOOSE s \in shelves : s.id = i

Init == tree = 1..NCh /\ shelves = {} /\ ser = 0
\* Shelver / ShelfManager.shelve_changes: the change leaves the tree and is stored under a new id
Shelve(c) == /\ c \in tree /\ ser < MaxSer
             /\ shelves' = shelves \cup {[id |-> NextId, ch |-> c, ser |-> ser + 1]}
             /\ tree' = tree \ {c} /\ ser' = ser + 1
\* Unshelver.run(apply): the change comes back and the shelf is deleted; (keep): the shelf stays
Unshelve(i, keep) == /\ i \in Ids /\ ById(i).ch \notin tree
                     /\ tree' = tree \cup {ById(i).ch}
                     /\ shelves' = IF keep THEN shelves ELSE shelves \ {ById(i)}
                     /\ UNCHANGED ser
\* ShelfManager.delete_shelf / unshelve --delete-only
Delete(i) == /\ i \in Ids /\ shelves' = shelves \ {ById(i)} /\ UNCHANGED <<tree, ser>>
\* Re-opening (a new WorkingTree object and a new ShelfManager on the same directory) is not an action: the binding
\* observes every state twice, through the manager that made the call and through a freshly opened one, and both
\* observations must be this state ("active_shelves unchanged by re-open").
Next == (\E c \in 1..NCh : Shelve(c)) \/ (\E i \in 1..MaxSer, k \in BOOLEAN : Unshelve(i, k))
        \/ (\E i \in 1..MaxSer : Delete(i))
Spec == Init /\ [][Next]_vars

(* Many shelves at once (ids with more than one digit): the same actions, restricted to the behaviours that first shelve
   Fill changes one after the other and then work at the ends of the shelf list - one more shelve, unshelve (apply |
   keep) of the newest shelf "without naming it" (last_shelf), delete of the newest and of the oldest shelf - while at
   least Fill - 1 shelves exist. *)
Min(S) == CHOOSE m \in S : \A x \in S : m <= x
LastShelf == IF shelves = {} THEN 0 ELSE Max(Ids)            \* what last_shelf() must answer (0 = None)
MShelve(c) == tree # {} /\ c = Min(tree) /\ Shelve(c)
MUnshelve(i, k) == ser >= Fill /\ Cardinality(shelves) >= Fill /\ i = LastShelf /\ Unshelve(i, k)
MDelete(i) == ser >= Fill /\ Cardinality(shelves) >= Fill /\ i \in {LastShelf, Min(Ids)} /\ Delete(i)
NextMany == (\E c \in 1..NCh : MShelve(c)) \/ (\E i \in 1..MaxSer, k \in BOOLEAN : MUnshelve(i, k))
            \/ (\E i \in 1..MaxSer : MDelete(i))
SpecMany == Init /\ [][NextMany]_vars

(* ---- C15 clauses *)
\* two existing shelves never share a number
UniqueIds == \A s, t \in shelves : s.id = t.id => s = t
\* a shelf exists - under its number, with its content - until it is deleted (delete_shelf or an applying unshelve)
SurvivesUntilDeleted == [][\A s \in shelves : s \in shelves' \/ Delete(s.id) \/ Unshelve(s.id, FALSE)]_vars
\* shelves appear only through shelve_changes, one at a time, numbered max + 1 and carrying a fresh serial
OnlyShelveCreates == [][\A s \in shelves' \ shelves : (\E c \in 1..NCh : Shelve(c)) /\ s.id = NextId /\ s.ser = ser + 1]_vars
\* nothing that is on a shelf is ever overwritten: a new shelf takes a number no existing shelf has
NewIdIsFresh == [][\A s \in shelves' \ shelves : s.id \notin Ids]_vars
\* the newest shelf is the one with the numerically largest id, and that is where the next number comes from
NextIdAboveAll == \A s \in shelves : s.id < NextId /\ s.id <= LastShelf
\* anti-vacuity: an id that was handed out before is handed out again (top shelf deleted, then shelve): the ser-th
\* shelf carries an id below ser, so by counting two of the shelves created so far had the same number
WitnessIdReused == ~(\E s \in shelves : s.ser = ser /\ s.id < ser)
WitnessThreeShelves == Cardinality(shelves) < 3
WitnessElevenShelves == Cardinality(shelves) < 11
=============================================================================
