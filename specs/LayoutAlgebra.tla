--------------------------- MODULE LayoutAlgebra ---------------------------
(* Constant-level part of the layout model of C52 (see Layouts.tla): layouts, the plan of every operation, and what
   an observer of a location can see.  Shared by the state machine (Layouts) and the judge (LayoutsTrace). *)
EXTENDS Naturals, Sequences, FiniteSets, TLC

Formats == {"pack-0.92", "1.9", "2a", "development-colo"}
\* conversions only go to formats of at least the same rank (2a and development-colo share the repository format)
Rank(f) == CASE f = "pack-0.92" -> 1 [] f = "1.9" -> 2 [] OTHER -> 3
Targets == {"tree", "branch", "checkout", "lightweight-checkout", "use-shared", "standalone"}

ValidLayout(l) ==
    /\ l.br \in {"local", "bound", "ref"} /\ l.repo \in {"own", "shared", "none", "unused"}
    /\ (l.br = "ref") = (l.repo \in {"none", "unused"})
    /\ (l.br = "ref" => l.tree) /\ (l.repo = "shared" => l.above) /\ (l.dirty => l.tree)
    /\ l.fmt \in Formats /\ (l.above = (l.sfmt \in Formats)) /\ (~l.above => l.sfmt = "none")

\* the repository a newly created local branch lives in: an existing own one, else the enclosing shared one, else a new own
RepoForBranch(l) == IF l.br # "ref" THEN l.repo ELSE IF l.repo = "unused" THEN "own" ELSE IF l.above THEN "shared" ELSE "own"

(* Plan(l, k) = [out, lay]: out = "ok" | "already" (Already* error: nothing to do) | "refused" (an error before anything
   is touched); lay = the layout afterwards. *)
No(l, why) == [out |-> why, lay |-> l]
Yes(l) == [out |-> "ok", lay |-> l]
Plan(l, k) ==
    CASE k = "tree" ->
           IF l.tree /\ l.br = "local" THEN No(l, "already")
           ELSE Yes([l EXCEPT !.tree = TRUE, !.br = "local", !.repo = RepoForBranch(l)])
      [] k = "branch" ->
           IF ~l.tree /\ l.br = "local" THEN No(l, "already")
           ELSE IF l.tree /\ l.dirty THEN No(l, "refused")                                   \* UncommittedChanges
           ELSE Yes([l EXCEPT !.tree = FALSE, !.br = "local", !.repo = RepoForBranch(l), !.dirty = FALSE])
      [] k = "checkout" ->
           IF l.tree /\ l.br = "bound" THEN No(l, "already")
           ELSE Yes([l EXCEPT !.tree = TRUE, !.br = "bound", !.repo = RepoForBranch(l)])
      [] k = "lightweight-checkout" ->
           IF l.br = "ref" THEN No(l, "already")
           ELSE Yes([l EXCEPT !.tree = TRUE, !.br = "ref", !.repo = "none"])
      [] k = "use-shared" ->
           IF l.repo \in {"shared", "none"} THEN No(l, "already")
           ELSE IF l.repo = "unused" THEN Yes([l EXCEPT !.repo = "none"])
           ELSE IF ~l.above THEN No(l, "refused")                                            \* no shared repository to use
           ELSE Yes([l EXCEPT !.repo = "shared"])
      [] k = "standalone" ->
           IF l.repo \in {"own", "unused"} THEN No(l, "already")
           ELSE IF l.repo = "none" THEN Yes([l EXCEPT !.repo = "unused"])
           ELSE Yes([l EXCEPT !.repo = "own"])
\* AS IMPLEMENTED: upgrade.Convert.convert loops `while controldir.needs_format_conversion(format)`; the converter to
\* development-colo only rewrites the control directory's format marker, so when the repository at that control directory
\* is older than 2a the condition stays true for ever: the call does not return ("diverges").  Not a C52 clause (nothing is
\* lost), but the model has to know which calls never finish.
Diverges(ownRepoFmt, f) == f = "development-colo" /\ ownRepoFmt \in Formats /\ Rank(ownRepoFmt) < 3
PlanUpgrade(l, f) == IF Rank(f) < Rank(l.fmt) THEN No(l, "refused")
                     ELSE IF Diverges(IF l.repo \in {"own", "unused"} THEN l.fmt ELSE "none", f) THEN No(l, "diverges")
                     ELSE Yes([l EXCEPT !.fmt = f])
PlanUpgradeShared(l, f) ==
    IF Rank(f) < Rank(l.sfmt) THEN No(l, "refused")
    ELSE IF Diverges(l.sfmt, f) THEN No(l, "diverges")
    ELSE Yes([l EXCEPT !.sfmt = f, !.fmt = IF l.repo = "shared" /\ Rank(f) >= Rank(l.fmt) THEN f ELSE @])

(* what an observer of the location can see of the content *)
HasTree(l) == l.tree
TreeState(l) == IF ~l.tree THEN "none" ELSE IF l.dirty THEN "pending" ELSE "clean"

=============================================================================
