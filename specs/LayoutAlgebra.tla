--------------------------- MODULE LayoutAlgebra ---------------------------
(* Constant-level part of the layout model of C52 (see Layouts.tla): layouts, the plan of every operation, and what
   an observer of a location can see.  Shared by the state machine (Layouts) and the judge (LayoutsTrace). *)
EXTENDS Naturals, Sequences, FiniteSets, TLC

Formats == {"pack-0.92", "1.9", "2a", "development-colo"}
\* conversions only go to formats of at least the same rank (2a and development-colo share the repository format)
Rank(f) == CASE f = "pack-0.92" -> 1 [] f = "1.9" -> 2 [] OTHER -> 3
Targets == {"tree", "branch", "checkout", "lightweight-checkout", "use-shared", "standalone"}

\* how the master's tip relates to the location's own branch tip (a lightweight checkout has no tip of its own)
Syncs == {"same", "master-ahead", "local-ahead", "diverged"}
ValidLayout(l) ==
    /\ l.br \in {"local", "bound", "ref"} /\ l.repo \in {"own", "shared", "none", "unused"}
    /\ (l.br = "ref") = (l.repo \in {"none", "unused"})
    /\ (l.br = "ref" => l.tree) /\ (l.repo = "shared" => l.above) /\ (l.dirty => l.tree)
    /\ l.km \in BOOLEAN /\ l.pure \in BOOLEAN /\ (l.br # "local" => l.km)
    /\ l.sync \in Syncs /\ (l.br = "ref" => l.sync = "same") /\ l.pre \in BOOLEAN /\ (l.pre => l.above)
    /\ l.fmt \in Formats /\ l.mfmt \in Formats /\ (l.above = (l.sfmt \in Formats)) /\ (~l.above => l.sfmt = "none")

\* the repository a newly created local branch lives in: an existing own one, else the enclosing shared one, else a new own
RepoForBranch(l) == IF l.br # "ref" THEN l.repo ELSE IF l.repo = "unused" THEN "own" ELSE IF l.above THEN "shared" ELSE "own"

\* revisions of a 2a-level (rich-root) repository cannot be fetched into an older one: an operation that has to copy the
\* location's own repository's revisions into an (empty) older shared repository is refused (before anything is touched)
Compat(src, dst) == ~(Rank(src) = 3 /\ Rank(dst) < 3)

(* Plan(l, k) = [out, lay]: out = "ok" | "already" (Already* error: nothing to do) | "refused" (an error before anything
   is touched); lay = the layout afterwards. *)
No(l, why) == [out |-> why, lay |-> l]
Yes(l) == [out |-> "ok", lay |-> l]
Plan(l, k) ==
    CASE k = "tree" ->
           IF l.tree /\ l.br = "local" THEN No(l, "already")
           ELSE Yes([l EXCEPT !.tree = TRUE, !.br = "local", !.repo = RepoForBranch(l), !.km = (l.br # "ref")])
      [] k = "branch" ->
           IF ~l.tree /\ l.br = "local" THEN No(l, "already")
           ELSE IF l.tree /\ l.dirty THEN No(l, "refused")                                   \* UncommittedChanges
           ELSE Yes([l EXCEPT !.tree = FALSE, !.br = "local", !.repo = RepoForBranch(l), !.dirty = FALSE, !.km = (l.br # "ref")])
      [] k = "checkout" ->
           IF l.tree /\ l.br = "bound" THEN No(l, "already")
           \* AS IMPLEMENTED: apply() creates the working tree before it looks for a bind location; without one it raises
           \* NoBindLocation with the tree already made (nothing is lost, but the refusal is not a no-op)
           ELSE IF ~l.km THEN [out |-> "refused", lay |-> [l EXCEPT !.tree = TRUE, !.pure = (@ /\ l.tree)]]
           ELSE Yes([l EXCEPT !.tree = TRUE, !.br = "bound", !.repo = RepoForBranch(l)])
      [] k = "lightweight-checkout" ->
           IF l.br = "ref" /\ l.repo = "none" THEN No(l, "already")
           ELSE IF l.br = "ref" THEN Yes([l EXCEPT !.repo = "none"])                         \* drops the unused repository
           ELSE IF ~l.km THEN No(l, "refused")                                               \* NoBindLocation
           \* the local branch is about to be destroyed: only when the reference has exactly the same tip
           ELSE IF l.sync # "same" THEN No(l, "refused")                                     \* UnsyncedBranches
           \* the own repository's extra revisions have to go into the master's repository first
           ELSE IF l.repo = "own" /\ ~Compat(l.fmt, l.mfmt) THEN No(l, "refused")           \* IncompatibleRepositories
           ELSE Yes([l EXCEPT !.tree = TRUE, !.br = "ref", !.repo = "none"])
      [] k = "use-shared" ->
           IF l.repo \in {"shared", "none"} THEN No(l, "already")
           ELSE IF l.repo = "unused" THEN Yes([l EXCEPT !.repo = "none"])
           ELSE IF ~l.above THEN No(l, "refused")                                            \* no shared repository to use
           ELSE IF ~Compat(l.fmt, l.sfmt) THEN No(l, "refused")                              \* IncompatibleRepositories
           ELSE Yes([l EXCEPT !.repo = "shared"])
      [] k = "standalone" ->
           IF l.repo \in {"own", "unused"} THEN No(l, "already")
           ELSE IF l.repo = "none" THEN Yes([l EXCEPT !.repo = "unused"])
           ELSE Yes([l EXCEPT !.repo = "own", !.pre = TRUE])
(* Revisions OUTSIDE the tip's ancestry that the location still names - the target of a tag, a merge pending in the
   working tree.  AS IMPLEMENTED, apply() copies the whole old repository only when the location's OWN repository is
   destroyed (use-shared, own -> lightweight checkout); wherever a branch is re-made in another repository it fetches the
   tip's ancestry only (standalone out of a shared repository; tree / branch / checkout out of a lightweight checkout),
   and a branch that lived in a shared repository is turned into a reference without any fetch: the named revisions
   are then absent from the repository the location uses (the pending merge becomes a ghost). *)
DropsOffMainline(l, k) ==
    LET p == Plan(l, k) IN
    /\ p.out = "ok"
    /\ \/ (l.repo = "shared" /\ p.lay.repo \in {"own", "none"})
       \/ (l.br = "ref" /\ p.lay.br # "ref")

(* Upgrade(f) of the control directory at the location, AS IMPLEMENTED.  The components there: an own repository (if
   any), the branch (unless the location is a lightweight checkout), the working tree (if any).  Their on-disk formats
   depend on the control-dir format only through its level: repository KnitPack1 / KnitPack6 / 2a, branch 6 / 7 / 7,
   working tree 4 / 4 / 6 for pack-0.92 / 1.9 / {2a, development-colo}.
     * going to an OLDER format is refused (BadConversionTarget) when an own repository or a branch-format downgrade is
       involved; a downgrade that would only concern the working tree is not refused and not done either;
     * upgrade.Convert.convert loops `while controldir.needs_format_conversion(format)`; when no converter changes what
       that test looks at, the call never returns ("diverges"): going to development-colo while a component is older
       than the 2a level (the colo converter only rewrites the control directory's marker), and going from the 2a level
       "down" to 1.9 at a location that has a working tree but no repository of its own.
   None of this touches the content (nothing is lost: C52 holds there); the model needs it to know what to expect. *)
OwnRepo(l) == l.repo \in {"own", "unused"}
\* the repository find_repository() sees from the location: its own, else the enclosing shared one (even if unused)
SeenRepoFmt(l) == IF OwnRepo(l) THEN l.fmt ELSE IF l.above THEN l.sfmt ELSE "none"
OldComponent(l) ==      \* some component at the location is below the 2a level
    Rank(l.fmt) < 3 /\ (OwnRepo(l) \/ l.tree \/ (l.br # "ref" /\ l.fmt = "pack-0.92"))
\* a reconfiguration that worked may have created components (tree, branch, repository) in the library's DEFAULT formats
\* rather than the location's: the location is no longer `pure`, and what a later upgrade does there (convert, refuse or
\* diverge) is left unspecified by this model - its effect on the content is still judged
Impure(p) == IF p.out = "ok" THEN [out |-> "ok", lay |-> [p.lay EXCEPT !.pure = FALSE]] ELSE p
PlanUpgrade(l, f) ==
    IF f = "pack-0.92" /\ l.fmt # "pack-0.92" THEN No(l, "refused")
    ELSE IF SeenRepoFmt(l) \in Formats /\ ~Compat(SeenRepoFmt(l), f) THEN No(l, "refused")    \* BadConversionTarget
    ELSE IF Rank(f) < Rank(l.fmt)
         THEN (IF OwnRepo(l) THEN No(l, "refused") ELSE IF l.tree THEN No(l, "diverges") ELSE Yes(l))
    ELSE IF f = "development-colo" /\ OldComponent(l) THEN No(l, "diverges")
    ELSE Yes([l EXCEPT !.fmt = f])
\* upgrade of the enclosing shared repository: the repository itself, then (smart_upgrade) every branch that uses it
PlanUpgradeShared(l, f) ==
    IF Rank(f) < Rank(l.sfmt) THEN No(l, "refused")
    ELSE IF f = "development-colo" /\ Rank(l.sfmt) < 3 THEN No(l, "diverges")
    ELSE LET l2 == [l EXCEPT !.sfmt = f] IN
         IF l.repo # "shared" /\ l.br # "ref" THEN Yes(l2)          \* (a lightweight checkout below it is visited too)
         \* which of the dependent location's components end up converted is not modelled: later upgrades there are unspecified
         ELSE LET d == PlanUpgrade(l2, f) IN [out |-> d.out, lay |-> [d.lay EXCEPT !.pure = FALSE]]

(* what an observer of the location can see of the content *)
HasTree(l) == l.tree
TreeState(l) == IF ~l.tree THEN "none" ELSE IF l.dirty THEN "pending" ELSE "clean"

=============================================================================
