---------------------------- MODULE TreeDiffGen ----------------------------
(* E1 + E2 for C10: TLC enumerates the tree pairs (s, t, extras) with t reachable from a start tree s by at most
   MaxEdits edits (rename, reparent, swap of two sibling names, kind change, content change, exec-bit change, add,
   delete, an unversioned file dropped into a directory), checks the design laws of TreeDiff on every pair and every
   path filter of the family (non-empty sets of at most MaxFilter paths of either tree, the set of all paths, and that set without the root), and
   exports the pairs.  Start trees: every parent-closed subset of the ids at their home positions (Starts = "all") or
   only the full tree and the trees lacking one id (Starts = "few").
   One state pair per (s, t, extras); see the note at the variables. *)
EXTENDS TreeDiff, Json, IOUtils, SequencesExt
CONSTANTS MaxEdits, Starts, MaxFilter

HomeTree(V) == [i \in Ids |-> IF i \in V THEN Home(i) ELSE NoEntry]
ClosedSets == {V \in SUBSET Ids : "fda" \in V => "dd" \in V}
StartSets == IF Starts = "all" THEN ClosedSets
             ELSE {V \in ClosedSets : Cardinality(V) >= Cardinality(Ids) - 1}
StartTrees == {HomeTree(V) : V \in StartSets}

Other(k) == IF k = "file" THEN "directory" ELSE "file"
Candidates(t) ==
       {[t EXCEPT ![i].name = n] : i \in Versioned(t), n \in Names}                                   \* rename
  \cup {[t EXCEPT ![i].parent = q] : i \in Versioned(t), q \in Ids \cup {ROOT}}                       \* reparent
  \cup {[t EXCEPT ![i[1]].name = t[i[2]].name, ![i[2]].name = t[i[1]].name] :
          i \in {j \in Versioned(t) \X Versioned(t) : t[j[1]].parent = t[j[2]].parent}}               \* swap two names
  \cup {[t EXCEPT ![i] = Entry(t[i].parent, t[i].name, Other(t[i].kind), FALSE, 0)] : i \in Versioned(t)}  \* kind
  \cup {[t EXCEPT ![i].content = 1 - t[i].content] : i \in {j \in Versioned(t) : t[j].kind = "file"}}  \* content
  \cup {[t EXCEPT ![i].exec = ~t[i].exec] : i \in {j \in Versioned(t) : t[j].kind = "file"}}           \* exec bit
  \cup {[t EXCEPT ![i] = Home(i)] : i \in Ids \ Versioned(t)}                                          \* add
  \cup {[t EXCEPT ![i] = NoEntry] : i \in Versioned(t)}                                                \* delete
TreeSteps(t) == {u \in Candidates(t) : u # t /\ ValidTree(u)}
Dirs(t) == {ROOT} \cup {i \in Versioned(t) : t[i].kind = "directory"}
\* a point is <<t, tx>>; an edit changes the tree (extras in vanished directories vanish) or drops an unversioned file
StepsOf(x) == {<<u, x[2] \cap Dirs(u)>> : u \in TreeSteps(x[1])} \cup {<<x[1], x[2] \cup {d}>> : d \in Dirs(x[1]) \ x[2]}
RECURSIVE Reach(_, _)
Reach(S, n) == IF n = 0 THEN S ELSE Reach(S \cup UNION {StepsOf(x) : x \in S}, n - 1)
Pairs == UNION {{[s |-> s, t |-> x[1], tx |-> x[2]] : x \in Reach({<<s, {}>>}, MaxEdits)} : s \in StartTrees}

PathUnion(pp) == (Paths(pp.s) \cup Paths(pp.t)) \cup {<<>>}
FilterFamily(P) == ({F \in SUBSET P : Cardinality(F) <= MaxFilter} \cup {P, P \ {<<>>}}) \ {{}}
Query(pp, f, iu, wu) == [tx |-> SetToSeq(pp.tx), f |-> f, iu |-> iu, wu |-> wu]
SpecObs(x, q) == LET r == SetToSeq(SpecOut(x, q, FALSE)) w == SetToSeq(SpecOut(x, q, TRUE))
                 IN [chk |-> r, inv |-> r, old |-> r, ds |-> w, wt |-> w]

\* The pairs are computed once (TLCSet in an ASSUME publishes the value to every worker).  Every pair is an initial
\* state with ph = 0; its only step sets ph = 1, and the laws are evaluated there - so the (sequential) computation of
\* the initial states stays cheap and the law checks run on all workers.
ASSUME TLCSet(1, Pairs)
AllPairs == TLCGet(1)
VARIABLES p, ph
Init == p \in AllPairs /\ ph = 0
Next == ph = 0 /\ ph' = 1 /\ p' = p
\* the complete law text (as the trace module applies it) on the expected output of a few representative queries
FullQueries(pp) == {Query(pp, <<"all">>, TRUE, TRUE), Query(pp, <<"all">>, FALSE, FALSE),
                    Query(pp, <<"only", SetToSeq(PathUnion(pp) \ {<<>>})>>, TRUE, TRUE)}
LawsHoldOnSpec == ph = 1 =>
    LET x == Pair(p.s, p.t) g == GitPair(x) IN
    /\ ValidTree(p.s) /\ ValidTree(p.t)
    \* the declarative core, stated directly: Diff and Apply are inverse; the filter rule yields parent-complete deltas
    \* that contain every change inside the filter
    /\ Apply(p.s, x.d, p.t) = p.t
    /\ \A F \in FilterFamily(PathUnion(p)) :
          LET R == Restrict(x, F) q == Query(p, <<"only", SetToSeq(F)>>, FALSE, FALSE)
              W == RestrictTo(x, EmittedW(x, F))          \* the working-tree flavour of the filter
          IN /\ ParentsValid(Apply(p.s, R, p.t)) /\ CompleteOk(x, q, R) /\ R \subseteq x.d
             /\ ParentsValid(Apply(p.s, W, p.t)) /\ CompleteOk(x, q, W) /\ R \subseteq W
    /\ \A q \in FullQueries(p) : /\ Failed(x, q, SpecObs(x, q)) = {}
                                 /\ GitFailed(g, q, [rt |-> SetToSeq(GitSpecOut(g))]) = {}
                                 /\ DriftKeys(x, q, SpecObs(x, q)) = {}
\* anti-vacuity witnesses: TLC must find these states (one concrete pair each, so that few traces are printed)
Full == HomeTree(Ids)
At(s, t, tx) == ph = 1 /\ p.s = s /\ p.t = t /\ p.tx = tx
\* adding d/ and d/a, filter {d/a}: the delta must also carry the added parent, which the filter does not select
WitnessParentsRule == ~(/\ At(HomeTree({"fa"}), HomeTree({"fa", "dd", "fda"}), {})
                        /\ \E c \in Restrict(Pair(p.s, p.t), {<<"d", "a">>}) : c.id \notin Selected(Pair(p.s, p.t), {<<"d", "a">>}))
\* renaming d/ leaves the entry of d/a unchanged while its path changes
WitnessDirRenameChild == ~(/\ At(Full, [Full EXCEPT !["dd"].name = "c"], {})
                           /\ p.s["fda"] = p.t["fda"] /\ Path(p.s, "fda") # Path(p.t, "fda")
                           /\ Diff(p.s, p.t) = {ChangeOf(p.s, p.t, "dd")})
WitnessSwap == ~(/\ At(Full, [Full EXCEPT !["fa"].name = "b", !["fb"].name = "a"], {})
                 /\ Path(p.s, "fa") = Path(p.t, "fb") /\ Path(p.s, "fb") = Path(p.t, "fa"))
WitnessKindChange == ~(/\ At(Full, [Full EXCEPT !["fa"] = Entry(ROOT, "a", "directory", FALSE, 0)], {})
                       /\ ChangeOf(p.s, p.t, "fa").cc)
WitnessExtras == ~(/\ At(Full, [Full EXCEPT !["fb"].content = 1], {ROOT})
                   /\ Cardinality(SpecOut(Pair(p.s, p.t), Query(p, <<"all">>, FALSE, TRUE), TRUE)) = 2)
\* the filter rule guarantees parents, not unique names: a filtered delta can put an entry on a still-occupied name
\* (a -> c, b -> a, filter {b}: the delta moves b onto a while a is still there)
WitnessNameCollision == ~(/\ At(HomeTree({"fa", "fb"}), [HomeTree({"fa", "fb"}) EXCEPT !["fa"].name = "c", !["fb"].name = "a"], {})
                          /\ ~NamesUnique(Apply(p.s, Restrict(Pair(p.s, p.t), {<<"b">>}), p.t))
                          /\ ParentsValid(Apply(p.s, Restrict(Pair(p.s, p.t), {<<"b">>}), p.t)))
Export == JsonSerialize(IOEnv.VF_OUT, SetToSeq({[s |-> x.s, t |-> x.t, tx |-> SetToSeq(x.tx), paths |-> SetToSeq(PathUnion(x))] : x \in AllPairs}))
ASSUME IF "VF_OUT" \in DOMAIN IOEnv THEN Export ELSE TRUE
=============================================================================
