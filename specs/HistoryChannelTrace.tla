------------------------ MODULE HistoryChannelTrace ------------------------
(* E3 for C35 / C44: observations recorded from the real code are judged by the laws of HistoryChannel.
   One row per (history, experiment):
     kind = "native" (C35)  c = source history; o.rt = history fetched back from git (observed history record),
                            o.sha = tree SHAs per revision by the three computations + staged/one-shot commit SHAs,
                            o.git = what the git repository itself holds for every source revision (conformance),
                            o.ref = tree SHAs computed by the harness from the abstract tree (conformance)
     kind = "git"    (C35)  c = abstract history the git repository was built from; o = [ok, orig, exp]
     kind = "fast"   (C44)  c = source history; o = observed history record of the imported repository
   JSON arrays arrive as sequences; trees and tag sets are turned back into sets here.
   Output: rows with failed clauses (verdict), conformance mismatches (drift) or notes (informational). *)
EXTENDS HistoryChannel, TLC, Json, IOUtils, SequencesExt
Rows == JsonDeserialize(IOEnv.VF_IN)

SetOf(s) == {s[i] : i \in DOMAIN s}
Entry(e) == [p |-> e.p, k |-> e.k, c |-> e.c, x |-> e.x, o |-> e.o]
ObsEntry(e) == [p |-> e.p, k |-> e.k, c |-> e.c, x |-> e.x]
Meta(m) == [msg |-> m.msg, who |-> m.who, ts |-> m.ts, tz |-> m.tz]
Tags(s) == {[name |-> s[i].name, rev |-> s[i].rev] : i \in DOMAIN s}
Hist(c) == [P |-> c.P, T |-> [r \in 1..Len(c.P) |-> {Entry(c.T[r][i]) : i \in DOMAIN c.T[r]}],
            M |-> [r \in 1..Len(c.P) |-> Meta(c.M[r])], tags |-> Tags(c.tags), tip |-> c.tip]
\* an observed history; a failed operation has no history: every clause about it fails through ok = FALSE
Obs(o) == IF o.ok
          THEN [ok |-> TRUE, P |-> o.P, T |-> [r \in 1..Len(o.P) |-> {ObsEntry(o.T[r][i]) : i \in DOMAIN o.T[r]}],
                M |-> [r \in 1..Len(o.P) |-> Meta(o.M[r])], tags |-> Tags(o.tags), tip |-> o.tip, nrevs |-> o.nrevs]
          ELSE [ok |-> FALSE, P |-> <<>>, T |-> <<>>, M |-> <<>>, tags |-> {}, tip |-> 0, nrevs |-> 0]

\* SHA record: emitted objects and id lists become sets
Sha(s) == IF s.ok
          THEN [s EXCEPT !.emit = [r \in 1..Len(s.emit) |-> {[id |-> s.emit[r][i].id, refs |-> SetOf(s.emit[r][i].refs)] : i \in DOMAIN s.emit[r]}],
                         !.full = [r \in 1..Len(s.full) |-> SetOf(s.full[r])],
                         !.commits = SetOf(s.commits)]
          ELSE s
Failed(row) == LET h == Hist(row.c) IN
    CASE row.kind = "native" -> GitFailed(h, Obs(row.o.rt)) \cup Git2Failed(h, Obs(row.o.rt2)) \cup ShaFailed(h, Sha(row.o.sha))
      [] row.kind = "git"    -> IF LawGitOrigin(h, row.o) THEN {} ELSE {"origin"}
      [] row.kind = "fast"   -> FastFailed(h, Obs(row.o))

\* conformance (drift): the stricter readings and the intermediate observations
Drift(row) == LET h == Hist(row.c) IN
    CASE row.kind = "native" ->
           LET o == Obs(row.o.rt) IN
           {n \in {"exact", "gitside", "ref"} :
              CASE n = "exact"   -> o.ok /\ LawGitTrees(h, o) /\ ~GitTreesExact(h, o)
                [] n = "gitside" -> row.o.git.ok /\ \E r \in 1..Len(row.o.git.T) :
                                        {ObsEntry(row.o.git.T[r][i]) : i \in DOMAIN row.o.git.T[r]} # Carried(h.T[r])
                [] n = "ref"     -> row.o.sha.ok /\ row.o.ref # row.o.sha.scratch}
      [] row.kind = "git"  -> {}
      [] row.kind = "fast" -> {}
\* informational: empty directories are outside both properties' projections; count where they differ
Notes(row) == LET h == Hist(row.c) IN
    CASE row.kind = "fast" -> IF Obs(row.o).ok /\ LawFastTrees(h, Obs(row.o)) /\ ~FastExact(h, Obs(row.o)) THEN {"emptydirs"} ELSE {}
      [] OTHER -> {}

VARIABLE i
Init == i \in 1..Len(Rows)
Next == UNCHANGED i
Bad == SelectSeq([k \in 1..Len(Rows) |->
                    [row |-> k, failed |-> SetToSeq(Failed(Rows[k])), drifts |-> SetToSeq(Drift(Rows[k])),
                     notes |-> SetToSeq(Notes(Rows[k]))]],
                 LAMBDA r : r.failed # <<>> \/ r.drifts # <<>> \/ r.notes # <<>>)
ASSUME JsonSerialize(IOEnv.VF_OUT, [n |-> Len(Rows), bad |-> Bad])
=============================================================================
