----------------------------- MODULE UncommitMC -----------------------------
(* C16, design check on behaviours: from every small world (graph, tip, pending merges, <= 2 tags anywhere,
   standalone / bound) any sequence of Commit and Uncommit(n, keep_tags) of the TRANSCRIPTION (Uncommit!CommitStep,
   UncommitStep) is explored; the last two steps are remembered, so that the laws of C16 are invariants:
       LawsHold      every Uncommit step satisfies the tip / revno / pending / tag / master laws
       InverseHolds  Commit . Uncommit(1) restores tip, revno and the tree's parent list
   Guarded = TRUE leaves out commits on a NULL branch tip whose tree still lists parents (the state uncommit leaves
   when it removes a whole mainline that had merges): there the transcription - and the code - record revno 1 for a
   revision whose left-hand history is longer, and the following uncommit moves the tip to that left-hand parent with
   revno 0 instead of back to null.  With Guarded = FALSE TLC must find exactly that (harness replays the trace). *)
EXTENDS Uncommit, TLC
CONSTANTS InitRev,     \* initial graphs have 0..InitRev revisions
          MaxRev,      \* commits until the graph has MaxRev revisions
          MaxPar, MaxN, TagNames, Guarded
VARIABLES s, bound, h          \* h: the last <= 2 steps as [pre |-> state before, act |-> action]
vars == <<s, bound, h>>

ParentLists(k) ==
    {<<>>} \cup UNION {{<<l>> \o rest : rest \in DistinctSeqs((1..(k - 1)) \ {l}, MaxPar - 1)} : l \in 1..(k - 1)}
RECURSIVE GraphsOf(_)
GraphsOf(n) == IF n = 0 THEN {<<>>} ELSE {Append(P, ps) : P \in GraphsOf(n - 1), ps \in ParentLists(n)}
GHeads(P) == DOMAIN P \ UNION {ParentSet(P, r) : r \in DOMAIN P}
\* a tree whose parents are exactly the heads of the graph (nothing unrelated lies around): tip first, any order
TreesOf(P) == LET H == GHeads(P)
              IN UNION {{<<t>> \o q : q \in {x \in DistinctSeqs(H \ {t}, 2) : Len(x) = Cardinality(H) - 1}} : t \in H}
TagSets(P) == {T \in SUBSET (TagNames \X DOMAIN P) : \A a, b \in T : a[1] = b[1] => a = b}
Worlds == {St(<<>>, Null, 0, <<>>, {}, 0, 0)}
          \cup UNION {{St(P, w[1], Len(LH(P, w[1])), w, T, 0, 0) : w \in TreesOf(P), T \in TagSets(P)}
                      : P \in {Q \in UNION {GraphsOf(m) : m \in 1..InitRev} : Cardinality(GHeads(Q)) <= 3}}

Init == /\ bound \in BOOLEAN
        /\ \E w \in Worlds : s = IF bound THEN [w EXCEPT !.mtip = w.tip, !.mrevno = w.revno] ELSE w
        /\ h = <<>>
Push(a) == h' = (IF Len(h) = 2 THEN <<h[2]>> ELSE h) \o <<[pre |-> s, act |-> a]>>
Commit == /\ Len(s.P) < MaxRev /\ CommitEnabled(s)
          /\ Guarded => ~(s.tip = Null /\ s.wtp # <<>>)
          /\ s' = CommitStep(s, bound) /\ Push(ActCommit) /\ UNCHANGED bound
Uncommit(n, keep) == /\ UncommitEnabled(s, n)
                     /\ s' = UncommitStep(s, bound, n, keep) /\ Push(ActUncommit(n, keep)) /\ UNCHANGED bound
Next == Commit \/ \E n \in 1..MaxN, keep \in BOOLEAN : Uncommit(n, keep)
Spec == Init /\ [][Next]_vars

Last == h[Len(h)]
TreeWellFormed ==
    /\ NoDup(s.wtp) /\ s.tip \in DOMAIN s.P \cup {Null} /\ SeqRange(s.wtp) \subseteq DOMAIN s.P
    /\ (s.tip # Null => (s.wtp # <<>> /\ s.wtp[1] = s.tip /\ SeqRange(Rest(s.wtp)) = HeadsF(s.P, SeqRange(s.wtp)) \ {s.tip}))
    /\ (bound => (s.mtip = s.tip /\ s.mrevno = s.revno))
    /\ \A a, b \in s.tags : a[1] = b[1] => a = b
RevnoConsistent == s.revno = Len(LH(s.P, s.tip))
LawsHold == (h # <<>> /\ Last.act.op = "uncommit") =>
                UncommitFailed(s.P, bound, AsObs(Last.pre), Last.act, AsObs(s)) = {}
InverseHolds == (Len(h) = 2 /\ h[1].act.op = "commit" /\ h[2].act.op = "uncommit" /\ h[2].act.n = 1) =>
                LawInverse(AsObs(h[1].pre), AsObs(s))
\* anti-vacuity, evaluated by TLC at start-up: the explored space contains the interesting situations and the
\* transcription answers them as documented
ExNullTipWithParents ==        \* uncommitting the whole mainline under a pending merge: null tip, tree keeps a parent
    LET w == St(<<<<>>, <<>>>>, 1, 1, <<1, 2>>, {}, 0, 0)
        u == UncommitStep(w, FALSE, 1, FALSE)
    IN w \in Worlds /\ u.tip = Null /\ u.revno = 0 /\ u.wtp = <<2>>
ExTagDropped ==
    LET w == St(<<<<>>, <<1>>>>, 2, 2, <<2>>, {<<"a", 1>>, <<"b", 2>>}, 0, 0)
    IN ({"a", "b"} \subseteq TagNames => w \in Worlds)
       /\ UncommitStep(w, FALSE, 1, FALSE).tags = {<<"a", 1>>} /\ UncommitStep(w, FALSE, 1, TRUE).tags = w.tags
ExHeadFiltered ==              \* 3 = merge of side 2; pending 4 descends from 2: only 4 is re-recorded
    LET w == St(<<<<>>, <<1>>, <<1, 2>>, <<2>>>>, 3, 2, <<3, 4>>, {}, 0, 0)
    IN (InitRev >= 4 => w \in Worlds) /\ UncommitStep(w, FALSE, 1, FALSE).wtp = <<1, 4>>
ExInverseWithPending ==
    LET w == St(<<<<>>, <<>>, <<>>>>, 1, 1, <<1, 2, 3>>, {}, 0, 0)
        c == CommitStep(w, FALSE)
    IN (InitRev >= 3 => w \in Worlds) /\ c.P[4] = <<1, 2, 3>> /\ c.wtp = <<4>> /\ UncommitStep(c, FALSE, 1, FALSE).wtp = <<1, 2, 3>>
ASSUME ExNullTipWithParents /\ ExTagDropped /\ ExHeadFiltered /\ ExInverseWithPending
=============================================================================
