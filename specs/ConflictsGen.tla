---------------------------- MODULE ConflictsGen ----------------------------
(* E1 + E2 for C20: TLC enumerates conflict lists and selections, checks the laws on Conflicts!Select and exports
   the case table.
     singles : every well-formed conflict over the path / file-id universe, alone in a list, x every selection of at
               most two paths (including the root) x recurse
     lists   : every list of 2..MaxList conflicts from a mixed universe of twelve x a few selections
     mm      : every ORDERED selection of the three versioned files (Full: and the unversioned one), each recorded
               with its current hash and then left alone / un-versioned / modified, or recorded with a stale hash:
               stale records in first, middle and last position of the merge-hashes file *)
EXTENDS Conflicts, TLC, Json, IOUtils
CONSTANTS MaxList,      \* longest conflict list
          Full          \* TRUE: all singles; FALSE: singles restricted to two paths and file ids {none, id of a}
A == <<"a">>  D == <<"d">>  DA == <<"d", "a">>  E == <<"e">>  DDA == <<"d", "d", "a">>  Root == <<>>
\* the real tree: versioned a, d, d/a, d/d, d/d/a; e exists but is not versioned
Tree == << [path |-> Root, id |-> "froot"], [path |-> A, id |-> "fa"], [path |-> D, id |-> "fd"],
           [path |-> DA, id |-> "fda"], [path |-> <<"d", "d">>, id |-> "fdd"], [path |-> DDA, id |-> "fdda"] >>
CPaths == IF Full THEN {A, D, DA, E, DDA} ELSE {A, DA}               \* paths a conflict may mention
Fids == IF Full THEN {None, "fa", "fd", "fx"} ELSE {None, "fa"}
SelPaths == {Root, A, D, DA, E}                                       \* paths given to select / resolve
Act(t) == IF t \in ActionTypes THEN {"act1"} ELSE {None}
Singles ==
    {k \in UNION {[type : {t}, path : CPaths,
                   cpath : (IF t \in TwoPathTypes THEN {} ELSE {<<>>})
                           \cup (IF t \in TwoPathTypes \cup OptPathTypes THEN {<<p>> : p \in CPaths} ELSE {}),
                   fid : Fids, cfid : IF t \in TwoPathTypes THEN Fids ELSE {None},
                   action : Act(t)] : t \in Types} : WellFormed(k)}
Selections == {SetToSeq(S) : S \in {T \in SUBSET SelPaths : Cardinality(T) <= 2}}
K(t, p, cp, f, cf, a) == [type |-> t, path |-> p, cpath |-> cp, fid |-> f, cfid |-> cf, action |-> a]
Mixed == { K("text conflict", A, <<>>, "fa", None, None),          K("text conflict", DA, <<>>, None, None, None),
           K("contents conflict", A, <<>>, "fa", None, None),       K("path conflict", A, <<DA>>, "fa", None, None),
           K("path conflict", E, <<D>>, None, None, None),          K("duplicate id", A, <<D>>, "fa", "fd", "act1"),
           K("duplicate", DA, <<A>>, None, "fx", "act2"),           K("parent loop", D, <<E>>, "fd", None, "act1"),
           K("unversioned parent", D, <<>>, "fd", None, "act1"),    K("missing parent", E, <<>>, None, None, "act2"),
           K("deleting parent", DDA, <<>>, "fdda", None, "act2"),   K("non-directory parent", A, <<>>, "fa", None, "act1") }
ListSelections == {<<>>, <<A>>, <<D>>, <<DA, E>>}
SelCases ==
    {[kind |-> "sel", list |-> <<k>>, tree |-> Tree, paths |-> s, recurse |-> r] :
        k \in Singles, s \in Selections, r \in BOOLEAN}
    \cup {[kind |-> "sel", list |-> l, tree |-> Tree, paths |-> s, recurse |-> r] :
        l \in UNION {[1..n -> Mixed] : n \in 2..MaxList}, s \in ListSelections, r \in BOOLEAN}
    \cup {[kind |-> "sel", list |-> <<>>, tree |-> Tree, paths |-> <<A>>, recurse |-> FALSE]}
MmVersioned == <<"a", "da", "dda">>
MmNames == <<"a", "da", "dda", "e">>
MmStates(n) == IF n = "e" THEN {[hash |-> "cur", after |-> "same"]}            \* never versioned: not even recorded
               ELSE {[hash |-> "cur", after |-> "same"], [hash |-> "cur", after |-> "unv"],
                     [hash |-> "cur", after |-> "mod"], [hash |-> "old", after |-> "same"]}
MmOrders == {o \in UNION {[1..k -> (IF Full THEN Range(MmNames) ELSE Range(MmVersioned))] : k \in 0..4} :
                \A i, j \in DOMAIN o : i # j => o[i] # o[j]}
RECURSIVE MmRecs(_)
MmRecs(o) == IF o = <<>> THEN {<<>>}
             ELSE {<<[name |-> Head(o), hash |-> st.hash, after |-> st.after]>> \o t : st \in MmStates(Head(o)), t \in MmRecs(Tail(o))}
MmCases == {[kind |-> "mm", recs |-> r, versioned |-> MmVersioned, names |-> MmNames] : r \in UNION {MmRecs(o) : o \in MmOrders}}
\* a stale record (un-versioned / modified / wrong hash) in front of, between, and behind live records
StaleAt(x, i) == ~Live(x, x.recs[i])
ASSUME \E x \in MmCases : Len(x.recs) = 3 /\ StaleAt(x, 1) /\ x.recs[1].after = "unv" /\ Live(x, x.recs[2]) /\ Live(x, x.recs[3])
ASSUME \E x \in MmCases : Len(x.recs) = 3 /\ Live(x, x.recs[1]) /\ StaleAt(x, 2) /\ Live(x, x.recs[3])
ASSUME \E x \in MmCases : Len(x.recs) = 3 /\ Live(x, x.recs[1]) /\ Live(x, x.recs[2]) /\ StaleAt(x, 3)
VARIABLE c
Init == c \in SelCases \/ c \in MmCases
Next == UNCHANGED c
LawsHoldOnSpec == /\ Failed(c, SpecOut(c)) = {} /\ Conforms(c, SpecOut(c))
                  /\ (c.kind = "sel" => \A i \in DOMAIN c.list : WellFormed(c.list[i]))
\* anti-vacuity: WitnessPartial is an invariant TLC must violate; the other shapes are assumptions evaluated in the
\* generating run itself (a false assumption fails the run).
Sp(x) == Select(x.list, x.tree, Range(x.paths), x.recurse)
HasPartial(x) == Sp(x).selected # <<>> /\ Sp(x).kept # <<>>
HasById(x) == /\ Len(x.list) = 1 /\ Sp(x).selected # <<>>
              /\ ~PathHit(Range(x.paths), TRUE, x.list[1].path) /\ x.list[1].cpath = <<>>
HasRecurseOnly(x) == x.recurse /\ Sp(x).selected # <<>> /\ Select(x.list, x.tree, Range(x.paths), FALSE).selected = <<>>
HasByConflictPath(x) == /\ Len(x.list) = 1 /\ Sp(x).selected # <<>> /\ x.paths # <<>>
                        /\ ~PathHit(Range(x.paths), x.recurse, x.list[1].path)
                        /\ ~IdHit(x.tree, Range(x.paths), x.list[1].fid) /\ ~IdHit(x.tree, Range(x.paths), x.list[1].cfid)
WitnessPartial == ~(c.kind = "sel" /\ HasPartial(c))
ASSUME \E x \in SelCases : HasById(x)
ASSUME \E x \in SelCases : HasRecurseOnly(x)
ASSUME \E x \in SelCases : HasByConflictPath(x)
Export == JsonSerialize(IOEnv.VF_OUT, SetToSeq({[c |-> x, spec |-> SpecOut(x)] : x \in SelCases})
                                      \o SetToSeq({[c |-> x, spec |-> SpecOut(x)] : x \in MmCases}))
ASSUME IF "VF_OUT" \in DOMAIN IOEnv THEN Export ELSE TRUE
=============================================================================
