----------------------------- MODULE ShelfGen -----------------------------
(* E1 + E2 for C15: TLC enumerates every valid change set D of at most MaxEdits atoms - and, because the kinds of change
   interact within ONE file (a kept rename with a shelved hunk, a kept hunk with a shelved one ...), every valid change
   set of at most MaxSame atoms that all concern the same file - and every selection S of the
   offered units (hunk-granular), checks the laws and the algebra of the model on every case (one initial state per
   case), and exports the case table with the expected projections. *)
EXTENDS Shelf, Json, IOUtils, FiniteSetsExt
CONSTANTS MaxEdits, MaxSame
OfFile(f) == {x \in AllAtoms : x.f = f}
Deltas == {D \in UNION {kSubset(k, AllAtoms) : k \in 1..MaxEdits} : Valid(D)}
          \cup {D \in UNION {UNION {kSubset(k, OfFile(f)) : k \in {j \in (MaxEdits + 1)..MaxSame : j <= Cardinality(OfFile(f))}}
                            : f \in FileNames} : Valid(D)}
Case(D, S) == [D |-> SetToSeq(D), S |-> SetToSeq(S)]
CaseSet == UNION {{Case(D, S) : S \in SUBSET Units(D)} : D \in Deltas}
VARIABLE c
Init == c \in CaseSet
Next == UNCHANGED c
LawsHoldOnSpec ==
    LET D == D_(c)  S == S_(c) IN
    /\ Failed(c, SpecOut(D, S)) = {} /\ PreOk(c, SpecOut(D, S))
    \* what stays in the tree is again a valid change set, and shelved + kept is a partition of D
    /\ Valid(Kept(D, S)) /\ Shelved(D, S) \subseteq D
    \* every selected unit takes at least one atom out of the tree; unselected units keep all of theirs
    /\ \A u \in S \ NullUnits(D) : \E x \in Shelved(D, S) : Unit(x) = u
    /\ \A x \in Kept(D, S) : Unit(x) \notin S \/ (x.k \notin Gone /\ KS(D, x.f) \cap Gone # {})
    \* shelving everything that is offered leaves only what can never be offered
    /\ (S = Units(D) => \A x \in Kept(D, S) : x.k = "exec" \/ KS(D, x.f) \cap Gone # {})
    \* distinct selections give distinct trees (a selection is observable)
    /\ \A T \in SUBSET Units(D) : T \ NullUnits(D) # S \ NullUnits(D) => Tree(Kept(D, T)) # Tree(Kept(D, S))
\* anti-vacuity witnesses: TLC must find these states
WitnessOneHunkOfTwo == ~(At("a", "modA") \in S_(c) /\ At("a", "modB") \in D_(c) /\ At("a", "modB") \notin S_(c))
WitnessRenameKeptEditShelved == ~(At("a", "ren") \in Kept(D_(c), S_(c)) /\ At("a", "modA") \in Shelved(D_(c), S_(c)))
WitnessExecStays == ~(At("a", "exec") \in D_(c) /\ S_(c) = Units(D_(c)) /\ S_(c) # {})
\* a file keeps its new path and one edited region while the other region is shelved: the text merge of the unshelve then
\* runs on a file whose path differs between the tree and the shelf
WitnessMovedFileHunk == ~(At("a", "ren") \in Kept(D_(c), S_(c)) /\ At("a", "modB") \in Kept(D_(c), S_(c))
                          /\ At("a", "modA") \in Shelved(D_(c), S_(c)))
WitnessManyFiles == ~(Cardinality({x.f : x \in Shelved(D_(c), S_(c))}) = (IF MaxEdits >= 3 THEN 3 ELSE 2))
Export == JsonSerialize(IOEnv.VF_OUT, SetToSeq({[c |-> x, spec |-> SpecOut(D_(x), S_(x))] : x \in CaseSet}))
ASSUME IF "VF_OUT" \in DOMAIN IOEnv THEN Export ELSE TRUE
=============================================================================
