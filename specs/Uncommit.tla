------------------------------ MODULE Uncommit ------------------------------
(* Commit and uncommit on a branch with a working tree (breezy/uncommit.py uncommit(), Rust breezy._cmd_rs
   uncommit.remove_tags = src/uncommit.rs, WorkingTree.set_parent_ids/_filter_parent_ids_by_ancestry,
   breezy/commit.py Commit._update_branches) - property C16.

   World: a revision graph P of lib/Dag (P[r] = ordered parent list, revisions 1..n in creation order, Null = 0),
   and one branch with a working tree:
       tip, revno   what the branch RECORDS (last-revision file: both are stored, revno is not recomputed)
       wtp          the working tree's parent list: first parent = tip, the rest = pending merges
                    (a tree on a null tip has no null first parent: its list is just the pending list)
       tags         set of <<name, revision>> pairs (a function of the name)
       mtip, mrevno the master branch's record when the branch is bound (else 0, 0)

   This module holds (1) the TRANSCRIPTION of the two operations (CommitStep, UncommitStep: the left-hand walk that
   collects merged parents, the head filter of set_parent_ids, the tag removal over find_unique_ancestors), which fixes
   also the ORDER of the re-recorded pending merges, and (2) the LAWS of C16 stated on OBSERVED pre/post states, so
   the same text judges the transcription (UncommitMC, UncommitGen) and the real code (UncommitTrace). *)
EXTENDS Dag, Integers

(* ---- cheap ancestry (fixpoint; no ghosts in this universe, an absent revision has no parents) *)
RECURSIVE Close(_, _)
Close(P, S) == LET N == S \cup UNION {ParentSet(P, x) : x \in S} IN IF N = S THEN S ELSE Close(P, N)
AncOf(P, S) == Close(P, S \ {Null})
Anc(P, r) == AncOf(P, {r})
HeadsF(P, S) == LET T == S \ {Null} IN {x \in T : \A y \in T \ {x} : x \notin Anc(P, y)}     \* graph.heads
Antichain(P, S) == HeadsF(P, S) = S \ {Null}
LH(P, r) == LeftHand(P, r)                                      \* oldest first; its length is the graph's revno of r
RevSeq(s) == [i \in 1..Len(s) |-> s[Len(s) + 1 - i]]
Rest(s) == IF s = <<>> THEN <<>> ELSE Tail(s)
NoDup(s) == \A i, j \in DOMAIN s : i # j => s[i] # s[j]

(* ---- actions as data *)
\* tree = FALSE: uncommit(branch, tree=None) - the working tree (if any) is not told; refuse = TRUE: the master of a bound
\* branch rejects the tip change (pre_change_branch_tip hook raising TipChangeRejected)
ActCommit == [op |-> "commit", n |-> 0, keep |-> FALSE, tree |-> TRUE, refuse |-> FALSE]
ActUncommit(n, keep) == [op |-> "uncommit", n |-> n, keep |-> keep, tree |-> TRUE, refuse |-> FALSE]
ActUncommitNoTree(n, keep) == [op |-> "uncommit", n |-> n, keep |-> keep, tree |-> FALSE, refuse |-> FALSE]
ActUncommitRefused(n, keep) == [op |-> "uncommit", n |-> n, keep |-> keep, tree |-> TRUE, refuse |-> TRUE]

(* ---- state of the world as the spec keeps it *)
St(P, tip, revno, wtp, tags, mtip, mrevno) ==
    [P |-> P, tip |-> tip, revno |-> revno, wtp |-> wtp, tags |-> tags, mtip |-> mtip, mrevno |-> mrevno]

(* ============================ transcription ============================ *)
\* Commit._update_branches: the new revision's parents are the tree's parent list; revno is old revno + 1
CommitStep(s, bound) ==
    LET new == Len(s.P) + 1
    IN [s EXCEPT !.P = Append(s.P, s.wtp), !.tip = new, !.revno = s.revno + 1, !.wtp = <<new>>,
                 !.mtip = IF bound THEN new ELSE @, !.mrevno = IF bound THEN s.revno + 1 ELSE @]
CommitEnabled(s) == s.tip = Null \/ (s.wtp # <<>> /\ s.wtp[1] = s.tip)          \* _check_out_of_date_tree

\* the loop over graph.iter_lefthand_ancestry(old_tip): pending_merges.extend(reversed(parents[1:])), newest first
RECURSIVE Collect(_, _, _)
Collect(P, xs, pm) == IF xs = <<>> THEN pm ELSE Collect(P, Tail(xs), pm \o RevSeq(Rest(P[Head(xs)])))
\* WorkingTree._filter_parent_ids_by_ancestry: the first id always stays, later ones only if heads and not yet listed
RECURSIVE FilterRest(_, _, _)
FilterRest(rest, heads, acc) ==
    IF rest = <<>> THEN acc
    ELSE FilterRest(Tail(rest), heads,
                    IF Head(rest) \in heads /\ Head(rest) \notin SeqRange(acc) THEN Append(acc, Head(rest)) ELSE acc)
FilterParents(P, ids) == IF ids = <<>> THEN <<>> ELSE FilterRest(Tail(ids), HeadsF(P, SeqRange(ids)), <<ids[1]>>)

UncommitEnabled(s, n) == n >= 1 /\ n <= s.revno /\ n <= Len(LH(s.P, s.tip))
UncommitStepT(s, bound, n, keep, tree) ==
    LET lh == LH(s.P, s.tip)
        L == Len(lh)
        removed == [i \in 1..n |-> lh[L + 1 - i]]                         \* newest first
        newtip == IF L > n THEN lh[L - n] ELSE Null                        \* for/else: ran off the end -> null:
        pm == Collect(s.P, removed, IF tree THEN Rest(s.wtp) ELSE <<>>)    \* tree.get_parent_ids()[1:] first
        parents == (IF newtip = Null THEN <<>> ELSE <<newtip>>) \o (IF tree THEN RevSeq(pm) ELSE <<>>)
        ua == Anc(s.P, s.tip) \ AncOf(s.P, SeqRange(parents))              \* find_unique_ancestors(old_tip, parents)
    IN [s EXCEPT !.tip = newtip, !.revno = s.revno - n, !.wtp = IF tree THEN FilterParents(s.P, parents) ELSE @,
                 !.tags = IF keep THEN @ ELSE {t \in @ : t[2] \notin ua},
                 !.mtip = IF bound THEN newtip ELSE @, !.mrevno = IF bound THEN s.revno - n ELSE @]

UncommitStep(s, bound, n, keep) == UncommitStepT(s, bound, n, keep, TRUE)
\* the master is written first (master.set_last_revision_info): when it refuses, nothing has changed anywhere
Step(s, bound, a) == IF a.op = "commit" THEN CommitStep(s, bound)
                     ELSE IF a.refuse THEN s
                     ELSE UncommitStepT(s, bound, a.n, a.keep, a.tree)
Enabled(s, a) == IF a.op = "commit" THEN CommitEnabled(s) ELSE UncommitEnabled(s, a.n)        \* refuse: bound only (UncommitGen)
RECURSIVE RunFrom(_, _, _, _)
RunFrom(s, bound, acts, i) == IF i > Len(acts) THEN <<s>> ELSE <<s>> \o RunFrom(Step(s, bound, acts[i]), bound, acts, i + 1)
Run(s, bound, acts) == RunFrom(s, bound, acts, 1)                          \* Len(acts) + 1 states

(* ================================ laws ================================
   G: the graph; pre, post: observed states (fields tip, revno, wtp, tags as a set of pairs, mtip, mrevno, files,
   changes; files / changes are opaque digests of the working files and of the iter_changes listing). *)
ExpTip(G, pre, n) == LET lh == LH(G, pre.tip) IN IF Len(lh) > n THEN lh[Len(lh) - n] ELSE Null
Removed(G, pre, n) == LET lh == LH(G, pre.tip) IN {lh[i] : i \in {j \in DOMAIN lh : j > Len(lh) - n}}
\* what has to be re-recorded: the new tip, what was pending before, the merged parents of the removed mainline revisions
Cand(G, pre, n) == {ExpTip(G, pre, n)} \cup SeqRange(Rest(pre.wtp)) \cup UNION {SeqRange(Rest(G[x])) : x \in Removed(G, pre, n)}
Pending(o) == IF o.tip # Null THEN SeqRange(Rest(o.wtp)) ELSE SeqRange(o.wtp)

\* "moves the tip to the requested left-hand ancestor"
LawTip(G, pre, n, post) == post.tip = ExpTip(G, pre, n)
LawRevno(G, pre, n, post) == post.revno = pre.revno - n
\* "re-records the merged revisions it removed as pending merges": as a SET, the heads of the candidates beside the
\* new tip (set_parent_ids drops parents that are ancestors of other parents).  On a null new tip the tree's list is
\* just the pending list and its first entry is never filtered: there every candidate head must be listed, nothing
\* but candidates, i.e. the same revisions are reachable.
LawPending(G, pre, n, post) ==
    LET nt == ExpTip(G, pre, n)
        S == Cand(G, pre, n)
    IN /\ NoDup(post.wtp)
       /\ post.tip # Null => (post.wtp # <<>> /\ post.wtp[1] = post.tip)
       /\ IF nt # Null THEN Pending(post) = HeadsF(G, S) \ {nt}
          ELSE Pending(post) \subseteq S /\ HeadsF(G, Pending(post)) = HeadsF(G, S)
\* "tags pointing only at removed revisions are dropped unless asked to keep them" - removed = UniqueAncestors(old tip,
\* new parents); every other tag stays as it was
\* without a working tree nothing is re-recorded: the removed region is everything the new tip does not reach
Gone(G, pre, post, tree) == Anc(G, pre.tip) \ AncOf(G, (IF tree THEN SeqRange(post.wtp) ELSE {}) \cup {post.tip})
LawTagsDropped(G, pre, keep, post, tree) == keep \/ \A t \in post.tags : ~(t \in pre.tags /\ t[2] \in Gone(G, pre, post, tree))
LawTagsKept(G, pre, keep, post, tree) ==
    /\ post.tags \subseteq pre.tags
    /\ \A t \in pre.tags : (keep \/ t[2] \notin Gone(G, pre, post, tree)) => t \in post.tags
\* bound: the master follows
LawMaster(bound, post) == bound => (post.mtip = post.tip /\ post.mrevno = post.revno)
\* uncommit never touches the working files
LawFiles(pre, post) == post.files = pre.files
\* Commit . Uncommit(1) = identity on what the property names
LawInverse(before, after) ==
    /\ after.tip = before.tip /\ after.revno = before.revno /\ after.wtp = before.wtp
    /\ after.files = before.files /\ after.changes = before.changes

UncommitLawNames == {"tip", "revno", "pending", "tagsdropped", "tagskept", "master", "files"}
UncommitLaw(name, G, bound, pre, a, post) ==
    CASE name = "tip" -> LawTip(G, pre, a.n, post)
      [] name = "revno" -> LawRevno(G, pre, a.n, post)
      [] name = "pending" -> LawPending(G, pre, a.n, post)
      [] name = "tagsdropped" -> LawTagsDropped(G, pre, a.keep, post, a.tree)
      [] name = "tagskept" -> LawTagsKept(G, pre, a.keep, post, a.tree)
      [] name = "master" -> LawMaster(bound, post)
      [] name = "files" -> LawFiles(pre, post)
\* a bound uncommit that its master refuses undoes nothing: "uncommit undoes commit" in both branches or in neither
LawRefused(pre, post) == post.tip = pre.tip /\ post.revno = pre.revno /\ post.mtip = pre.mtip /\ post.mrevno = pre.mrevno
                         /\ post.mtip = post.tip
NoTreeLawNames == {"tip", "revno", "tagsdropped", "tagskept", "master"}          \* the tree laws do not apply
UncommitFailed(G, bound, pre, a, post) ==
    IF a.refuse THEN (IF LawRefused(pre, post) THEN {} ELSE {"refused"})
    ELSE {nm \in (IF a.tree THEN UncommitLawNames ELSE NoTreeLawNames) : ~UncommitLaw(nm, G, bound, pre, a, post)}

(* A behaviour: obs[1] the initial observation, obs[i + 1] the observation after acts[i]; graphs[i] the graph before
   acts[i].  Failed laws of the whole behaviour (law names; "inverse" for Commit . Uncommit(1)). *)
BehaviourFailed(graphs, bound, acts, obs) ==
    UNION {IF acts[i].op = "uncommit" THEN UncommitFailed(graphs[i], bound, obs[i], acts[i], obs[i + 1]) ELSE {}
           : i \in DOMAIN acts}
    \cup (IF \E i \in DOMAIN acts : i > 1 /\ acts[i].op = "uncommit" /\ acts[i].n = 1 /\ acts[i - 1].op = "commit"
                                    /\ acts[i].tree /\ ~acts[i].refuse /\ ~LawInverse(obs[i - 1], obs[i + 1])
          THEN {"inverse"} ELSE {})

\* the transcription's states carry no working files: for judging the spec itself they never change
AsObs(s) == [tip |-> s.tip, revno |-> s.revno, wtp |-> s.wtp, tags |-> s.tags, mtip |-> s.mtip, mrevno |-> s.mrevno,
             files |-> "", changes |-> ""]
=============================================================================
