---------------------------- MODULE CmdlineGen ----------------------------
(* C50: TLC enumerates the whole bounded input space (argument lists to be quoted, and arbitrary strings),
   proves both laws on the transcribed machine (one initial state per case), reaches the anti-vacuity
   witnesses, and exports the case table. *)
EXTENDS Cmdline, TLC, Json, IOUtils, SequencesExt
CONSTANTS A1,       \* max length of the argument in 1-element lists
          A2,       \* max length of each argument in 2-element lists
          A3,       \* max length of each argument in 3-element lists
          M2,       \* minimal (bare) quoting: max length of each argument in 2-element lists (1- and 3-lists: A1, A3)
          MaxStr,   \* max length of the arbitrary strings of the no-loss law
          WithTab   \* add TAB to the alphabet of the arbitrary strings
Alpha == {"a", SP, DQ, SQ, BS}
Strs(S, n) == UNION {[1..k -> S] : k \in 0..n}
ArgLists == {<<>>} \cup {<<a>> : a \in Strs(Alpha, A1)}
            \cup (Strs(Alpha, A2) \X Strs(Alpha, A2))
            \cup (Strs(Alpha, A3) \X Strs(Alpha, A3) \X Strs(Alpha, A3))
InvCases == {[quoted |-> TRUE, minimal |-> FALSE, args |-> a, line |-> QuoteJoin(a, sq), sq |-> sq] :
                a \in ArgLists, sq \in BOOLEAN}
MinArgLists == {<<>>} \cup {<<a>> : a \in Strs(Alpha, A1)}
               \cup (Strs(Alpha, M2) \X Strs(Alpha, M2))
               \cup (Strs(Alpha, A3) \X Strs(Alpha, A3) \X Strs(Alpha, A3))
MinCases == {[quoted |-> TRUE, minimal |-> TRUE, args |-> a, line |-> QuoteMinimalJoin(a, sq), sq |-> sq] :
                a \in MinArgLists, sq \in BOOLEAN}
StrCases == {[quoted |-> FALSE, minimal |-> FALSE, args |-> <<>>, line |-> s, sq |-> sq] :
                s \in Strs(Alpha \cup (IF WithTab THEN {TAB} ELSE {}), MaxStr), sq \in BOOLEAN}
Cases == InvCases \cup MinCases \cup StrCases
VARIABLE c
Init == c \in Cases
Next == UNCHANGED c
LawsHoldOnSpec == LET o == SpecOut(c) IN Failed(c, o) = {}
\* anti-vacuity witnesses: TLC must find these states
WitnessEscapedSingle == ~(c.quoted /\ ~c.minimal /\ c.sq /\ c.args = << <<"a">>, <<BS, SQ>> >>)   \* the \' subtlety
WitnessTrailingRun   == ~(c.quoted /\ ~c.minimal /\ Len(c.args) = 1 /\ c.args[1] = <<"a", BS, BS>>)
WitnessEmptyArg      == ~(c.quoted /\ ~c.minimal /\ c.args = << <<"a">>, <<>>, <<"a">> >>)
WitnessBareBackslash == ~(c.quoted /\ c.minimal /\ c.args = << <<BS>>, <<"a">> >> /\ c.line = <<BS, SP, "a">>)
WitnessBareQuote     == ~(c.quoted /\ c.minimal /\ c.args = << <<DQ>>, <<>> >> /\ c.line = <<BS, DQ, SP, DQ, DQ>>)
WitnessPushback      == ~(~c.quoted /\ c.line = <<BS, BS, DQ, SP, DQ>> /\ SpecOut(c).toks = <<<<BS, SP>>>>)
WitnessEmptyTokens   == ~(~c.quoted /\ c.sq /\ c.line = <<DQ, DQ, SP, SQ, SQ>> /\ SpecOut(c).toks = << <<>>, <<>> >>)
\* the transcription's answers are not exported: CmdlineTrace recomputes SpecOut per recorded row (in parallel JVMs),
\* which is much cheaper than evaluating it here a second time in the single-threaded ASSUME
Export == JsonSerialize(IOEnv.VF_OUT, SetToSeq({[c |-> x] : x \in Cases}))
ASSUME IF "VF_OUT" \in DOMAIN IOEnv THEN Export ELSE TRUE
=============================================================================
