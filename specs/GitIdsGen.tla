----------------------------- MODULE GitIdsGen -----------------------------
(* C36, spec -> code: TLC enumerates the bounded value space of every kind of identifier, proves the inverse laws
   on the transcription (LawsHoldOnSpec) and exports the cases with the predicted results.
   A case is a record of one shape for all kinds: [kind, x, u, sel, sha, prefix]; unused fields hold a dummy. *)
EXTENDS GitIds, TLC, Json, IOUtils, SequencesExt
CONSTANTS NEsc, NFid, NRef,    \* maximal string length in tokens
          NPath,               \* maximal number of path segments of a URL
          Full                 \* TRUE: the whole URL product; FALSE: the quick slice
SeqsUpTo(S, n) == UNION {[1..k -> S] : k \in 0..n}
EscAlpha == {"_", " ", FF, "s", "c", "a"}
PathAlpha == {"_", " ", FF, "s", "a", "/", "<XC3><XA9>", "<XFF>"}
NameAlpha == {"a", "/", "refs/", "heads/", "tags/", "HEAD", " ", "<XC3><XA9>"}

NoU == [form |-> "", scheme |-> "", user |-> "", port |-> "", abs |-> TRUE, path |-> <<>>]
NoSel == [k |-> "none", v |-> ""]
Sels == {NoSel} \cup [k : {"branch"}, v : BranchNames] \cup [k : {"ref"}, v : Refs]
Paths == {p \in SeqsUpTo(Segs, NPath) : p # <<>>}
QuickPaths == {<<s>> : s \in Segs} \cup {<<"~u", "r.git">>, <<"a b", "c,d">>}
UrlLocs == [form : {"url"}, scheme : KnownSchemes, user : {"", "u"}, port : {"", "22"}, abs : {TRUE},
            path : IF Full THEN Paths ELSE QuickPaths]
RsyncLocs == [form : {"rsync"}, scheme : {""}, user : {"", "u"}, port : {""}, abs : BOOLEAN,
              path : IF Full THEN Paths ELSE QuickPaths]
FileLocs == [form : {"file"}, scheme : {""}, user : {""}, port : {""}, abs : {TRUE}, path : {<<"other">>, <<"o", "r.git">>}]
\* set_parent/get_parent runs on a real repository: a sample of locations
ParentLocs == {u \in UrlLocs \cup RsyncLocs : /\ u.path \in {<<"p">>, <<"~u", "r.git">>, <<"a b", "c,d">>}
                                               /\ u.port = "" /\ u.abs /\ u.scheme \in {"git", "ssh", "https", ""}}
               \cup FileLocs

Strings(kind, alpha, n) == [kind : {kind}, x : SeqsUpTo(alpha, n), u : {NoU}, sel : {NoSel}, sha : {""}, prefix : {""}]
Cases == Strings("esc", EscAlpha, NEsc) \cup Strings("fid", PathAlpha, NFid) \cup Strings("ref", NameAlpha, NRef)
         \cup [kind : {"sha"}, x : {<<>>}, u : {NoU}, sel : {NoSel}, sha : DOMAIN ShaOf,
               prefix : {"git-v1:", "git-experimental:", "null:", "git-v1", ""}]
         \cup [kind : {"url"}, x : {<<>>}, u : UrlLocs \cup RsyncLocs, sel : Sels, sha : {""}, prefix : {""}]
         \cup [kind : {"parent"}, x : {<<>>}, u : ParentLocs, sel : Sels, sha : {""}, prefix : {""}]

VARIABLE c
Init == c \in Cases
Next == UNCHANGED c

\* ---- design check: the laws hold for what the transcription predicts.  For the parent location the transcription
\* follows the code, which has one named deviation; there the INTENDED mapping must satisfy the law and the coded
\* one must fail exactly on the deviating class.
IntendedOut(x) ==
    CASE x.kind = "parent" -> [parent |-> ParentIntended(x.u, x.sel)]
      [] OTHER -> SpecOut(x.kind, x)
LawsHoldOnSpec == Failed(c.kind, c, IntendedOut(c)) = {}
CodedDeviatesExactly ==
    CASE c.kind = "parent" -> (Failed(c.kind, c, SpecOut(c.kind, c)) = IF ParentDeviation(c) THEN {"parent"} ELSE {})
      [] OTHER -> TRUE
\* the quoting tables lose nothing (so "compare after unquoting" is meaningful)
ASSUME \A a, b \in BranchNames \cup Refs : QName(a) = QName(b) => a = b
ASSUME \A a, b \in Segs : QSeg(a) = QSeg(b) => a = b

\* ---- anti-vacuity: witnesses TLC must violate, and existence statements evaluated at start-up
WitnessUrlRef == ~(c.kind = "url" /\ c.u.form = "rsync" /\ ~c.u.abs /\ UrlRefSelected(c))
ASSUME \E x \in Cases : x.kind = "esc" /\ {"_", " ", FF} \subseteq Range(x.x)
ASSUME \E x \in Cases : x.kind = "esc" /\ Unescape(x.x) = ERR
ASSUME \E x \in Cases : x.kind = "fid" /\ {"<XFF>", "_", "/"} \subseteq Range(x.x)
ASSUME \E x \in Cases : x.kind = "ref" /\ BranchRefDomain(x.x) /\ Len(x.x) >= 3
ASSUME \E x \in Cases : x.kind = "parent" /\ x.u.form = "file" /\ Params(x.sel).branch # "-"
ASSUME \E x \in Cases : x.kind = "sha" /\ x.sha = "zero" /\ x.prefix = "git-v1:"
\* a name that is passed through as a ref and comes back different (outside the branch-name domain)
ASSUME \E x \in Cases : /\ x.kind = "ref" /\ ~BranchNameDomain(x.x) /\ RefToBranch(BranchToRef(x.x)) # ERR
                         /\ RefToBranch(BranchToRef(x.x)) # x.x

CaseSeq == SetToSeq(Cases)
IsUrl(x) == x.kind \in {"url", "parent"}
Render(x) == [kind |-> x.kind, x |-> x.x, u |-> x.u, sel |-> x.sel, sha |-> x.sha, prefix |-> x.prefix,
              s |-> IF x.kind = "sha" THEN ShaOf[x.sha] ELSE Str(x.x),
              loc |-> IF IsUrl(x) THEN InputLoc(x.u) ELSE "", bz |-> IF IsUrl(x) THEN GitToBzr(x.u, x.sel) ELSE ""]
Export == JsonSerialize(IOEnv.VF_OUT, [k \in 1..Len(CaseSeq) |->
                                         [c |-> Render(CaseSeq[k]), spec |-> SpecOut(CaseSeq[k].kind, CaseSeq[k])]])
ASSUME IF "VF_OUT" \in DOMAIN IOEnv THEN Export ELSE TRUE
=============================================================================
