--------------------------- MODULE LayoutsTrace ---------------------------
(* C52 judge.  One row per executed step of a replayed sequence:
     l0     : the model's layout before;  act, arg : the action ("Reconfigure" | "Upgrade" | "UpgradeShared", its argument);
              the layout afterwards and the outcome ("ok" | "already" | "refused") are computed here with Plan*
     r1     : the REAL layout observed afterwards [tree, br, repo];  rout : the real outcome class
     c0, c1 : the REAL content projections before / after, each component a canonical string:
              tip, revno, testaments (every revision of the ancestry with its strict testament sha1), parents, tags,
              hasTree, wt (working tree entries), wtparents, changes (iter_changes against the basis), disk, tipTree,
              refs (a sequence of <<revision, strict testament sha1 | "ABSENT">> for every revision a tag or a pending
              merge names; the law: what was there stays there, unchanged)
   C52: history and tags always unchanged; every revision a tag / pending merge names still there with the same testament; the working tree unchanged where the layout keeps it; a created tree is a
   clean checkout of the tip.  Conformance (drift) only: a refused operation (or one that had to be interrupted:
   rout = "diverges") changes nothing, and layout / outcome are as planned. *)
EXTENDS LayoutAlgebra, Json, IOUtils, SequencesExt
Rows == JsonDeserialize(IOEnv.VF_IN)
VARIABLE i
Init == i \in 1..Len(Rows)
Next == UNCHANGED i
Rng(s) == {s[k] : k \in DOMAIN s}
Model(r) == CASE r.act = "Reconfigure" -> Impure(Plan(r.l0, r.arg)) [] r.act = "Upgrade" -> PlanUpgrade(r.l0, r.arg)
              [] r.act = "UpgradeShared" -> PlanUpgradeShared(r.l0, r.arg)
L1(r) == Model(r).lay
Failed(r) ==
    (IF r.c1.tip # r.c0.tip \/ r.c1.revno # r.c0.revno \/ r.c1.testaments # r.c0.testaments \/ r.c1.parents # r.c0.parents
     THEN {"history"} ELSE {})
    \cup (IF r.c1.tags # r.c0.tags THEN {"tags"} ELSE {})
    \cup (IF \E e \in Rng(r.c0.refs) : e[2] # "ABSENT" /\ e \notin Rng(r.c1.refs) THEN {"referenced"} ELSE {})
    \cup (IF HasTree(r.l0) /\ HasTree(L1(r)) /\ (~r.c1.hasTree \/ r.c1.wt # r.c0.wt \/ r.c1.changes # r.c0.changes
                                                \/ r.c1.disk # r.c0.disk \/ r.c1.wtparents # r.c0.wtparents)
          THEN {"tree-kept"} ELSE {})
    \cup (IF ~HasTree(r.l0) /\ HasTree(L1(r)) /\ r.c1.hasTree /\ (r.c1.wt # r.c1.tipTree \/ r.c1.changes # "[]")
          THEN {"tree-created"} ELSE {})
\* upgrades of a location that is no longer pure are unspecified: only their effect on the content is judged
Unspecified(r) == r.act # "Reconfigure" /\ ~r.l0.pure
\* conformance: an operation that raised and whose plan keeps the layout must leave every projection as it was
RefusalNotNoop(r) == r.rout # "ok" /\ L1(r) = r.l0 /\ r.c1 # r.c0
DriftSpecified(r) == RefusalNotNoop(r) \/ r.rout # Model(r).out \/ r.r1.tree # L1(r).tree \/ r.r1.br # L1(r).br \/ r.r1.repo # L1(r).repo \/ r.c1.hasTree # r.r1.tree
           \/ L1(r) # r.l1          \* the state machine and the judge must agree on the plan
Drift(r) == ~Unspecified(r) /\ DriftSpecified(r)
Bad == SelectSeq([k \in 1..Len(Rows) |-> [row |-> k, failed |-> SetToSeq(Failed(Rows[k])), drift |-> Drift(Rows[k])]],
                 LAMBDA r : r.failed # <<>> \/ r.drift)
ASSUME JsonSerialize(IOEnv.VF_OUT, [n |-> Len(Rows), bad |-> Bad])
=============================================================================
