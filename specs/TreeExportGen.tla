--------------------------- MODULE TreeExportGen ---------------------------
(* C42 generator + design check: TLC enumerates every tree over the namespace
       a, "sp ace", "é", ".hidden", deep/, deep/é, deep/nest/, deep/nest/f
   (each path absent / file / executable file / symlink / directory, children only below directories) and every option
   combination (root: None, "", "r/é s"; subdir: None, "", deep, deep/, deep/nest, deep/nest/f, a; per_file_timestamps),
   checks the algebra of Subtree / Prefix / Repr on all of them, and exports the trees and the options. *)
EXTENDS TreeExport, TLC, Json, IOUtils, SequencesExt
CONSTANT Tier          \* "quick": a sub-lattice of the per-path states; "thorough": all of them

P == {<<"a">>, <<"sp ace">>, <<"é">>, <<".hidden">>, <<"deep">>, <<"deep", "é">>, <<"deep", "nest">>, <<"deep", "nest", "f">>}
Order == <<<<"a">>, <<"sp ace">>, <<"é">>, <<".hidden">>, <<"deep">>, <<"deep", "é">>, <<"deep", "nest">>, <<"deep", "nest", "f">>>>
Names == {"a", "sp ace", "é", ".hidden", "deep", "nest", "f"}
States == {"absent", "file", "xfile", "symlink", "dir"}
Allowed(p) ==
    IF Tier = "thorough" THEN States
    ELSE CASE p = <<"a">> -> States
           [] p = <<"sp ace">> -> {"absent", "file", "dir"}
           [] p = <<"é">> -> {"absent", "xfile", "symlink"}
           [] p = <<".hidden">> -> {"absent", "file"}
           [] p = <<"deep">> -> {"absent", "symlink", "dir"}
           [] p = <<"deep", "é">> -> {"absent", "file", "dir"}
           [] p = <<"deep", "nest">> -> {"absent", "xfile", "dir"}
           [] p = <<"deep", "nest", "f">> -> States
Shapes == {s \in [P -> States] : /\ \A p \in P : s[p] \in Allowed(p)
                                 /\ \A p \in P : (Len(p) > 1 /\ s[p] # "absent") => s[Parent(p)] = "dir"}

RECURSIVE Tok(_)
Tok(p) == IF Len(p) = 1 THEN p[1] ELSE p[1] \o "/" \o Tok(Tail(p))
Target(p) == CASE p = <<"a">> -> "sp ace" [] p = <<"sp ace">> -> "é" [] p = <<"é">> -> "sp ace/é"
               [] p = <<".hidden">> -> "../outside é" [] p = <<"deep">> -> "a" [] p = <<"deep", "é">> -> "../é"
               [] p = <<"deep", "nest">> -> "é" [] p = <<"deep", "nest", "f">> -> "../../sp ace"
\* the exported revision (tip) changes exactly one file relative to its parent: the first file in Order
FilesOf(s) == SelectSeq(Order, LAMBDA p : s[p] \in {"file", "xfile"})
Touched(s) == IF FilesOf(s) = <<>> THEN <<>> ELSE FilesOf(s)[1]
Ent(s, p) == IF s[p] = "absent" THEN {}
             ELSE {[path |-> p,
                    kind |-> CASE s[p] \in {"file", "xfile"} -> "file" [] s[p] = "symlink" -> "symlink" [] OTHER -> "directory",
                    val  |-> CASE s[p] \in {"file", "xfile"} -> "c:" \o Tok(p) [] s[p] = "symlink" -> Target(p) [] OTHER -> "",
                    exec |-> s[p] = "xfile",
                    rev  |-> IF p = Touched(s) THEN "tip" ELSE "old"]}
Entries(s) == UNION {Ent(s, p) : p \in P}

Roots == {[given |-> FALSE, segs |-> <<>>], [given |-> TRUE, segs |-> <<>>], [given |-> TRUE, segs |-> <<"r", "é s">>]}
Subdirs == {[given |-> FALSE, segs |-> <<>>, slash |-> FALSE], [given |-> TRUE, segs |-> <<>>, slash |-> FALSE],
            [given |-> TRUE, segs |-> <<"deep">>, slash |-> FALSE], [given |-> TRUE, segs |-> <<"deep">>, slash |-> TRUE],
            [given |-> TRUE, segs |-> <<"deep", "nest">>, slash |-> FALSE],
            [given |-> TRUE, segs |-> <<"deep", "nest", "f">>, slash |-> FALSE],
            [given |-> TRUE, segs |-> <<"a">>, slash |-> FALSE]}
Opts == [root : Roots, subdir : Subdirs, pft : BOOLEAN]
Dest == "exp"

Opt0 == [root |-> [given |-> FALSE, segs |-> <<>>], subdir |-> [given |-> FALSE, segs |-> <<>>, slash |-> FALSE], pft |-> FALSE]
(* One initial state per tree; its successors are the tree-level law check and one state per option combination, so
   that TLC's workers evaluate the laws in parallel. *)
VARIABLE c
Init == c \in [s : Shapes, o : {Opt0}, stage : {"tree"}]
Next == /\ c.stage = "tree"
        /\ \/ c' = [c EXCEPT !.stage = "treelaws"]
           \/ \E o \in Opts : c' = [c EXCEPT !.stage = "case", !.o = o]

T == Entries(c.s)
Sub == SubdirSegs(c.o)
Sel == Subtree(T, Sub)
DirPaths(t) == {e.path : e \in {x \in t : x.kind = "directory"}}
RelPaths == {<<>>} \cup UNION {{SubSeq(p, i, Len(p)) : i \in 1..Len(p)} : p \in P}
ObsOf(fmt, exp, o) == {[path |-> e.path, kind |-> e.kind, val |-> e.val, exec |-> e.exec, mt |-> MtClass(fmt, e, o)] : e \in exp}
RootSegs == {x.segs : x \in Roots}

\* the algebra the property relies on: per tree ...
TreeLaws ==
    /\ ValidTree(T)
    /\ Subtree(T, <<>>) = T
    /\ \A p \in DirPaths(T) : \A q \in RelPaths : Subtree(Subtree(T, p), q) = Subtree(T, p \o q)      \* Subtree composes
    /\ ZipUnambiguous(Names)
\* ... and per (tree, options)
CaseLaws ==
    /\ ValidTree(Sel)
    /\ \A r \in RootSegs : \A r2 \in {<<>>, <<"z">>} :
          /\ Prefix(r2, Prefix(r, Sel)) = Prefix(r2 \o r, Sel)                                       \* Prefix composes
          /\ r # <<>> => Subtree(Prefix(r, Sel), r) = Sel                                            \* Subtree undoes Prefix
          /\ Cardinality(Prefix(r, Sel)) = Cardinality(Sel)
    /\ \A e \in Sel : \E x \in T : x.kind = e.kind /\ x.val = e.val /\ x.exec = e.exec /\ x.rev = e.rev
                                  /\ (x.path = Sub \o e.path \/ (x.path = Sub /\ e.path = <<LastSeg(Sub)>>))
    /\ \A x \in T : StrictPrefix(Sub, x.path) => \E e \in Sel : Sub \o e.path = x.path              \* nothing below it is left out
    /\ \A f \in {"dir", "tar", "zip"} :
          LET exp == Expected(f, T, c.o, Dest) IN
          /\ Cardinality(exp) = Cardinality(Sel) /\ Cardinality(PathsOf(exp)) = Cardinality(exp)     \* no collisions
          /\ FailedLaws(exp, ObsOf(f, exp, c.o)) = {} /\ MtOk(f, exp, ObsOf(f, exp, c.o), c.o)        \* the laws accept the spec
          /\ Expected(f, T, [c.o EXCEPT !.pft = ~c.o.pft], Dest) = exp                                \* timestamps option: same content
    /\ \A f \in {"tgz", "tbz2", "txz"} : Expected(f, T, c.o, Dest) = Expected("tar", T, c.o, Dest)   \* compression is transparent
LawsHoldOnSpec == (c.stage = "treelaws" => TreeLaws) /\ (c.stage = "case" => CaseLaws)
\* anti-vacuity
WitnessSingle == ~(c.stage = "case" /\ \E e \in T : e.path = Sub /\ e.kind = "symlink")
WitnessEmpty == ~(c.stage = "case" /\ c.o.subdir.given /\ Sub # <<>> /\ Sel = {} /\ T # {})
WitnessZipLnk == ~(c.stage = "case" /\ c.o.root.segs # <<>> /\ \E e \in Expected("zip", T, c.o, Dest) : LastSeg(e.path) = "f.lnk" /\ Len(e.path) = 5)

Export == JsonSerialize(IOEnv.VF_OUT, [trees |-> SetToSeq({SetToSeq(Entries(s)) : s \in Shapes}), opts |-> SetToSeq(Opts),
                                       dest |-> Dest, formats |-> Formats])
ASSUME IF "VF_OUT" \in DOMAIN IOEnv THEN Export ELSE TRUE
=============================================================================
