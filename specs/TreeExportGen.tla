--------------------------- MODULE TreeExportGen ---------------------------
(* C42 generator + design check: TLC enumerates every tree over the namespace
       a, "sp ace", "é", ".hidden", deep/, deep/"nest é", deep/nest/, deep/nest/f
   (each path absent / file / executable file / symlink / directory, children only below directories) and every option
   combination (root: None, "", "r/é s"; subdir: None, "", deep, deep/, deep/nest, deep/nest/f, a; per_file_timestamps),
   checks the algebra of Subtree / Prefix / Repr on all of them, and exports the trees and the options. *)
EXTENDS TreeExport, TLC, Json, IOUtils, SequencesExt
CONSTANT Tier          \* "quick" / "thorough": which sub-lattice of the per-path states is enumerated ("tiny": development)

Order == <<<<"a">>, <<"sp ace">>, <<"é">>, <<".hidden">>, <<"deep">>, <<"deep", "nest é">>, <<"deep", "nest">>, <<"deep", "nest", "f">>>>
P == Range(Order)
Names == {"a", "sp ace", "é", ".hidden", "deep", "nest", "nest é", "f"}
States == {"absent", "file", "xfile", "symlink", "dir"}
\* per-path states explored in each tier (index = position in Order)
Allowed(i) ==
    IF Tier = "thorough" THEN (CASE i \in {2, 6} -> {"absent", "file", "symlink", "dir"} [] i = 4 -> {"absent", "file", "xfile"}
                                 [] OTHER -> States)
    ELSE IF Tier = "tiny" THEN (IF i \in {1, 8} THEN {"absent", "xfile", "symlink"} ELSE IF i \in {2, 3, 4} THEN {"absent"} ELSE {"absent", "dir"})
    ELSE CASE i = 1 -> States
           [] i = 2 -> {"absent", "file", "dir"}
           [] i = 3 -> {"absent", "xfile", "symlink"}
           [] i = 4 -> {"absent", "file"}
           [] i = 5 -> {"absent", "symlink", "dir"}
           [] i = 6 -> {"absent", "file", "dir"}
           [] i = 7 -> {"absent", "xfile", "dir"}
           [] i = 8 -> States
\* a shape is the tuple of the states of the 8 paths in Order; children exist only below directories
Tops == Allowed(1) \X Allowed(2) \X Allowed(3) \X Allowed(4)
Deeps == {<<d, "absent", "absent", "absent">> : d \in Allowed(5) \ {"dir"}}
         \cup {<<"dir", y, z, "absent">> : y \in Allowed(6), z \in Allowed(7) \ {"dir"}}
         \cup {<<"dir", y, "dir", w>> : y \in Allowed(6), w \in Allowed(8)}
Shapes == {t \o d : t \in Tops, d \in Deeps}

RECURSIVE Tok(_)
Tok(p) == IF Len(p) = 1 THEN p[1] ELSE p[1] \o "/" \o Tok(Tail(p))
Toks == [i \in 1..8 |-> Tok(Order[i])]
Targets == <<"sp ace", "é", "sp ace/é", "../outside é", "a", "../é", "é", "../../sp ace">>
\* the exported revision (tip) changes exactly one file relative to its parent: the first file in Order
Touched(s) == IF \E i \in 1..8 : s[i] \in {"file", "xfile"} THEN CHOOSE i \in 1..8 : s[i] \in {"file", "xfile"} /\ \A j \in 1..(i - 1) : s[j] \notin {"file", "xfile"}
              ELSE 0
Ent(s, i, touched) ==
    [path |-> Order[i],
     kind |-> CASE s[i] \in {"file", "xfile"} -> "file" [] s[i] = "symlink" -> "symlink" [] OTHER -> "directory",
     val  |-> CASE s[i] \in {"file", "xfile"} -> "c:" \o Toks[i] [] s[i] = "symlink" -> Targets[i] [] OTHER -> "",
     exec |-> s[i] = "xfile",
     rev  |-> IF i = touched THEN "tip" ELSE "old"]
Entries(s) == LET touched == Touched(s) IN {Ent(s, i, touched) : i \in {j \in 1..8 : s[j] # "absent"}}

Roots == {[given |-> FALSE, segs |-> <<>>], [given |-> TRUE, segs |-> <<>>], [given |-> TRUE, segs |-> <<"r", "é s">>]}
Subdirs == {[given |-> FALSE, segs |-> <<>>, slash |-> FALSE], [given |-> TRUE, segs |-> <<>>, slash |-> FALSE],
            [given |-> TRUE, segs |-> <<"deep">>, slash |-> FALSE], [given |-> TRUE, segs |-> <<"deep">>, slash |-> TRUE],
            [given |-> TRUE, segs |-> <<"deep", "nest">>, slash |-> FALSE],
            [given |-> TRUE, segs |-> <<"deep", "nest", "f">>, slash |-> FALSE],
            [given |-> TRUE, segs |-> <<"a">>, slash |-> FALSE]}
Opts == [root : Roots, subdir : Subdirs, pft : BOOLEAN]
Dest == "exp"

Opt0 == [root |-> [given |-> FALSE, segs |-> <<>>], subdir |-> [given |-> FALSE, segs |-> <<>>, slash |-> FALSE], pft |-> FALSE]
(* One initial state per tree; its successors are the tree-level law check and one state per option combination, so
   that TLC's workers evaluate the laws in parallel. *)
VARIABLE c
Init == c \in [s : Shapes, o : {Opt0}, stage : {"tree"}]
Next == /\ c.stage = "tree"
        /\ \/ c' = [c EXCEPT !.stage = "treelaws"]
           \/ \E o \in {x \in Opts : ~x.pft} : c' = [c EXCEPT !.stage = "case", !.o = o]      \* both pft values: inside CaseLaws

DirPaths(t) == {e.path : e \in {x \in t : x.kind = "directory"}}
RelPaths == {<<>>} \cup UNION {{SubSeq(p, i, Len(p)) : i \in 1..Len(p)} : p \in P}
ObsOf(fmt, exp, o) == {[path |-> e.path, kind |-> e.kind, val |-> e.val, exec |-> e.exec, mt |-> MtClass(fmt, e, o)] : e \in exp}
RootSegs == {x.segs : x \in Roots}

\* the algebra the property relies on: per tree ...
TreeLaws ==
    LET T == Entries(c.s) IN
    /\ ValidTree(T)
    /\ Subtree(T, <<>>) = T
    /\ \A p \in DirPaths(T) : LET tp == Subtree(T, p) IN \A q \in RelPaths : Subtree(tp, q) = Subtree(T, p \o q)   \* Subtree composes
    /\ ZipUnambiguous(Names)
\* ... and per (tree, options)
CaseLaws ==
    LET T == Entries(c.s)
        Sub == SubdirSegs(c.o)
        Sel == Subtree(T, Sub) IN
    /\ ValidTree(Sel)
    /\ \A r \in RootSegs : LET pr == Prefix(r, Sel) IN
          /\ Prefix(<<"z">>, pr) = Prefix(<<"z">> \o r, Sel)                                          \* Prefix composes
          /\ r # <<>> => Subtree(pr, r) = Sel                                                        \* Subtree undoes Prefix
          /\ Cardinality(pr) = Cardinality(Sel)
    /\ \A e \in Sel : \E x \in T : x.kind = e.kind /\ x.val = e.val /\ x.exec = e.exec /\ x.rev = e.rev
                                  /\ (x.path = Sub \o e.path \/ (x.path = Sub /\ e.path = <<LastSeg(Sub)>>))
    /\ \A x \in T : StrictPrefix(Sub, x.path) => \E e \in Sel : Sub \o e.path = x.path              \* nothing below it is left out
    /\ \A f \in {"dir", "tar", "zip"} :
          LET exp == Expected(f, T, c.o, Dest)
              o2 == [c.o EXCEPT !.pft = TRUE]
              obs == ObsOf(f, exp, c.o) IN
          /\ Cardinality(exp) = Cardinality(Sel) /\ Cardinality(PathsOf(exp)) = Cardinality(exp)     \* no collisions
          /\ FailedLaws(exp, obs) = {} /\ MtOk(f, exp, obs, c.o)                                      \* the laws accept the spec
          /\ Expected(f, T, o2, Dest) = exp /\ MtOk(f, exp, ObsOf(f, exp, o2), o2)                    \* timestamps option: same content
    /\ LET tar == Expected("tar", T, c.o, Dest) IN
       \A f \in {"tgz", "tbz2", "txz"} : Expected(f, T, c.o, Dest) = tar                              \* compression is transparent
LawsHoldOnSpec == (c.stage = "treelaws" => TreeLaws) /\ (c.stage = "case" => CaseLaws)
T == Entries(c.s)
Sub == SubdirSegs(c.o)
Sel == Subtree(T, Sub)
\* anti-vacuity
WitnessSingle == ~(c.stage = "case" /\ \E e \in T : e.path = Sub /\ e.kind = "symlink")
WitnessEmpty == ~(c.stage = "case" /\ c.o.subdir.given /\ Sub # <<>> /\ Sel = {} /\ T # {})
WitnessZipLnk == ~(c.stage = "case" /\ c.o.root.segs # <<>> /\ \E e \in Expected("zip", T, c.o, Dest) : LastSeg(e.path) = "f.lnk" /\ Len(e.path) = 5)

Export == JsonSerialize(IOEnv.VF_OUT, [trees |-> SetToSeq({SetToSeq(Entries(s)) : s \in Shapes}), opts |-> SetToSeq(Opts),
                                       dest |-> Dest, formats |-> Formats])
ASSUME IF "VF_OUT" \in DOMAIN IOEnv THEN Export ELSE TRUE
=============================================================================
