--------------------------- MODULE CountedLockMC ---------------------------
(* E1 for C28: all call sequences of at most MaxCalls calls on one wrapper variant W.
   With History = TRUE the call sequence is part of the state (every sequence is a distinct behaviour prefix, TLC
   exhausts them all); with History = FALSE sequences reaching the same state are merged and the labelled state
   graph is dumped for the transition-cover replay on the real objects. *)
EXTENDS CountedLock, TLC
CONSTANTS W, MaxCalls, History
VARIABLES s, n, hist, acq, rel
vars == <<s, n, hist, acq, rel>>
Init == s = Init0 /\ n = 0 /\ hist = <<>> /\ acq = 0 /\ rel = 0
Call(op) ==
    /\ n < MaxCalls
    /\ Enabled(W, s, op)
    /\ s' = Step(W, s, op)
    /\ n' = n + 1
    /\ hist' = IF History THEN Append(hist, op) ELSE hist
    /\ acq' = acq + (IF s'.ev \in {"acqR", "acqW"} THEN 1 ELSE 0)
    /\ rel' = rel + (IF s'.ev = "rel" THEN 1 ELSE 0)
Next == \E op \in Ops(W) : Call(op)
Spec == Init /\ [][Next]_vars

Modes == {"none", "r", "w"}
TypeOK == /\ s.count \in 0..MaxCalls /\ s.mode \in Modes /\ s.bmode \in Modes
          /\ s.phys \in {"none", "r", "w", "wtok"} /\ s.ext \in BOOLEAN
          /\ s.ev \in {"none", "acqR", "acqW", "rel"} /\ s.dev \in {"none", "take", "drop"}
          /\ s.out \in {"ok", "ReadOnlyError", "TokenMismatch", "LockNotHeld", "LockContention"}
\* the underlying lock is held exactly while the wrapper is locked, in the wrapper's mode
\* (a write-locked PackRepository holds no underlying lock at all)
NeedsPhys == ~(W = "repo" /\ s.mode = "w")
PhysMatchesMode ==
    /\ (s.count = 0) <=> (s.mode = "none")
    /\ (s.count = 0) => s.phys = "none"
    /\ (s.mode = "r") => s.phys = "r"
    /\ (s.mode = "w" /\ NeedsPhys) => s.phys \in {"w", "wtok"}
    /\ (s.mode = "w" /\ ~NeedsPhys) => s.phys = "none"
    /\ (W \in {"tree", "branch"}) => ((s.bmode = "none") <=> (s.count = 0)) /\ (s.mode = "r" => s.bmode = "r")
    /\ (W = "branch") => s.bmode = s.mode
    /\ (W \notin {"tree", "branch"}) => s.bmode = "none"
\* acquisitions and releases of the underlying lock are balanced: one outstanding acquisition iff it is held
Balanced == acq - rel = (IF s.phys = "none" THEN 0 ELSE 1)
\* the on-disk lock has one holder
DiskExclusive == ~(s.ext /\ s.phys = "w")
\* ---- action properties
AcquireOnlyAtFirstLock == [][s'.ev \in {"acqR", "acqW"} => (s.count = 0 /\ s'.count = 1)]_vars
ReleaseOnlyAtLastUnlock == [][s'.ev = "rel" => (s.count = 1 /\ s'.count = 0 /\ s'.op = "unlock")]_vars
FirstLockAcquires == [][(s.count = 0 /\ s'.count = 1 /\ ~(W = "repo" /\ s'.mode = "w")) => s'.ev \in {"acqR", "acqW"}]_vars
LastUnlockReleases == [][(s.count = 1 /\ s'.count = 0 /\ s.phys # "none") => s'.ev = "rel"]_vars
DiskFollowsPhys == [][/\ (s'.dev = "take") <=> (s.phys # "w" /\ s'.phys = "w")
                      /\ (s'.dev = "drop") <=> (s.phys = "w" /\ s'.phys # "w")]_vars
RefusedUnchanged == [][s'.out # "ok" => Core(s') = Core(s)]_vars
WriteInReadRefused == [][(s.mode = "r" /\ s'.op \in WriteOps /\ n' = n + 1) => s'.out = "ReadOnlyError"]_vars
ExtraUnlockRefused == [][(s.count = 0 /\ s'.op = "unlock" /\ n' = n + 1) => s'.out = "LockNotHeld"]_vars
\* ---- anti-vacuity witnesses (TLC must violate these)
WitnessDeep == ~(s.count >= 3 /\ s.mode = "w")
WitnessRefusedWrite == ~(s.out = "ReadOnlyError" /\ s.count >= 2)
WitnessRelock == ~(acq >= 2 /\ rel >= 2)
WitnessAdopt == ~(s.phys = "wtok" /\ s.count >= 2)
=============================================================================
