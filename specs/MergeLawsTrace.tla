-------------------------- MODULE MergeLawsTrace --------------------------
(* E3 for C17: working trees and conflict lists recorded after real Merger.do_merge() runs are judged by the laws of
   MergeLaws; one state per recorded row {c, impl}.  Written back: rows with failed laws (verdict), rows whose
   fixture (the three revisions the harness built) is not the triple of the case (machinery), and for reference the
   result tree the law demands. *)
EXTENDS MergeLaws, SequencesExt, Json, IOUtils
Rows == JsonDeserialize(IOEnv.VF_IN)
VARIABLE i
Init == i \in 1..Len(Rows)
Next == UNCHANGED i
Bad == SelectSeq([k \in 1..Len(Rows) |->
                    LET c == Rows[k].c  o == Rows[k].impl
                        ok == WellFormed(c) /\ Holds(c) # {} IN
                    [row |-> k, wf |-> ok,
                     failed |-> IF ok THEN SetToSeq(Failed(c, o)) ELSE <<>>,
                     fixture |-> IF ok THEN FixtureOk(c, o) ELSE FALSE,
                     want |-> IF ok THEN SetToSeq(SpecTree(c)) ELSE <<>>]],
                 LAMBDA r : r.failed # <<>> \/ ~r.fixture \/ ~r.wf)
ASSUME JsonSerialize(IOEnv.VF_OUT, [n |-> Len(Rows), bad |-> Bad])
=============================================================================
