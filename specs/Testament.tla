----------------------------- MODULE Testament -----------------------------
(* What a revision's testament ATTESTS - property C41.   breezy/bzr/testament.py: Testament, StrictTestament,
   StrictTestament3 (as_text / as_short_text).

   The attested record of a revision is a function from FIELDS to values:
       f.path f.content f.exec      a file at the top level
       g.path g.content g.exec      a second file, inside directory d or at the top level
       l.path l.target              a symbolic link
       msg committer ts tz          message, committer, timestamp (whole seconds), time zone offset
       parents                      the PARENT SET (a testament lists parents sorted, their order is not attested)
       props                        the revision properties
   (revision id and file ids are attested too but are kept fixed: they are identities, not content).  The executable
   bit is attested by the strict forms only.  Values are TOKENS 0..DomSize[field]-1; the harness holds the table of concrete
   values (deliberately including single / double / leading / trailing blanks and tabs, backslashes, non-ASCII text,
   empty / multi-line / differently terminated texts,
   binary content, negative and fractional-hour zones); the specification only needs to know which tokens denote the same
   attested value (Abs) and, for paths, the concrete names (tree validity).  The testament TEXT format is executed, not
   modelled (DESIGN 6): the laws are stated on hashes of the real texts of a pair of revisions. *)
EXTENDS Naturals, Sequences, FiniteSets, TLC

Set(q) == {q[i] : i \in DOMAIN q}
Fields == {"f.path", "f.content", "f.exec", "g.path", "g.content", "g.exec", "l.path", "l.target",
           "msg", "committer", "ts", "tz", "parents", "props"}
ExecFields == {"f.exec", "g.exec"}
DomSize == [x \in Fields |->
              CASE x = "f.path" -> 6 [] x = "f.content" -> 4 [] x = "f.exec" -> 2
                [] x = "g.path" -> 4 [] x = "g.content" -> 3 [] x = "g.exec" -> 2
                [] x = "l.path" -> 2 [] x = "l.target" -> 8
                [] x = "msg" -> 11 [] x = "committer" -> 3 [] x = "ts" -> 4 [] x = "tz" -> 4
                [] x = "parents" -> 5 [] x = "props" -> 12]
Tokens(fld) == 0..(DomSize[fld] - 1)
IsRec(r) == DOMAIN r = Fields /\ \A fld \in Fields : r[fld] \in Tokens(fld)

\* concrete path names (token + 1 indexes the tuple); directory d always exists
PathNames == [x \in {"f.path", "g.path", "l.path"} |->
                 CASE x = "f.path" -> <<"a", "b c", "z", "b  c", "b c ", "b\tc">>    \* one blank, two, a trailing one, a tab
                   [] x = "g.path" -> <<"d/g", "d/h", "d\\g", "g">>      \* d\g is a top-level file whose NAME contains a backslash
                   [] x = "l.path" -> <<"l", "d/l">>]
PathOf(r, x) == PathNames[x][r[x] + 1]
Valid(r) == IsRec(r) /\ Cardinality({PathOf(r, x) : x \in DOMAIN PathNames} \cup {"d"}) = 4
\* parent lists as committed (first = left-hand parent); what is attested is the set
ParentLists == << <<"p1">>, <<>>, <<"p2">>, <<"p1", "p2">>, <<"p2", "p1">> >>
Abs(fld, tok) == IF fld = "parents" THEN Set(ParentLists[tok + 1]) ELSE tok
Diff(a, b) == {fld \in Fields : Abs(fld, a[fld]) # Abs(fld, b[fld])}

(* ---- the laws of C41 on a pair of real revisions.
   c = [a, b, va, vb]: two attested records and how each was stored (storage variant: repository format, order in which
                       the parents were inserted, native or fetched across formats);
   o = [a, b]: for each, the hashes of the six texts  t1l t1s (Testament as_text / as_short_text), t2l t2s
               (StrictTestament), t3l t3s (StrictTestament3). *)
Keys == {"t1l", "t1s", "t2l", "t2s", "t3l", "t3s"}
PlainKeys == {"t1l", "t1s"}
RootKeys == {"t3l", "t3s"}
Same(o, k) == o.a[k] = o.b[k]
(* StrictTestament3 also attests the tree ROOT with its last-changed revision.  That value is defined by the format the
   revision was COMMITTED in: formats without rich roots (pack-0.92) do not version the root, it always counts as changed
   by the revision itself - and keeps that value when the revision is fetched into a rich-root repository; a rich-root
   format (2a) records the root like any other entry: unchanged from a single parent it keeps the parent's value, with no
   parent or with two parents whose roots have different last-changed revisions it is the revision itself.  So the root
   datum is a function of (storage variant's origin, number of parents) and part of the attested data of that form. *)
Origin(v) == IF v \in {"pack-0.92", "fetched"} THEN "plain-root" ELSE "rich-root"
RootRev(r, v) == IF Origin(v) = "plain-root" \/ Cardinality(Abs("parents", r["parents"])) # 1 THEN "self" ELSE "parent"
\* equal attested data => equal text, whatever the storage
LawDeterministic(c, o) ==
    Diff(c.a, c.b) = {} => /\ \A k \in Keys \ RootKeys : Same(o, k)
                           /\ RootRev(c.a, c.va) = RootRev(c.b, c.vb) => \A k \in RootKeys : Same(o, k)
\* exactly one attested field differs => different text
LawSensitive(c, o) == (Cardinality(Diff(c.a, c.b)) = 1 /\ ~ (Diff(c.a, c.b) \subseteq ExecFields)) => \A k \in Keys : ~Same(o, k)
LawExecStrict(c, o) == (Cardinality(Diff(c.a, c.b)) = 1 /\ Diff(c.a, c.b) \subseteq ExecFields) => \A k \in Keys \ PlainKeys : ~Same(o, k)
\* the plain form does not attest the executable bit: records that differ there only are equal for it
LawExecPlain(c, o) == (Diff(c.a, c.b) # {} /\ Diff(c.a, c.b) \subseteq ExecFields) => \A k \in PlainKeys : Same(o, k)
\* the short form is a digest of the long form
LawShortLong(c, o) == /\ (Same(o, "t1l") <=> Same(o, "t1s"))
                      /\ (Same(o, "t2l") <=> Same(o, "t2s"))
                      /\ (Same(o, "t3l") <=> Same(o, "t3s"))
LawNames == <<"deterministic", "sensitive", "execstrict", "execplain", "shortlong">>
Law(n, c, o) == CASE n = "deterministic" -> LawDeterministic(c, o) [] n = "sensitive" -> LawSensitive(c, o)
                  [] n = "execstrict" -> LawExecStrict(c, o) [] n = "execplain" -> LawExecPlain(c, o)
                  [] n = "shortlong" -> LawShortLong(c, o)
Failed(c, o) == {n \in Set(LawNames) : ~Law(n, c, o)}

\* the specification's own "texts": the attested values themselves (injective by construction)
SpecText(r, v, k) == <<[fld \in (IF k \in PlainKeys THEN Fields \ ExecFields ELSE Fields) |-> Abs(fld, r[fld])],
                        IF k \in RootKeys THEN RootRev(r, v) ELSE "">>
SpecOut(c) == [a |-> [k \in Keys |-> SpecText(c.a, c.va, k)], b |-> [k \in Keys |-> SpecText(c.b, c.vb, k)]]
=============================================================================
