--------------------------- MODULE SearchRecipeGen ---------------------------
(* E1 + E2 for C33 (case table): every revision graph up to MaxN revisions with NGhosts ghosts (<= MaxPar parents),
   every client cache K, every missing set (full variant) and every (K, tips, depth) (limited variant) is one
   initial state; TLC checks the property on the specification's own outcome and exports the cases for replay on
   the real client and server code.  Larger bounds are model-checked by SearchRecipeMC. *)
EXTENDS SearchRecipe, TLC, Json, IOUtils, SequencesExt
CONSTANTS MaxN, NGhosts, MaxPar, MaxTips, MaxDepth
Ghosts == GhostIds(NGhosts)
Small(S, k) == {x \in SUBSET S : Cardinality(x) <= k}
RECURSIVE Graphs(_)
Graphs(n) == IF n = 0 THEN {<<>>}
             ELSE {Append(g, ps) : g \in Graphs(n - 1), ps \in Small((1..(n - 1)) \cup Ghosts, MaxPar)}
AllGraphs == UNION {Graphs(n) : n \in 1..MaxN}
Seq2(par) == [i \in DOMAIN par |-> SetToSeq(par[i])]
FullCases == {[kind |-> "full", par |-> Seq2(g), K |-> SetToSeq(K), missing |-> SetToSeq(m), tips |-> <<>>,
               depth |-> 0] :
              g \in AllGraphs, K \in SUBSET (0..MaxN), m \in SUBSET (Ghosts \cup {NULL})}
LimitedCases == {[kind |-> "limited", par |-> Seq2(g), K |-> SetToSeq(K), missing |-> <<>>, tips |-> SetToSeq(t),
                  depth |-> d] :
                 g \in AllGraphs, K \in SUBSET (0..MaxN) \ {{}}, t \in Small((0..MaxN) \cup Ghosts, MaxTips) \ {{}},
                 d \in 0..MaxDepth}
\* keys must exist in the graph; a key cannot be both answered and recorded as missing
Ok(x) == /\ SetOf(x.K) \subseteq 0..Len(x.par)
         /\ SetOf(x.tips) \subseteq (0..Len(x.par)) \cup Ghosts
         /\ SetOf(x.K) \cap SetOf(x.missing) = {}
Cases == {x \in FullCases \cup LimitedCases : Ok(x)}
VARIABLE c
Init == c \in Cases
Next == UNCHANGED c
LawsHoldOnSpec == SpecHolds(c)
\* anti-vacuity witnesses, all in this pass (a TLC start costs seconds): each must be reached by some case
Reached(W(_)) == \E x \in Cases : W(x)
Card(q) == Cardinality(SetOf(q))
WitnessesReached ==
    /\ Reached(LAMBDA x : x.kind = "full" /\ 0 \in SetOf(x.missing)
                          /\ LET s == SpecOut(x) IN s.count = Card(x.K) + 1 /\ NULL \in s.walk)
    /\ Reached(LAMBDA x : x.kind = "full" /\ Card(x.K) >= 2
                          /\ (\E k \in SetOf(x.K) : Parents(ParOf(x), k) \cap SetOf(x.missing) \cap Ghosts # {})
                          /\ SpecOut(x).stop # {})
    /\ Reached(LAMBDA x : x.kind = "full" /\ Card(x.K) >= 2
                          /\ LET s == SpecOut(x) IN Cardinality(s.start) >= 2 /\ Cardinality(s.stop) >= 2)
    /\ Reached(LAMBDA x : x.kind = "limited" /\ Card(x.K) >= 3
                          /\ LET s == SpecOut(x) IN
                             /\ Cardinality(s.keys) >= 2 /\ s.keys # SetOf(x.K)
                             /\ s.start # PossibleHeads(ParOf(x), SetOf(x.K), SetOf(x.tips), x.depth))
    /\ Reached(LAMBDA x : x.kind = "limited" /\ LET s == SpecOut(x) IN NULL \in s.walk /\ s.stop # {})
Export == JsonSerialize(IOEnv.VF_OUT, SetToSeq({[c |-> x] : x \in Cases}))
ASSUME IF "VF_OUT" \in DOMAIN IOEnv THEN Export ELSE TRUE
ASSUME IF "VF_WITNESSES" \in DOMAIN IOEnv THEN WitnessesReached ELSE TRUE
=============================================================================
