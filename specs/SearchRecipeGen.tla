--------------------------- MODULE SearchRecipeGen ---------------------------
(* E1 + E2 for C33 (case table): every revision graph up to MaxN revisions with NGhosts ghosts (<= MaxPar parents),
   every client cache K, every missing set (full variant) and every (K, tips, depth) (limited variant) is one
   initial state; TLC checks the property on the specification's own outcome and exports the cases for replay on
   the real client and server code.  Larger bounds are model-checked by SearchRecipeMC. *)
EXTENDS SearchRecipe, TLC, Json, IOUtils, SequencesExt
CONSTANTS MaxN, NGhosts, MaxPar, MaxTips, MinDepth, MaxDepth,
          MFAll      \* TRUE: every (missing, filled) pair for limited cases; FALSE: the two extreme pairs
Ghosts == GhostIds(NGhosts)
Small(S, k) == {x \in SUBSET S : Cardinality(x) <= k}
RECURSIVE Graphs(_)
Graphs(n) == IF n = 0 THEN {<<>>}
             ELSE {Append(g, ps) : g \in Graphs(n - 1), ps \in Small((1..(n - 1)) \cup Ghosts, MaxPar)}
AllGraphs == UNION {Graphs(n) : n \in 1..MaxN}
Seq2(par) == [i \in DOMAIN par |-> SetToSeq(par[i])]
\* (missing, filled): disjoint from K; only ghosts the client recorded as missing are filled in later
MF(K) == {mf \in (SUBSET (Ghosts \cup {NULL})) \X (SUBSET Ghosts) : mf[1] \cap K = {} /\ mf[2] \subseteq mf[1]}
MFx(K) == IF MFAll THEN MF(K)
          ELSE {<<{}, {}>>, <<(Ghosts \cup {NULL}) \ K, Ghosts \ K>>}     \* nothing / everything missing and filled
FullCases == {[kind |-> "full", par |-> Seq2(g), K |-> SetToSeq(K), missing |-> SetToSeq(mf[1]), tips |-> <<>>,
               depth |-> 0, filled |-> SetToSeq(mf[2])] :
              g \in AllGraphs, K \in SUBSET (0..MaxN), mf \in MF({})}
LimitedCases == UNION {{[kind |-> "limited", par |-> Seq2(g), K |-> SetToSeq(K), missing |-> SetToSeq(mf[1]),
                         tips |-> SetToSeq(t), depth |-> d, filled |-> SetToSeq(mf[2])] :
                        g \in AllGraphs, t \in Small((0..MaxN) \cup Ghosts, MaxTips) \ {{}}, d \in MinDepth..MaxDepth,
                        mf \in MFx(K)} : K \in SUBSET (0..MaxN) \ {{}}}
\* keys must exist in the graph; a key cannot be both answered and recorded as missing
Ok(x) == /\ SetOf(x.K) \subseteq 0..Len(x.par)
         /\ SetOf(x.tips) \subseteq (0..Len(x.par)) \cup Ghosts
         /\ SetOf(x.K) \cap SetOf(x.missing) = {}
Cases == {x \in FullCases \cup LimitedCases : Ok(x)}
VARIABLE c
Init == c \in Cases
Next == UNCHANGED c
LawsHoldOnSpec == SpecHolds(c)
\* anti-vacuity witnesses, all in this pass (a TLC start costs seconds): each must be reached by some case
Reached(W(_)) == \E x \in Cases : W(x)
Card(q) == Cardinality(SetOf(q))
WitnessesReached ==
    /\ Reached(LAMBDA x : x.kind = "full" /\ 0 \in SetOf(x.missing) /\ x.filled = <<>>
                          /\ LET s == SpecOut(x) IN s.count = Card(x.K) + 1 /\ NULL \in s.walk)
    /\ Reached(LAMBDA x : x.kind = "full" /\ Card(x.K) >= 2 /\ x.filled = <<>>
                          /\ (\E k \in SetOf(x.K) : Parents(ParOf(x), k) \cap SetOf(x.missing) \cap Ghosts # {})
                          /\ SpecOut(x).stop # {})
    /\ Reached(LAMBDA x : x.kind = "full" /\ Card(x.K) >= 2
                          /\ LET s == SpecOut(x) IN Cardinality(s.start) >= 2 /\ Cardinality(s.stop) >= 2)
    /\ Reached(LAMBDA x : x.kind = "limited" /\ Card(x.K) >= 3
                          /\ LET s == SpecOut(x) IN
                             /\ Cardinality(s.keys) >= 2 /\ s.keys # SetOf(x.K)
                             /\ s.start # PossibleHeads(ParOf(x), SetOf(x.K), SetOf(x.tips), x.depth))
    \* limited walk reaching a root while null: is recorded missing: null: must stay a stop key
    /\ Reached(LAMBDA x : x.kind = "limited" /\ 0 \in SetOf(x.missing)
                          /\ LET s == SpecOut(x) IN NULL \in s.stop /\ Cardinality(s.keys) >= 2)
    \* limited walk stopping at a ghost that is recorded missing and present on the server by now
    /\ Reached(LAMBDA x : x.kind = "limited" /\ x.filled # <<>>
                          /\ LET s == SpecOut(x) IN SetOf(x.filled) \cap s.stop # {} /\ s.keys # {})
    \* full variant under filling: the walk is wrong and the count check refuses it
    /\ Reached(LAMBDA x : x.kind = "full" /\ x.filled # <<>> /\ LET s == SpecOut(x) IN ~s.ok /\ s.walk # s.keys)
Export == JsonSerialize(IOEnv.VF_OUT, SetToSeq({[c |-> x] : x \in Cases}))
ASSUME IF "VF_OUT" \in DOMAIN IOEnv THEN Export ELSE TRUE
ASSUME IF "VF_WITNESSES" \in DOMAIN IOEnv THEN WitnessesReached ELSE TRUE
=============================================================================
