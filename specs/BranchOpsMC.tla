---------------------------- MODULE BranchOpsMC ----------------------------
(* C32, E1: the state machine of BranchOps.  One step = one operation of the client; TLC explores every operation
   sequence of length <= MaxLen (reads do not change the world, so they are self-loops of the graph and only the
   state-changing operations count towards n; the VIEW makes a world one node however it was reached, and breadth-first
   search reaches it first with the smallest n).  The state graph is dumped and replayed by harness/C32.py.

   Vfs = FALSE removes the operations a RemoteBranch can only do through its VFS fallback (BranchOps!VfsOps): that
   graph is what must work against a server started with BRZ_NO_SMART_VFS. *)
EXTENDS BranchOps, TLC
CONSTANTS Vfs, MaxLen, MaxCommits, MaxHeld,
          FetchRevs, TipRevs, GenRevs, TagRevs, ReadRevs, ReadNos, CfgVals, Srcs
VARIABLES W, n
vars == <<W, n>>
View == W

\* every action the constants allow (a constant set: TLC labels the edges of the dumped graph with the action)
AllActs ==
    {<<"commit">>, <<"lock">>, <<"unlock">>, <<"relock">>, <<"badtoken">>, <<"contend">>, <<"lastinfo">>, <<"parentmap">>, <<"mergesorted">>, <<"revnomap">>, <<"askabsent">>,
     <<"tags">>, <<"getcfg">>, <<"allrevs">>, <<"pullout">>, <<"pushout">>}
    \cup {<<"fetch", r>> : r \in FetchRevs} \cup {<<"settip", r>> : r \in TipRevs} \cup {<<"genhist", r>> : r \in GenRevs}
    \cup {<<o, s, ov>> : o \in {"pull", "push"}, s \in Srcs, ov \in {0, 1}}
    \cup {<<"settag", t, r>> : t \in TagNames, r \in TagRevs} \cup {<<"deltag", t>> : t \in TagNames}
    \cup {<<"setcfg", v>> : v \in CfgVals}
    \cup {<<o, r>> : o \in {"revnoof", "readrev"}, r \in ReadRevs} \cup {<<"revidat", k>> : k \in ReadNos}
Possible(w, a) ==
    /\ (a[1] \in VfsOps => Vfs)
    /\ (a[1] = "commit" => NCommits(w) < MaxCommits)
    /\ (a[1] = "settip" => a[2] \in w.revs \cup {Null})            \* callers fetch before they move the tip
    /\ (a[1] = "lock" => w.held < MaxHeld)
    /\ (a[1] \in {"relock", "badtoken"} => Locked(w))              \* they need / contradict the holder's token
Acts(w) == {a \in AllActs : Possible(w, a)}

Init == W = W0 /\ n = 0
Op(a) == /\ n < MaxLen /\ Possible(W, a)
         /\ W' = Effect(W, a)
         /\ n' = IF a[1] \in Mutators THEN n + 1 ELSE n
Next == \E a \in AllActs : Op(a)
Spec == Init /\ [][Next]_vars

(* ---- invariants *)
\* the graph stays one for which BranchOps!MergeSorted is defined (costly to evaluate: checked in the design run only)
GraphOK == ChainMerges(W.G)
StateOK == AncClosed(W) /\ TipPresent(W) /\ RevnoIsLeftHandLength(W) /\ TagsKnownOrGhost(W) /\ LockBalanced(W)
           /\ W.held <= MaxHeld /\ NCommits(W) <= MaxCommits
\* every operation enabled in W, judged on its one evaluation r = Do(W, a):
\*   reads are pure; a refused operation changes nothing - except that a diverged pull / push has already fetched;
\*   every return value is an error class or a sequence of numbers (so recorded values can be compared with it)
ErrClasses == {"", "NoSuchRevision", "DivergedBranches", "NoSuchTag", "LockNotHeld", "TokenMismatch", "LockContention",
               "RevnoOutOfBounds"}
DoOK == \A a \in Acts(W) : LET r == Do(W, a) IN
           /\ r.W = Effect(W, a)
           /\ (r.out.err # "" => \/ r.W = W
                                  \/ (/\ a[1] \in {"pull", "push"} /\ r.out.err = "DivergedBranches"
                                      /\ r.W = [W EXCEPT !.revs = @ \cup Anc(W.G, Sources[a[2]].tip)]))
           /\ r.out.err \in ErrClasses
           /\ \A i \in DOMAIN r.out.val : r.out.val[i] \in Nat
           /\ (r.out.err # "" => r.out.val = <<>>)
\* "commit by fetching a prepared revision and setting the tip" is what a pull --overwrite of that revision does to revs / tip
FetchSetTipIsOverwritePull ==
    \A s \in Srcs : LET st == Sources[s].tip
                        a == Do(Do(W, <<"fetch", st>>).W, <<"settip", st>>).W
                        b == Do(W, <<"push", s, 1>>).W
                    IN a.revs = b.revs /\ a.tip = b.tip /\ a.revno = b.revno
\* what another branch gets out of this one is exactly the ancestry of the tip and the tags
OutIsAncestry == LET v == Do(W, <<"pullout">>).out.val
                 IN SeqRange(SubSeq(v, 13, Len(v))) = Anc(W.G, W.tip) /\ v[4] = W.tip /\ v[3] = W.revno
                    /\ v[11] = W.tags["t1"] /\ v[12] = W.tags["t2"]

(* ---- anti-vacuity: TLC must reach these *)
WitnessDiverged == \A a \in Acts(W) : Do(W, a).out.err # "DivergedBranches"
WitnessTagConflict == \A a \in Acts(W) : a[1] \in {"pull", "push"} => LET o == Do(W, a).out IN o.err # "" \/ o.val[7] = 0
WitnessPendingConfig == ~(W.pend # 0 /\ W.pend # W.cfg)
WitnessGhostTag == \A t \in TagNames : W.tags[t] \in {0} \cup W.revs
WitnessOffMainline == \A r \in W.revs : r \in SeqRange(Main(W))
WitnessCommitOnSide == ~(NCommits(W) > 0 /\ 4 \in SeqRange(Main(W)))
WitnessNestedLock == W.held < 2
WitnessMergedRows == \A k \in DOMAIN MergeSorted(W) : MergeSorted(W)[k][2] = 0      \* a dotted revno x.y.z is read
=============================================================================
