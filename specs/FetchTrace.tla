----------------------------- MODULE FetchTrace -----------------------------
(* E3 for C03: observations recorded from real fetch / push / pull / sprout executions are judged by the laws of
   Fetch.tla, one row per execution:
       row.c    = [P, rev]       the source's graph as read back from the real source repository, the fetched revision
       row.impl = the observation (see Fetch.tla)
       row.spec = [revs, invs, texts, sigs, stexts, sfp]  the content the specification predicts for the target, and the
                  text keys / per-file graph the commit rule predicts for the source
   failed = the laws of C03 that do not hold on the observation (verdict);  drift = the observation satisfies the laws
   but is not exactly the specified content (model conformance). *)
EXTENDS Fetch, TLC, Json, IOUtils
Rows == JsonDeserialize(IOEnv.VF_IN)
VARIABLE i
Init == i \in 1..Len(Rows)
Next == UNCHANGED i
\* the per-file parents of a key are an ordered list in the repository and a set in the model
FpSet(q) == {<<k[1], k[2], Set(k[3])>> : k \in Set(q)}
Drift(r) == LET o == r.impl s == r.spec
            IN o.outcome = "ok" /\ ~ (/\ Set(o.trevs) = Set(s.revs) /\ Set(o.tinvs) = Set(s.invs)
                                      /\ Set(o.ttexts) = Set(s.texts) /\ Set(o.tsigs) = Set(s.sigs)
                                      /\ Set(o.stexts) = Set(s.stexts) /\ FpSet(o.sfp) = FpSet(s.sfp))
Bad == SelectSeq([k \in 1..Len(Rows) |->
                    [row |-> k, failed |-> SetToSeq(FetchFailed(Rows[k].c, Rows[k].impl)), drift |-> Drift(Rows[k])]],
                 LAMBDA r : r.failed # <<>> \/ r.drift)
ASSUME JsonSerialize(IOEnv.VF_OUT, [n |-> Len(Rows), bad |-> Bad])
=============================================================================
