----------------------------- MODULE PatchApply -----------------------------
(* Unified diffs and breezy's exact patcher (breezy.patches).
   A text is a sequence of line tokens (strings).  Tokens of NoNl stand for a line WITHOUT terminating newline and
   may only be the last line of a text; all other tokens are complete lines.  Token equality is line equality.
   A hunk is [op, or, mp, mr, lines] (orig_pos, orig_range, mod_pos, mod_range, and lines [k, t] with
   k in {"ctx", "ins", "rem"}), i.e. breezy.patches.Hunk with ContextLine / InsertLine / RemoveLine.

   ApplyHunks(orig, hunks) is iter_patched_from_hunks transcribed as a line-cursor machine; where the code is meant
   to report a conflict (a context / removed line differs from the original, or the original ends early) the
   machine's outcome is "conflict".  The diff ALGORITHM (patiencediff) is not modelled: ValidDiff says what any
   correct diff must satisfy, SpecDiff is a simple reference diff used for the design check.
   The laws of C39 are stated on observed results (Law*, Failed). *)
EXTENDS Integers, Sequences, FiniteSets

Range(s) == {s[i] : i \in DOMAIN s}
Min(a, b) == IF a < b THEN a ELSE b
Max(a, b) == IF a > b THEN a ELSE b
SubSeqSafe(s, a, b) == IF a > b THEN <<>> ELSE SubSeq(s, a, b)
Count(lines, kinds) == Cardinality({i \in DOMAIN lines : lines[i].k \in kinds})

\* ---------------------------------------------------------------- the patcher
\* machine state: ln = number of the next original line (1-based), out = lines produced, st = "ok" |
\* "mismatch" (original line differs from a context / removed line) | "exhausted" (original text ends early)
M0 == [ln |-> 1, out |-> <<>>, st |-> "ok"]

\* `while line_no < hunk.orig_pos: yield next(orig_lines)`
RECURSIVE CopyTo(_, _, _)
CopyTo(m, orig, target) ==
    IF m.st # "ok" \/ m.ln >= target THEN m
    ELSE IF m.ln > Len(orig) THEN [m EXCEPT !.st = "exhausted"]
    ELSE CopyTo([m EXCEPT !.out = Append(m.out, orig[m.ln]), !.ln = m.ln + 1], orig, target)

\* `for hunk_line in hunk.lines`
RECURSIVE DoLines(_, _, _, _)
DoLines(m, orig, lines, i) ==
    IF m.st # "ok" \/ i > Len(lines) THEN m
    ELSE LET l == lines[i] IN
         IF l.k = "ins" THEN DoLines([m EXCEPT !.out = Append(m.out, l.t)], orig, lines, i + 1)
         ELSE IF m.ln > Len(orig) THEN [m EXCEPT !.st = "exhausted"]
         ELSE IF orig[m.ln] # l.t THEN [m EXCEPT !.st = "mismatch"]
         ELSE DoLines([m EXCEPT !.out = IF l.k = "ctx" THEN Append(m.out, l.t) ELSE m.out, !.ln = m.ln + 1],
                      orig, lines, i + 1)

RECURSIVE DoHunks(_, _, _, _)
DoHunks(m, orig, hunks, h) ==
    IF m.st # "ok" \/ h > Len(hunks) THEN m
    ELSE DoHunks(DoLines(CopyTo(m, orig, hunks[h].op), orig, hunks[h].lines, 1), orig, hunks, h + 1)

\* outcome: [kind |-> "ok", why |-> "", out |-> patched text] or [kind |-> "conflict", why |-> "mismatch"|"exhausted", out |-> <<>>]
ApplyHunks(orig, hunks) ==
    LET m == DoHunks(M0, orig, hunks, 1) IN
    IF m.st = "ok" THEN [kind |-> "ok", why |-> "", out |-> m.out \o SubSeqSafe(orig, m.ln, Len(orig))]
    ELSE [kind |-> "conflict", why |-> m.st, out |-> <<>>]

\* ---------------------------------------------------------------- what a correct diff is
\* per hunk: ranges agree with the line kinds; hunks are ordered and do not overlap; the positions are those at which
\* the patcher meets the hunk (an empty range may name the line before or after the gap, both occur: "-0,0", "-3,0")
RECURSIVE HunksPlaced(_, _, _, _, _)
HunksPlaced(orig, hunks, h, ln, outn) ==           \* ln: next original line, outn: lines produced so far
    IF h > Len(hunks) THEN TRUE
    ELSE LET hk == hunks[h]
             gap == Max(hk.op - ln, 0)
             on == hk.or
             mn == hk.mr
         IN /\ hk.or = Count(hk.lines, {"ctx", "rem"})
            /\ hk.mr = Count(hk.lines, {"ctx", "ins"})
            /\ hk.lines # <<>>
            /\ (h > 1 \/ hk.op >= 0) /\ (hk.op >= ln \/ (hk.op = 0 /\ ln = 1))
            /\ IF mn > 0 THEN hk.mp = outn + gap + 1 ELSE hk.mp \in {outn + gap, outn + gap + 1}
            /\ HunksPlaced(orig, hunks, h + 1, ln + gap + on, outn + gap + mn)
ValidDiff(old, new, hunks) ==
    /\ HunksPlaced(old, hunks, 1, 1, 0)
    /\ ApplyHunks(old, hunks) = [kind |-> "ok", why |-> "", out |-> new]
    /\ (old = new) <=> (hunks = <<>>)

\* ---------------------------------------------------------------- a reference diff (design check only)
RECURSIVE CommonPrefix(_, _)
CommonPrefix(a, b) == IF a = <<>> \/ b = <<>> \/ Head(a) # Head(b) THEN 0 ELSE 1 + CommonPrefix(Tail(a), Tail(b))
Reverse(s) == [i \in 1..Len(s) |-> s[Len(s) + 1 - i]]
Lines(k, s) == [i \in 1..Len(s) |-> [k |-> k, t |-> s[i]]]
\* one hunk: common prefix and suffix kept (ctx lines of them shown), the middle replaced; breezy's numbering
\* (start + 1 even for an empty range, but 0 for an empty file)
SpecDiff(old, new, ctx) ==
    IF old = new THEN <<>>
    ELSE LET p == CommonPrefix(old, new)
             s == Min(CommonPrefix(Reverse(old), Reverse(new)), Min(Len(old), Len(new)) - p)
             start == Max(p - ctx, 0)
             endO == Min(Len(old) - s + ctx, Len(old))
             endN == Min(Len(new) - s + ctx, Len(new))
         IN <<[op |-> IF old = <<>> THEN 0 ELSE start + 1, or |-> endO - start,
               mp |-> IF new = <<>> THEN 0 ELSE start + 1, mr |-> endN - start,
               lines |-> Lines("ctx", SubSeqSafe(old, start + 1, p)) \o Lines("rem", SubSeqSafe(old, p + 1, Len(old) - s))
                         \o Lines("ins", SubSeqSafe(new, p + 1, Len(new) - s))
                         \o Lines("ctx", SubSeqSafe(old, Len(old) - s + 1, endO))]>>

\* ---------------------------------------------------------------- texts and perturbations
\* Toks: complete lines; NoNl: lines without newline (last line only)
WellFormed(t, Toks, NoNl) == \A i \in DOMAIN t : t[i] \in (IF i = Len(t) THEN Toks \cup NoNl ELSE Toks)
\* single line substitution / insertion / deletion of a text, and its proper prefixes (truncation)
Perturb(t, Toks, NoNl) ==
    LET n == Len(t)
        subst == {[t EXCEPT ![i] = x] : i \in 1..n, x \in Toks \cup NoNl}
        ins == {SubSeqSafe(t, 1, i) \o <<x>> \o SubSeqSafe(t, i + 1, n) : i \in 0..n, x \in Toks \cup NoNl}
        del == {SubSeqSafe(t, 1, i - 1) \o SubSeqSafe(t, i + 1, n) : i \in 1..n}
        pre == {SubSeqSafe(t, 1, i) : i \in 0..(n - 1)}
    IN {u \in subst \cup ins \cup del \cup pre : u # t /\ WellFormed(u, Toks, NoNl)}

(* ---------------------------------------------------------------- the laws of C39 on an observation
   c = [old, new, ctx, perts]   (perts: the perturbed old texts that were tried, a sequence)
   o.empty   : internal_diff wrote nothing
   o.hunks   : hunks of the real diff as parsed by parse_patches (o.npatch patches found)
   o.hunks2  : hunks after as_bytes() and parsing again
   o.stats   : Patch.stats_values()
   o.app1    : outcome of iter_patched(old, diff lines)             [kind |-> "ok" | exception name, out]
   o.app2    : outcome of iter_patched_from_hunks(old, o.hunks)
   o.perts[k]: outcome of iter_patched_from_hunks(c.perts[k], o.hunks) *)
Ok(text) == [kind |-> "ok", out |-> text]
\* applying the diff to the old text gives exactly the new text (an empty diff means the texts are equal)
LawApply(c, o) == IF o.empty THEN c.old = c.new
                  ELSE o.npatch = 1 /\ o.app1 = Ok(c.new) /\ o.app2 = Ok(c.new)
\* parse . serialise . parse = parse
LawRoundTrip(c, o) == o.hunks2 = o.hunks
\* statistics = numbers of inserted / removed lines of the hunks = changed line counts
AllLines(hunks) == [h \in DOMAIN hunks |-> hunks[h].lines]
RECURSIVE SumCount(_, _)
SumCount(hunks, kinds) == IF hunks = <<>> THEN 0 ELSE Count(Head(hunks).lines, kinds) + SumCount(Tail(hunks), kinds)
LawStats(c, o) == o.empty \/ (/\ o.stats[1] = SumCount(o.hunks, {"ins"}) /\ o.stats[2] = SumCount(o.hunks, {"rem"})
                              /\ o.stats[1] - o.stats[2] = Len(c.new) - Len(c.old))
\* a text that does not match the diff's context is reported as a conflict (PatchConflict), never patched
\* one pass over the perturbed texts: what the transcribed patcher says for the REAL hunks against what was observed;
\* f = the failed conflict clause (or <<>>), d = differs from the transcription where the text still matches (drift)
PertJudge(c, o) ==
    IF o.empty THEN {}
    ELSE {LET sp == ApplyHunks(c.perts[k], o.hunks)
              ob == o.perts[k]
          IN [f |-> IF sp.kind = "conflict" /\ ob.kind # "PatchConflict" THEN <<"conflict", sp.why, ob.kind>> ELSE <<>>,
              d |-> sp.kind = "ok" /\ ob # Ok(sp.out)] : k \in DOMAIN c.perts}
OtherFailures(c, o) == (IF LawApply(c, o) THEN {} ELSE {<<"apply", "", o.app1.kind>>})
                       \cup (IF LawRoundTrip(c, o) THEN {} ELSE {<<"roundtrip", "", "">>})
                       \cup (IF LawStats(c, o) THEN {} ELSE {<<"stats", "", "">>})
\* conformance (drift only): the recorded hunks form a correct diff in the sense of ValidDiff, the hunk count statistic
\* is right (texts that still match must be patched exactly as the transcription says: PertJudge.d)
ConformsBase(c, o) ==
    /\ ValidDiff(c.old, c.new, o.hunks)
    /\ o.empty = (o.hunks = <<>>)
    /\ ~o.empty => o.stats[3] = Len(o.hunks)
\* verdict of one observation: failed clauses (as <<clause, why, observed kind>>) and drift
Verdict(c, o) == LET pj == PertJudge(c, o) IN
                 [failed |-> OtherFailures(c, o) \cup ({r.f : r \in pj} \ {<<>>}),
                  drift |-> ~ConformsBase(c, o) \/ \E r \in pj : r.d]
Failed(c, o) == Verdict(c, o).failed
Conforms(c, o) == ~Verdict(c, o).drift

\* what an ideal implementation would record (design check): the reference diff and the transcribed patcher
Rec(r) == IF r.kind = "ok" THEN Ok(r.out) ELSE [kind |-> "PatchConflict", out |-> <<>>]
SpecObs(c) ==
    LET hs == SpecDiff(c.old, c.new, c.ctx) IN
    [empty |-> hs = <<>>, npatch |-> IF hs = <<>> THEN 0 ELSE 1, hunks |-> hs, hunks2 |-> hs,
     stats |-> <<SumCount(hs, {"ins"}), SumCount(hs, {"rem"}), Len(hs)>>,
     app1 |-> Rec(ApplyHunks(c.old, hs)), app2 |-> Rec(ApplyHunks(c.old, hs)),
     perts |-> [k \in DOMAIN c.perts |-> Rec(ApplyHunks(c.perts[k], hs))]]
=============================================================================
