------------------------------ MODULE Cmdline ------------------------------
(* breezy.cmdline: the Splitter state machine (_Whitespace / _Quotes / _Backslash / _Word with the push-back),
   transcribed one branch per `process` branch, the quoting rule the splitter documents, and the laws of
   property C50 as operators on *observed* results, so that the same text judges the transcription (design
   check in CmdlineGen) and the real cmdline.split (trace check in CmdlineTrace).
   A string is a sequence of one-character strings. *)
EXTENDS Naturals, Sequences, FiniteSets

BS  == "\\"
DQ  == "\""
SQ  == "'"
SP  == " "
TAB == "\t"
IsWs(ch) == ch \in {SP, TAB}                      \* re "\s" restricted to the alphabet
QuoteChars(sq) == IF sq THEN {DQ, SQ} ELSE {DQ}   \* Splitter.allowed_quote_chars
Rep(ch, n) == [k \in 1..n |-> ch]
Range(s) == {s[i] : i \in DOMAIN s}

(* ------------------------------------------------------------------ the machine
   One call of Run = one call of state.process(next_char, context); the state object is spread over
     base    : "ws" (_Whitespace) or "word" (_Word)            -- the bottom state
     q       : "" or the quote character of an enclosing _Quotes(q, exit_state = base)
     bs      : 0 or the count of a _Backslash(exit_state = that _Quotes or base) on top
     tok     : "".join(context.token);  started : len(context.token) > 0;  quoted : context.quoted
     i       : index of the next character; a push-back is "call again without advancing i"
   Result of Run = Splitter._get_token: [i |-> where the next token starts, tok, quoted]. *)
RECURSIVE Run(_, _, _, _, _, _, _, _, _)
Run(s, Q, i, base, q, bs, tok, started, quoted) ==
    IF i > Len(s) THEN                                  \* input exhausted: _Backslash.finish appends the pending run
        [i |-> i, tok |-> IF bs > 0 THEN tok \o Rep(BS, bs) ELSE tok, quoted |-> quoted]
    ELSE LET ch == s[i] IN
    IF bs > 0 THEN                                                        \* _Backslash.process
        IF ch = BS THEN Run(s, Q, i + 1, base, q, bs + 1, tok, started, quoted)
        ELSE IF ch \in Q THEN
            IF bs % 2 = 1 THEN Run(s, Q, i + 1, base, q, 0, tok \o Rep(BS, bs \div 2) \o <<ch>>, TRUE, quoted)
            ELSE Run(s, Q, i, base, q, 0, tok \o Rep(BS, bs \div 2), TRUE, quoted)             \* push-back
        ELSE Run(s, Q, i, base, q, 0, tok \o Rep(BS, bs), TRUE, quoted)                        \* push-back
    ELSE IF q # "" THEN                                                   \* _Quotes.process
        IF ch = BS THEN Run(s, Q, i + 1, base, q, 1, tok, started, quoted)
        ELSE IF ch = q THEN Run(s, Q, i + 1, base, "", 0, tok, TRUE, quoted)                    \* token.append("")
        ELSE Run(s, Q, i + 1, base, q, 0, Append(tok, ch), TRUE, quoted)
    ELSE IF base = "ws" THEN                                              \* _Whitespace.process
        IF IsWs(ch) THEN (IF started THEN [i |-> i + 1, tok |-> tok, quoted |-> quoted]         \* returns None
                          ELSE Run(s, Q, i + 1, base, q, 0, tok, started, quoted))
        ELSE IF ch \in Q THEN Run(s, Q, i + 1, base, ch, 0, tok, started, TRUE)
        ELSE IF ch = BS THEN Run(s, Q, i + 1, base, q, 1, tok, started, quoted)
        ELSE Run(s, Q, i + 1, "word", q, 0, Append(tok, ch), TRUE, quoted)
    ELSE                                                                  \* _Word.process
        IF IsWs(ch) THEN [i |-> i + 1, tok |-> tok, quoted |-> quoted]                          \* returns None
        ELSE IF ch \in Q THEN Run(s, Q, i + 1, base, ch, 0, tok, started, quoted)
        ELSE IF ch = BS THEN Run(s, Q, i + 1, base, q, 1, tok, started, quoted)
        ELSE Run(s, Q, i + 1, base, q, 0, Append(tok, ch), TRUE, quoted)

RECURSIVE Tokens(_, _, _)
Tokens(s, Q, i) ==                                       \* Splitter.__next__ until the token is None
    LET m == Run(s, Q, i, "ws", "", 0, <<>>, FALSE, FALSE) IN
    IF ~m.quoted /\ m.tok = <<>> THEN <<>>
    ELSE <<[tok |-> m.tok, quoted |-> m.quoted]>> \o Tokens(s, Q, m.i)

Split(s, sq) == LET t == Tokens(s, QuoteChars(sq), 1) IN [toks  |-> [k \in DOMAIN t |-> t[k].tok],
                                                          flags |-> [k \in DOMAIN t |-> t[k].quoted]]

(* ------------------------------------------------------------------ the documented quoting rule
   Wrap the argument in double quotes.  Inside, 2N backslashes + quote read as N backslashes and the quote
   *ends/starts* quoting, 2N+1 backslashes + quote read as N backslashes and a literal quote, backslashes not
   followed by a quote are literal.  Hence a run of N backslashes followed by ANY allowed quote character is
   written as 2N+1 backslashes + that character (with single quotes allowed a backslash before ' is an escape
   even inside "..."), and a trailing run (it precedes the closing quote) is doubled. *)
RECURSIVE QuoteFrom(_, _, _, _)
QuoteFrom(a, Q, i, n) ==                    \* n = length of the pending run of backslashes
    IF i > Len(a) THEN Rep(BS, 2 * n)
    ELSE IF a[i] = BS THEN QuoteFrom(a, Q, i + 1, n + 1)
    ELSE IF a[i] \in Q THEN Rep(BS, 2 * n + 1) \o <<a[i]>> \o QuoteFrom(a, Q, i + 1, 0)
    ELSE Rep(BS, n) \o <<a[i]>> \o QuoteFrom(a, Q, i + 1, 0)
Quote(a, Q) == <<DQ>> \o QuoteFrom(a, Q, 1, 0) \o <<DQ>>

RECURSIVE JoinFrom(_, _, _)
JoinFrom(args, Q, k) == IF k > Len(args) THEN <<>>
                        ELSE (IF k > 1 THEN <<SP>> ELSE <<>>) \o Quote(args[k], Q) \o JoinFrom(args, Q, k + 1)
QuoteJoin(args, sq) == JoinFrom(args, QuoteChars(sq), 1)

(* The other documented way of writing an argument: bare, without surrounding quotes, escaping only its quote
   characters -- a run of N backslashes followed by an allowed quote character is written as 2N+1 backslashes + that
   character; every other backslash run (also a trailing one: it is followed by the separating space or the end, not
   by a quote) stays as it is.  Only an empty argument or one containing whitespace has to be wrapped as above.
   Token boundaries of bare arguments are decided by _Whitespace / _Word, not by a closing quote. *)
RECURSIVE BareFrom(_, _, _, _)
BareFrom(a, Q, i, n) ==
    IF i > Len(a) THEN Rep(BS, n)
    ELSE IF a[i] = BS THEN BareFrom(a, Q, i + 1, n + 1)
    ELSE IF a[i] \in Q THEN Rep(BS, 2 * n + 1) \o <<a[i]>> \o BareFrom(a, Q, i + 1, 0)
    ELSE Rep(BS, n) \o <<a[i]>> \o BareFrom(a, Q, i + 1, 0)
QuoteMinimal(a, Q) == IF a = <<>> \/ \E i \in DOMAIN a : IsWs(a[i]) THEN Quote(a, Q) ELSE BareFrom(a, Q, 1, 0)
RECURSIVE JoinMinimalFrom(_, _, _)
JoinMinimalFrom(args, Q, k) == IF k > Len(args) THEN <<>>
                               ELSE (IF k > 1 THEN <<SP>> ELSE <<>>) \o QuoteMinimal(args[k], Q)
                                    \o JoinMinimalFrom(args, Q, k + 1)
QuoteMinimalJoin(args, sq) == JoinMinimalFrom(args, QuoteChars(sq), 1)

(* ------------------------------------------------------------------ the laws of C50 on observed results
   c.quoted : TRUE = c.line was produced from c.args by a quoting rule; FALSE = arbitrary string (c.args = <<>>)
   c.minimal: (c.quoted only) TRUE = by QuoteMinimalJoin(c.args, c.sq), FALSE = by QuoteJoin(c.args, c.sq)
   c.line   : the string handed to split;  c.sq : single_quotes_allowed
   o.toks   : cmdline.split(c.line, c.sq);  o.flags : the `quoted` flags Splitter yields (conformance only) *)
RECURSIVE Flat(_)
Flat(toks) == IF toks = <<>> THEN <<>> ELSE Head(toks) \o Flat(Tail(toks))

(* Which characters of the input belong to the quoting syntax and may therefore be missing from the tokens:
   separating whitespace, quote characters, and *escaping* backslashes = backslashes of a run that is directly
   followed by an allowed quote character (2N or 2N+1 of them stand for N).  Every other character -- letters, a
   quote character that is not allowed, backslashes not followed by a quote (also a trailing run) -- must come out. *)
RECURSIVE RunEnd(_, _)
RunEnd(y, i) == IF i <= Len(y) /\ y[i] = BS THEN RunEnd(y, i + 1) ELSE i       \* first index after the backslash run at i
Deletable(y, i, sq) == \/ IsWs(y[i])
                       \/ y[i] \in QuoteChars(sq)
                       \/ (y[i] = BS /\ LET e == RunEnd(y, i) IN e <= Len(y) /\ y[e] \in QuoteChars(sq))
\* x (from index i) is obtained from y (from index j) by deleting only deletable characters
RECURSIVE Obtainable(_, _, _, _, _)
Obtainable(x, i, y, j, sq) ==
    IF j > Len(y) THEN i > Len(x)
    ELSE LET take == i <= Len(x) /\ x[i] = y[j] /\ Obtainable(x, i + 1, y, j + 1, sq) IN
         IF Deletable(y, j, sq) THEN take \/ Obtainable(x, i, y, j + 1, sq) ELSE take

\* split . join . quote = identity
LawInverse(c, o) == (c.quoted /\ ~c.minimal) => o.toks = c.args
\* the same for arguments written bare with only their quote characters escaped: here the token boundaries come
\* from the whitespace handling, which the concatenation-based no-loss law cannot see
LawInverseMinimal(c, o) == (c.quoted /\ c.minimal) => o.toks = c.args
\* splitting never loses or invents characters outside the quoting syntax: the produced characters, in order, are
\* the input with only quoting-syntax characters deleted
LawNoLoss(c, o) == Obtainable(Flat(o.toks), 1, c.line, 1, c.sq)

LawNames == <<"inverse", "inverseminimal", "noloss">>
Law(n, c, o) == CASE n = "inverse" -> LawInverse(c, o) [] n = "inverseminimal" -> LawInverseMinimal(c, o)
                  [] n = "noloss" -> LawNoLoss(c, o)
Failed(c, o) == {n \in Range(LawNames) : ~Law(n, c, o)}

SpecOut(c) == Split(c.line, c.sq)
=============================================================================
