---------------------------- MODULE StackingTrace ----------------------------
(* E3 for C08: the projection of a real stacked repository after every step of a replayed behaviour is judged by the laws
   of Stacking.tla, one row per step:
       row.c    = [P]   the graph of everything that exists (universe + commits made so far)
       row.impl = the observation (see Stacking.tla)
       row.spec = [revs, invs, texts, sigs, tip]  the local content and branch tip the specification predicts
   failed = the laws of C08 that do not hold (verdict);  drift = laws hold but the local content / tip is not exactly the
   specified one (model conformance). *)
EXTENDS Stacking, TLC, Json, IOUtils
Rows == JsonDeserialize(IOEnv.VF_IN)
VARIABLE i
Init == i \in 1..Len(Rows)
Next == UNCHANGED i
Drift(r) == LET o == r.impl s == r.spec
            IN o.outcome = "ok" /\ ~ (/\ Set(o.lrevs) = Set(s.revs) /\ Set(o.linvs) = Set(s.invs)
                                      /\ Set(o.ltexts) = Set(s.texts) /\ Set(o.lsigs) = Set(s.sigs) /\ o.tip = s.tip)
Bad == SelectSeq([k \in 1..Len(Rows) |->
                    [row |-> k, failed |-> SetToSeq(StackFailed(Rows[k].c, Rows[k].impl)), drift |-> Drift(Rows[k])]],
                 LAMBDA r : r.failed # <<>> \/ r.drift)
ASSUME JsonSerialize(IOEnv.VF_OUT, [n |-> Len(Rows), bad |-> Bad])
=============================================================================
