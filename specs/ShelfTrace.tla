---------------------------- MODULE ShelfTrace ----------------------------
(* E3 for C15: projections recorded from real ShelfCreator / Shelver / Unshelver / ShelfManager runs (before shelving,
   after shelving, after unshelving) are judged by the laws of Shelf; one state per recorded row {c, impl}.  Rows with
   failed laws (verdict), with a fixture that is not the requested change set (prebad) or whose offered units differ
   from the model's (drift) are written back. *)
EXTENDS Shelf, Json, IOUtils
Rows == JsonDeserialize(IOEnv.VF_IN)
VARIABLE i
Init == i \in 1..Len(Rows)
Next == UNCHANGED i
Offered(k) == Range(Rows[k].impl.offered)
Bad == SelectSeq([k \in 1..Len(Rows) |->
                    [row |-> k, failed |-> SetToSeq(Failed(Rows[k].c, Rows[k].impl)),
                     prebad |-> ~PreOk(Rows[k].c, Rows[k].impl),
                     drift |-> Offered(k) # Units(D_(Rows[k].c))]],
                 LAMBDA r : r.failed # <<>> \/ r.prebad \/ r.drift)
ASSUME JsonSerialize(IOEnv.VF_OUT, [n |-> Len(Rows), bad |-> Bad])
=============================================================================
