------------------------------ MODULE FetchGen ------------------------------
(* E2 for C03: case export.  The universe is every (graph, edit pattern) with up to MaxRev revisions, at most MaxPar
   parents and NGhosts ghosts, in TLC's normalised order; the harness names the members it wants by index (VF_IDX, a
   JSON request with the list drawn from its seeded generator).  For each of them TLC writes the history (graph, revision trees, the text
   keys and per-file graph that the commit RULE predicts, signed revisions) and EVERY case of it: every ancestry-closed
   subset X of the graph as the target's content, every revision as the one to fetch, with the content the
   specification says the target holds afterwards.  Each picked history is one initial state on which the laws are
   checked against the specification's own outcome. *)
EXTENDS Fetch, TLC, Json, IOUtils
CONSTANTS MaxRev, NGhosts, MaxPar
GhostSet == IF NGhosts = 0 THEN {} ELSE {GhostId}
AllGraphs == UNION {GhostDags(n, MaxPar, GhostSet) : n \in 1..MaxRev}
Universe == SetToSeq(AllGraphs \X Patterns)
\* the request: [idx |-> indices into Universe, long |-> n]; long > 0 additionally asks for one LINEAR history of n revisions
\* (edit pattern 2) - outside the exhaustive universe, for code that works in batches of 100 revisions
Req == IF "VF_IDX" \in DOMAIN IOEnv THEN JsonDeserialize(IOEnv.VF_IDX) ELSE [idx |-> <<>>, long |-> 0]
Picked == Req.idx
HistOf(i) == History(Universe[i][1], Universe[i][2])
Seqs(c) == [revs |-> SetToSeq(c.revs), invs |-> SetToSeq(c.invs), texts |-> SetToSeq(c.texts), sigs |-> SetToSeq(c.sigs)]
CasesOf(h) == ClosedSubsets(h.P) \X DOMAIN h.P
Expect(h, X, rev) == FetchOut(h.P, Content(h, DOMAIN h.P), Content(h, X), rev)
HistOut(i) ==
    Let(HistOf(i), LAMBDA h :
        [idx |-> i, P |-> h.P, pat |-> Universe[i][2], T |-> h.T, texts |-> SetToSeq(TextKeys(h)),
         fpk |-> SetToSeq({<<k[1], k[2], SetToSeq(k[3])>> : k \in FileParentKeys(h)}),
         signed |-> SetToSeq(Signed(h.P)),
         cases |-> SetToSeq({[S |-> SetToSeq(x[1]), rev |-> x[2], exp |-> Seqs(Expect(h, x[1], x[2]))] : x \in CasesOf(h)})])
Linear(n) == [r \in 1..n |-> IF r = 1 THEN <<>> ELSE <<r - 1>>]
LongCases(n) == {<<{}, n>>, <<1..(n \div 2), n>>, <<{}, n - 4>>, <<1..(n - 1), n>>, <<1..n, n>>}
LongOut(n) ==
    Let(History(Linear(n), 2), LAMBDA h :
        [idx |-> 0, P |-> h.P, pat |-> 2, T |-> h.T, texts |-> SetToSeq(TextKeys(h)),
         fpk |-> SetToSeq({<<k[1], k[2], SetToSeq(k[3])>> : k \in FileParentKeys(h)}),
         signed |-> SetToSeq(Signed(h.P)),
         cases |-> SetToSeq({[S |-> SetToSeq(x[1]), rev |-> x[2], exp |-> Seqs(Expect(h, x[1], x[2]))] : x \in LongCases(n)})])
VARIABLE c
Init == c \in Set(Picked)
Next == UNCHANGED c
LawsHoldOnSpec ==
    Let(HistOf(c), LAMBDA h :
        \A x \in CasesOf(h) :
            Let(Expect(h, x[1], x[2]), LAMBDA t :
                /\ AncestryClosed(h.P, t.revs) /\ t = Content(h, t.revs)
                /\ Let(ObsOf(h, Content(h, DOMAIN h.P), t, FetchOut(h.P, Content(h, DOMAIN h.P), t, x[2])),
                       LAMBDA o : FetchFailed([P |-> h.P, rev |-> x[2]], o)) = {}))
Export == JsonSerialize(IOEnv.VF_OUT, [n |-> Len(Universe), hist |-> [k \in DOMAIN Picked |-> HistOut(Picked[k])],
                                        long |-> IF Req.long = 0 THEN <<>> ELSE <<LongOut(Req.long)>>])
ASSUME IF "VF_OUT" \in DOMAIN IOEnv THEN Export ELSE TRUE
=============================================================================
