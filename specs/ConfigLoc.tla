----------------------------- MODULE ConfigLoc -----------------------------
(* Location-dependent configuration of breezy (property C49), from breezy/config.py (_iter_for_location_by_parts,
   LocationMatcher, LocationSection.get, IniFileStore) and `brz help configuration`:

     * a section of locations.conf is named by a path; it applies to a location when it has no more path
       components than the location and every component matches the location's component (plain or glob);
     * the sections that apply are searched from the most specific (most components) to the least specific;
       the first one that defines the option gives the value;
     * a section with ignore_parents = true stops the search: less specific sections are not consulted;
     * <option>:policy = appendpath appends the unmatched rest of the location to the value; {relpath} in a value
       is that rest, {basename} its last component;
     * a value written to a configuration file is read back unchanged.

   Two points are not settled by the documentation and are kept open in the laws (any choice is accepted, the
   implementation's choice is only compared as drift): the order among applicable sections with the SAME number
   of components (the code sorts by section name, descending), and whether appendpath with an empty rest adds a
   trailing slash (urlutils.join does).
   One point IS settled by the property ("the value comes from the most specific matching section ..., with
   ignore_parents stopping the search") and by the legacy LocationConfig, and gets its own law (LawOwnOptions):
   the section that says ignore_parents = true is itself still consulted.

   Paths are sequences of segments; values are strings.  The laws judge *observed* values, so the same text
   judges the spec's own prediction (ConfigLocGen) and the real code (ConfigLocTrace). *)
EXTENDS Naturals, Sequences, FiniteSets, TLC

SecSegs == {"a", "b", "*", "a*", "a*b*"} \* components of section names ("a*b*": a one-component name can be a longer
                                         \* string than a two-component one - specificity counts components, not characters)
LocSegs == {"a", "b", "ab"}             \* components of locations
SeqsFromTo(S, lo, hi) == UNION {[1..k -> S] : k \in lo..hi}
Drop(s, k) == SubSeq(s, k + 1, Len(s))

\* fnmatch of one component over this alphabet
SegMatch(pat, seg) == CASE pat = "*" -> TRUE [] pat = "a*" -> seg \in {"a", "ab"} [] pat = "a*b*" -> seg = "ab"
                        [] OTHER -> pat = seg

(* a section: [path, trail, opt, ign]
     path  : its name "/" + segments joined by "/" (+ "/" when trail)
     opt   : how it defines the queried option "o":  "none"     - not at all
                                                      "plain"    - o = v<k>
                                                      "append"   - o = w<k>  and  o:policy = appendpath
                                                      "relpath"  - o = r<k>/{relpath}
                                                      "basename" - o = n<k>/{basename}
             (k = index of the section in secs, which makes the source of a value recognisable; the order of
              the sections in the file is chosen by the harness and must not matter)
     ign   : "absent" | "true" | "false"  (ignore_parents; "false" means the same as absent)                                                 *)
Applies(sec, loc) == Len(sec.path) <= Len(loc) /\ \A q \in 1..Len(sec.path) : SegMatch(sec.path[q], loc[q])
Extra(sec, loc)   == Drop(loc, Len(sec.path))
Defines(sec)      == sec.opt # "none"
Ignores(sec)      == sec.ign = "true"

\* the section name as characters, for the implementation's tie-break (string comparison of names)
SegChars(seg) == CASE seg = "a*" -> <<"a", "*">> [] seg = "ab" -> <<"a", "b">> [] seg = "a*b*" -> <<"a", "*", "b", "*">>
                   [] OTHER -> <<seg>>
RECURSIVE PathChars(_)
PathChars(p) == IF p = <<>> THEN <<>> ELSE <<"/">> \o SegChars(Head(p)) \o PathChars(Tail(p))
IdChars(sec) == PathChars(sec.path) \o (IF sec.trail THEN <<"/">> ELSE <<>>)
CharRank(ch) == CASE ch = "*" -> 1 [] ch = "/" -> 2 [] ch = "a" -> 3 [] ch = "b" -> 4      \* ASCII order
RECURSIVE StrLess(_, _)
StrLess(x, y) == IF x = <<>> THEN y # <<>>
                 ELSE IF y = <<>> THEN FALSE
                 ELSE IF Head(x) = Head(y) THEN StrLess(Tail(x), Tail(y))
                 ELSE CharRank(Head(x)) < CharRank(Head(y))

RECURSIVE JoinSegs(_)
JoinSegs(e) == IF e = <<>> THEN "" ELSE IF Len(e) = 1 THEN e[1] ELSE e[1] \o "/" \o JoinSegs(Tail(e))
Digit == <<"1", "2", "3", "4">>
None == "<none>"

\* the value the k-th section gives for a location with unmatched rest e (the implementation's exact string)
ValueOf(secs, k, e) ==
    CASE secs[k].opt = "plain"    -> "v" \o Digit[k]
      [] secs[k].opt = "append"   -> "w" \o Digit[k] \o "/" \o JoinSegs(e)
      [] secs[k].opt = "relpath"  -> "r" \o Digit[k] \o "/" \o JoinSegs(e)
      [] secs[k].opt = "basename" -> "n" \o Digit[k] \o "/" \o (IF e = <<>> THEN "" ELSE e[Len(e)])
\* acceptable renderings (open point: trailing slash of appendpath with an empty rest)
ValuesOf(secs, k, e) == {ValueOf(secs, k, e)} \cup
                        (IF secs[k].opt = "append" /\ e = <<>> THEN {"w" \o Digit[k]} ELSE {})

Applicable(secs, loc) == {k \in DOMAIN secs : Applies(secs[k], loc)}

\* search along ord (applicable sections, most specific first); own = the section that says ignore_parents is
\* itself still consulted (the property's reading) / not consulted (what LocationMatcher.get_sections does).
\* Result: index of the section that gives the value, 0 = none.
RECURSIVE Walk(_, _, _)
Walk(secs, ord, own) ==
    IF ord = <<>> THEN 0
    ELSE LET k == Head(ord) IN
         IF Ignores(secs[k]) THEN (IF own /\ Defines(secs[k]) THEN k ELSE 0)
         ELSE IF Defines(secs[k]) THEN k
         ELSE Walk(secs, Tail(ord), own)

\* all searches from most to least specific (sections with equally many components in any order)
Perms(S) == {f \in [1..Cardinality(S) -> S] : \A p, q \in 1..Cardinality(S) : p # q => f[p] # f[q]}
Orders(secs, M) ==
    IF M = {} THEN {<<>>}
    ELSE IF Cardinality(M) = 1 THEN {<<CHOOSE k \in M : TRUE>>}
    ELSE {f \in Perms(M) : \A p \in 1..Cardinality(M) - 1 : Len(secs[f[p]].path) >= Len(secs[f[p + 1]].path)}
\* the implementation's order: sorted by (number of components, name), descending
CodeOrder(secs, M) == CHOOSE f \in Orders(secs, M) :
    \A p \in 1..Cardinality(M) - 1 :
        Len(secs[f[p]].path) = Len(secs[f[p + 1]].path) => StrLess(IdChars(secs[f[p + 1]]), IdChars(secs[f[p]]))

\* everything the laws need to know about (secs, loc), computed once:
\*   own / cod : acceptable observed values under the two readings (over all admissible orders)
\*   code      : the implementation-shaped prediction;  spec : the property's reading along the implementation's order
Render(secs, loc, k) == IF k = 0 THEN None ELSE ValueOf(secs, k, Extra(secs[k], loc))
Renders(secs, loc, k) == IF k = 0 THEN {None} ELSE ValuesOf(secs, k, Extra(secs[k], loc))
Analyse(secs, loc) ==
    LET M == Applicable(secs, loc) IN
    IF M = {} THEN [own |-> {None}, cod |-> {None}, code |-> None, spec |-> None]
    ELSE IF Cardinality(M) = 1
    THEN LET k == CHOOSE j \in M : TRUE  ko == Walk(secs, <<k>>, TRUE)  kc == Walk(secs, <<k>>, FALSE) IN
         [own |-> Renders(secs, loc, ko), cod |-> Renders(secs, loc, kc),
          code |-> Render(secs, loc, kc), spec |-> Render(secs, loc, ko)]
    ELSE LET O == Orders(secs, M)  co == CodeOrder(secs, M) IN
         [own  |-> UNION {Renders(secs, loc, Walk(secs, f, TRUE)) : f \in O},
          cod  |-> UNION {Renders(secs, loc, Walk(secs, f, FALSE)) : f \in O},
          code |-> Render(secs, loc, Walk(secs, co, FALSE)),
          spec |-> Render(secs, loc, Walk(secs, co, TRUE))]
Outcomes(secs, loc, own) == IF own THEN Analyse(secs, loc).own ELSE Analyse(secs, loc).cod
CodeValue(secs, loc) == Analyse(secs, loc).code
SpecValue(secs, loc) == Analyse(secs, loc).spec

(* ---- laws on an observed value v of Stack.get("o") for location loc with sections secs; A = Analyse(secs, loc) ---- *)
\* the value is explained by a most-specific-first search with ignore_parents stopping it (either reading)
LawResolve(A, v) == v \in A.own \cup A.cod
\* ... and not only by dropping the own options of the section that sets ignore_parents
LawOwnOptions(A, v) == v \in A.own \/ v \notin A.cod
LocFailedA(A, v) == (IF LawResolve(A, v) THEN {} ELSE {"resolve"}) \cup (IF LawOwnOptions(A, v) THEN {} ELSE {"ownoptions"})
LocFailed(secs, loc, v) == LocFailedA(Analyse(secs, loc), v)

(* ---- declarative characterisation of the search result, used as design check of Walk/Orders:
        k = 0 or the index of the section that gives the value, under the property's reading ---- *)
Len_(secs, k) == Len(secs[k].path)
NotCut(secs, M, k) == ~\E j \in M : Ignores(secs[j]) /\ Len_(secs, j) > Len_(secs, k)     \* no stricter ignore_parents
Visible(secs, M) == {k \in M : Defines(secs[k]) /\ NotCut(secs, M, k)}
LawDeclarative(secs, loc, k) ==
    LET M == Applicable(secs, loc)  V == Visible(secs, M) IN
    IF k # 0
    THEN k \in V /\ ~\E j \in V : Len_(secs, j) > Len_(secs, k)            \* a most specific visible definition
    ELSE \A j \in V : \E h \in M \ {j} : Ignores(secs[h]) /\ Len_(secs, h) >= Len_(secs, j)
                                                                           \* nothing visible, or cut by a tie

(* ---- value round trip through a configuration file ---- *)
ValToks == {"a", "dq", "sq", "comma", "hash", "eq", "sp", "nl", "eacute", "bs"}
Has(v, t) == \E q \in DOMAIN v : v[q] = t
IsQuoted(v) == Len(v) >= 2 /\ v[1] = v[Len(v)] /\ v[1] \in {"dq", "sq"}
\* input classes (for the signature of a failure; the law itself is the identity for every class)
ValClass(v) == IF Has(v, "nl") THEN "newline"
               ELSE IF Has(v, "dq") /\ Has(v, "sq") /\ Has(v, "hash") THEN "both-quote-kinds-and-hash"
               ELSE IF Has(v, "dq") /\ Has(v, "sq") /\ IsQuoted(v) THEN "quoted-string-with-both-quote-kinds"
               ELSE "other"
\* o = [status |-> "ok" | "<exception type>", read |-> tokens read back]
LawRoundTrip(v, o) == o.status = "ok" /\ o.read = v
ValFailed(v, o) == IF LawRoundTrip(v, o) THEN {} ELSE {"roundtrip/" \o ValClass(v)}
=============================================================================
