-------------------------- MODULE SmartJailTrace --------------------------
(* E3 for C31: outcomes recorded from the real SmartServerRequestHandler over a backing transport built by
   BzrServerFactory._make_backing_transport are judged by the laws of SmartJail.
   Row: [c |-> case, impl |-> verb -> [w, leak], tr |-> the real translate_client_path results (path cases)].
   Written back: rows with failed laws (verdict) and rows that differ from the model (drift).
   (The row table is bound once: every syntactic reference to a JsonDeserialize definition parses the file again.) *)
EXTENDS SmartJail, TLC, Json, IOUtils, SequencesExt
VARIABLE i
Init == i = 0
Next == UNCHANGED i
Conforms(r) == IF r.c.kind = "path" THEN ConformsPath(r.c, r.impl, r.tr) ELSE ConformsOpen(r.c, r.impl)
Bad(R) == SelectSeq([k \in 1..Len(R) |->
                       [row |-> k, failed |-> SetToSeq(Failed(R[k].c, R[k].impl)), drift |-> ~Conforms(R[k])]],
                    LAMBDA r : r.failed # <<>> \/ r.drift)
ASSUME LET R == JsonDeserialize(IOEnv.VF_IN) IN JsonSerialize(IOEnv.VF_OUT, [n |-> Len(R), bad |-> Bad(R)])
=============================================================================
