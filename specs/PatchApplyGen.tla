--------------------------- MODULE PatchApplyGen ---------------------------
(* E1 + E2 for C39: TLC enumerates (old, new, context) with all perturbations of old, checks on the specification
   that the reference diff is a correct diff, that the transcribed patcher applies it back to new, and that every
   perturbed text either still matches (and is patched) or is a conflict; exports the case table.
   Families:  Short  - all pairs of well-formed texts of at most MaxLen lines over Toks / NoNl
              Long   - a fixed text of LongLen lines (cyclic tokens) against its single and double point edits
                       (LongEdits = "none" | "subst2" | "all2"), for hunks that split with context > 0. *)
EXTENDS PatchApply, TLC, Json, IOUtils, SequencesExt
CONSTANTS Toks, NoNl, MaxLen, Ctxs, LongLen, LongEdits
All == Toks \cup NoNl
Texts == UNION {{s \in [1..k -> All] : WellFormed(s, Toks, NoNl)} : k \in 0..MaxLen}
TokSeq == SetToSeq(Toks)
LongOld == [i \in 1..LongLen |-> TokSeq[((i - 1) % Len(TokSeq)) + 1]]
\* point edits with complete lines only
Edit1(t) == LET n == Len(t) IN
    {[t EXCEPT ![i] = x] : i \in 1..n, x \in Toks}
    \cup (IF LongEdits = "subst2" THEN {} ELSE
          {SubSeqSafe(t, 1, i) \o <<x>> \o SubSeqSafe(t, i + 1, n) : i \in 0..n, x \in Toks}
          \cup {SubSeqSafe(t, 1, i - 1) \o SubSeqSafe(t, i + 1, n) : i \in 1..n})
Edit1Full(t) == LET n == Len(t) IN
    {[t EXCEPT ![i] = x] : i \in 1..n, x \in Toks}
    \cup {SubSeqSafe(t, 1, i) \o <<x>> \o SubSeqSafe(t, i + 1, n) : i \in 0..n, x \in Toks}
    \cup {SubSeqSafe(t, 1, i - 1) \o SubSeqSafe(t, i + 1, n) : i \in 1..n}
LongNews == IF LongEdits = "none" THEN {}
            ELSE Edit1Full(LongOld) \cup UNION {Edit1(u) : u \in Edit1(LongOld)}
\* the perturbations of an old text are computed once and shared by all its cases
CasesOf(old, news) == LET ps == SetToSeq(Perturb(old, Toks, NoNl)) IN
                      {[old |-> old, new |-> n, ctx |-> x, perts |-> ps] : n \in news, x \in Ctxs}
Cases == UNION {CasesOf(old, Texts) : old \in Texts} \cup CasesOf(LongOld, LongNews)
\* one initial state per case; the laws are evaluated on the successor (done = TRUE) so that TLC's workers share the work
VARIABLES c, done
Init == c \in Cases /\ done = FALSE
Next == done = FALSE /\ done' = TRUE /\ UNCHANGED c
LawsHoldOnSpec == done => LET v == Verdict(c, SpecObs(c)) IN v.failed = {} /\ ~v.drift
\* anti-vacuity witnesses: TLC must find these states
Outcomes(x) == {ApplyHunks(x.perts[k], SpecDiff(x.old, x.new, x.ctx)) : k \in DOMAIN x.perts}
WitnessStillMatches == ~(c.old # c.new /\ \E r \in Outcomes(c) : r.kind = "ok" /\ r.out # c.new)
WitnessMismatch == ~(\E r \in Outcomes(c) : r.why = "mismatch")
WitnessExhausted == ~(\E r \in Outcomes(c) : r.why = "exhausted")
WitnessNoNewline == ~(c.old # <<>> /\ c.old[Len(c.old)] \in NoNl /\ c.new # <<>> /\ c.new[Len(c.new)] \in Toks /\ c.ctx = 0)
Export == JsonSerialize(IOEnv.VF_OUT, SetToSeq({[c |-> x] : x \in Cases}))
ASSUME IF "VF_OUT" \in DOMAIN IOEnv THEN Export ELSE TRUE
=============================================================================
