---------------------------- MODULE TransformMaps ----------------------------
(* The pending state of a TreeTransform as its OP MAPS, and what they mean (breezy/transform.py TreeTransform,
   breezy/bzr/transform.py TreeTransformBase / InventoryTreeTransform, breezy/git/transform.py) - shared by
   Transform.tla (C13, applying) and TransformPreview.tla (C14, building / previewing).

   A transform `m` over the trans-ids Tids (the root trans-id is the constant ROOT) is the record
       name     [Tids -> name | NONE]       _new_name         (set together with parent by create_path / adjust_path)
       parent   [Tids -> tid | ROOT | NONE] _new_parent
       contents [Tids -> kind | NONE]       _new_contents     (create_file / create_directory, content sits in limbo)
       removed  SUBSET Tids                 _removed_contents (delete_contents)
       newid    SUBSET Tids                 _new_id / _versioned (version_file, always with a fresh file id)
       remid    SUBSET Tids                 _removed_id       (unversion_file)
       exec     [Tids -> "yes"|"no"|NONE]   _new_executability
   Tree gives, for the trans-ids that stand for paths of the tree being transformed, name / parent / kind / ver / x
   (x = execute bit). *)
EXTENDS Naturals, Sequences, FiniteSets, TLC
CONSTANTS Tids, Tree, NameRank

NONE == "none"
ROOT == "root"
TOP  == "top"                          \* ROOT_PARENT
Rng(s) == {s[i] : i \in DOMAIN s}
InTree(t) == t \in DOMAIN Tree

Blank == [name |-> [t \in Tids |-> NONE], parent |-> [t \in Tids |-> NONE], contents |-> [t \in Tids |-> NONE],
          removed |-> {}, newid |-> {}, remid |-> {}, exec |-> [t \in Tids |-> NONE]]

(* ---- the final_* accessors *)
HasPath(m, t)     == t = ROOT \/ (t \in Tids /\ (InTree(t) \/ m.name[t] # NONE))
Moved(m, t)       == m.name[t] # NONE                       \* path_changed: in _new_name / _new_parent
FinalName(m, t)   == IF m.name[t] # NONE THEN m.name[t] ELSE Tree[t].name
FinalParent(m, t) == IF t = ROOT THEN TOP ELSE IF m.parent[t] # NONE THEN m.parent[t] ELSE Tree[t].parent
TreeKind(t)       == IF t = ROOT THEN "directory" ELSE IF InTree(t) THEN Tree[t].kind ELSE NONE
FinalKind(m, t)   == IF t = ROOT THEN "directory" ELSE IF m.contents[t] # NONE THEN m.contents[t]
                     ELSE IF t \in m.removed THEN NONE ELSE TreeKind(t)
TreeVer(t)        == t = ROOT \/ (InTree(t) /\ Tree[t].ver)
FinalVer(m, t)    == t = ROOT \/ t \in m.newid \/ (t \notin m.remid /\ TreeVer(t))

\* chain of ancestors of t (t excluded), cut when it leaves the known ids or after |Tids|+1 steps
RECURSIVE Chain(_, _, _)
Chain(m, t, fuel) == IF fuel = 0 \/ ~HasPath(m, t) \/ t = ROOT THEN <<>>
                     ELSE <<FinalParent(m, t)>> \o Chain(m, FinalParent(m, t), fuel - 1)
Ancestors(m, t) == Rng(Chain(m, t, Cardinality(Tids) + 1))
Rooted(m, t)    == HasPath(m, t) /\ (t = ROOT \/ ROOT \in Ancestors(m, t))     \* every id has ONE parent: no loop on the way
RECURSIVE PathOf(_, _)
PathOf(m, t) == IF t = ROOT THEN <<>> ELSE Append(PathOf(m, FinalParent(m, t)), FinalName(m, t))      \* needs Rooted
RECURSIVE TreePath(_)
TreePath(t) == IF Tree[t].parent = ROOT THEN <<Tree[t].name>> ELSE Append(TreePath(Tree[t].parent), Tree[t].name)

RECURSIVE PathLess(_, _)                 \* python's order on "/"-joined paths (names never contain a byte below "/")
PathLess(p, q) == IF p = <<>> THEN q # <<>> ELSE IF q = <<>> THEN FALSE
                  ELSE IF Head(p) = Head(q) THEN PathLess(Tail(p), Tail(q)) ELSE NameRank[Head(p)] < NameRank[Head(q)]

(* ---- find_raw_conflicts: the conflict families (bzr flavour; git has no "unversioned parent") *)
Pathed(m)      == {t \in Tids : HasPath(m, t)}
Children(m, p) == {t \in Pathed(m) : FinalParent(m, t) = p}
Parents(m)     == {FinalParent(m, t) : t \in Pathed(m)}
Counts(m, t)   == FinalKind(m, t) # NONE \/ FinalVer(m, t)            \* entry "still exists in the end"

CUnversionedParent(m) == \E p \in Parents(m) : p # TOP /\ ~FinalVer(m, p) /\ \E c \in Children(m, p) : FinalVer(m, c)
CParentLoop(m)        == \E t \in Tids : m.parent[t] # NONE /\ t \in Ancestors(m, t)
CDuplicate(m)         == \E p \in Parents(m) : \E c1, c2 \in Children(m, p) :
                            c1 # c2 /\ FinalName(m, c1) = FinalName(m, c2) /\ Counts(m, c1) /\ Counts(m, c2)
HasLiveChild(m, p)    == \E c \in Children(m, p) : FinalKind(m, c) # NONE
CMissingParent(m)     == \E p \in Parents(m) : p # TOP /\ HasLiveChild(m, p) /\ FinalKind(m, p) = NONE
CNonDirParent(m)      == \E p \in Parents(m) : p # TOP /\ HasLiveChild(m, p) /\ FinalKind(m, p) \notin {NONE, "directory"}
CVersionNoContents(m) == \E t \in m.newid : FinalKind(m, t) = NONE
CUnversionedExec(m)   == \E t \in Tids : m.exec[t] # NONE /\ ~FinalVer(m, t)
CNonFileExec(m)       == \E t \in Tids : m.exec[t] # NONE /\ FinalVer(m, t) /\ FinalKind(m, t) # "file"
COverwrite(m)         == \E t \in Tids : m.contents[t] # NONE /\ TreeKind(t) # NONE /\ t \notin m.removed

ConflictKinds(m, flavour) ==
      (IF CUnversionedParent(m) /\ flavour = "bzr" THEN {"unversioned parent"} ELSE {})
 \cup (IF CParentLoop(m) THEN {"parent loop"} ELSE {})
 \cup (IF CDuplicate(m) THEN {"duplicate"} ELSE {})
 \cup (IF CMissingParent(m) THEN {"missing parent"} ELSE {})
 \cup (IF CNonDirParent(m) THEN {"non-directory parent"} ELSE {})
 \cup (IF CVersionNoContents(m) THEN {"versioning no contents"} ELSE {})
 \cup (IF CUnversionedExec(m) THEN {"unversioned executability"} ELSE {})
 \cup (IF CNonFileExec(m) THEN {"non-file executability"} ELSE {})
 \cup (IF COverwrite(m) THEN {"overwrite"} ELSE {})
HasRawConflicts(m, flavour) == ConflictKinds(m, flavour) # {}
\* families with no entry in CONFLICT_RESOLVERS (plus "duplicate id", unreachable with fresh file ids)
Unresolvable == {"unversioned executability", "non-file executability", "overwrite"}

(* ---- the declarative result of a conflict-free transform.  Content is a tag: the old content of a tree
        trans-id, or the new content created for it. *)
Live(m)       == {t \in Tids : HasPath(m, t) /\ FinalKind(m, t) # NONE}
\* the execute bit: what set_executability scheduled, else the bit of the tree file the trans-id stands for (new content
\* created for a tree trans-id takes over the mode of the old file: DiskTreeTransform._set_mode)
FinalExec(m, t) == FinalKind(m, t) = "file" /\ (m.exec[t] = "yes" \/ (m.exec[t] = NONE /\ InTree(t) /\ Tree[t].x))
Content(m, t) == IF FinalKind(m, t) # "file" THEN "" ELSE IF m.contents[t] = "file" THEN "new" ELSE "old"
FinalTree(m)  == {[path |-> IF Rooted(m, t) THEN PathOf(m, t) ELSE <<"?", t>>, kind |-> FinalKind(m, t), c |-> Content(m, t),
                   t |-> IF FinalKind(m, t) = "file" THEN t ELSE "",
                   x |-> FinalExec(m, t), ver |-> FinalVer(m, t)] : t \in Live(m)}
TreeNow       == FinalTree(Blank)
=============================================================================
