--------------------------- MODULE TransformTrace ---------------------------
(* E3 for C13: observations recorded from real apply() runs (bzr 2a and git working trees, k-th file-system call
   failing) are judged by the laws of Transform.tla.  A row is
       [w |-> Want(transform) as exported by TransformGen (declared pre / post disk and versioning, calls per phase),
        fl |-> "bzr" | "git", k |-> fault index, obs |-> [disk, ver, left, phase, nops]]
   The verdict table (rows with failed laws; rows that differ from the model = drift) is written back as JSON. *)
EXTENDS Transform, TransformWorld, Json, IOUtils
Rows == JsonDeserialize(IOEnv.VF_IN)
WantOf(j) == [pre |-> Rng(j.pre), post |-> Rng(j.post), preinv |-> Rng(j.preinv), postinv |-> Rng(j.postinv),
              gitinv |-> Rng(j.gitinv), n |-> j.n]
Obs(j)    == [disk |-> Rng(j.disk), ver |-> Rng(j.ver), left |-> j.left, reusable |-> j.reusable, phase |-> j.phase]
Judge(r)  == LET w == WantOf(r.w)  o == Obs(r.obs) IN
    [failed |-> SetToSeq(Failed(w, r.fl, o)), shape |-> Shape(w, r.fl, o), drift |-> SetToSeq(Drift(w, r.fl, r.k, o, r.obs.nops))]
Bad == SelectSeq([i \in 1..Len(Rows) |-> [row |-> i] @@ Judge(Rows[i])], LAMBDA x : x.failed # <<>> \/ x.drift # <<>>)
\* run with Cases = {} (no behaviours): only this table is evaluated
ASSUME JsonSerialize(IOEnv.VF_OUT, [n |-> Len(Rows), bad |-> Bad])
=============================================================================
