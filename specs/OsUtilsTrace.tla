--------------------------- MODULE OsUtilsTrace ---------------------------
(* C47: results recorded from the real breezy.osutils functions are judged by the laws of OsUtils for the selected
   Part; rows whose laws fail (verdict) or which differ from the definitions (drift) are written back. *)
EXTENDS OsUtils, TLC, Json, IOUtils, SequencesExt
Rows == JsonDeserialize(IOEnv.VF_IN)
VARIABLE i
Init == i \in 1..Len(Rows)
Next == UNCHANGED i
Bad == SelectSeq([k \in 1..Len(Rows) |->
                    LET r == Rows[k] IN
                    [row |-> k, failed |-> SetToSeq(Failed(r.c, r.impl)), drift |-> ~Conforms(r.c, r.impl)]],
                 LAMBDA r : r.failed # <<>> \/ r.drift)
ASSUME JsonSerialize(IOEnv.VF_OUT, [n |-> Len(Rows), bad |-> Bad])
=============================================================================
