----------------------------- MODULE Conflicts -----------------------------
(* Conflict records and merge-modified hashes of a working tree (property C20).
   breezy/bzr/conflicts.py: Conflict.as_stanza / ConflictList.from_stanzas / to_stanzas (persistence),
   ConflictList.select_conflicts (selection); breezy/bzr/workingtree.py: set_conflicts, conflicts,
   set_merge_modified, merge_modified; breezy/conflicts.py: resolve.

   Paths are sequences of segments (<<>> is the tree root ""); optional values are sequences of length 0 or 1
   (cpath) or the string "-" (fid, cfid, action).  A conflict is
       [type, path, cpath, fid, cfid, action]
   with type one of the ten registered typestrings.  The stanza byte format is not modelled: persistence is
   identity through the real round trip.

   Case kinds
     "sel": [list : Seq(conflict), tree : Seq([path, id]) versioned paths of the real tree, paths : Seq(path)
             given to select / resolve, recurse : BOOLEAN]
        observation [back : list read by a re-opened tree after set_conflicts,
                     kept, selected : result of select_conflicts on that list,
                     remaining : conflicts() of a re-opened tree after resolve(paths, recursive, action=done)]
     "mm":  [recs : Seq([name, hash, after]) the records given to set_merge_modified, IN THE ORDER they are
                    written to the merge-hashes file; hash = "cur" (hash of the text at that time) | "old" (some other
                    hash); after = what happens to the file between set_merge_modified and the re-open:
                    "same" | "unv" (un-versioned, kept on disk) | "mod" (text changed),
             versioned : Seq(name) files versioned when set_merge_modified is called, names : Seq(name) all files]
        observation [back : name -> "-" | "cur" | "old" | "?"] merge_modified() of a re-opened tree *)
EXTENDS Naturals, Sequences, FiniteSets, SequencesExt

None == "-"
Types == {"text conflict", "contents conflict", "path conflict", "duplicate id", "duplicate", "parent loop",
          "unversioned parent", "missing parent", "deleting parent", "non-directory parent"}
TwoPathTypes == {"duplicate id", "duplicate", "parent loop"}               \* HandledPathConflict
OptPathTypes == {"contents conflict", "path conflict"}                     \* PathConflict: conflict_path optional
ActionTypes == TwoPathTypes \cup {"unversioned parent", "missing parent", "deleting parent", "non-directory parent"}
WellFormed(k) == /\ k.type \in Types
                 /\ (k.type \in TwoPathTypes => Len(k.cpath) = 1)
                 /\ (k.type \notin TwoPathTypes \cup OptPathTypes => k.cpath = <<>>)
                 /\ (k.type \notin TwoPathTypes => k.cfid = None)
                 /\ (k.action = None <=> k.type \notin ActionTypes)

(* ---- osutils.is_inside: component-wise prefix; everything is inside the root *)
IsInside(dir, p) == Len(dir) <= Len(p) /\ SubSeq(p, 1, Len(dir)) = dir
IsInsideAny(dirs, p) == \E d \in dirs : IsInside(d, p)

(* ---- ConflictList.select_conflicts(tree, paths, recurse): a conflict is selected iff its path or conflict path
        is one of the given paths (or, recursing, inside one), or its file id / conflict file id is the id of a
        given path in the tree. *)
IdOf(tree, p) == LET hits == {e \in Range(tree) : e.path = p} IN
                 IF hits = {} THEN None ELSE (CHOOSE e \in hits : TRUE).id
PathHit(paths, recurse, p) == p \in paths \/ (recurse /\ IsInsideAny(paths, p))
IdHit(tree, paths, f) == f # None /\ \E q \in paths : IdOf(tree, q) = f
Selected(k, tree, paths, recurse) ==
    \/ PathHit(paths, recurse, k.path)
    \/ (k.cpath # <<>> /\ PathHit(paths, recurse, k.cpath[1]))
    \/ IdHit(tree, paths, k.fid)
    \/ IdHit(tree, paths, k.cfid)
Select(list, tree, paths, recurse) ==
    [selected |-> SelectSeq(list, LAMBDA k : Selected(k, tree, paths, recurse)),
     kept     |-> SelectSeq(list, LAMBDA k : ~Selected(k, tree, paths, recurse))]

(* ---- merge-modified hashes: what is read back is the recorded hash of the files that are (still) versioned and
        whose text still has it; a stale record only drops itself *)
Live(c, r) == r.name \in Range(c.versioned) /\ r.hash = "cur" /\ r.after = "same"
MergeModified(c) == [n \in Range(c.names) |-> IF \E r \in Range(c.recs) : r.name = n /\ Live(c, r) THEN "cur" ELSE None]

(* ---- the laws of C20 on OBSERVED outcomes *)
Count(s, x) == Cardinality({i \in DOMAIN s : s[i] = x})
BagEq(s, t) == Len(s) = Len(t) /\ \A x \in Range(s) \cup Range(t) : Count(s, x) = Count(t, x)
SelLawNames == <<"persist", "select_removes", "select_keeps", "resolve_keeps">>
SelLaw(n, c, o) ==
    LET sp == Select(c.list, c.tree, Range(c.paths), c.recurse) IN
    CASE n = "persist"        -> o.back = c.list                      \* type, paths, file ids, action; order
      [] n = "select_removes" -> BagEq(o.selected, sp.selected)       \* exactly the selected conflicts ...
      [] n = "select_keeps"   -> BagEq(o.kept, sp.kept)               \* ... and the rest is kept
      [] n = "resolve_keeps"  -> BagEq(o.remaining, sp.kept)          \* after marking resolved and re-opening
MmLawNames == <<"mm_persist", "mm_faithful">>
MmLaw(n, c, o) ==
    \* every record of a still versioned, unchanged file is read back - wherever stale records sit around it
    CASE n = "mm_persist"  -> \A r \in Range(c.recs) : Live(c, r) => o.back[r.name] = "cur"
    \* nothing is read back that was not recorded, and never with another hash
      [] n = "mm_faithful" -> \A k \in Range(c.names) :
                                  o.back[k] # None => \E r \in Range(c.recs) : r.name = k /\ r.hash = o.back[k]
Failed(c, o) == IF c.kind = "sel" THEN {n \in Range(SelLawNames) : ~SelLaw(n, c, o)}
                ELSE {n \in Range(MmLawNames) : ~MmLaw(n, c, o)}

SpecOut(c) ==
    IF c.kind = "sel"
    THEN LET sp == Select(c.list, c.tree, Range(c.paths), c.recurse) IN
         [back |-> c.list, kept |-> sp.kept, selected |-> sp.selected, remaining |-> sp.kept]
    ELSE [back |-> MergeModified(c)]
Conforms(c, o) == o = SpecOut(c)           \* including the order of the kept / selected lists
=============================================================================
