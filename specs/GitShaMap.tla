------------------------------ MODULE GitShaMap ------------------------------
(* The bzr <-> git SHA map of breezy.git.cache (GitShaMap / CacheUpdater / BzrGitCache), abstractly: what every
   backend (DictGitShaMap, SqliteGitShaMap, TdbGitShaMap, IndexGitShaMap) has to answer after a sequence of updates.

     commit entries  [rev, sha, tree, ver]   revision id <-> git commit sha (+ root tree sha, testament verifier)
     object entries  [t, sha, fid, rev]      t = "blob" | "tree";  (file id, revision) -> git sha, and a git sha ->
                                             EVERY (file id, revision) that produced it (identical texts / identical
                                             directories share a sha)

   A revision's entries are added by one CacheUpdater (add_object ... finish) inside a write group; the group is
   committed or aborted; persistent backends can be closed and re-opened.  Entries of the open write group are
   visible to look-ups of the same session (the converter relies on that: _tree_to_objects looks up unchanged
   blobs/trees while the group is open).  The property (C38) does not say what an ABORTED group leaves behind, and
   the backends legitimately differ there (the in-memory map cannot forget, sqlite keeps the rows in its open
   transaction, the index drops its builder): such entries go to `limbo`, and an answer is accepted if it is right
   with or without them.  Every look-up is an event carrying the backend's answer; GitShaMapTrace requires
   answer = Lookup(state, args).                                                                              *)
EXTENDS Naturals, FiniteSets, Sequences, TLC

CONSTANTS Revs, Fids, Shas, MaxObjs, MaxEntries   \* bounded universe for model checking the design (unused by trace validation)

VARIABLES commits, objs,        \* committed: what a re-opened backend must still answer
          pcommits, pobjs,      \* added in the open write group
          lcommits, lobjs,      \* added in a write group that was aborted
          wg                    \* a write group is open
vars == <<commits, objs, pcommits, pobjs, lcommits, lobjs, wg>>

Init == /\ commits = {} /\ objs = {} /\ pcommits = {} /\ pobjs = {} /\ lcommits = {} /\ lobjs = {} /\ wg = FALSE

StartWG == ~wg /\ wg' = TRUE /\ UNCHANGED <<commits, objs, pcommits, pobjs, lcommits, lobjs>>
\* one CacheUpdater: the revision's commit entry c and object entries os (add_object*, finish)
AddRevision(c, os) == /\ wg /\ pcommits' = pcommits \cup {c} /\ pobjs' = pobjs \cup os
                      /\ UNCHANGED <<commits, objs, lcommits, lobjs, wg>>
CommitWG == /\ wg /\ wg' = FALSE /\ commits' = commits \cup pcommits /\ objs' = objs \cup pobjs
            /\ pcommits' = {} /\ pobjs' = {} /\ UNCHANGED <<lcommits, lobjs>>
AbortWG == /\ wg /\ wg' = FALSE /\ lcommits' = lcommits \cup pcommits /\ lobjs' = lobjs \cup pobjs
           /\ pcommits' = {} /\ pobjs' = {} /\ UNCHANGED <<commits, objs>>
Reopen == ~wg /\ UNCHANGED vars         \* close + open: nothing committed may be lost (limbo may or may not go away)
Repack == ~wg /\ UNCHANGED vars         \* IndexGitShaMap.repack: storage only

(* ------------------------------------------------------------------ look-ups, as functions of (C, O) *)
Exc(n) == [k |-> "exc", s |-> n, e |-> {}]
One(v) == [k |-> "one", s |-> v, e |-> {}]
Set(S) == [k |-> "set", s |-> "", e |-> S]
GitShaEntries(C, O, sha) == {<<"commit", c.rev, c.tree, c.ver>> : c \in {x \in C : x.sha = sha}}
                            \cup {<<o.t, o.fid, o.rev>> : o \in {x \in O : x.sha = sha}}
RevidsOf(C) == {c.rev : c \in C}
Sha1sOf(C, O) == {c.sha : c \in C} \cup {o.sha : o \in O}
ObjShas(O, t, fid, rev) == {o.sha : o \in {x \in O : x.t = t /\ x.fid = fid /\ x.rev = rev}}
Lookup(C, O, q, a) ==
    CASE q = "git_sha"  -> IF GitShaEntries(C, O, a[1]) = {} THEN Exc("KeyError") ELSE Set(GitShaEntries(C, O, a[1]))
      [] q = "blob_id"  -> LET S == ObjShas(O, "blob", a[1], a[2]) IN
                           IF S = {} THEN Exc("KeyError") ELSE IF Cardinality(S) = 1 THEN One(CHOOSE s \in S : TRUE) ELSE Set(S)
      [] q = "tree_id"  -> LET S == ObjShas(O, "tree", a[1], a[2]) IN
                           IF S = {} THEN Exc("KeyError") ELSE IF Cardinality(S) = 1 THEN One(CHOOSE s \in S : TRUE) ELSE Set(S)
      [] q = "commit"   -> LET S == {c.sha : c \in {x \in C : x.rev = a[1]}} IN
                           IF S = {} THEN Exc("KeyError") ELSE IF Cardinality(S) = 1 THEN One(CHOOSE s \in S : TRUE) ELSE Set(S)
      [] q = "revids"   -> Set(RevidsOf(C))
      [] q = "sha1s"    -> Set(Sha1sOf(C, O))
      [] q = "missing"  -> Set({a[i] : i \in DOMAIN a} \ RevidsOf(C))

VisC == commits \cup pcommits
VisO == objs \cup pobjs
Answer(q, a) == Lookup(VisC, VisO, q, a)
AnswerWithLimbo(q, a) == Lookup(VisC \cup lcommits, VisO \cup lobjs, q, a)
\* r = a backend's answer [k, s, l]: "exc" with the exception's name, "one" value, or "set" given as a sequence
Same(r, x) == r.k = x.k /\ (IF r.k = "set" THEN {r.l[i] : i \in DOMAIN r.l} = x.e ELSE r.s = x.s)
\* ... or, for set-valued answers, anything in between (several aborted groups may have fared differently)
Between(r, x, y) == /\ r.k = "set" /\ y.k = "set"
                    /\ LET R == {r.l[i] : i \in DOMAIN r.l} IN
                       \/ (x.k = "set" /\ x.e \subseteq R /\ R \subseteq y.e) \/ (x.k = "set" /\ y.e \subseteq R /\ R \subseteq x.e)
                       \/ (x.k = "exc" /\ R # {} /\ R \subseteq y.e)
Right(q, a, r) == \/ Same(r, Answer(q, a)) \/ Same(r, AnswerWithLimbo(q, a))
                  \/ Between(r, Answer(q, a), AnswerWithLimbo(q, a))

(* ------------------------------------------------------------------ the design, model-checked on a small universe *)
Vers == {"t1"}
CommitU == [rev : Revs, sha : Shas, tree : Shas, ver : Vers]
ObjU == [t : {"blob", "tree"}, sha : Shas, fid : Fids, rev : Revs]
AllC == commits \cup pcommits \cup lcommits
AllO == objs \cup pobjs \cup lobjs
\* the converter is deterministic: a revision has one commit entry, a (file id, revision) one sha; a file id names a
\* file or a directory, never both; a git sha names one object (one commit, or blobs, or trees)
Functional(C, O) == /\ \A c1, c2 \in C : (c1.rev = c2.rev \/ c1.sha = c2.sha) => c1 = c2
                    /\ \A o1, o2 \in O : (o1.fid = o2.fid /\ o1.rev = o2.rev) => o1 = o2
                    /\ \A o1, o2 \in O : (o1.fid = o2.fid \/ o1.sha = o2.sha) => o1.t = o2.t
                    /\ \A c \in C, o \in O : c.sha # o.sha
Next == \/ StartWG \/ CommitWG \/ AbortWG \/ Reopen \/ Repack
        \/ \E c \in CommitU : \E os \in {S \in SUBSET {o \in ObjU : o.rev = c.rev} : Cardinality(S) <= MaxObjs} :
              /\ c.rev \notin RevidsOf(VisC)        \* _update_sha_map converts only revisions that are missing
              /\ Functional(AllC \cup {c}, AllO \cup os)
              /\ AddRevision(c, os)
Spec == Init /\ [][Next]_vars
Bounded == Cardinality(AllC) + Cardinality(AllO) <= MaxEntries      \* state constraint for model checking

TypeOK == commits \subseteq CommitU /\ pcommits \subseteq CommitU /\ objs \subseteq ObjU /\ pobjs \subseteq ObjU
          /\ (~wg => pcommits = {} /\ pobjs = {})
\* the look-ups are mutually consistent (what the callers in object_store.py assume)
LawCommit == \A c \in VisC : /\ Answer("commit", <<c.rev>>) = One(c.sha)
                             /\ <<"commit", c.rev, c.tree, c.ver>> \in Answer("git_sha", <<c.sha>>).e
                             /\ Answer("missing", <<c.rev>>) = Set({})
LawObject == \A o \in VisO : /\ Answer(IF o.t = "blob" THEN "blob_id" ELSE "tree_id", <<o.fid, o.rev>>) = One(o.sha)
                             /\ <<o.t, o.fid, o.rev>> \in Answer("git_sha", <<o.sha>>).e
LawSha1s == \A s \in Shas : (Answer("git_sha", <<s>>).k = "set") <=> (s \in Answer("sha1s", <<>>).e)
LawRevids == \A r \in Revs : (r \in Answer("revids", <<>>).e) <=> (Answer("commit", <<r>>).k = "one")
\* nothing that was committed is ever lost, whatever happens later (re-open, abort, repack)
Durable == [][commits \subseteq commits' /\ objs \subseteq objs']_vars
\* an aborted group changes no answer that does not involve its own entries
AbortIsolated == [][AbortWG => (commits' = commits /\ objs' = objs /\ pcommits' = {} /\ pobjs' = {})]_vars

\* anti-vacuity witnesses (TLC must violate them)
WitnessSharedBlob == ~(\E o1, o2 \in objs : o1 # o2 /\ o1.sha = o2.sha /\ o1.t = "blob" /\ o2.t = "blob")
WitnessLimbo == ~(lcommits # {} /\ commits # {})
=============================================================================
