----------------------------- MODULE WriteGroup -----------------------------
(* Write groups of a pack repository (breezy/repository.py start/commit/abort/suspend/resume_write_group,
   breezy/bzr/pack_repo.py RepositoryPackCollection._commit_write_group/_abort_write_group/_suspend_write_group/
   _resume_write_group, groupcompress_repo.py _check_new_inventories) - property C06.

   The repository already holds revision r1 completely.  A write group inserts any of the COMPONENTS of the next
   revision r2, copied from a source repository as record streams:
       rev (revision text), inv (inventory), chk (its CHK pages; 2a only), txt (the new file text), sig (signature)
   plus, for delta-compressed formats, dangle = an inventory delta of r3 whose compression parent (r2's inventory) is
   absent.  `visible` is what a FRESH repository object sees - the thing C06 is about. *)
EXTENDS Naturals, FiniteSets, Sequences, TLC
CONSTANTS Components,      \* subset of {"rev","inv","chk","txt","sig","dangle"}
          HasChk,          \* BOOLEAN: format keeps inventories in CHK pages (2a)
          CheckNeeds,      \* BOOLEAN: commit_write_group verifies that new revisions have their inventory / CHK pages /
                           \*   texts (GCRepositoryPackCollection._check_new_inventories); the knit-pack formats'
                           \*   RepositoryPackCollection._check_new_inventories "does no checks" - a named deviation
          LateRefusal,     \* BOOLEAN: a missing compression parent inside a RESUMED pack is noticed only by
                           \*   ResumedPack.finish()/_check_references, after _commit_write_group has already dropped its
                           \*   new pack and moved earlier resumed packs (knit-pack formats, fresh repository object)
          MaxIns
VARIABLES wg,        \* "none" | "open" | "suspended" | "refused" (commit refused: the caller must abort) | "wrecked"
          ins,       \* components inserted into the current write group
          visible,   \* components a fresh open sees (beyond r1)
          listed,    \* number of packs listed in pack-names beyond the initial one
          upload,    \* BOOLEAN: files present in upload/
          last,      \* outcome of the last call: "ok" | "refused"
          ntok,      \* number of suspended packs (resume tokens) belonging to the current write group
          fresh      \* BOOLEAN: data inserted since the write group was started / resumed (goes into a new pack)
vars == <<wg, ins, visible, listed, upload, last, ntok, fresh>>

\* _commit_write_group refuses: missing compression parents (the delta of r3's inventory dangles unless r2's inventory
\* is in the group or already present), or - where the format checks it - a NEW REVISION whose inventory / chk pages /
\* texts are not present in this repository itself
Needs == IF HasChk THEN {"inv", "chk", "txt"} ELSE {"inv", "txt"}
Dangling(S) == "dangle" \in S /\ "inv" \notin (S \cup visible)
Incomplete(S) == "rev" \in S /\ ~(Needs \subseteq (S \cup visible))
Refused(S) == Dangling(S) \/ (CheckNeeds /\ Incomplete(S))

Init == wg = "none" /\ ins = {} /\ visible = {} /\ listed = 0 /\ upload = FALSE /\ last = "ok" /\ ntok = 0 /\ fresh = FALSE
Tick == TRUE
Start == /\ wg = "none" /\ wg' = "open" /\ ins' = {} /\ upload' = TRUE /\ last' = "ok" /\ Tick
         /\ ntok' = 0 /\ fresh' = FALSE
         /\ UNCHANGED <<visible, listed>>
Ins(c) == /\ wg = "open" /\ c \in Components \ (ins \cup visible) /\ Cardinality(ins) < MaxIns
          /\ ins' = ins \cup {c} /\ last' = "ok" /\ Tick /\ fresh' = TRUE /\ UNCHANGED <<wg, visible, listed, upload, ntok>>
Abort == /\ wg \in {"open", "refused"} /\ wg' = "none" /\ ins' = {} /\ upload' = FALSE /\ last' = "ok" /\ Tick
         /\ ntok' = 0 /\ fresh' = FALSE
         /\ UNCHANGED <<visible, listed>>
Commit == /\ wg = "open" /\ Tick
          /\ IF Refused(ins)
             THEN last' = "refused" /\ wg' = "refused" /\ UNCHANGED <<ins, visible, listed, upload, ntok, fresh>>  \* caller aborts
             ELSE /\ last' = "ok" /\ wg' = "none" /\ ins' = {} /\ upload' = FALSE /\ ntok' = 0 /\ fresh' = FALSE
                  /\ visible' = visible \cup ins /\ listed' = listed + (IF ins = {} THEN 0 ELSE 1)
Suspend == /\ wg = "open" /\ wg' = "suspended" /\ last' = "ok" /\ Tick
           /\ upload' = (ins # {})
           /\ ntok' = ntok + (IF fresh THEN 1 ELSE 0) /\ fresh' = FALSE
           /\ UNCHANGED <<ins, visible, listed>>
Resume == /\ wg = "suspended" /\ wg' = "open" /\ last' = "ok" /\ Tick /\ upload' = TRUE
          /\ UNCHANGED <<ins, visible, listed, ntok, fresh>>
\* named deviation: after a LATE refusal the collection has already discarded / moved packs; abort_write_group may raise
\* (NoSuchFile) and the repository OBJECT is unusable afterwards.  Nothing becomes visible or listed.
AbortWrecked == /\ wg = "refused" /\ LateRefusal /\ ntok > 0 /\ wg' = "wrecked" /\ last' = "ok" /\ Tick
                /\ UNCHANGED <<ins, visible, listed, upload, ntok, fresh>>
Next == Start \/ (\E c \in Components : Ins(c)) \/ Abort \/ AbortWrecked \/ Commit \/ Suspend \/ Resume
Spec == Init /\ [][Next]_vars

(* C06 as invariants / action properties of the model *)
\* nothing of an uncommitted write group is visible; visible only grows by a successful commit of exactly `ins`
NoEffectUntilCommit == [][visible' # visible => (wg = "open" /\ wg' = "none" /\ last' = "ok" /\ visible' = visible \cup ins)]_vars
\* a refused commit changes nothing
RefusalIsNoop == [][last' = "refused" => UNCHANGED <<visible, listed, ins>>]_vars
\* a committed new revision is complete in this repository
CommittedComplete == "rev" \in visible => Needs \subseteq visible
NoDangling == "dangle" \in visible => "inv" \in visible
\* anti-vacuity
WitnessRefused == last # "refused"
WitnessTwoTokensCommitted == ~(ntok = 2 /\ wg = "open")
WitnessResumedCommit == ~(listed = 2 /\ "sig" \in visible)
=============================================================================
