------------------------------- MODULE Glob -------------------------------
(* Ignore-pattern semantics of breezy (property C48), as documented in `brz help patterns`, `brz help ignore`
   and the docstrings of breezy/globbing.py (Globster, ExceptionGlobster, _OrderedGlobster):

     * trailing slashes on patterns are ignored;
     * a pattern that contains a slash or is a regular expression (RE: prefix) is compared to the whole path
       from the branch root, any other pattern only to the last component of the path;
     * a leading "./" anchors the pattern in the root directory;
     * ?  matches any single character except "/",  *  matches 0 or more characters except "/",
       "**/" (at the start or after a "/") matches 0 or more directories, [ab] matches one character of the group;
     * RE:<regex> must match the whole path (a tiny regex subset is modelled: literals, "." and ".*");
     * "!" patterns are exceptions and take precedence over regular patterns, "!!" patterns take precedence
       over "!" patterns and act as regular ignores;
     * extension patterns ("*.x", an optimisation class of Globster) match the suffix after a dot of the last
       component - which must coincide with the documented basename semantics (checked by TLC, LawExtension).

   Patterns are sequences of TOKENS, names are sequences of CHARACTERS (one-character strings); the harness
   renders both by concatenation.  Only pattern forms whose documented meaning is unambiguous are well-formed
   (WFPattern); everything else is outside the bounded grammar of the check.

   Two layers:  PatMatchesName / IgnoredD      - the declarative meaning (the oracle of C48);
                Pick / ExceptionPick / SpecOut - the shape of the implementation (which pattern is reported:
                                                  extension, then basename, then fullpath patterns, in list order
                                                  inside a class), used for the design check and for drift.
   The laws of C48 are the Law* operators at the end; they judge *observed* results, so the same text judges
   the spec's own prediction (design check in GlobGen) and the real code (GlobTrace). *)
EXTENDS Naturals, Sequences, FiniteSets, TLC, SequencesExt
CONSTANTS MaxTok,      \* glob patterns have at most MaxTok tokens
          MaxRE,       \* RE: patterns have at most MaxRE regex tokens
          MaxName      \* names have at most MaxName characters

GlobToks == {"a", "b", ".", "*", "?", "/", "**/", "[ab]"}
RETag    == "RE:"
REToks   == {"a", "b", "/", ".", ".*"}          \* after RE: "." is any character, ".*" any string
NameChars == {"a", "b", ".", "/"}
Filler   == <<"z">>                              \* a literal that no name of the grammar contains

Drop(s, k) == SubSeq(s, k + 1, Len(s))
SeqsUpTo(S, n) == UNION {[1..k -> S] : k \in 0..n}

(* ------------------------------------------------------------------ names *)
\* a path relative to the root: non-empty components separated by single slashes, no "." / ".." components
Boundary(s, i) == i < 1 \/ i > Len(s) \/ s[i] = "/"
WFName(s) ==
    /\ Len(s) >= 1 /\ s[1] # "/" /\ s[Len(s)] # "/"
    /\ \A i \in 1..Len(s) - 1 : ~(s[i] = "/" /\ s[i + 1] = "/")
    /\ \A i \in 1..Len(s) : s[i] = "." =>
          /\ ~(Boundary(s, i - 1) /\ Boundary(s, i + 1))
          /\ ~(Boundary(s, i - 1) /\ i < Len(s) /\ s[i + 1] = "." /\ Boundary(s, i + 2))
LastSlash(s) == IF \E i \in DOMAIN s : s[i] = "/" THEN CHOOSE i \in DOMAIN s : s[i] = "/" /\ \A j \in i + 1..Len(s) : s[j] # "/"
                ELSE 0
Base(s) == Drop(s, LastSlash(s))

(* --------------------------------------------------------------- patterns *)
IsRE(p) == p # <<>> /\ p[1] = RETag
RECURSIVE Normalize(_)
Normalize(p) == IF p # <<>> /\ p[Len(p)] = "/" THEN Normalize(SubSeq(p, 1, Len(p) - 1)) ELSE p   \* trailing slashes
IsSep(t) == t = "/" \/ t = "**/"
HasSlash(p) == \E i \in DOMAIN p : IsSep(p[i])

\* token-level boundary of a path component inside a glob pattern
PBound(p, i) == i < 1 \/ i > Len(p) \/ IsSep(p[i])
WFGlob(p) ==
    /\ Len(p) >= 1 /\ Range(p) \subseteq GlobToks
    /\ p[1] # "/"                                                           \* absolute patterns are not allowed
    /\ p[Len(p)] # "**/"
    /\ \A i \in 2..Len(p) : p[i] = "/" => ~IsSep(p[i - 1])                   \* no empty component
    /\ \A i \in 2..Len(p) : p[i] = "**/" => IsSep(p[i - 1])                  \* "**/" only at the start or after "/"
    /\ \A i \in 2..Len(p) : ~(p[i] = "*" /\ p[i - 1] = "*")                  \* "**" inside a component is not documented
    /\ \A i \in 1..Len(p) : (p[i] = "." /\ PBound(p, i - 1) /\ PBound(p, i + 1)) =>
            (i = 1 /\ Len(p) >= 3 /\ p[2] = "/")                             \* "." component only as the leading "./"
WFRE(p) == /\ Len(p) >= 2 /\ p[1] = RETag /\ \A i \in 2..Len(p) : p[i] \in REToks
           /\ Len(Normalize(p)) >= 2
WFPattern(p) == WFGlob(p) \/ WFRE(p)

Kind(p) == LET n == Normalize(p) IN              \* Globster.identify on the normalised pattern
    IF IsRE(n) \/ HasSlash(n) THEN "fullpath"
    ELSE IF Len(n) >= 2 /\ n[1] = "*" /\ n[2] = "." THEN "extension"
    ELSE "basename"
KindRank(k) == CASE k = "extension" -> 1 [] k = "basename" -> 2 [] k = "fullpath" -> 3

(* --------------------------------------------- declarative match relation *)
RECURSIVE GM(_, _)       \* glob tokens against characters
GM(p, s) ==
    IF p = <<>> THEN s = <<>>
    ELSE LET t == Head(p)  r == Tail(p) IN
         CASE t = "*"    -> \E k \in 0..Len(s) : (\A j \in 1..k : s[j] # "/") /\ GM(r, Drop(s, k))
           [] t = "?"    -> s # <<>> /\ Head(s) # "/" /\ GM(r, Tail(s))
           [] t = "[ab]" -> s # <<>> /\ Head(s) \in {"a", "b"} /\ GM(r, Tail(s))
           [] t = "**/"  -> GM(r, s) \/ \E k \in 1..Len(s) : s[k] = "/" /\ GM(r, Drop(s, k))   \* 0 or more directories
           [] OTHER      -> s # <<>> /\ Head(s) = t /\ GM(r, Tail(s))                           \* literal a b . /

RECURSIVE RM(_, _)       \* regex tokens against characters, whole-string match
RM(r, s) ==
    IF r = <<>> THEN s = <<>>
    ELSE CASE Head(r) = ".*" -> \E k \in 0..Len(s) : RM(Tail(r), Drop(s, k))
           [] Head(r) = "."  -> s # <<>> /\ RM(Tail(r), Tail(s))
           [] OTHER          -> s # <<>> /\ Head(s) = Head(r) /\ RM(Tail(r), Tail(s))

Unroot(p) == IF Len(p) >= 2 /\ p[1] = "." /\ p[2] = "/" THEN Drop(p, 2) ELSE p      \* "./x": x in the root directory

\* THE documented meaning of one pattern
PatMatchesName(p, name) ==
    LET n == Normalize(p) IN
    IF IsRE(n) THEN RM(Tail(n), name)
    ELSE IF HasSlash(n) THEN GM(Unroot(n), name)
    ELSE GM(n, Base(name))

\* the extension class of Globster: "*.rest" matches when rest matches what follows some dot of the last component
ExtMatchesName(p, name) ==
    LET n == Normalize(p)  b == Base(name) IN
    \E k \in 1..Len(b) : b[k] = "." /\ GM(Drop(n, 2), Drop(b, k))
\* (the basename and fullpath classes of Globster compute PatMatchesName)

(* ------------------------------------------ the bounded grammar, tabulated
   Names are referred to by their index in NameSeq; the match relations and the per-pattern attributes are
   tabulated once per TLC run (TLCEval forces the tables), so laws over many lists are table look-ups.     *)
AllPats  == {p \in SeqsUpTo(GlobToks, MaxTok) : WFGlob(p)}
            \cup {<<RETag>> \o r : r \in {x \in SeqsUpTo(REToks, MaxRE) : WFRE(<<RETag>> \o x)}}
TabPats  == AllPats \cup {Filler}
\* all paths of <= MaxName characters, and the three-level paths with one-character components
Names    == {s \in SeqsUpTo(NameChars, MaxName) : WFName(s)}
            \cup {s \in [1..5 -> NameChars] : WFName(s) /\ s[2] = "/" /\ s[4] = "/"}
NameSeq  == TLCEval(SetToSeq(Names))
NN       == Len(NameSeq)
NameIdx  == 1..NN
MT   == TLCEval([p \in TabPats |-> TLCEval({n \in NameIdx : PatMatchesName(p, NameSeq[n])})])   \* documented meaning
KR   == TLCEval([p \in TabPats |-> KindRank(Kind(p))])
CT   == TLCEval([p \in TabPats |-> IF KR[p] = 1 THEN TLCEval({n \in NameIdx : ExtMatchesName(p, NameSeq[n])})
                                   ELSE MT[p]])                                                  \* Globster's classes
NORM == TLCEval([p \in TabPats |-> Normalize(p)])
PatMatches(p, n)   == n \in MT[p]
ClassMatches(p, n) == n \in CT[p]

(* an entry of an ignore list: prefix "", "!" or "!!" and a pattern.  For a list L and a name n everything is
   expressed through the set of indices of the entries whose pattern matches n.                              *)
PrefixSet == {"", "!", "!!"}
MatchIdx(L, n) == {i \in DOMAIN L : n \in MT[L[i].pat]}
ClassIdx(L, n) == {i \in DOMAIN L : n \in CT[L[i].pat]}
Pre(L, D, pre) == {i \in D : L[i].pre = pre}
\* THE documented meaning of an ignore list: D = MatchIdx(L, n)
IgnoredD(L, D) == Pre(L, D, "!!") # {} \/ (Pre(L, D, "!") = {} /\ Pre(L, D, "") # {})
Ignored(L, n) == IgnoredD(L, MatchIdx(L, n))
ExcActiveD(L, D) == Pre(L, D, "!") # {} \/ Pre(L, D, "!!") # {}

(* ------------------------------------------- implementation-shaped choice *)
MinOf(S) == CHOOSE x \in S : \A y \in S : x <= y
\* index reported by Globster among the (class-)matching entries M: classes in the order extension, basename,
\* fullpath; list order inside a class; 0 = no match
Pick(L, M) == IF M = {} THEN 0
              ELSE LET r == MinOf({KR[L[i].pat] : i \in M}) IN MinOf({i \in M : KR[L[i].pat] = r})
OrderedPick(L, M) == IF M = {} THEN 0 ELSE MinOf(M)
ExceptionPick(L, M) ==
    LET d == Pick(L, Pre(L, M, "!!")) IN
    IF d # 0 THEN d ELSE IF Pre(L, M, "!") # {} THEN 0 ELSE Pick(L, Pre(L, M, ""))

\* results are reported as strings; two entries with the same normalised pattern (and, where prefixes count,
\* the same prefix) are indistinguishable: the canonical index is the least such entry.
CanonP(L, i)  == IF i = 0 THEN 0 ELSE MinOf({j \in DOMAIN L : NORM[L[j].pat] = NORM[L[i].pat]})
CanonE(L, i)  == IF i = 0 THEN 0
                 ELSE MinOf({j \in DOMAIN L : L[j].pre = L[i].pre /\ NORM[L[j].pat] = NORM[L[i].pat]})

Silent == [eg |-> 0, g |-> 0, og |-> 0]
SpecOut(L, n) == LET M == ClassIdx(L, n) IN
    IF M = {} THEN Silent
    ELSE [eg |-> CanonE(L, ExceptionPick(L, M)),  \* ExceptionGlobster(list).match(name)
          g  |-> CanonP(L, Pick(L, M)),           \* Globster(patterns without prefix).match(name)
          og |-> CanonP(L, OrderedPick(L, M))]    \* _OrderedGlobster(same).match(name)

(* ----------------------------------------------------------------- laws
   o : observed results for list L and name n: a record with some of the fields
         eg (ExceptionGlobster), g (Globster), og (_OrderedGlobster), tr (WorkingTree.is_ignored with L as the
         .bzrignore content: prefixes count, order is lost).
       Values: 0 = None, i in 1..Len(L) = canonical index of the reported pattern,
               Unknown = something that is no pattern of the list (or an exception).
   D : MatchIdx(L, n), the entries whose pattern matches the name under the documented meaning.            *)
Unknown == 99
Has(o, f) == f \in DOMAIN o

\* "a file name is reported ignored exactly when at least one pattern matches it"
LawIgnoredP(D, v) == (v # 0) <=> (D # {})
\* "... exception patterns ('!') override and double-exception patterns ('!!') override those"
LawIgnoredE(L, D, v) == (v # 0) <=> IgnoredD(L, D)
\* "the reported pattern is one that matches"
LawReportedP(D, v) == v # 0 => v \in D
\* ... and under exceptions it is never a "!" pattern, it is a "!!" pattern whenever one matches, and a regular
\* one only when no "!" pattern matches
LawReportedE(L, D, v) == v # 0 =>
    /\ v \in D /\ L[v].pre # "!"
    /\ (Pre(L, D, "!!") # {} => L[v].pre = "!!")
    /\ (L[v].pre = "" => Pre(L, D, "!") = {})

LawNames == <<"ignored", "reported", "precedence">>
Law(nm, L, D, o) ==
    CASE nm = "ignored"    -> /\ \A f \in {"g", "og"} : Has(o, f) => LawIgnoredP(D, o[f])
                              /\ \A f \in {"eg", "tr"} : (Has(o, f) /\ ~ExcActiveD(L, D)) => LawIgnoredE(L, D, o[f])
      [] nm = "reported"   -> /\ \A f \in {"g", "og"} : Has(o, f) => LawReportedP(D, o[f])
                              /\ \A f \in {"eg", "tr"} : (Has(o, f) /\ ~ExcActiveD(L, D)) => LawReportedE(L, D, o[f])
      [] nm = "precedence" -> \A f \in {"eg", "tr"} : (Has(o, f) /\ ExcActiveD(L, D)) =>
                                                       (LawIgnoredE(L, D, o[f]) /\ LawReportedE(L, D, o[f]))
Failed(L, n, o) == LET D == MatchIdx(L, n) IN {nm \in Range(LawNames) : ~Law(nm, L, D, o)}
\* implementation-shaped prediction (which of several matching patterns is reported): drift only
Drift(L, n, o) == LET s == SpecOut(L, n) IN \E f \in {"eg", "g", "og"} : Has(o, f) /\ o[f] # s[f]

\* design law: the extension class is only an optimisation of the documented basename semantics
LawExtension(p) == KR[p] = 1 => CT[p] = MT[p]

\* grouping law on the spec: a never-matching filler entry at any position changes nothing
InsAt(L, k, e) == SubSeq(L, 1, k) \o <<e>> \o Drop(L, k)
Unshift(v, k) == IF v > k + 1 THEN v - 1 ELSE v
LawFillSpec(L, n) ==
    LET s == SpecOut(L, n) IN
    \A k \in 0..Len(L), pre \in PrefixSet :
        LET s2 == SpecOut(InsAt(L, k, [pre |-> pre, pat |-> Filler]), n) IN
        /\ s2.eg # k + 1 /\ s2.g # k + 1 /\ s2.og # k + 1
        /\ Unshift(s2.eg, k) = s.eg /\ Unshift(s2.g, k) = s.g /\ Unshift(s2.og, k) = s.og
=============================================================================
