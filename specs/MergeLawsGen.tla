--------------------------- MODULE MergeLawsGen ---------------------------
(* E1 + E2 for C17: TLC enumerates, per law, every triple (BASE, edits of THIS, edits of OTHER) within the bounds that
   satisfies the law's antecedent, checks the laws' internal consistency on every one (one initial state per case) and
   exports the case table.  Bounds: Bases = the BASE item sets, MaxSide = most edits of a side in laws 1-3,
   MaxPair / MaxSum = most edits of one side / of both sides together in law 4, Flavours = {"ids"}, {"paths"} or both.
   CrossCheck = TRUE additionally recomputes the case set by brute force (all pairs of edit sets filtered with
   WellFormed and the law's Antecedent) and demands equality - affordable on small bounds only. *)
EXTENDS MergeLaws, FiniteSetsExt, SequencesExt, Json, IOUtils
CONSTANTS Bases, MaxSide, MaxPair, MaxSum, Flavours, CrossCheck

Larger(a, b) == IF a > b THEN a ELSE b
UpTo(K) == UNION {kSubset(k, AllEdits) : k \in 0..K}
Case(l, fl, S, T, O) == [law |-> l, fl |-> fl, base |-> SetToSeq(S), dT |-> SetToSeq(T), dO |-> SetToSeq(O)]
Unique(P) == \A e, f \in P : e.p = f.p => e = f

\* every edit set is applied once; x = [d edits, t tree, n size, ok no empty directory, fp file entries by path,
\* pt paths touched]
CasesFor(S) ==
    LET b   == BaseTree(S)
        bp  == FilesOnly(ByPath(b))
        okb == NoEmptyDir(b)
        A   == {x \in {[d |-> D, t |-> Apply(b, D)] : D \in {D \in UpTo(Larger(MaxSide, MaxPair)) : Applicable(b, D)}} :
                    Valid(x.t)}
        AI  == {[d |-> x.d, t |-> x.t, n |-> Cardinality(x.d), ok |-> okb /\ NoEmptyDir(x.t),
                 fp |-> FilesOnly(ByPath(x.t)), pt |-> PathTouch(bp, FilesOnly(ByPath(x.t)))] : x \in A}
        side == {x \in AI : x.n <= MaxSide}
        pair == {x \in AI : x.n >= 1 /\ x.n <= MaxPair}
        Fl(x) == {fl \in Flavours : fl = "ids" \/ x.ok}
        pairs == {p \in pair \X pair : p[1].n + p[2].n <= MaxSum}
        idsL4 == {p \in pairs : /\ Touch(p[1].d) \cap Touch(p[2].d) = {}
                                 /\ Applicable(b, p[1].d \cup p[2].d) /\ Valid(Apply(b, p[1].d \cup p[2].d))}
        pthL4 == {p \in pairs : /\ p[1].ok /\ p[2].ok /\ p[1].pt \cap p[2].pt = {}
                                 /\ Unique(PathUnion(bp, p[1].fp, p[2].fp))}
    IN       UNION {{Case("L1", fl, S, x.d, {}) : fl \in Fl(x)} : x \in side}
        \cup UNION {{Case("L2", fl, S, {}, x.d) : fl \in Fl(x)} : x \in side}
        \cup UNION {{Case("L3", fl, S, x.d, x.d) : fl \in Fl(x)} : x \in side \ {y \in side : y.n = 0}}
        \cup (IF "ids" \in Flavours THEN {Case("L4", "ids", S, p[1].d, p[2].d) : p \in idsL4} ELSE {})
        \cup (IF "paths" \in Flavours THEN {Case("L4", "paths", S, p[1].d, p[2].d) : p \in pthL4} ELSE {})
Cases == UNION {CasesFor(S) : S \in Bases}

\* brute force over all pairs of edit sets (CrossCheck)
Brute == LET raw == UNION {LET es == UpTo(MaxSide)  ep == UpTo(MaxPair) \ {{}} IN
                               {Case("L1", fl, S, D, {}) : D \in es, fl \in Flavours}
                          \cup {Case("L2", fl, S, {}, D) : D \in es, fl \in Flavours}
                          \cup {Case("L3", fl, S, D, D)  : D \in es \ {{}}, fl \in Flavours}
                          \cup {Case("L4", fl, S, T, O)  : T \in ep, O \in ep, fl \in Flavours}
                          : S \in Bases}
             Size(k) == k.law = "L4" => Len(k.dT) + Len(k.dO) <= MaxSum
         IN {k \in raw : Size(k) /\ WellFormed(k) /\ Antecedent(k.law, k)}
ASSUME CrossCheck => Cases = Brute

VARIABLE c
Init == c \in Cases
Next == UNCHANGED c

SpecObs(k) == LET r == SetToSeq(SpecTree(k)) IN
    [tree |-> r, disk |-> r, conflicts |-> <<>>, base |-> SetToSeq(ByPath(Base(k))),
     this |-> SetToSeq(ByPath(This(k))), other |-> SetToSeq(ByPath(Other(k)))]
LawsHoldOnSpec ==
    LET st == SpecTree(c) IN
    /\ WellFormed(c) /\ c.law \in Holds(c)
    \* all laws that apply to one triple accept a common tree
    /\ Common(c) # {}
    /\ Failed(c, SpecObs(c)) = {} /\ FixtureOk(c, SpecObs(c))
    \* the result tree is a tree: one entry per path
    /\ \A r \in Common(c) : Unique(r)
    /\ (c.fl = "ids" => \A e \in st : e.k # "directory" \/ e.c = "")
    \* law 4 on identities: applying the two edit sets one after the other, in either order, is the union
    /\ ("L4" \in Holds(c) /\ c.fl = "ids") =>
          /\ Applicable(This(c), DO(c)) /\ Applicable(Other(c), DT(c))
          /\ Apply(This(c), DO(c)) = IdUnion(c)
          /\ Apply(Other(c), DT(c)) = IdUnion(c)
          /\ Valid(IdUnion(c))
    \* law 4 with an empty side is law 1 / law 2
    /\ ("L4" \in Holds(c) /\ DO(c) = {}) => Results("L4", c) = Results("L1", c)
    /\ ("L4" \in Holds(c) /\ DT(c) = {}) => Results("L4", c) = Results("L2", c)

\* anti-vacuity witnesses: TLC must find these states
\* one side renames the directory, the other edits the file inside it
WitnessDirRename == ~(c.law = "L4" /\ c.fl = "ids" /\ E("ren", "d") \in DT(c) /\ E("mod", "da") \in DO(c))
\* the result of a law-4 merge is neither THIS nor OTHER
WitnessRealUnion == ~(c.law = "L4" /\ SpecTree(c) # Proj(c, ByPath(This(c))) /\ SpecTree(c) # Proj(c, ByPath(Other(c))))
\* path-based law 4 where following a directory rename gives a second acceptable union
WitnessTwoUnions == ~(c.law = "L4" /\ c.fl = "paths" /\ Cardinality(Results("L4", c)) = 2)
\* both sides add the same file
WitnessSameAdd   == ~(c.law = "L3" /\ E("add", "n") \in DT(c))
\* a kind change reaches THIS from OTHER
WitnessKind      == ~(c.law = "L2" /\ E("knd", "a") \in DO(c))
\* path-based law 4 with a rename on one side
WitnessPathRename == ~(c.law = "L4" /\ c.fl = "paths" /\ E("ren", "a") \in DT(c))

Export == JsonSerialize(IOEnv.VF_OUT, SetToSeq(Cases))
ASSUME IF "VF_OUT" \in DOMAIN IOEnv THEN Export ELSE TRUE
=============================================================================
