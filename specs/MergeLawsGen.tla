--------------------------- MODULE MergeLawsGen ---------------------------
(* E1 + E2 for C17: TLC enumerates, per law, every triple (BASE, edits of THIS, edits of OTHER) within the bounds that
   satisfies the law's antecedent, checks the laws' internal consistency on every one (one initial state per case) and
   exports the case table.  Bounds: Bases = the BASE item sets, MaxSide = most edits of a side in laws 1-3,
   MaxPair = most edits of a side in law 4, Flavours = {"ids"} or {"ids", "paths"}. *)
EXTENDS MergeLaws, FiniteSetsExt, SequencesExt, Json, IOUtils
CONSTANTS Bases, MaxSide, MaxPair, Flavours

UpTo(K) == UNION {kSubset(k, AllEdits) : k \in 0..K}
EditSets(S, K) == {D \in UpTo(K) : Applicable(BaseTree(S), D) /\ Valid(Apply(BaseTree(S), D))}
Case(l, fl, S, T, O) == [law |-> l, fl |-> fl, base |-> SetToSeq(S), dT |-> SetToSeq(T), dO |-> SetToSeq(O)]
Raw == UNION {LET ES == EditSets(S, MaxSide)  EP == EditSets(S, MaxPair) \ {{}} IN
                  {Case("L1", fl, S, D, {}) : D \in ES, fl \in Flavours}
             \cup {Case("L2", fl, S, {}, D) : D \in ES, fl \in Flavours}
             \cup {Case("L3", fl, S, D, D)  : D \in ES \ {{}}, fl \in Flavours}
             \cup {Case("L4", fl, S, T, O)  : T \in EP, O \in EP, fl \in Flavours}
             : S \in Bases}
Cases == {c \in Raw : WellFormed(c) /\ Antecedent(c.law, c)}

VARIABLE c
Init == c \in Cases
Next == UNCHANGED c

SpecObs(k) == LET r == SetToSeq(SpecTree(k)) IN
    [tree |-> r, disk |-> r, conflicts |-> <<>>, base |-> SetToSeq(ByPath(Base(k))),
     this |-> SetToSeq(ByPath(This(k))), other |-> SetToSeq(ByPath(Other(k)))]
LawsHoldOnSpec ==
    /\ c.law \in Holds(c)
    \* all laws that apply to one triple demand the same tree
    /\ \A n, m \in Holds(c) : Result(n, c) = Result(m, c)
    /\ Failed(c, SpecObs(c)) = {} /\ FixtureOk(c, SpecObs(c))
    \* the result tree is a tree: one entry per path, every entry below a directory of the tree
    /\ \A e, f \in SpecTree(c) : e.p = f.p => e = f
    /\ (c.fl = "ids" => \A e \in SpecTree(c) : e.k # "directory" \/ e.c = "")
    \* law 4 on identities: applying the two edit sets one after the other, in either order, is the union
    /\ ("L4" \in Holds(c) /\ c.fl = "ids") =>
          /\ Applicable(This(c), DO(c)) /\ Applicable(Other(c), DT(c))
          /\ Apply(This(c), DO(c)) = Apply(Base(c), DT(c) \cup DO(c))
          /\ Apply(Other(c), DT(c)) = Apply(Base(c), DT(c) \cup DO(c))
          /\ Valid(Apply(Base(c), DT(c) \cup DO(c)))
    \* law 4 with an empty side is law 1 / law 2
    /\ ("L4" \in Holds(c) /\ DO(c) = {}) => Result("L4", c) = Result("L1", c)

\* anti-vacuity witnesses: TLC must find these states
\* one side renames the directory, the other edits the file inside it
WitnessDirRename == ~(c.law = "L4" /\ c.fl = "ids" /\ E("ren", "d") \in DT(c) /\ E("mod", "da") \in DO(c))
\* the result of a law-4 merge is neither THIS nor OTHER
WitnessRealUnion == ~(c.law = "L4" /\ SpecTree(c) # Proj(c, ByPath(This(c))) /\ SpecTree(c) # Proj(c, ByPath(Other(c))))
\* both sides add the same file
WitnessSameAdd   == ~(c.law = "L3" /\ E("add", "n") \in DT(c))
\* a kind change reaches THIS from OTHER
WitnessKind      == ~(c.law = "L2" /\ E("knd", "a") \in DO(c))
\* path-based law 4 with a rename on one side
WitnessPathRename == ~(c.law = "L4" /\ c.fl = "paths" /\ E("ren", "a") \in DT(c))

Export == JsonSerialize(IOEnv.VF_OUT, SetToSeq(Cases))
ASSUME IF "VF_OUT" \in DOMAIN IOEnv THEN Export ELSE TRUE
=============================================================================
