------------------------------ MODULE EolGen ------------------------------
(* C45: TLC enumerates every (setting, content) up to MaxLen, decides the laws on the transcribed converters and
   exports the case table.  The transcription reproduces the code's known loss (DESIGN §7 C45), so the plain
   invariant LawsHoldOnSpec is *expected* to be violated -- TLC's counter-example is replayed on the real code by
   the harness -- and what TLC proves instead is the exact extent of the failure (SpecFailsExactlyOnLossClass). *)
EXTENDS Eol, TLC, Json, IOUtils, SequencesExt
CONSTANT MaxLen
Bytes == {"CR", "LF", "NUL", "a"}
Strs(n) == UNION {[1..k -> Bytes] : k \in 0..n}
Cases == [st : Settings, s : Strs(MaxLen)]
VARIABLE c
Init == c \in Cases
Next == UNCHANGED c
LawsHoldOnSpec == LET o == SpecOut(c) IN Failed(c, o) = {}                \* violated: the known loss
SpecFailsExactlyOnLossClass ==                                            \* holds
    LET o == SpecOut(c) IN /\ Failed(c, o) = IF LossClass(c) THEN {"roundtrip", "checkout"} ELSE {}
                           /\ Conforms(c, o)
\* anti-vacuity witnesses: TLC must find these states
WitnessCrlfRoundTrip == ~(c.st = "crlf" /\ c.s = <<"a", "LF", "CR">> /\ Canonical(c.st, c.s) /\ SpecOut(c).out # c.s)
WitnessBinaryKept    == ~(c.s = <<"CR", "LF", "NUL">> /\ c.st = "lf" /\ SpecOut(c).out = c.s)
WitnessNonCanonical  == ~(c.s = <<"LF">> /\ ~Canonical(c.st, c.s) /\ c.st = "crlf-with-crlf-in-repo")
Export == JsonSerialize(IOEnv.VF_OUT, SetToSeq({[c |-> x, spec |-> SpecOut(x), canon |-> Canonical(x.st, x.s),
                                                  binary |-> HasNul(x.s), loss |-> LossClass(x)] : x \in Cases}))
ASSUME IF "VF_OUT" \in DOMAIN IOEnv THEN Export ELSE TRUE
=============================================================================
