---------------------------- MODULE BoundBranch ----------------------------
(* A master branch M and heavyweight checkouts (branches with their own repository and working tree, bound to M)
   - property C23.  Code: breezy/commit.py Commit._check_bound_branch, _check_out_of_date_tree, _update_branches;
   breezy/branch.py import_last_revision_info_and_tags, GenericInterBranch.pull; breezy/bzr/branch.py bind, unbind,
   update; breezy/bzr/workingtree.py update, _update_tree, pull.

   World W:  P      revision graph of lib/Dag (revisions 1..n in creation order, P[r] = ordered parents)
             tip    branch -> tip revision               (branches: "M" and the checkouts)
             bound  checkout -> BOOLEAN
             basis  checkout -> first parent of its working tree
             pend   checkout -> pending merges of its working tree (sequence)
             lrevs  revisions not created by a bound commit or in the master: local-only commits (commit --local,
                    commit in an unbound checkout) and the third branch's commits
   Every operation is a function from (W, action) to (W', outcome), built from the PHASES of the real commit
       CheckBound . BuildRevision . SetMasterTip . SetLocalTip . Finish
   so that an action can carry a FAULT: the commit is cut off after the named phase (a transport error between the
   two tip writes).  The state machine BoundBranchMC takes the phases one at a time; traces of real
   executions are judged with the same operators (BoundBranchTrace).

   A third, independent branch "F" (a sprout of the master, never bound) gives pulls a source that is neither the master
   nor a checkout, and `pull -r N` a revision to stop at.

   Actions as data: [op, c, src, fault, stop]
       op    "commitM" | "commitF" | "commit" | "commitLocal" | "commitUnbound" | "update" | "pull" | "bind" | "unbind"
       c     the checkout acting ("M" for commitM, "F" for commitF);  src  the branch pulled from ("" otherwise)
       stop  pull only: the revision to stop at (pull -r), 0 = the source's tip
       fault "" | "built" | "masterset" | "localset"   last phase completed before the injected fault *)
EXTENDS Dag, Integers

RECURSIVE Close(_, _)
Close(P, S) == LET N == S \cup UNION {ParentSet(P, x) : x \in S} IN IF N = S THEN S ELSE Close(P, N)
Anc(P, r) == Close(P, {r} \ {Null})                              \* ancestry including r; {} for null
Diverged(P, a, b) == a # Null /\ b # Null /\ a \notin Anc(P, b) /\ b \notin Anc(P, a)
\* GenericInterBranch._update_revisions without overwrite: already merged -> unchanged, else fast-forward
PullTip(P, mine, theirs) == IF theirs = Null \/ theirs \in Anc(P, mine) THEN mine ELSE theirs

\* WorkingTree.set_parent_trees / set_parent_ids: the first parent always stays, later ones only if they are heads of the
\* whole list and not yet listed
HeadsF(P, S) == LET T == S \ {Null} IN {x \in T : \A y \in T \ {x} : x \notin Anc(P, y)}
RECURSIVE FilterRest(_, _, _)
FilterRest(rest, heads, acc) ==
    IF rest = <<>> THEN acc
    ELSE FilterRest(Tail(rest), heads,
                    IF Head(rest) \in heads /\ Head(rest) \notin SeqRange(acc) THEN Append(acc, Head(rest)) ELSE acc)
FilterParents(P, ids) == IF ids = <<>> THEN <<>> ELSE FilterRest(Tail(ids), HeadsF(P, SeqRange(ids)), <<ids[1]>>)
SetParents(W, c, ids) == LET f == FilterParents(W.P, ids) IN [W EXCEPT !.basis[c] = f[1], !.pend[c] = Tail(f)]

Act(op, c, src, fault) == [op |-> op, c |-> c, src |-> src, fault |-> fault, stop |-> 0]
PullTo(c, src, stop) == [op |-> "pull", c |-> c, src |-> src, fault |-> "", stop |-> stop]
TreeParents(W, c) == (IF W.basis[c] = Null THEN <<>> ELSE <<W.basis[c]>>) \o W.pend[c]
NewRev(W) == Len(W.P) + 1

(* ---- phases of a bound commit in checkout c *)
\* _check_bound_branch + _check_out_of_date_tree: "" = go on, else the refusal
CheckBound(W, c) == IF W.tip[c] # W.tip["M"] THEN "BoundBranchOutOfDate"
                    ELSE IF W.tip["M"] # Null /\ W.basis[c] # W.tip["M"] THEN "OutOfDateTree"
                    ELSE ""
BuildRevision(W, c) == [W EXCEPT !.P = Append(W.P, TreeParents(W, c))]          \* the revision exists, no tip names it
SetMasterTip(W, c, r) == [W EXCEPT !.tip["M"] = r]
SetLocalTip(W, c, r) == [W EXCEPT !.tip[c] = r]
Finish(W, c, r) == [W EXCEPT !.basis[c] = r, !.pend[c] = <<>>]                   \* update_basis_by_delta

Out(W, o) == [W |-> W, out |-> o]
CommitBound(W, c, fault) ==
    LET chk == CheckBound(W, c)
        r == NewRev(W)
        w1 == BuildRevision(W, c)
        w2 == SetMasterTip(w1, c, r)
        w3 == SetLocalTip(w2, c, r)
    IN IF chk # "" THEN Out(W, chk)
       ELSE IF fault = "built" THEN Out(w1, "fault")
       ELSE IF fault = "masterset" THEN Out(w2, "fault")
       ELSE IF fault = "localset" THEN Out(w3, "fault")
       ELSE Out(Finish(w3, c, r), "ok")

\* commit --local / commit in an unbound checkout: the local branch is the reference for the out-of-date check
CommitLocalOnly(W, c) ==
    IF W.tip[c] # Null /\ W.basis[c] # W.tip[c] THEN Out(W, "OutOfDateTree")
    ELSE LET r == NewRev(W)
         IN Out([W EXCEPT !.P = Append(W.P, TreeParents(W, c)), !.tip[c] = r, !.basis[c] = r, !.pend[c] = <<>>,
                          !.lrevs = @ \cup {r}], "ok")
\* a commit made directly in the master (by a tree that is up to date with it)
CommitMaster(W) ==
    LET r == NewRev(W)
    IN Out([W EXCEPT !.P = Append(W.P, IF W.tip["M"] = Null THEN <<>> ELSE <<W.tip["M"]>>), !.tip["M"] = r], "ok")

\* a commit in the third branch
CommitThird(W) ==
    LET r == NewRev(W)
    IN Out([W EXCEPT !.P = Append(W.P, IF W.tip["F"] = Null THEN <<>> ELSE <<W.tip["F"]>>), !.tip["F"] = r,
                     !.lrevs = @ \cup {r}], "ok")

\* WorkingTree.update: a bound branch is overwritten with the master's tip (BzrBranch.update); a local tip that is not
\* merged in the new tip is kept as a pending merge of the tree (_update_tree: only when the tree's basis has to move)
Update(W, c) ==
    LET new == IF W.bound[c] THEN W.tip["M"] ELSE W.tip[c]
        old == IF W.bound[c] /\ W.tip[c] # Null /\ W.tip[c] \notin Anc(W.P, new) THEN <<W.tip[c]>> ELSE <<>>
        w1 == [W EXCEPT !.tip[c] = new]
    IN Out(IF W.basis[c] # new THEN SetParents(w1, c, <<new>> \o W.pend[c] \o old) ELSE w1, "ok")

\* WorkingTree.pull(src, stop_revision): a bound branch first pulls src - up to the same stop revision - into its master
\* (unless src is the master), then into itself; the tree follows when the local tip moved
Pull(W, c, s, stop) ==
    LET viaMaster == W.bound[c] /\ s # "M"
        goal == IF stop = Null THEN W.tip[s] ELSE stop
        mt == IF viaMaster THEN PullTip(W.P, W.tip["M"], goal) ELSE W.tip["M"]
        lt == PullTip(W.P, W.tip[c], goal)
        w1 == [W EXCEPT !.tip["M"] = mt]
        w2 == [w1 EXCEPT !.tip[c] = lt]
    IN IF viaMaster /\ Diverged(W.P, W.tip["M"], goal) THEN Out(W, "DivergedBranches")
       ELSE IF Diverged(W.P, W.tip[c], goal) THEN Out(w1, "DivergedBranches")           \* the master has already moved
       ELSE Out(IF lt # W.tip[c] THEN SetParents(w2, c, <<lt>> \o W.pend[c]) ELSE w2, "ok")

Bind(W, c) == Out([W EXCEPT !.bound[c] = TRUE], "ok")          \* BzrBranch.bind does not compare the histories
Unbind(W, c) == Out([W EXCEPT !.bound[c] = FALSE], "ok")

Do(W, a) == CASE a.op = "commitM" -> CommitMaster(W)
              [] a.op = "commit" -> CommitBound(W, a.c, a.fault)
              [] a.op = "commitLocal" -> CommitLocalOnly(W, a.c)
              [] a.op = "commitUnbound" -> CommitLocalOnly(W, a.c)
              [] a.op = "update" -> Update(W, a.c)
              [] a.op = "commitF" -> CommitThird(W)
              [] a.op = "pull" -> Pull(W, a.c, a.src, a.stop)
              [] a.op = "bind" -> Bind(W, a.c)
              [] a.op = "unbind" -> Unbind(W, a.c)
Possible(W, a) == CASE a.op = "commit" -> W.bound[a.c]
                    [] a.op = "commitLocal" -> W.bound[a.c]
                    [] a.op = "commitUnbound" -> ~W.bound[a.c]
                    [] a.op = "bind" -> ~W.bound[a.c]
                    [] a.op = "unbind" -> W.bound[a.c]
                    [] OTHER -> TRUE
RECURSIVE RunFrom(_, _, _)
RunFrom(W, acts, i) == IF i > Len(acts) THEN <<>> ELSE LET r == Do(W, acts[i]) IN <<r>> \o RunFrom(r.W, acts, i + 1)
Run(W, acts) == RunFrom(W, acts, 1)                  \* the outcomes [W, out] of every action

(* ================================ laws of C23 ================================
   on OBSERVED steps: before / after = observed worlds (tip, bound, basis, pend; P and lrevs as known to the
   observer), a = the action, out = "ok" | "fault" | the name of the refusal. *)
Checkouts(W) == DOMAIN W.bound
Ahead(W, c) == Anc(W.P, W.tip[c]) \ Anc(W.P, W.tip["M"])
\* the invariant of the design: a bound checkout differs from its master only by being behind it, or by local commits
InStep(W) == \A c \in Checkouts(W) : (W.bound[c] /\ Ahead(W, c) # {}) => Ahead(W, c) \cap W.lrevs # {}
Refusals == {"BoundBranchOutOfDate", "OutOfDateTree", "DivergedBranches"}
SameTips(A, B) == A.tip = B.tip

\* "a commit in a bound branch ... both end with the same tip" (= the new revision)
LawCommitBoth(before, a, out, after) ==
    (a.op = "commit" /\ out = "ok") => (after.tip[a.c] = Len(after.P) /\ after.tip["M"] = after.tip[a.c]
                                         /\ Len(after.P) = Len(before.P) + 1)
\* "if the master has moved or diverged the commit is refused and neither branch changes"
LawCommitRefused(before, a, out, after) ==
    /\ (a.op = "commit" /\ before.tip[a.c] # before.tip["M"]) => out \in Refusals
    /\ (a.op \in {"commit", "commitLocal", "commitUnbound"} /\ out \in Refusals) => SameTips(before, after)
\* "first records the revision in the master and then in the local branch": a commit that fails part-way never leaves
\* the local branch ahead of the master, and moves no other branch
LawMasterFirst(before, a, out, after) ==
    (a.op = "commit" /\ out = "fault") =>
        /\ \A b \in DOMAIN after.tip \ {"M", a.c} : after.tip[b] = before.tip[b]
        /\ after.tip[a.c] \in {before.tip[a.c], after.tip["M"]}
        /\ after.tip["M"] \in {before.tip["M"], Len(after.P)}
\* "update ... leave[s] the local branch equal to the master"
LawUpdate(before, a, out, after) ==
    (a.op = "update" /\ before.bound[a.c]) => (out = "ok" /\ after.tip[a.c] = after.tip["M"] /\ after.tip["M"] = before.tip["M"])
\* "pull in a checkout leave[s] the local branch equal to the master": a successful pull by a checkout that holds no
\* work of its own (it is level with or behind its master), from the master - or from any branch when it was level
LawPull(before, a, out, after) ==
    (a.op = "pull" /\ before.bound[a.c] /\ out = "ok" /\ Ahead(before, a.c) = {}
     /\ (a.src = "M" \/ before.tip[a.c] = before.tip["M"])) => after.tip[a.c] = after.tip["M"]
\* pull -r N: a checkout level with its master that can fast-forward to N ends - with its master - exactly at N
LawPullStop(before, a, out, after) ==
    (a.op = "pull" /\ a.stop # Null /\ before.bound[a.c] /\ out = "ok" /\ before.tip[a.c] = before.tip["M"]
     /\ before.tip[a.c] \in Anc(before.P, a.stop)) => (after.tip[a.c] = a.stop /\ after.tip["M"] = a.stop)
\* "a local-only commit changes only the local branch"
LawLocalOnly(before, a, out, after) ==
    (a.op \in {"commitLocal", "commitUnbound"} /\ out = "ok") =>
        /\ after.tip[a.c] = Len(after.P) /\ Len(after.P) = Len(before.P) + 1
        /\ \A b \in DOMAIN after.tip \ {a.c} : after.tip[b] = before.tip[b]
\* nothing but the acting checkout and the master ever moves; bind / unbind move nothing
LawOthersUntouched(before, a, out, after) ==
    /\ \A b \in DOMAIN after.tip \ {"M", a.c} : after.tip[b] = before.tip[b]
    /\ a.op \in {"bind", "unbind"} => SameTips(before, after)
LawInStep(before, a, out, after) == InStep(before) => InStep(after)

LawNames == {"commitboth", "refused", "masterfirst", "update", "pull", "pullstop", "localonly", "others", "instep"}
Law(n, before, a, out, after) ==
    CASE n = "commitboth" -> LawCommitBoth(before, a, out, after)
      [] n = "refused" -> LawCommitRefused(before, a, out, after)
      [] n = "masterfirst" -> LawMasterFirst(before, a, out, after)
      [] n = "update" -> LawUpdate(before, a, out, after)
      [] n = "pull" -> LawPull(before, a, out, after)
      [] n = "pullstop" -> LawPullStop(before, a, out, after)
      [] n = "localonly" -> LawLocalOnly(before, a, out, after)
      [] n = "others" -> LawOthersUntouched(before, a, out, after)
      [] n = "instep" -> LawInStep(before, a, out, after)
StepFailed(before, a, out, after) == {n \in LawNames : ~Law(n, before, a, out, after)}
=============================================================================
