---------------------------- MODULE OsUtilsGen ----------------------------
(* C47: for the selected Part TLC enumerates the complete bounded input space, proves the part's laws on the
   definitions of OsUtils (one initial state per case), reaches the anti-vacuity witnesses and exports the case
   table.  For "date" the definitions are the identity, so TLC only provides the input grid. *)
EXTENDS OsUtils, TLC, Json, IOUtils, SequencesExt, FiniteSetsExt
CONSTANTS MaxSet,      \* "sel": sets of <= MaxSet paths from Universe
          MaxPath,     \* "path": strings of <= MaxPath characters over {a, ., /, \}
          MaxText,     \* "text": texts of <= MaxText bytes over {a, LF, CR}
          MaxCuts,     \* "text": <= MaxCuts cut positions
          FullGrid     \* "date": TRUE = every whole-minute offset in -14h..+14h, FALSE = the boundary offsets

\* NB: the case sets take parameters on purpose -- TLC evaluates every parameterless constant definition at start-up,
\* which would build the case sets of all four parts in every run
SeqsUpTo(S, n) == UNION {[1..k -> S] : k \in 0..n}
SelCases(m)  == {[paths |-> SetToSeq(S)] : S \in UNION {kSubset(k, Universe) : k \in 0..m}}
PathCases(m) == {[p |-> p] : p \in SeqsUpTo({"a", ".", "/", "\\"}, m)}
CutsOf(n, m) == UNION {{s \in [1..k -> 0..n] : \A i \in 1..(k - 1) : s[i] <= s[i + 1]} : k \in 0..m}
TextCases(m, k) == UNION {{[t |-> t, cuts |-> cs] : cs \in CutsOf(Len(t), k)} : t \in SeqsUpTo({"a", "LF", "CR"}, m)}
\* seconds as <<hi, lo>> = hi * 10^6 + lo: epoch, minute / hour / day edges, leap days, 2^31 and 2^32 edges, 2^33 - 1
Times == {<<0, 0>>, <<0, 1>>, <<0, 59>>, <<0, 60>>, <<0, 3599>>, <<0, 3600>>, <<0, 50400>>, <<0, 86399>>, <<0, 86400>>,
          <<951, 782399>>, <<951, 782400>>, <<1234, 567890>>, <<1709, 251199>>, <<2147, 483647>>, <<2147, 483648>>,
          <<4102, 444800>>, <<4294, 967295>>, <<4294, 967296>>, <<8589, 934591>>}
Micros(full) == IF full THEN {0, 1, 123456, 999999} ELSE {0, 1, 500000, 999999}
Offsets(full) == IF full THEN -840..840
                 ELSE {-840, -839, -720, -570, -210, -61, -60, -59, -30, -1, 0, 1, 30, 59, 60, 61, 330, 345, 765, 840}
DateCases(full) == {[neg |-> n, hi |-> t[1], lo |-> t[2], us |-> u, off |-> f] :
                       n \in BOOLEAN, t \in Times, u \in Micros(full), f \in Offsets(full)}
                   \ {[neg |-> TRUE, hi |-> 0, lo |-> 0, us |-> 0, off |-> f] : f \in Offsets(full)}     \* no "-0"
Cases == CASE Part = "sel" -> SelCases(MaxSet) [] Part = "path" -> PathCases(MaxPath)
           [] Part = "text" -> TextCases(MaxText, MaxCuts) [] Part = "date" -> DateCases(FullGrid)
VARIABLE c
Init == c \in Cases
Next == UNCHANGED c
LawsHoldOnSpec == LET o == SpecOut(c) IN
                  IF Part = "sel" THEN Failed(c, [sel |-> SetToSeq(o.sel), any |-> SetToSeq(o.any), each |-> SetToSeq(o.each)]) = {}
                  ELSE Failed(c, o) = {}
\* anti-vacuity witnesses: TLC must find these states (each is meaningful for one Part only)
WitnessSelSibling == ~(Part = "sel" /\ Range(c.paths) = {<<"a">>, <<"a-">>, <<"a", "a">>}
                       /\ SpecOut(c).sel = {<<"a">>, <<"a-">>})            \* "a-" sorts between "a" and "a/a"
WitnessSelRoot    == ~(Part = "sel" /\ Range(c.paths) = {<<>>, <<"a-">>} /\ SpecOut(c).sel = {<<>>})
WitnessPathDot    == ~(Part = "path" /\ c.p = <<"a", "/", ".", "/", "a">> /\ ~Normalised(c.p)
                       /\ SpecOut(c).joined = <<"a", "/", "a">>)
WitnessPathDotDot == ~(Part = "path" /\ c.p = <<".", ".", "/", "a">> /\ SpecOut(c).st = "split-error")
WitnessPathNorm   == ~(Part = "path" /\ c.p = <<".", ".", ".", "/", "\\">> /\ Normalised(c.p))
WitnessTextCrLf   == ~(Part = "text" /\ c.t = <<"a", "CR", "LF", "CR">> /\ c.cuts = <<2, 3>>
                       /\ SpecOut(c).cl = << <<"a", "CR", "LF">>, <<"CR">> >>)
WitnessTextEmpty  == ~(Part = "text" /\ c.t = <<"LF", "LF">> /\ c.cuts = <<0, 0>> /\ Len(SpecOut(c).lines) = 2)
WitnessDateHalf   == ~(Part = "date" /\ c.off = 0 - 210 /\ c.hi = 2147 /\ c.lo = 483648 /\ c.us = 999999 /\ ~c.neg)
WitnessDateNeg    == ~(Part = "date" /\ c.off = 345 /\ c.hi = 0 /\ c.lo = 86400 /\ c.us = 999999 /\ c.neg)
Export == JsonSerialize(IOEnv.VF_OUT, SetToSeq({[c |-> x] : x \in Cases}))
ASSUME IF "VF_OUT" \in DOMAIN IOEnv THEN Export ELSE TRUE
=============================================================================
