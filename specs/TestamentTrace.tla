-------------------------- MODULE TestamentTrace --------------------------
(* E3 for C41: hashes of the testament texts of real revisions, one row per pair of revisions, judged by the laws of
   Testament.tla.  row.c = [a, b, va, vb] (attested records and storage variants), row.impl = [a, b] hashes of the six
   texts.  failed = the laws of C41 that do not hold. *)
EXTENDS Testament, Json, IOUtils, SequencesExt
Rows == JsonDeserialize(IOEnv.VF_IN)
VARIABLE i
Init == i \in 1..Len(Rows)
Next == UNCHANGED i
Bad == SelectSeq([k \in 1..Len(Rows) |-> [row |-> k, failed |-> SetToSeq(Failed(Rows[k].c, Rows[k].impl)), drift |-> FALSE]],
                 LAMBDA r : r.failed # <<>>)
ASSUME JsonSerialize(IOEnv.VF_OUT, [n |-> Len(Rows), bad |-> Bad])
=============================================================================
