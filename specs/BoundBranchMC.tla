--------------------------- MODULE BoundBranchMC ---------------------------
(* C23, E1: the state machine.  One master M and the checkouts Cs, all starting level at revision 1.  Every action of
   BoundBranch is one step, except the bound commit, which runs phase by phase
       CheckBound . BuildRevision . SetMasterTip . SetLocalTip . Finish
   and can be cut off by Fault after any phase from BuildRevision on (the branch locks are held meanwhile, so no other
   action interleaves).  `last` remembers the completed action with the world it started from, so the laws of C23 are
   invariants (LawsHold), as is the design's InStep; Composite ties the phase-wise run to BoundBranch!Do. *)
EXTENDS BoundBranch, TLC
CONSTANTS MaxRev, Cs, Fs, Unbindable          \* Fs: {"F"} or {} (the third branch); Unbindable \subseteq Cs: the checkouts that are ever unbound / re-bound
VARIABLES W, pc, last
vars == <<W, pc, last>>
Idle == [ph |-> "idle", c |-> "", before |-> <<>>]
None == [a |-> Act("", "", "", ""), out |-> "", before |-> <<>>]
Branches == Cs \cup {"M"} \cup Fs
W0 == [P |-> <<<<>>>>, tip |-> [b \in Branches |-> 1], bound |-> [c \in Cs |-> TRUE], basis |-> [c \in Cs |-> 1],
       pend |-> [c \in Cs |-> <<>>], lrevs |-> {}]
Init == W = W0 /\ pc = Idle /\ last = None

SimpleActs == {Act("commitM", "M", "", "")} \cup {Act("commitF", f, "", "") : f \in Fs}
              \cup {Act(op, c, "", "") : op \in {"commitLocal", "update"}, c \in Cs}
              \cup {Act(op, c, "", "") : op \in {"commitUnbound", "bind", "unbind"}, c \in Unbindable}
              \cup {Act("pull", c, s, "") : c \in Cs, s \in Branches}
Creates(a) == a.op \in {"commitM", "commitF", "commitLocal", "commitUnbound"}
Simple(a) == /\ pc = Idle /\ a.c # a.src /\ Possible(W, a) /\ (Creates(a) => Len(W.P) < MaxRev)
             /\ LET r == Do(W, a) IN W' = r.W /\ last' = [a |-> a, out |-> r.out, before |-> W]
             /\ UNCHANGED pc
CheckBoundA(c) == /\ pc = Idle /\ W.bound[c]
                  /\ IF CheckBound(W, c) # ""
                     THEN last' = [a |-> Act("commit", c, "", ""), out |-> CheckBound(W, c), before |-> W] /\ UNCHANGED <<W, pc>>
                     ELSE Len(W.P) < MaxRev /\ pc' = [ph |-> "checked", c |-> c, before |-> W] /\ UNCHANGED <<W, last>>
BuildA == pc.ph = "checked" /\ W' = BuildRevision(W, pc.c) /\ pc' = [pc EXCEPT !.ph = "built"] /\ UNCHANGED last
SetMasterA == pc.ph = "built" /\ W' = SetMasterTip(W, pc.c, Len(W.P)) /\ pc' = [pc EXCEPT !.ph = "masterset"] /\ UNCHANGED last
SetLocalA == pc.ph = "masterset" /\ W' = SetLocalTip(W, pc.c, Len(W.P)) /\ pc' = [pc EXCEPT !.ph = "localset"] /\ UNCHANGED last
FinishA == /\ pc.ph = "localset" /\ W' = Finish(W, pc.c, Len(W.P)) /\ pc' = Idle
           /\ last' = [a |-> Act("commit", pc.c, "", ""), out |-> "ok", before |-> pc.before]
FaultA == /\ pc.ph \in {"built", "masterset", "localset"} /\ pc' = Idle /\ UNCHANGED W
          /\ last' = [a |-> Act("commit", pc.c, "", pc.ph), out |-> "fault", before |-> pc.before]
\* pull -r N from the third branch: N an ancestor of its tip that the checkout does not have yet
StopActs == IF Fs = {} THEN {}
            ELSE UNION {{PullTo(c, "F", n) : n \in Anc(W.P, W.tip["F"]) \ ({W.tip["F"]} \cup Anc(W.P, W.tip[c]))} : c \in Cs}
Next == (\E a \in SimpleActs : Simple(a)) \/ (\E a \in StopActs : Simple(a)) \/ (\E c \in Cs : CheckBoundA(c)) \/ BuildA \/ SetMasterA \/ SetLocalA \/ FinishA \/ FaultA
Spec == Init /\ [][Next]_vars

Done == pc = Idle /\ last # None
LawsHold == Done => StepFailed(last.before, last.a, last.out, W) = {}
InStepAlways == InStep(W)                          \* also between the phases of a commit
Composite == Done => Do(last.before, last.a) = [W |-> W, out |-> last.out]
TreeFollows == pc = Idle => \A c \in Cs : W.basis[c] \in Anc(W.P, W.tip[c]) \cup {W.tip[c]}
\* anti-vacuity: TLC must reach these
WitnessMasterAhead == ~(Done /\ last.out = "fault" /\ W.tip["M"] # W.tip[last.a.c] /\ W.tip["M"] = Len(W.P))
WitnessRefusedDiverged == ~(Done /\ last.a.op = "commit" /\ last.out = "BoundBranchOutOfDate" /\ Diverged(W.P, W.tip["M"], W.tip[last.a.c]))
WitnessUpdateKeepsLocalWork == ~(Done /\ last.a.op = "update" /\ W.pend[last.a.c] # <<>>)
WitnessPullPartial == ~(Done /\ last.a.op = "pull" /\ last.out = "DivergedBranches" /\ W.tip["M"] # last.before.tip["M"])
WitnessPullStop == ~(Done /\ last.a.op = "pull" /\ last.a.stop # 0 /\ last.out = "ok" /\ W.tip["M"] = last.a.stop
                     /\ W.tip["M"] # last.before.tip["M"] /\ W.tip["F"] # last.a.stop)
WitnessLocalAheadByLocalCommit == ~(\E c \in Cs : W.bound[c] /\ Ahead(W, c) # {})
=============================================================================
