------------------------------ MODULE Autopack ------------------------------
(* Autopack planning of breezy.bzr.pack_repo.RepositoryPackCollection, transcribed:
     pack_distribution(total)              -> Distribution(total)
     _max_pack_count(total)                -> MaxPackCount(total)
     plan_autopack_combinations(packs, d)  -> Plan(counts, d)      (packs = indices into the sorted count sequence)
     _do_autopack()                        -> DoAutopack(c)        (trigger + skipping of revision-less packs)
   Property C07 states well-formedness laws about the plan; they are the operators Law* below, stated on
   *observed* results so that the same text judges the transcription (design check by TLC) and the results
   recorded from the real methods (trace check).  Equality with the transcription is conformance only. *)
EXTENDS Integers, Sequences, FiniteSets

Range(s) == {s[i] : i \in DOMAIN s}
Rep(k, v) == [i \in 1..k |-> v]
RECURSIVE SumSeq(_)
SumSeq(s) == IF s = <<>> THEN 0 ELSE Head(s) + SumSeq(Tail(s))

\* ---- str(n): decimal digits, least significant first
RECURSIVE DigitsLSF(_)
DigitsLSF(n) == IF n < 10 THEN <<n>> ELSE <<n % 10>> \o DigitsLSF(n \div 10)
DigitSum(n) == SumSeq(DigitsLSF(n))
RECURSIVE Pow10(_)
Pow10(e) == IF e = 0 THEN 1 ELSE 10 * Pow10(e - 1)

\* ---- pack_distribution: digit d at exponent e contributes d packs of 10^e revisions, largest first
RECURSIVE DistFrom(_, _)
DistFrom(ds, e) == IF ds = <<>> THEN <<>> ELSE DistFrom(Tail(ds), e + 1) \o Rep(Head(ds), Pow10(e))
Distribution(n) == IF n = 0 THEN <<0>> ELSE DistFrom(DigitsLSF(n), 0)
\* ---- _max_pack_count
MaxPackCount(n) == IF n = 0 THEN 1 ELSE DigitSum(n)

\* ---- outcomes (uniform record shape so that recorded and specified outcomes are comparable)
\* kind: "skip" (_do_autopack returned before planning), "none" (plan = []), "plan" (one [count, packs] operation),
\*       "error" (an exception, named in exc), "malformed" (anything else; harness side only)
Out(kind, count, packs, exc) == [kind |-> kind, count |-> count, packs |-> packs, exc |-> exc]
Skip == Out("skip", 0, <<>>, "")
None == Out("none", 0, <<>>, "")
Error(e) == Out("error", 0, <<>>, e)

\* ---- the inner `while next_pack_rev_count > 0` loop: a pack at least as large as the head of the distribution
\*      eats buckets from the left; a partly eaten bucket keeps its remainder
RECURSIVE Consume(_, _)
Consume(n, dist) ==
    IF n = 0 THEN [ok |-> TRUE, dist |-> dist]
    ELSE IF dist = <<>> THEN [ok |-> FALSE, dist |-> <<>>]                     \* pack_distribution[0] -> IndexError
    ELSE IF n >= Head(dist) THEN Consume(n - Head(dist), Tail(dist))
    ELSE [ok |-> TRUE, dist |-> <<Head(dist) - n>> \o Tail(dist)]

\* ---- the outer loop over packs sorted by size, largest first.  cur = revisions in the open operation,
\*      sel = packs selected so far (all operations are merged into one at the end)
RECURSIVE PlanLoop(_, _, _, _, _)
PlanLoop(counts, i, dist, cur, sel) ==
    IF i > Len(counts) THEN
        IF Len(sel) = 1 THEN Error("AssertionError")
        ELSE Out("plan", SumSeq([k \in 1..Len(sel) |-> counts[sel[k]]]), sel, "")
    ELSE IF dist = <<>> THEN Error("IndexError")                                \* pack_distribution[0]
    ELSE LET n == counts[i] IN
         IF n >= Head(dist) THEN
             LET r == Consume(n, dist) IN
             IF r.ok THEN PlanLoop(counts, i + 1, r.dist, cur, sel) ELSE Error("IndexError")
         ELSE IF cur + n >= Head(dist) THEN PlanLoop(counts, i + 1, Tail(dist), 0, Append(sel, i))
         ELSE PlanLoop(counts, i + 1, dist, cur + n, Append(sel, i))

\* counts: revision counts sorted largest first (existing_packs.sort(reverse=True)); result packs are indices
Plan(counts, dist) == IF Len(counts) <= Len(dist) THEN None ELSE PlanLoop(counts, 1, dist, 0, <<>>)

\* ---- _do_autopack.  c = [counts: positive counts sorted largest first, zeros: number of revision-less packs
\*      (counted in total_packs, skipped by the planner), total: CombinedGraphIndex.key_count()]
NPacks(c) == Len(c.counts) + c.zeros
DoAutopack(c) == IF MaxPackCount(c.total) >= NPacks(c) THEN Skip ELSE Plan(c.counts, Distribution(c.total))

SpecOut(c) == [dist |-> Distribution(c.total), maxc |-> MaxPackCount(c.total),
               plan |-> Plan(c.counts, Distribution(c.total)), auto |-> DoAutopack(c)]

(* ---- the laws of C07 on an observation o:
     o.plan : outcome of plan_autopack_combinations(all positive packs, pack_distribution(total))
     o.auto : outcome of _do_autopack() (the operations handed to _execute_pack_operations)
     o.after: for an end-to-end row (o.e2e) the number of packs the real repository has after autopack *)
Planned(r) == r.kind = "plan"
Idle(r) == r.kind \in {"skip", "none"}
\* planning never fails with an internal error
LawNoError(c, o) == o.plan.kind # "error" /\ o.auto.kind # "error"
\* nothing, or ONE combination of at least two distinct existing packs whose revision count is the sum of theirs
WellFormed(c, r) ==
    \/ Idle(r)
    \/ /\ Planned(r)
       /\ Len(r.packs) >= 2
       /\ \A k \in 1..Len(r.packs) : r.packs[k] \in 1..Len(c.counts)
       /\ Cardinality(Range(r.packs)) = Len(r.packs)
       /\ r.count = SumSeq([k \in 1..Len(r.packs) |-> c.counts[r.packs[k]]])
    \/ r.kind = "error"                                  \* judged by LawNoError, not twice
LawShape(c, o) == WellFormed(c, o.plan) /\ WellFormed(c, o.auto)
\* after carrying out a non-empty plan the number of packs is at most the digit sum of the total revision count
\* (the property quantifies over packs with positive counts: revision-less packs are outside this clause)
After(n, r) == n - Len(r.packs) + 1
LawBound(c, o) ==
    /\ (Planned(o.plan) /\ Len(o.plan.packs) >= 1) => After(Len(c.counts), o.plan) <= DigitSum(c.total)
    /\ (c.zeros = 0 /\ Planned(o.auto) /\ Len(o.auto.packs) >= 1) => After(NPacks(c), o.auto) <= DigitSum(c.total)
    /\ (c.zeros = 0 /\ o.e2e /\ Planned(o.auto)) => o.after <= DigitSum(c.total)
\* it plans nothing when the pack count is already within that bound
LawIdle(c, o) ==
    /\ Len(c.counts) <= DigitSum(c.total) => (Idle(o.plan) \/ o.plan.kind = "error")
    /\ NPacks(c) <= DigitSum(c.total) => (Idle(o.auto) \/ o.auto.kind = "error")

LawNames == <<"noerror", "shape", "bound", "idle">>
Law(n, c, o) == CASE n = "noerror" -> LawNoError(c, o) [] n = "shape" -> LawShape(c, o)
                  [] n = "bound" -> LawBound(c, o) [] n = "idle" -> LawIdle(c, o)
Failed(c, o) == {n \in Range(LawNames) : ~Law(n, c, o)}

\* conformance with the transcription (drift only): same distribution, same bound, same decisions
Conforms(c, o) ==
    LET s == SpecOut(c)
        same(a, b) == a.kind = b.kind /\ a.count = b.count /\ a.exc = b.exc /\ Range(a.packs) = Range(b.packs)
    IN o.dist = s.dist /\ o.maxc = s.maxc /\ same(o.plan, s.plan) /\ same(o.auto, s.auto)
=============================================================================
