------------------------- MODULE GitCommitMapGen -------------------------
(* C34, spec -> code: TLC enumerates the bounded product of commit field classes, proves on the transcription
   that Export(Import(c)) = c for every accepted commit (for the mapping a round trip needs) and that the mapping
   AS CODED agrees except for the two named deviations, and exports (c, what the spec predicts). *)
EXTENDS GitCommitMap, TLC, Json, IOUtils, SequencesExt
CONSTANT Tier      \* "quick" | "full"  (cfg files cannot hold tuples or ranges, so the domains live here)
Encs == {"absent", "utf-8", "iso-8859-1", "false", "bogus"}
TextBytes == {"ascii", "utf8", "latin1"}
Msgs == {"missing", "empty", "text", "nonl", "marker"}
Zones == IF Tier = "quick" THEN {"0", "neg0", "m330"} ELSE {"0", "neg0", "p60", "m330"}
MaxTags == IF Tier = "quick" THEN {0, 2} ELSE 0..2
Parents == IF Tier = "quick" THEN {0, 2} ELSE 0..2
Extras == IF Tier = "quick" THEN {<<>>, <<"hgrename", "hgextra">>, <<"unknown">>, <<"hgbad">>}
          ELSE {<<>>, <<"hgrename", "hgextra">>, <<"hgextra", "hgrename">>, <<"unknown">>, <<"hgrename", "unknown">>, <<"hgbad">>}
Product == [enc : Encs, tb : TextBytes, ident : {"same", "diff"}, teq : BOOLEAN, atz : Zones, ctz : Zones,
            gpg : BOOLEAN, mt : MaxTags, extra : Extras, msg : Msgs, par : Parents]
\* quick: three independent one-condition fields (gpgsig, mergetags, parents) move together
Cases == IF Tier = "quick" THEN {x \in Product : x.mt = (IF x.gpg THEN 2 ELSE 0) /\ x.par = x.mt}
         \* full: parents and mergetags move together; +0100 only as author zone
         ELSE {x \in Product : x.par = x.mt /\ x.ctz # "p60"}
VARIABLE c
Init == c \in Cases
Next == UNCHANGED c
LawsHoldOnSpec == RoundTripIntended(c) /\ AsCodedAgreesOrDeviates(c)
\* the predicted observable of the coded mapping satisfies the property's law exactly where there is no deviation
DeviationIsTheOnlyFailure ==
    LET s == SpecOut(c) IN
    s.accepted => ((Failed(c, [accepted |-> TRUE, out |-> s.out, outC |-> s.out, revid |-> s.revid]) = {})
                   <=> Deviation(c) = "none")
\* anti-vacuity witnesses: TLC must find these
WitnessFull      == ~(Accepted(c) /\ Deviation(c) = "none" /\ Cardinality(Keys(c)) >= 9)
\* ... and these exist in the case set (evaluated once at start-up)
ASSUME \E x \in Cases : Accepted(x) /\ "git-implicit-encoding" \in Keys(x) /\ x.ident = "diff"
ASSUME \A why \in {"UnknownCommitEncoding", "UnicodeDecodeError", "UnknownMercurialCommitExtra", "UnknownCommitExtra"} :
          \E x \in Cases : Reject(x) = why
ASSUME \E x \in Cases : Accepted(x) /\ x.enc = "false" /\ x.tb = "latin1"
ASSUME \E x \in Cases : Accepted(x) /\ x.msg = "missing" /\ x.enc # "false"
CaseSeq == SetToSeq(Cases)
Export == JsonSerialize(IOEnv.VF_OUT, [k \in 1..Len(CaseSeq) |-> [c |-> CaseSeq[k], spec |-> SpecOut(CaseSeq[k])]])
ASSUME IF "VF_OUT" \in DOMAIN IOEnv THEN Export ELSE TRUE
=============================================================================
