---------------------------- MODULE GitRefsTrace ----------------------------
(* Property-level trace validation (code -> spec) for C37.  A batch of executions recorded from real
   TransportRefsContainer objects (sequential cases, TLC-generated and random two-updater schedules, fetch_refs with
   a stale snapshot) is read from JSON.  An execution is
       [init  |-> [head, loose, packed],
        jobs  |-> [x |-> job, y |-> job]            (job = [op, name, old, new, warm, site]; op "idle" = no updater)
        events|-> <<[p, k, f, head, loose, packed, res, v0], ...>>]
   with one event per transport operation on a ref file: k = "r" (read of file f), "w" (mutating operation), "o"
   (other, e.g. lock file), plus "begin" (the conditional update starts; v0 = what the container has cached) and
   "ret" (it returned res = "T" | "F" | "exc").  head/loose/packed are the projected disk AFTER the operation.
   Nothing about the implementation's step structure is assumed: the disk is whatever was recorded, and the
   history variables of GitRefs (what the updater saw, what the ref held at its first write, what it held after its
   last write) are inferred by TLC through the very operators the spec's actions use.  The C37 invariants are
   evaluated per updater in every state and latched into `viol` (one VIOL line each); a fully consumed trace prints
   one ACCEPT line. *)
EXTENDS GitRefs, Json, IOUtils, TLCExt
Traces == JsonDeserialize(IOEnv.VF_IN)
VARIABLES tid, l, viol
tvars == <<vars, tid, l, viol>>
Evs == Traces[tid].events
TraceInit ==
    /\ tid \in 1..Len(Traces) /\ l = 1 /\ viol = {}
    /\ head = Traces[tid].init.head /\ loose = Traces[tid].init.loose /\ packed = Traces[tid].init.packed
    /\ job = [p \in Procs |-> Traces[tid].jobs[p]]
    /\ lockf = "free" /\ pc = [p \in Procs |-> "-"] /\ cur = [p \in Procs |-> "-"] /\ real = [p \in Procs |-> "-"]
    /\ cache = [p \in Procs |-> "-"] /\ step = <<"-", "init", "-">>
    /\ view = [p \in Procs |-> FreshView(p)]
    /\ seen = [p \in Procs |-> {}] /\ linval = [p \in Procs |-> NoObs]
    /\ eff = [p \in Procs |-> "unset"] /\ wrote = [p \in Procs |-> FALSE]
    /\ result = [p \in Procs |-> "none"]
Consume ==
    /\ l <= Len(Evs)
    /\ LET e == Evs[l] IN
       /\ head' = e.head /\ loose' = e.loose /\ packed' = e.packed
       /\ CASE e.k = "begin" -> HBeginV(e.p, e.v0) /\ result' = [result EXCEPT ![e.p] = "none"]
            [] e.k = "r"     -> HRead(e.p, e.f) /\ UNCHANGED result
            [] e.k = "w"     -> HWrite(e.p) /\ UNCHANGED result
            [] e.k = "ret"   -> HSettle(e.p) /\ UNCHANGED <<view, seen, linval, wrote>>
                                /\ result' = [result EXCEPT ![e.p] = e.res]
            [] OTHER         -> HNone /\ UNCHANGED result
    /\ UNCHANGED <<lockf, job, pc, cur, real, cache, step>>
    /\ l' = l + 1 /\ tid' = tid
    /\ LET new == {np \in InvNames \X Procs : ~HoldsFor(np[1], np[2])'} \ viol IN
          /\ viol' = viol \cup new
          /\ \A np \in new : PrintT(<<"VIOL", tid, np[1], np[2]>>)
Finish ==
    /\ l = Len(Evs) + 1
    /\ PrintT(<<"ACCEPT", tid>>)
    /\ l' = l + 1 /\ UNCHANGED <<vars, tid, viol>>
TraceNext == Consume \/ Finish
TraceSpec == TraceInit /\ [][TraceNext]_tvars
=============================================================================
