----------------------- MODULE TransformPreviewTrace -----------------------
(* E3 for C14: executions of enumerated transforms recorded from the real API (bzr 2a and git working trees) are
   judged by the laws of TransformPreview.tla.  A row is [fl, spec |-> Describe(maps) as exported by the builder
   model, impl |-> the observation record].  The verdict table is written back as JSON. *)
EXTENDS TransformPreview, Json, IOUtils
Rows == JsonDeserialize(IOEnv.VF_IN)
SpecOf(j) == [kinds |-> [bzr |-> Rng(j.kinds.bzr), git |-> Rng(j.kinds.git)],
              final |-> [bzr |-> Rng(j.final.bzr), git |-> Rng(j.final.git)]]
ImplOf(j) == [build |-> j.build, raw |-> Rng(j.raw), resolve |-> j.resolve, passes |-> j.passes, preview |-> j.preview,
              apply |-> j.apply, unchanged |-> j.unchanged, preview_tree |-> Rng(j.preview_tree),
              applied_tree |-> Rng(j.applied_tree), applied_full |-> Rng(j.applied_full)]
Judge(r) == LET i == ImplOf(r.impl) IN [failed |-> SetToSeq(PFailed(r.fl, i)), drift |-> SetToSeq(PDrift(SpecOf(r.spec), r.fl, i))]
Bad == SelectSeq([k \in 1..Len(Rows) |-> [row |-> k] @@ Judge(Rows[k])], LAMBDA x : x.failed # <<>> \/ x.drift # <<>>)
\* run with MaxOps = 0 (one state): only this table is evaluated
ASSUME JsonSerialize(IOEnv.VF_OUT, [n |-> Len(Rows), bad |-> Bad])
=============================================================================
