---------------------------- MODULE HistoryC21Gen ----------------------------
(* E1 + E2 for C21: every covering pair of tips in every bounded history is one initial state; TLC checks the laws of
   C21 on the transcribed operations for every operation of OpsOf (design check: the Heads-based classification of
   _update_revisions and the left-hand walk of _check_history_violation satisfy the declaratively stated tip /
   revno / append-only rules), and exports (a sample of) the cases with their operations for replay.
   Operations travel as tuples <<op, ow, ao, stop, lr, bound>> (ow: the overwrite form 0..4; booleans as 0/1). *)
EXTENDS HistoryGenLib, Json, IOUtils
Cases == {[par |-> x[1], t |-> x[2], s |-> x[3]] : x \in Triples}
\* one initial state per graph (cheap), its cases as successor states: TLC's workers share the law evaluation
VARIABLE c
Init == c \in {[par |-> P, t |-> -1] : P \in Graphs2}
Next == c.t = -1 /\ c' \in {[par |-> c.par, t |-> p[1], s |-> p[2]] : p \in PairsOf(c.par)}
IsCase == c.t # -1
LawsHoldOnSpec == IsCase => \A o \in OpsOf(c.par, c.t, c.s) : C21Failed(c.par, c.t, c.s, o, SpecObs(c.par, c.t, c.s, o)) = {}
\* the cheap ancestry operators of History mean the same as the library's (checked at the small bounds)
FastAgreesWithDag == IsCase =>
    LET P == c.par
        R == DOMAIN P \cup Ghosts(P) \cup {Null}
    IN /\ \A r \in R : Anc0(P, r) = (IF r = Null THEN {} ELSE Ancestry(P, r))
       /\ \A r \in DOMAIN P : AncG(P, r) = AncestryG(P, r) /\ MergedByF(P, r) = MergedBy(P, r)
       /\ \A S \in SUBSET (DOMAIN P \cup {Null}) : Cardinality(S) <= 3 => HeadsF(P, S) = Heads(P, S)
       /\ \A a, b \in DOMAIN P : CommonAnc(P, a, b) = CommonAncestors(P, a, b)
       /\ Covers(P, c.t, c.s) = (Anc0(P, c.t) \cup Anc0(P, c.s) = DOMAIN P)
\* anti-vacuity: TLC must reach these
Outs(x) == {<<o, OpOut(x.par, x.t, x.s, o)>> : o \in OpsOf(x.par, x.t, x.s)}
WDivergedGhost(x) == Ghosts(x.par) # {} /\ \E p \in Outs(x) : p[1].op = "pull" /\ p[2].exc = "DivergedBranches"
WAppendRefusal(x) == \E p \in Outs(x) : p[1].op = "pull" /\ ~OwHistory(p[1].ow) /\ p[2].exc = "AppendRevisionsOnlyViolation"
WStopMoves(x) == \E p \in Outs(x) : p[1].op = "push" /\ p[1].stop # Null /\ p[2].tip = p[1].stop /\ p[2].tip # x.t
                                         /\ IsMerge(x.par, p[2].tip)
WNoOp(x) == \E p \in Outs(x) : p[1].op = "pull" /\ ~OwHistory(p[1].ow) /\ p[2].exc = "" /\ p[2].tip = x.t /\ x.s # x.t /\ x.s # Null
\* a tags-only overwrite of diverged branches is refused, while a history overwrite of the same pair moves the tip
WTagsOnly(x) == \E p, q \in Outs(x) : /\ p[1].op = q[1].op /\ p[1].ow = 3 /\ q[1].ow = 2 /\ p[1].stop = q[1].stop /\ ~p[1].ao /\ ~q[1].ao
                                        /\ p[2].exc = "DivergedBranches" /\ q[2].exc = "" /\ q[2].tip # x.t
OpTuple(o) == <<o.op, o.ow, B2N(o.ao), o.stop, B2N(o.lr), B2N(o.bound)>>
CaseRow(x) == LET ops == SetToSeq(OpsOf(x.par, x.t, x.s)) IN [c |-> x, ops |-> [i \in DOMAIN ops |-> OpTuple(ops[i])]]
\* anti-vacuity: each of these must be reached by some case (checked in the export run: VF_WITNESSES)
WitnessesReached ==
    /\ \E x \in SmallOnly(Cases) : WDivergedGhost(x)
    /\ \E x \in SmallOnly(Cases) : WAppendRefusal(x)
    /\ \E x \in SmallOnly(Cases) : WStopMoves(x)
    /\ \E x \in SmallOnly(Cases) : WNoOp(x)
    /\ \E x \in SmallOnly(Cases) : WTagsOnly(x)
Export == JsonSerialize(IOEnv.VF_OUT, SetToSeq({CaseRow(x) : x \in Picked(Cases)}))
ASSUME IF "VF_OUT" \in DOMAIN IOEnv THEN Export ELSE TRUE
ASSUME IF "VF_WITNESSES" \in DOMAIN IOEnv THEN WitnessesReached ELSE TRUE
=============================================================================
