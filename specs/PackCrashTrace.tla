--------------------------- MODULE PackCrashTrace ---------------------------
(* C04, code -> spec.  One recorded execution = the sequence of ALL state-changing transport operations (including
   every stream write) of one process committing / autopacking / packing; the projection of the repository
   directory after each operation is a potential crash state.  TLC steps through the recorded states and evaluates,
   in every one of them, the crash-atomicity invariants of PackColl on the projection:
     ListedPresent : everything pack-names lists is completely present (pack + all its indices)
     OldOrNew      : the keys visible through pack-names are exactly the old or exactly the new revision set
     NamesAtomic   : pack-names only ever changes at a put of pack-names
     ObsoleteOnlyUnlisted : a pack or index group is moved to obsolete_packs only when no longer listed
   `content` (keys per pack id) comes from the publish events (read back from the real revision index). *)
EXTENDS Naturals, Sequences, FiniteSets, TLC, Json, IOUtils
Traces == JsonDeserialize(IOEnv.VF_IN)
VARIABLES tid, l, viol
vars == <<tid, l, viol>>
SeqToSet(s) == {s[i] : i \in DOMAIN s}
T == Traces[tid]
Ev(i) == T.events[i]
Content(i) == IF i \in DOMAIN T.content THEN SeqToSet(T.content[i]) ELSE {}
\* JSON object keys are strings: content is a sequence indexed by pack id (position = id)
Visible(e) == UNION {Content(i) : i \in SeqToSet(e.names) \cap SeqToSet(e.packs) \cap SeqToSet(e.idx)}
Old == SeqToSet(T.old)
New == SeqToSet(T.new)
Check(i) ==
  LET e == Ev(i)
      prevNames == IF i = 1 THEN SeqToSet(T.init_names) ELSE SeqToSet(Ev(i - 1).names)
      prevPacks == IF i = 1 THEN SeqToSet(T.init_names) ELSE SeqToSet(Ev(i - 1).packs)
      prevIdx == IF i = 1 THEN SeqToSet(T.init_names) ELSE SeqToSet(Ev(i - 1).idx)
  IN (IF SeqToSet(e.names) \subseteq (SeqToSet(e.packs) \cap SeqToSet(e.idx)) THEN {} ELSE {"ListedPresent"})
     \cup (IF Visible(e) = Old \/ Visible(e) = New THEN {} ELSE {"OldOrNew"})
     \cup (IF SeqToSet(e.names) # prevNames /\ e.kind # "put_names" THEN {"NamesAtomic"} ELSE {})
     \cup (IF (prevPacks \ SeqToSet(e.packs)) \cap SeqToSet(e.names) # {}
              \/ (prevIdx \ SeqToSet(e.idx)) \cap SeqToSet(e.names) # {} THEN {"ObsoleteOnlyUnlisted"} ELSE {})
Init == tid \in 1..Len(Traces) /\ l = 1 /\ viol = {}
Consume == /\ l <= Len(T.events)
           /\ viol' = viol \cup {<<n, l>> : n \in Check(l)}
           /\ l' = l + 1 /\ tid' = tid
Finish == /\ l = Len(T.events) + 1
          /\ PrintT(<<"ACCEPT", tid, viol>>)
          /\ l' = l + 1 /\ UNCHANGED <<tid, viol>>
Next == Consume \/ Finish
Spec == Init /\ [][Next]_vars
=============================================================================
