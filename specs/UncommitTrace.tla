---------------------------- MODULE UncommitTrace ----------------------------
(* E3 for C16: behaviours recorded from the real commit() / uncommit() on real working trees are judged by the laws of
   Uncommit.  A row: c = the case (graph, tree, tags, bound, actions), impl = the observations (initial one first; an
   observation after a commit carries np = the parents recorded for the new revision, which extend the graph).
   failed = violated laws of C16 ("completes": an operation raised); drift = the observed tip / revno / parent list
   (with order) / tags / master record differ somewhere from the transcription's. *)
EXTENDS Uncommit, TLC, Json, IOUtils, SequencesExt
Rows == JsonDeserialize(IOEnv.VF_IN)
VARIABLE i
Init == i \in 1..Len(Rows)
Next == UNCHANGED i
TagSet(seq) == {<<seq[k].name, seq[k].rev>> : k \in DOMAIN seq}
Obs(o) == [tip |-> o.tip, revno |-> o.revno, wtp |-> o.wtp, tags |-> TagSet(o.tags), mtip |-> o.mtip, mrevno |-> o.mrevno,
           files |-> o.files, changes |-> o.changes]
Core(o) == [tip |-> o.tip, revno |-> o.revno, wtp |-> o.wtp, tags |-> o.tags, mtip |-> o.mtip, mrevno |-> o.mrevno]
RECURSIVE GraphAfter(_, _, _)          \* the real graph after k actions
GraphAfter(c, impl, k) == IF k = 0 THEN c.P
                          ELSE LET g == GraphAfter(c, impl, k - 1)
                               IN IF c.acts[k].op = "commit" /\ impl[k + 1].exc = "" THEN Append(g, impl[k + 1].np) ELSE g
S0(x) == St(x.P, x.tip, x.revno, x.wtp, TagSet(x.tags), IF x.bound THEN x.tip ELSE 0, IF x.bound THEN x.revno ELSE 0)
Expected(c, impl, k) == impl[k + 1].exc = "" \/ (c.acts[k].refuse /\ impl[k + 1].exc = "uncommit:TipChangeRejected")
FailedRow(c, impl) ==
    IF \E k \in DOMAIN c.acts : ~Expected(c, impl, k) THEN {"completes"}     \* the later observations mean nothing then
    ELSE BehaviourFailed([k \in 1..(Len(c.acts) + 1) |-> GraphAfter(c, impl, k - 1)], c.bound, c.acts,
                         [k \in DOMAIN impl |-> Obs(impl[k])])
DriftRow(c, impl) == LET r == Run(S0(c), c.bound, c.acts)
                     IN \/ Len(impl) # Len(r)
                        \/ (\E k \in DOMAIN r : Core(Obs(impl[k])) # Core(AsObs(r[k])))
                        \/ (\E j \in DOMAIN c.acts : c.acts[j].refuse /\ impl[j + 1].exc = "")
Bad == SelectSeq([k \in 1..Len(Rows) |->
                    [row |-> k, failed |-> SetToSeq(FailedRow(Rows[k].c, Rows[k].impl)),
                     drift |-> DriftRow(Rows[k].c, Rows[k].impl)]],
                 LAMBDA r : r.failed # <<>> \/ r.drift)
ASSUME JsonSerialize(IOEnv.VF_OUT, [n |-> Len(Rows), bad |-> Bad])
=============================================================================
