------------------------------ MODULE TreeDiff ------------------------------
(* C10 - all tree-comparison implementations report the same changes.

   A tree is a function  Ids -> entry  where an entry is
       [v, parent, name, kind, exec, content]      (v = versioned; unversioned ids carry NoEntry)
   parent is another id or ROOT, kind is "file" or "directory", content is 0/1 (a file text variant).  Paths are
   DERIVED (sequence of names from the root); an id whose path changes only because an ancestor was renamed has an
   unchanged entry.  The target of a working-tree comparison may also hold unversioned files named "x" (extras), given
   as the set of directory ids (or ROOT) that contain one.

   A change record is the normalised form of breezy's TreeChange / InventoryTreeChange
       [id, op, np, cc, ov, nv, opar, npar, on, nn, ok, nk, ox, nx]
   id / parents are ids ("-" = None, "root" = the tree root), op / np old and new path as sequences of names
   (<<"-">> = None), cc = changed_content, ov / nv versioned, on / nn names, ok / nk kinds, ox / nx "y" / "n" / "-".

   Diff is the declarative change set, Apply its inverse, Restrict the documented path-filter rule (selected ids,
   plus the parents rule of InterInventoryTree._handle_precise_ids).  The laws of C10 are stated on OBSERVED change
   sets so that the same text judges the specification (TreeDiffGen) and the implementations (TreeDiffTrace). *)
EXTENDS Naturals, Sequences, FiniteSets, TLC

Ids   == {"fa", "fb", "dd", "fda", "de"}
ROOT  == "root"
Names == {"a", "b", "c", "d", "e"}
None  == "-"
NoPath == <<"-">>
NoEntry == [v |-> FALSE, parent |-> None, name |-> None, kind |-> None, exec |-> FALSE, content |-> 0]
Entry(p, n, k, x, c) == [v |-> TRUE, parent |-> p, name |-> n, kind |-> k, exec |-> x, content |-> c]
Home(i) == CASE i = "fa"  -> Entry(ROOT, "a", "file", FALSE, 0)
             [] i = "fb"  -> Entry(ROOT, "b", "file", FALSE, 0)
             [] i = "dd"  -> Entry(ROOT, "d", "directory", FALSE, 0)
             [] i = "fda" -> Entry("dd", "a", "file", FALSE, 0)
             [] i = "de"  -> Entry(ROOT, "e", "directory", FALSE, 0)

Range(q) == {q[k] : k \in DOMAIN q}
Versioned(t) == {i \in Ids : t[i].v}
IsDir(t, p) == p = ROOT \/ (p \in Ids /\ t[p].v /\ t[p].kind = "directory")
Children(t, p) == {i \in Versioned(t) : t[i].parent = p}

RECURSIVE Up(_, _, _)
Up(t, i, n) == IF n = 0 \/ i \notin Ids THEN {}
               ELSE IF ~t[i].v THEN {} ELSE {t[i].parent} \cup Up(t, t[i].parent, n - 1)
Ancestors(t, i) == Up(t, i, Cardinality(Ids) + 1)

\* every versioned entry hangs (through versioned directories, without a loop) below the root
ParentsValid(t) == \A i \in Versioned(t) : /\ IsDir(t, t[i].parent)
                                           /\ i \notin Ancestors(t, i)
                                           /\ ROOT \in Ancestors(t, i)
NamesUnique(t) == \A i, j \in Versioned(t) : i # j => <<t[i].parent, t[i].name>> # <<t[j].parent, t[j].name>>
Normal(t) == \A i \in Ids : /\ (~t[i].v => t[i] = NoEntry)
                            /\ (t[i].v /\ t[i].kind = "directory" => ~t[i].exec /\ t[i].content = 0)
                            /\ (t[i].v => t[i].kind \in {"file", "directory"} /\ t[i].name \in Names)
ValidTree(t) == ParentsValid(t) /\ NamesUnique(t) /\ Normal(t)

RECURSIVE PathN(_, _, _)
PathN(t, i, n) == IF i = ROOT THEN <<>>
                  ELSE IF n = 0 \/ i \notin Ids THEN NoPath
                  ELSE IF ~t[i].v THEN NoPath
                  ELSE LET pp == PathN(t, t[i].parent, n - 1) IN IF pp = NoPath THEN NoPath ELSE Append(pp, t[i].name)
Path(t, i) == PathN(t, i, Cardinality(Ids) + 1)
Paths(t) == {Path(t, i) : i \in Versioned(t)}
IsPrefixOf(f, p) == Len(f) <= Len(p) /\ SubSeq(p, 1, Len(f)) = f
Inside(p, F) == p # NoPath /\ \E f \in F : IsPrefixOf(f, p)              \* osutils.is_inside_any

(* ---- change records *)
X(e) == IF ~e.v THEN None ELSE IF e.exec THEN "y" ELSE "n"
CC(a, b) == a.kind # b.kind \/ (a.kind = "file" /\ a.content # b.content)
ChangeRec(i, a, b, pa, pb) == [id |-> i, op |-> pa, np |-> pb, cc |-> CC(a, b), ov |-> a.v, nv |-> b.v,
                               opar |-> a.parent, npar |-> b.parent, on |-> a.name, nn |-> b.name,
                               ok |-> a.kind, nk |-> b.kind, ox |-> X(a), nx |-> X(b)]
ChangeOf(s, t, i) == ChangeRec(i, s[i], t[i], Path(s, i), Path(t, i))
RootChange == [id |-> ROOT, op |-> <<>>, np |-> <<>>, cc |-> FALSE, ov |-> TRUE, nv |-> TRUE, opar |-> None,
               npar |-> None, on |-> "", nn |-> "", ok |-> "directory", nk |-> "directory", ox |-> "n", nx |-> "n"]
ChangedIds(s, t) == {i \in Ids : s[i] # t[i]}

(* ---- a pair context: everything about (s, t) that the operators below need, computed once per pair
        ps / pt = path of every id in s / t, d = the declarative Diff, u = the unchanged entries (and the root) *)
Pair(s, t) == LET ps == [i \in Ids |-> Path(s, i)]
                  pt == [i \in Ids |-> Path(t, i)]
              IN [s |-> s, t |-> t, ps |-> ps, pt |-> pt,
                  d |-> {ChangeRec(i, s[i], t[i], ps[i], pt[i]) : i \in ChangedIds(s, t)},
                  u |-> {ChangeRec(i, s[i], t[i], ps[i], pt[i]) : i \in Versioned(s) \ ChangedIds(s, t)} \cup {RootChange}]
Diff(s, t) == Pair(s, t).d

ExtraChange(x, p) == [id |-> None, op |-> NoPath, np |-> Append(IF p = ROOT THEN <<>> ELSE x.pt[p], "x"), cc |-> TRUE,
                      ov |-> FALSE, nv |-> FALSE, opar |-> None, npar |-> None, on |-> None, nn |-> "x",
                      ok |-> None, nk |-> "file", ox |-> None, nx |-> "n"]
Extras(x, tx) == {ExtraChange(x, p) : p \in {r \in tx : IsDir(x.t, r)}}

\* Apply: the tree obtained from s by the versioned records of a change set (file texts that the record cannot carry
\* - new files - are taken from the target)
Recs(C, i) == {c \in C : c.id = i}
NewEntry(c, se, te) == IF ~c.nv THEN NoEntry
                       ELSE Entry(c.npar, c.nn, c.nk, c.nx = "y",
                                  IF c.nk # "file" THEN 0
                                  ELSE IF c.ok = "file" THEN (IF c.cc THEN 1 - se.content ELSE se.content)
                                  ELSE te.content)
Apply(s, C, t) == [i \in Ids |-> IF Recs(C, i) = {} THEN s[i] ELSE NewEntry(CHOOSE c \in Recs(C, i) : TRUE, s[i], t[i])]

(* ---- path filters *)
AtPath(x, p) == {i \in Ids : x.ps[i] = p \/ x.pt[i] = p} \cup (IF p = <<>> THEN {ROOT} ELSE {})
RECURSIVE Close(_, _, _)
Close(x, S, n) == LET S2 == S \cup {i \in Ids : (x.s[i].v /\ x.s[i].parent \in S) \/ (x.t[i].v /\ x.t[i].parent \in S)}
                  IN IF n = 0 \/ S2 = S THEN S2 ELSE Close(x, S2, n - 1)
\* Tree.paths2ids: every id found at a filter path in either tree, and all their children in either tree
Selected(x, F) == Close(x, UNION {AtPath(x, p) : p \in F}, Cardinality(Ids))

\* the parents rule (InterInventoryTree._handle_precise_ids): starting from the new parents of the emitted records,
\* examine - besides ids already emitted - the id, the source id that sits at the same target path, its new parent, and
\* the old children of a directory that stopped being one; emit what changed.
RECURSIVE Examine(_, _, _, _)
Examine(x, done, todo, n) ==
    LET cur  == (todo \ done) \ {None}
        also == {i \in Ids : x.s[i].v /\ \E j \in cur : j \in Ids /\ x.t[j].v /\ x.ps[i] = x.pt[j]}
        all  == (cur \cup also) \ {ROOT}
        next == {x.t[i].parent : i \in {j \in all : x.t[j].v}}
                \cup UNION {Children(x.s, i) : i \in {j \in all : x.s[j] # x.t[j] /\ x.s[j].kind = "directory"
                                                                  /\ x.t[j].kind # "directory"}}
    IN IF all = {} \/ n = 0 THEN {} ELSE all \cup Examine(x, done \cup all, next, n - 1)
RestrictTo(x, emit) == LET r0 == {c \in x.d : c.id \in emit}
                           ex == Examine(x, {c.id : c \in r0}, {c.npar : c \in r0}, 2 * Cardinality(Ids))
                       IN r0 \cup {c \in x.d : c.id \in ex}
Restrict(x, F) == RestrictTo(x, Selected(x, F))

\* A dirstate working tree maps filter paths to ids differently (DirStateWorkingTree.paths2ids): every id found at or
\* below a searched path in either tree, where the other path of a moved id is searched as well - so an id that now
\* sits on the old path of a selected id is selected too.
RECURSIVE Search(_, _, _)
Search(x, SP, n) == LET found == {i \in Ids : Inside(x.ps[i], SP) \/ Inside(x.pt[i], SP)}
                        SP2 == SP \cup (({x.ps[i] : i \in found} \cup {x.pt[i] : i \in found}) \ {NoPath})
                    IN IF n = 0 \/ SP2 = SP THEN found \cup (IF <<>> \in SP THEN {ROOT} ELSE {}) ELSE Search(x, SP2, n - 1)
SelectedW(x, F) == Search(x, F, 2 * Cardinality(Ids))
\* the generic comparison on a working tree walks the target entries of SelectedW and the source entries of Selected
EmittedW(x, F) == {i \in SelectedW(x, F) : i = ROOT \/ x.t[i].v} \cup {i \in Selected(x, F) : i = ROOT \/ ~x.t[i].v}

(* ---- what a comparison is expected to report.  q = [tx, f, iu, wu]: tx = directories holding an unversioned file,
        f = <<"all">> (no filter) or <<"only", F>>, iu = include_unchanged, wu = want_unversioned *)
Filtered(q) == q.f[1] = "only"
FilterOf(q) == Range(q.f[2])
SpecOut(x, q, working) ==
    LET sel == IF ~Filtered(q) THEN Ids \cup {ROOT}
               ELSE IF working THEN EmittedW(x, FilterOf(q)) ELSE Selected(x, FilterOf(q))
    IN (IF Filtered(q) THEN RestrictTo(x, sel) ELSE x.d)
       \cup (IF q.iu THEN {c \in x.u : c.id \in sel} ELSE {})
       \cup (IF q.wu /\ working THEN {c \in Extras(x, Range(q.tx)) : ~Filtered(q) \/ Inside(c.np, FilterOf(q))} ELSE {})

(* ---- the laws of C10 on observed change sets.  o = record of observed sets (as sequences):
        chk   InterCHKRevisionTree          (2a revision trees)            - optimised
        inv   InterInventoryTree            (the same 2a revision trees)   - generic
        old   InterInventoryTree            (pack-0.92 revision trees)     - generic, other serialisation
        ds    InterDirStateTree             (working tree against basis)   - optimised
        wt    InterInventoryTree            (the same working tree/basis)  - generic  *)
Impls == {"chk", "inv", "old", "ds", "wt"}
Obs(o, k) == Range(o[k])
Distinct(o) == {Obs(o, k) : k \in Impls}         \* the laws below are evaluated once per distinct observed set
VersionedRecs(C) == {c \in C : c.id # None}
NoDupIds(C) == \A c, d \in VersionedRecs(C) : c.id = d.id => c = d
\* a comparison that raised is recorded as one record with id "error" (nn = the exception class)
NoError(C) == \A c \in C : c.id # "error"
Real(C) == {c \in VersionedRecs(C) : c.id # ROOT}

LawChkGen(x, q, o) == Obs(o, "chk") = Obs(o, "inv")
LawDsGen(x, q, o)  == Obs(o, "ds") = Obs(o, "wt")
ApplyOk(x, C)      == NoError(C) /\ NoDupIds(C) /\ Apply(x.s, Real(C), x.t) = x.t
LawApply(x, q, o)  == ~Filtered(q) => \A C \in Distinct(o) : ApplyOk(x, C)
FilteredOk(x, C)   == NoError(C) /\ NoDupIds(C) /\ ParentsValid(Apply(x.s, Real(C), x.t))
LawFilteredValid(x, q, o) == Filtered(q) => \A C \in Distinct(o) : FilteredOk(x, C)
CompleteOk(x, q, C) == \A c \in x.d : (Inside(c.op, FilterOf(q)) \/ Inside(c.np, FilterOf(q))) => c \in C
LawFilteredComplete(x, q, o) == Filtered(q) => \A C \in Distinct(o) : CompleteOk(x, q, C)

LawNames == <<"chk=generic", "dirstate=generic", "apply", "filtered-valid", "filtered-complete">>
Law(n, x, q, o) == CASE n = "chk=generic" -> LawChkGen(x, q, o) [] n = "dirstate=generic" -> LawDsGen(x, q, o)
                     [] n = "apply" -> LawApply(x, q, o) [] n = "filtered-valid" -> LawFilteredValid(x, q, o)
                     [] n = "filtered-complete" -> LawFilteredComplete(x, q, o)
Failed(x, q, o) == {n \in Range(LawNames) : ~Law(n, x, q, o)}
\* which implementations break a per-implementation law (for the violation signature)
PerImplLaws == {"apply", "filtered-valid", "filtered-complete"}
PerImpl(n, x, q, C) == CASE n = "apply" -> (~Filtered(q) => ApplyOk(x, C))
                         [] n = "filtered-valid" -> (Filtered(q) => FilteredOk(x, C))
                         [] n = "filtered-complete" -> (Filtered(q) => CompleteOk(x, q, C))
Culprits(n, x, q, o) == {k \in Impls : ~PerImpl(n, x, q, Obs(o, k))}
\* conformance with the declarative model (drift, not part of the property)
DriftKeys(x, q, o) == LET r == SpecOut(x, q, FALSE) w == SpecOut(x, q, TRUE)
                      IN {k \in {"chk", "inv", "old"} : Obs(o, k) # r} \cup {k \in {"ds", "wt"} : Obs(o, k) # w}

(* ---- git flavour: path-keyed.  A git record is [op, np, cc, ov, nv, ok, nk, ox, nx, cp]: cp = reported as a copy.
        Git trees hold files only; a rename is judged as remove + add.  A git context g = GitPair(x):
        fs / ft = file paths of s / t, as / at = what git sees at a path: the exec bit, whose text it is (every id has
        its own text) and which variant. *)
FileIds(t) == {j \in Versioned(t) : t[j].kind = "file"}
GitPair(x) == [fs |-> {x.ps[i] : i \in FileIds(x.s)}, ft |-> {x.pt[i] : i \in FileIds(x.t)},
               as |-> {<<x.ps[i], x.s[i].exec, i, x.s[i].content>> : i \in FileIds(x.s)},
               at |-> {<<x.pt[i], x.t[i].exec, i, x.t[i].content>> : i \in FileIds(x.t)}]
AttrIn(A, p) == LET a == CHOOSE a \in A : a[1] = p IN <<a[2], a[3], a[4]>>
GitFileRecs(C) == {c \in C : (c.ov \/ c.nv) /\ c.ok # "directory" /\ c.nk # "directory"}
GitRemoved(C) == {c.op : c \in {d \in GitFileRecs(C) : d.ov /\ d.op # d.np /\ ~d.cp}}
GitAdded(C)   == {c.np : c \in {d \in GitFileRecs(C) : d.nv /\ d.op # d.np}}
GitInPlace(C) == {c.np : c \in {d \in GitFileRecs(C) : d.ov /\ d.nv /\ d.op = d.np /\ d.cc}}
GitNoError(C) == \A c \in C : c.op # <<"error">>
GitApplyOk(g, C) ==
    /\ GitNoError(C)
    /\ g.ft = (g.fs \ GitRemoved(C)) \cup GitAdded(C)
    /\ GitRemoved(C) \subseteq g.fs
    /\ \A c \in GitFileRecs(C) : (c.nv /\ c.np \in g.ft) => c.nx = (IF AttrIn(g.at, c.np)[1] THEN "y" ELSE "n")
    /\ \A p \in (g.fs \cap g.ft) \ (GitRemoved(C) \cup GitAdded(C)) :
          (AttrIn(g.as, p) # AttrIn(g.at, p)) <=> p \in GitInPlace(C)
GitCompleteOk(g, q, C) ==
    /\ GitNoError(C)
    /\ \A p \in g.fs \ g.ft : Inside(p, FilterOf(q)) => p \in GitRemoved(C)
    /\ \A p \in g.ft \ g.fs : Inside(p, FilterOf(q)) => p \in GitAdded(C)
    /\ \A p \in g.fs \cap g.ft :
          (Inside(p, FilterOf(q)) /\ AttrIn(g.as, p) # AttrIn(g.at, p)) => p \in GitInPlace(C) \cup (GitRemoved(C) \cap GitAdded(C))
GitLawNames == <<"git-apply", "git-filtered-complete">>
GitLaw(n, g, q, o) == CASE n = "git-apply" -> (~Filtered(q) => \A k \in DOMAIN o : GitApplyOk(g, Obs(o, k)))
                        [] n = "git-filtered-complete" -> (Filtered(q) => \A k \in DOMAIN o : GitCompleteOk(g, q, Obs(o, k)))
GitFailed(g, q, o) == {n \in Range(GitLawNames) : ~GitLaw(n, g, q, o)}
\* the path-level projection of the declarative Diff, as git records (reference for the in-spec check)
XA(a) == IF a[1] THEN "y" ELSE "n"
GitSpecOut(g) ==
    {[op |-> p, np |-> NoPath, cc |-> TRUE, ov |-> TRUE, nv |-> FALSE, ok |-> "file", nk |-> None,
      ox |-> XA(AttrIn(g.as, p)), nx |-> None, cp |-> FALSE] : p \in g.fs \ g.ft}
    \cup {[op |-> NoPath, np |-> p, cc |-> TRUE, ov |-> FALSE, nv |-> TRUE, ok |-> None, nk |-> "file",
           ox |-> None, nx |-> XA(AttrIn(g.at, p)), cp |-> FALSE] : p \in g.ft \ g.fs}
    \cup {[op |-> p, np |-> p, cc |-> TRUE, ov |-> TRUE, nv |-> TRUE, ok |-> "file", nk |-> "file",
           ox |-> XA(AttrIn(g.as, p)), nx |-> XA(AttrIn(g.at, p)), cp |-> FALSE] :
             p \in {r \in g.fs \cap g.ft : AttrIn(g.as, r) # AttrIn(g.at, r)}}
=============================================================================
