------------------------------ MODULE TreeDiff ------------------------------
(* C10 - all tree-comparison implementations report the same changes.

   A tree is a function  Ids -> entry  where an entry is
       [v, parent, name, kind, exec, content]      (v = versioned; unversioned ids carry NoEntry)
   parent is another id or ROOT, kind is "file" or "directory", content is 0/1 (a file text variant).  Paths are
   DERIVED (sequence of names from the root); an id whose path changes only because an ancestor was renamed has an
   unchanged entry.  The target of a working-tree comparison may also hold unversioned files named "x" (extras), given
   as the set of directory ids (or ROOT) that contain one.

   A change record is the normalised form of breezy's TreeChange / InventoryTreeChange
       [id, op, np, cc, ov, nv, opar, npar, on, nn, ok, nk, ox, nx]
   id / parents are ids ("-" = None, "root" = the tree root), op / np old and new path as sequences of names
   (<<"-">> = None), cc = changed_content, ov / nv versioned, on / nn names, ok / nk kinds, ox / nx "y" / "n" / "-".

   Diff is the declarative change set, Apply its inverse, Restrict the documented path-filter rule (selected ids,
   plus the parents rule of InterInventoryTree._handle_precise_ids).  The laws of C10 are stated on OBSERVED change
   sets so that the same text judges the specification (TreeDiffGen) and the implementations (TreeDiffTrace). *)
EXTENDS Naturals, Sequences, FiniteSets, TLC

Ids   == {"fa", "fb", "dd", "fda", "de"}
ROOT  == "root"
Names == {"a", "b", "c", "d", "e"}
None  == "-"
NoPath == <<"-">>
NoEntry == [v |-> FALSE, parent |-> None, name |-> None, kind |-> None, exec |-> FALSE, content |-> 0]
Entry(p, n, k, x, c) == [v |-> TRUE, parent |-> p, name |-> n, kind |-> k, exec |-> x, content |-> c]
Home(i) == CASE i = "fa"  -> Entry(ROOT, "a", "file", FALSE, 0)
             [] i = "fb"  -> Entry(ROOT, "b", "file", FALSE, 0)
             [] i = "dd"  -> Entry(ROOT, "d", "directory", FALSE, 0)
             [] i = "fda" -> Entry("dd", "a", "file", FALSE, 0)
             [] i = "de"  -> Entry(ROOT, "e", "directory", FALSE, 0)

Range(q) == {q[k] : k \in DOMAIN q}
Versioned(t) == {i \in Ids : t[i].v}
IsDir(t, p) == p = ROOT \/ (p \in Ids /\ t[p].v /\ t[p].kind = "directory")
Children(t, p) == {i \in Versioned(t) : t[i].parent = p}

RECURSIVE Up(_, _, _)
Up(t, i, n) == IF n = 0 \/ i \notin Ids THEN {}
               ELSE IF ~t[i].v THEN {} ELSE {t[i].parent} \cup Up(t, t[i].parent, n - 1)
Ancestors(t, i) == Up(t, i, Cardinality(Ids) + 1)

\* every versioned entry hangs (through versioned directories, without a loop) below the root
ParentsValid(t) == \A i \in Versioned(t) : /\ IsDir(t, t[i].parent)
                                           /\ i \notin Ancestors(t, i)
                                           /\ ROOT \in Ancestors(t, i)
NamesUnique(t) == \A i, j \in Versioned(t) : i # j => <<t[i].parent, t[i].name>> # <<t[j].parent, t[j].name>>
Normal(t) == \A i \in Ids : /\ (~t[i].v => t[i] = NoEntry)
                            /\ (t[i].v /\ t[i].kind = "directory" => ~t[i].exec /\ t[i].content = 0)
                            /\ (t[i].v => t[i].kind \in {"file", "directory"} /\ t[i].name \in Names)
ValidTree(t) == ParentsValid(t) /\ NamesUnique(t) /\ Normal(t)

RECURSIVE PathN(_, _, _)
PathN(t, i, n) == IF i = ROOT THEN <<>>
                  ELSE IF n = 0 \/ i \notin Ids THEN NoPath
                  ELSE IF ~t[i].v THEN NoPath
                  ELSE LET pp == PathN(t, t[i].parent, n - 1) IN IF pp = NoPath THEN NoPath ELSE Append(pp, t[i].name)
Path(t, i) == PathN(t, i, Cardinality(Ids) + 1)
Paths(t) == {Path(t, i) : i \in Versioned(t)}
IsPrefixOf(f, p) == Len(f) <= Len(p) /\ SubSeq(p, 1, Len(f)) = f
Inside(p, F) == p # NoPath /\ \E f \in F : IsPrefixOf(f, p)              \* osutils.is_inside_any

(* ---- change records *)
X(e) == IF ~e.v THEN None ELSE IF e.exec THEN "y" ELSE "n"
CC(a, b) == a.kind # b.kind \/ (a.kind = "file" /\ a.content # b.content)
ChangeOf(s, t, i) == [id |-> i, op |-> Path(s, i), np |-> Path(t, i), cc |-> CC(s[i], t[i]),
                      ov |-> s[i].v, nv |-> t[i].v, opar |-> s[i].parent, npar |-> t[i].parent,
                      on |-> s[i].name, nn |-> t[i].name, ok |-> s[i].kind, nk |-> t[i].kind, ox |-> X(s[i]), nx |-> X(t[i])]
RootChange == [id |-> ROOT, op |-> <<>>, np |-> <<>>, cc |-> FALSE, ov |-> TRUE, nv |-> TRUE, opar |-> None,
               npar |-> None, on |-> "", nn |-> "", ok |-> "directory", nk |-> "directory", ox |-> "n", nx |-> "n"]
ExtraChange(t, p) == [id |-> None, op |-> NoPath, np |-> Append(IF p = ROOT THEN <<>> ELSE Path(t, p), "x"), cc |-> TRUE,
                      ov |-> FALSE, nv |-> FALSE, opar |-> None, npar |-> None, on |-> None, nn |-> "x",
                      ok |-> None, nk |-> "file", ox |-> None, nx |-> "n"]

ChangedIds(s, t) == {i \in Ids : s[i] # t[i]}
Diff(s, t)       == {ChangeOf(s, t, i) : i \in ChangedIds(s, t)}
Unchanged(s, t)  == {ChangeOf(s, t, i) : i \in Versioned(s) \ ChangedIds(s, t)} \cup {RootChange}
EffExtras(t, tx) == {p \in tx : IsDir(t, p)}
Extras(t, tx)    == {ExtraChange(t, p) : p \in EffExtras(t, tx)}

\* Apply: the tree obtained from s by the versioned records of a change set (file texts that the record cannot carry
\* - new files - are taken from the target)
Recs(C, i) == {c \in C : c.id = i}
NewEntry(c, se, te) == IF ~c.nv THEN NoEntry
                       ELSE Entry(c.npar, c.nn, c.nk, c.nx = "y",
                                  IF c.nk # "file" THEN 0
                                  ELSE IF c.ok = "file" THEN (IF c.cc THEN 1 - se.content ELSE se.content)
                                  ELSE te.content)
Apply(s, C, t) == [i \in Ids |-> IF Recs(C, i) = {} THEN s[i] ELSE NewEntry(CHOOSE c \in Recs(C, i) : TRUE, s[i], t[i])]

(* ---- path filters *)
AtPath(t, p) == {i \in Versioned(t) : Path(t, i) = p} \cup (IF p = <<>> THEN {ROOT} ELSE {})
RECURSIVE Close(_, _, _, _)
Close(s, t, S, n) == LET S2 == S \cup {i \in Ids : (s[i].v /\ s[i].parent \in S) \/ (t[i].v /\ t[i].parent \in S)}
                     IN IF n = 0 \/ S2 = S THEN S2 ELSE Close(s, t, S2, n - 1)
\* Tree.paths2ids: every id found at a filter path in either tree, and all their children in either tree
Selected(s, t, F) == Close(s, t, UNION {AtPath(s, p) \cup AtPath(t, p) : p \in F}, Cardinality(Ids))

\* the parents rule (InterInventoryTree._handle_precise_ids): starting from the new parents of the emitted records,
\* examine - besides ids already emitted - the id, the source id that sits at the same target path, its new parent, and
\* the old children of a directory that stopped being one; emit what changed.
RECURSIVE Examine(_, _, _, _, _)
Examine(s, t, done, todo, n) ==
    LET cur  == (todo \ done) \ {None}
        also == {i \in Ids : s[i].v /\ \E j \in cur : j \in Ids /\ t[j].v /\ Path(s, i) = Path(t, j)}
        all  == (cur \cup also) \ {ROOT}
        next == {t[i].parent : i \in {j \in all : t[j].v}}
                \cup UNION {Children(s, i) : i \in {j \in all : s[j] # t[j] /\ s[j].kind = "directory" /\ t[j].kind # "directory"}}
    IN IF all = {} \/ n = 0 THEN {} ELSE all \cup Examine(s, t, done \cup all, next, n - 1)
Restrict(s, t, F) == LET sel == Selected(s, t, F)
                         r0  == {c \in Diff(s, t) : c.id \in sel}
                         ex  == Examine(s, t, {c.id : c \in r0}, {c.npar : c \in r0}, 2 * Cardinality(Ids))
                     IN r0 \cup {c \in Diff(s, t) : c.id \in ex}

(* ---- what a comparison is expected to report.  q = [s, t, tx, f, iu, wu]: f = <<"all">> (no filter) or <<"only", F>> *)
Filtered(q) == q.f[1] = "only"
FilterOf(q) == Range(q.f[2])
SpecOut(q, working) ==
    LET sel == IF Filtered(q) THEN Selected(q.s, q.t, FilterOf(q)) ELSE Ids \cup {ROOT}
    IN (IF Filtered(q) THEN Restrict(q.s, q.t, FilterOf(q)) ELSE Diff(q.s, q.t))
       \cup (IF q.iu THEN {c \in Unchanged(q.s, q.t) : c.id \in sel} ELSE {})
       \cup (IF q.wu /\ working THEN {c \in Extras(q.t, Range(q.tx)) : ~Filtered(q) \/ Inside(c.np, FilterOf(q))} ELSE {})

(* ---- the laws of C10 on observed change sets.  o = record of observed sets (as sequences):
        chk   InterCHKRevisionTree          (2a revision trees)            - optimised
        inv   InterInventoryTree            (the same 2a revision trees)   - generic
        old   InterInventoryTree            (pack-0.92 revision trees)     - generic, other serialisation
        ds    InterDirStateTree             (working tree against basis)   - optimised
        wt    InterInventoryTree            (the same working tree/basis)  - generic  *)
Obs(o, k) == Range(o[k])
VersionedRecs(C) == {c \in C : c.id # None}
NoDupIds(C) == \A c, d \in VersionedRecs(C) : c.id = d.id => c = d
\* a comparison that raised is recorded as one record with id "error" (nn = the exception class)
NoError(C) == \A c \in C : c.id # "error"
Real(C) == {c \in VersionedRecs(C) : c.id # ROOT}

LawChkGen(q, o) == Obs(o, "chk") = Obs(o, "inv")
LawDsGen(q, o)  == Obs(o, "ds") = Obs(o, "wt")
ApplyOk(q, C)   == NoError(C) /\ NoDupIds(C) /\ Apply(q.s, Real(C), q.t) = q.t
LawApply(q, o)  == ~Filtered(q) => \A k \in {"chk", "inv", "old", "ds", "wt"} : ApplyOk(q, Obs(o, k))
FilteredOk(q, C) == NoError(C) /\ NoDupIds(C) /\ ParentsValid(Apply(q.s, Real(C), q.t))
LawFilteredValid(q, o) == Filtered(q) => \A k \in {"chk", "inv", "old", "ds", "wt"} : FilteredOk(q, Obs(o, k))
CompleteOk(q, C) == \A c \in Diff(q.s, q.t) : (Inside(c.op, FilterOf(q)) \/ Inside(c.np, FilterOf(q))) => c \in C
LawFilteredComplete(q, o) == Filtered(q) => \A k \in {"chk", "inv", "old", "ds", "wt"} : CompleteOk(q, Obs(o, k))

LawNames == <<"chk=generic", "dirstate=generic", "apply", "filtered-valid", "filtered-complete">>
Law(n, q, o) == CASE n = "chk=generic" -> LawChkGen(q, o) [] n = "dirstate=generic" -> LawDsGen(q, o)
                  [] n = "apply" -> LawApply(q, o) [] n = "filtered-valid" -> LawFilteredValid(q, o)
                  [] n = "filtered-complete" -> LawFilteredComplete(q, o)
Failed(q, o) == {n \in Range(LawNames) : ~Law(n, q, o)}
\* which implementations break a per-implementation law (for the violation signature)
Culprits(q, o) == {k \in {"chk", "inv", "old", "ds", "wt"} :
                     \/ (~Filtered(q) /\ ~ApplyOk(q, Obs(o, k)))
                     \/ (Filtered(q) /\ (~FilteredOk(q, Obs(o, k)) \/ ~CompleteOk(q, Obs(o, k))))}
\* conformance with the declarative model (drift, not part of the property)
DriftKeys(q, o) == {k \in {"chk", "inv", "old"} : Obs(o, k) # SpecOut(q, FALSE)}
                   \cup {k \in {"ds", "wt"} : Obs(o, k) # SpecOut(q, TRUE)}

(* ---- git flavour: path-keyed.  A git record is [op, np, cc, ov, nv, ok, nk, ox, nx, cp]: cp = reported as a copy.
        Git trees hold files only; a rename is judged as remove + add. *)
FileAt(t, p) == CHOOSE i \in Versioned(t) : Path(t, i) = p
FilePaths(t) == {Path(t, i) : i \in {j \in Versioned(t) : t[j].kind = "file"}}
\* what git sees at a path: whose text it is (every id has its own text), which variant, and the exec bit
Attr(t, p) == LET i == FileAt(t, p) IN <<t[i].exec, i, t[i].content>>
GitFileRecs(C) == {c \in C : (c.ov \/ c.nv) /\ c.ok # "directory" /\ c.nk # "directory"}
GitRemoved(C) == {c.op : c \in {d \in GitFileRecs(C) : d.ov /\ d.op # d.np /\ ~d.cp}}
GitAdded(C)   == {c.np : c \in {d \in GitFileRecs(C) : d.nv /\ d.op # d.np}}
GitInPlace(C) == {c.np : c \in {d \in GitFileRecs(C) : d.ov /\ d.nv /\ d.op = d.np /\ d.cc}}
GitNoError(C) == \A c \in C : c.op # <<"error">>
GitApplyOk(q, C) ==
    /\ GitNoError(C)
    /\ FilePaths(q.t) = (FilePaths(q.s) \ GitRemoved(C)) \cup GitAdded(C)
    /\ GitRemoved(C) \subseteq FilePaths(q.s)
    /\ \A c \in GitFileRecs(C) : (c.nv /\ c.np \in FilePaths(q.t)) => c.nx = (IF Attr(q.t, c.np)[1] THEN "y" ELSE "n")
    /\ \A p \in (FilePaths(q.s) \cap FilePaths(q.t)) \ (GitRemoved(C) \cup GitAdded(C)) :
          (Attr(q.s, p) # Attr(q.t, p)) <=> p \in GitInPlace(C)
GitCompleteOk(q, C) ==
    /\ GitNoError(C)
    /\ \A p \in FilePaths(q.s) \ FilePaths(q.t) : Inside(p, FilterOf(q)) => p \in GitRemoved(C)
    /\ \A p \in FilePaths(q.t) \ FilePaths(q.s) : Inside(p, FilterOf(q)) => p \in GitAdded(C)
    /\ \A p \in FilePaths(q.s) \cap FilePaths(q.t) :
          (Inside(p, FilterOf(q)) /\ Attr(q.s, p) # Attr(q.t, p)) => p \in GitInPlace(C) \cup (GitRemoved(C) \cap GitAdded(C))
GitLawNames == <<"git-apply", "git-filtered-complete">>
GitLaw(n, q, o) == CASE n = "git-apply" -> (~Filtered(q) => \A k \in DOMAIN o : GitApplyOk(q, Obs(o, k)))
                     [] n = "git-filtered-complete" -> (Filtered(q) => \A k \in DOMAIN o : GitCompleteOk(q, Obs(o, k)))
GitFailed(q, o) == {n \in Range(GitLawNames) : ~GitLaw(n, q, o)}
\* the path-level projection of the declarative Diff, as git records (reference for the in-spec check)
GitSpecOut(q) ==
    {[op |-> p, np |-> NoPath, cc |-> TRUE, ov |-> TRUE, nv |-> FALSE, ok |-> "file", nk |-> None,
      ox |-> X(q.s[FileAt(q.s, p)]), nx |-> None, cp |-> FALSE] : p \in FilePaths(q.s) \ FilePaths(q.t)}
    \cup {[op |-> NoPath, np |-> p, cc |-> TRUE, ov |-> FALSE, nv |-> TRUE, ok |-> None, nk |-> "file",
           ox |-> None, nx |-> X(q.t[FileAt(q.t, p)]), cp |-> FALSE] : p \in FilePaths(q.t) \ FilePaths(q.s)}
    \cup {[op |-> p, np |-> p, cc |-> TRUE, ov |-> TRUE, nv |-> TRUE, ok |-> "file", nk |-> "file",
           ox |-> X(q.s[FileAt(q.s, p)]), nx |-> X(q.t[FileAt(q.t, p)]), cp |-> FALSE] :
             p \in {r \in FilePaths(q.s) \cap FilePaths(q.t) : Attr(q.s, r) # Attr(q.t, r)}}
=============================================================================
