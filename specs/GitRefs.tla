------------------------------ MODULE GitRefs ------------------------------
(* breezy.git.transportgit.TransportRefsContainer: conditional ref updates (set_if_equals, remove_if_equals,
   add_if_new) as a transition system with ONE ACTION PER TRANSPORT OPERATION on a ref file.

   Disk (shared):  head   = contents of HEAD          : "absent" | "sym" (= "ref: refs/heads/m") | a sha
                   loose  = contents of refs/heads/m  : "absent" | a sha
                   packed = entry of refs/heads/m in packed-refs : "absent" | a sha
   A loose value shadows the packed one.  Every updater p owns one TransportRefsContainer (its `_packed_refs`
   cache is cache[p]: "nocache" until packed-refs has been read; never invalidated) and runs one job
   [op, name, old, new, warm].

   The code deviates from the compare-and-swap its docstrings promise; the deviations are named switches so that
   TLC shows what each one costs:
     * CmpOps = {}          SetIfEqualsNoCompare / RemoveIfEqualsNoCompare: `old` is never read or compared, the
                            write / delete is unconditional and True is returned           (pinned tree)
     * RereadPacked = FALSE RemovePackedSkippedCold: _remove_packed_ref returns at once when packed-refs was not
                            cached, so a packed value survives a "successful" remove        (pinned tree)
     * Lock = FALSE         no <ref>.lock is taken: compare and write are separate steps   (pinned tree; also
                            what a plain compare-before-write repair leaves)
   Lock = TRUE, CmpOps = {"set","remove"}, RereadPacked = TRUE is the design of dulwich's DiskRefsContainer
   (lock, re-read under the lock, compare, write, unlock): TLC proves the property for it.

   The property (C37) is stated on OBSERVATIONS only - what a process read, what the ref held just before the
   process's first write (its linearisation point), what it held after its last write, and what the call
   returned - through HBegin/HRead/HWrite/HRet, which GitRefsTrace re-uses verbatim on executions recorded from
   the real code.                                                                                        *)
EXTENDS Naturals, FiniteSets, Sequences, TLC

CONSTANTS Procs,         \* set of updater names
          CmpOps,        \* subset of {"set", "remove"}: operations that compare before writing
          Lock,          \* BOOLEAN
          RereadPacked,  \* BOOLEAN
          Ops, Olds, Warms, Names,   \* job space of the initial states
          RemoveHead     \* BOOLEAN: remove_if_equals may be applied to the symbolic ref itself

Shas == {"v1", "v2", "v3", "v4"}
NewOf(p) == IF p = "x" THEN "v3" ELSE "v4"
Idle == [op |-> "idle", name |-> "m", old |-> "none", new |-> "v3", warm |-> FALSE, site |-> "-"]

VARIABLES head, loose, packed,      \* disk
          lockf,                    \* holder of the ref lock file, or "free"   (Lock = TRUE only)
          job,                      \* [Procs -> job record]
          pc, cur, real, cache,
          view,                     \* what p has read, file by file, since its operation began ("unread" = not read)
          seen,                     \* set of observations [raw, fol] p's reads justified
          linval,                   \* observation just before p's first write, or NoObs
          eff,                      \* "unset" | "ok" | "bad": did p's last write leave the ref as the operation says
          wrote, result,
          step                      \* <<p, op, file>> of the last action (observation only)

disk == <<head, loose, packed>>
hist == <<view, seen, linval, eff, wrote, result>>
vars == <<head, loose, packed, lockf, job, pc, cur, real, cache, view, seen, linval, eff, wrote, result, step>>

NoObs == [raw |-> "unset", fol |-> "unset"]
U(x) == IF x = "unread" THEN "absent" ELSE x
CurM(l, pk) == IF U(l) # "absent" THEN U(l) ELSE U(pk)
\* what ref `name` holds on a disk (h, l, pk): raw = without following the symbolic ref, fol = after following it
ObsOf(h, l, pk, name) ==
    IF name = "HEAD" THEN [raw |-> U(h), fol |-> IF U(h) = "sym" THEN CurM(l, pk) ELSE U(h)]
                     ELSE [raw |-> CurM(l, pk), fol |-> CurM(l, pk)]
ObsNow(p) == ObsOf(head, loose, packed, job[p].name)

(* ------------------------------------------------------------------ the property, on observations.
   set_if_equals / add_if_new follow symbolic refs; remove_if_equals does not (dulwich's contract, which
   breezy's docstrings repeat), so for a remove applied to a symbolic ref either reading of "its current
   value" may succeed and neither must.  An absent ref "holds" the zero sha for the purpose of `old`
   (dulwich's convention, used by callers); the property does not fix that, so zero-on-absent MAY succeed. *)
MaySucceed(j, o) ==
    CASE j.op = "add"    -> o.fol = "absent"
      [] j.op = "set"    -> j.old = "none" \/ j.old = o.fol \/ (o.fol = "absent" /\ j.old = "zero")
      [] j.op = "remove" -> j.old = "none" \/ j.old = o.raw \/ j.old = o.fol \/ (o.raw = "absent" /\ j.old = "zero")
      [] OTHER -> TRUE
MustSucceed(j, o) ==
    CASE j.op = "add"    -> o.fol = "absent"
      [] j.op = "set"    -> j.old = "none" \/ (o.fol # "absent" /\ j.old = o.fol)
      [] j.op = "remove" -> j.old = "none" \/ (o.raw \notin {"absent", "sym"} /\ j.old = o.raw)
      [] OTHER -> TRUE
SawMatch(p) == \E o \in seen[p] : MaySucceed(job[p], o)
Uncond(p) == job[p].old = "none" /\ job[p].op # "add"
LinOK(p) == IF linval[p] # NoObs THEN MaySucceed(job[p], linval[p]) ELSE Uncond(p) \/ SawMatch(p)

\* C37, per updater p.  "succeeds only if the ref currently holds that value":
\*   Result = True  =>  value at linearisation = expected old
P_CasSound(p) == result[p] = "T" => LinOK(p)
\*   ... split by cause: the operation never saw a matching value at all (it did not compare) ...
P_CasSoundSeq(p) == result[p] = "T" => (Uncond(p) \/ SawMatch(p))
\*   ... or it saw one, but the ref had changed by the time it wrote (compare and write are not atomic)
P_CasAtomic(p) == (result[p] = "T" /\ (Uncond(p) \/ SawMatch(p))) => LinOK(p)
\* "and otherwise reports failure and leaves the ref unchanged"
P_FailNoWrite(p) == result[p] \in {"F", "exc"} => ~wrote[p]
\* a refusal is justified by something the operation read
P_CasComplete(p) == result[p] = "F" => \E o \in seen[p] : ~MustSucceed(job[p], o)
\* a reported success did what the operation says (new value visible / ref gone) when its last write completed
P_EffectApplied(p) == result[p] = "T" => eff[p] # "bad"

CasSound == \A p \in Procs : P_CasSound(p)
CasSoundSeq == \A p \in Procs : P_CasSoundSeq(p)
CasAtomic == \A p \in Procs : P_CasAtomic(p)
FailNoWrite == \A p \in Procs : P_FailNoWrite(p)
CasComplete == \A p \in Procs : P_CasComplete(p)
EffectApplied == \A p \in Procs : P_EffectApplied(p)
InvNames == {"CasSoundSeq", "CasAtomic", "FailNoWrite", "CasComplete", "EffectApplied"}
HoldsFor(n, p) == CASE n = "CasSoundSeq" -> P_CasSoundSeq(p) [] n = "CasAtomic" -> P_CasAtomic(p)
                    [] n = "FailNoWrite" -> P_FailNoWrite(p) [] n = "CasComplete" -> P_CasComplete(p)
                    [] n = "EffectApplied" -> P_EffectApplied(p)

\* after p's write: a set/add shows p's value; a remove shows no ref - or a value another updater has put there
\* since (a remove is two writes, loose file then packed-refs; a set in between is a later operation, not a failure)
EffOf(p, h, l, pk) == LET j == job[p]
                          o == ObsOf(h, l, pk, j.name)
                          others == {job[q].new : q \in {r \in Procs \ {p} : job[r].op \in {"set", "add"}}} IN
    IF j.op = "remove" THEN (IF o.raw \in {"absent"} \cup others THEN "ok" ELSE "bad")
    ELSE (IF o.fol = j.new THEN "ok" ELSE "bad")

(* ------------------------------------------------------------------ history bookkeeping (shared with the trace spec) *)
FreshView(p) == [head |-> "unread", loose |-> "unread", packed |-> IF job[p].warm THEN packed ELSE "unread"]
HBeginV(p, v0) == /\ view' = [view EXCEPT ![p] = v0]
             /\ seen' = [seen EXCEPT ![p] = {}]
             /\ linval' = [linval EXCEPT ![p] = NoObs] /\ eff' = [eff EXCEPT ![p] = "unset"]
             /\ wrote' = [wrote EXCEPT ![p] = FALSE]
HBegin(p) == HBeginV(p, FreshView(p))
\* p read file f ("HEAD" | "m" | "packed"): its picture of the ref is updated and becomes an observation
ViewAfter(p, f) == [view[p] EXCEPT !.head = IF f = "HEAD" THEN head ELSE @,
                                   !.loose = IF f = "m" THEN loose ELSE @,
                                   !.packed = IF f = "packed" THEN packed ELSE @]
\* between p's first write and its return another updater may complete what p's own last write left undone (a remove is
\* two writes): the effect is judged "bad" only if it was never there from p's last write to its return
HSettle(p) == eff' = [eff EXCEPT ![p] = IF wrote[p] /\ @ = "bad" /\ EffOf(p, head, loose, packed) = "ok" THEN "ok" ELSE @]
\* a picture is an observation of ref n once it covers the files that determine n's value
\* (remove_if_equals does not follow the symbolic ref: HEAD itself suffices)
Known(v, j) == LET m == v.loose # "unread" /\ (v.loose # "absent" \/ v.packed # "unread") IN
               IF j.name = "HEAD" THEN v.head # "unread" /\ ((v.head = "sym" /\ j.op # "remove") => m) ELSE m
\* reads after p's own first write justify nothing (p has linearised already)
HRead(p, f) == LET v == ViewAfter(p, f) IN
               /\ view' = [view EXCEPT ![p] = v]
               /\ seen' = [seen EXCEPT ![p] = IF Known(v, job[p]) /\ ~wrote[p]
                                                THEN @ \cup {ObsOf(v.head, v.loose, v.packed, job[p].name)} ELSE @]
               /\ HSettle(p) /\ UNCHANGED <<linval, wrote>>
\* p performed a mutating operation on a ref file (new disk = primed variables)
HWrite(p) == /\ linval' = [linval EXCEPT ![p] = IF @ = NoObs THEN ObsNow(p) ELSE @]
             /\ wrote' = [wrote EXCEPT ![p] = TRUE]
             /\ eff' = [eff EXCEPT ![p] = EffOf(p, head', loose', packed')]
             /\ UNCHANGED <<view, seen>>
HNone == UNCHANGED <<view, seen, linval, eff, wrote>>

(* ------------------------------------------------------------------ initial states *)
JobsOf(p) == {[op |-> o, name |-> n, old |-> IF o = "add" THEN "none" ELSE od, new |-> NewOf(p), warm |-> w, site |-> "-"] :
                 o \in Ops, n \in Names, od \in Olds, w \in Warms}
FirstPc(j) == CASE j.op = "idle" -> "done"
                [] j.op \in {"set", "add"} -> "f_loose"
                [] OTHER -> IF Lock THEN "lock" ELSE IF "remove" \in CmpOps /\ j.old # "none" THEN "c_loose" ELSE "r_del"
Init == /\ loose \in {"absent", "v1"} /\ packed \in {"absent", "v2"} /\ head \in {"absent", "sym"}
        /\ job \in [Procs -> UNION {JobsOf(p) : p \in Procs}]
        /\ \A p \in Procs : job[p] \in JobsOf(p) /\ (job[p].name = "HEAD" => head = "sym")
                            /\ (job[p].op = "remove" /\ job[p].name = "HEAD" => RemoveHead)
        /\ head = "sym" => \E p \in Procs : job[p].name = "HEAD"
        /\ lockf = "free"
        /\ pc = [p \in Procs |-> FirstPc(job[p])]
        /\ cur = [p \in Procs |-> job[p].name] /\ real = [p \in Procs |-> job[p].name]
        /\ cache = [p \in Procs |-> IF job[p].warm THEN packed ELSE "nocache"]
        /\ view = [p \in Procs |-> FreshView(p)]
        /\ seen = [p \in Procs |-> {}] /\ linval = [p \in Procs |-> NoObs]
        /\ eff = [p \in Procs |-> "unset"] /\ wrote = [p \in Procs |-> FALSE]
        /\ result = [p \in Procs |-> "none"]
        /\ step = <<"-", "init", "-">>

Goto(p, l) == pc' = [pc EXCEPT ![p] = l]
Ret(p, r) == result' = [result EXCEPT ![p] = r]
Op(p, o, f) == step' = <<p, o, f>>
LooseOf(n) == IF n = "HEAD" THEN head ELSE loose
PackedOf(n, pk) == IF n = "m" THEN pk ELSE "absent"
Matches(old, v) == old = v \/ (v = "absent" /\ old = "zero")

\* where control goes once follow() has produced (realname, contents) for set_if_equals / add_if_new
AfterFollow(p, rn, v) ==
    /\ real' = [real EXCEPT ![p] = rn]
    /\ IF job[p].op = "add" /\ v # "absent" THEN Goto(p, "done") /\ Ret(p, "F")
       ELSE /\ UNCHANGED result
            /\ IF Lock THEN Goto(p, "lock")
               ELSE IF job[p].op = "set" /\ "set" \in CmpOps /\ job[p].old # "none" THEN Goto(p, "c_loose")
               ELSE Goto(p, "write")
\* where control goes once the compare step knows the current value v
AfterCompare(p, v) ==
    LET ok == CASE job[p].op = "add" -> v = "absent"
                [] job[p].old = "none" -> TRUE
                [] OTHER -> Matches(job[p].old, v) IN
    IF ok THEN Goto(p, IF job[p].op = "remove" THEN "r_del" ELSE "write") /\ UNCHANGED result
    ELSE IF Lock THEN Goto(p, "unlock_f") /\ UNCHANGED result
    ELSE Goto(p, "done") /\ Ret(p, "F")

(* ---- follow(): read_ref = read_loose_ref (get <name>), then get_packed_refs (get packed-refs unless cached) *)
FollowLoose(p) ==
    /\ pc[p] = "f_loose"
    /\ LET v == LooseOf(cur[p]) IN
       IF v = "sym" THEN /\ cur' = [cur EXCEPT ![p] = "m"] /\ UNCHANGED <<pc, real, result>>
       ELSE IF v # "absent" THEN AfterFollow(p, cur[p], v) /\ UNCHANGED cur
       ELSE IF cache[p] = "nocache" THEN Goto(p, "f_packed") /\ UNCHANGED <<cur, real, result>>
       ELSE AfterFollow(p, cur[p], PackedOf(cur[p], cache[p])) /\ UNCHANGED cur
    /\ HRead(p, cur[p]) /\ Op(p, "get", cur[p])
    /\ UNCHANGED <<disk, lockf, job, cache>>

FollowPacked(p) ==
    /\ pc[p] = "f_packed"
    /\ cache' = [cache EXCEPT ![p] = packed]
    /\ AfterFollow(p, cur[p], PackedOf(cur[p], packed))
    /\ HRead(p, "packed") /\ Op(p, "get", "packed")
    /\ UNCHANGED <<disk, lockf, job, cur>>

(* ---- compare-before-write (absent from the pinned tree: CmpOps = {}) *)
CompareLoose(p) ==
    /\ pc[p] = "c_loose"
    /\ LET v == LooseOf(real[p]) IN
       IF v # "absent" THEN AfterCompare(p, v)
       ELSE IF cache[p] = "nocache" \/ Lock THEN Goto(p, "c_packed") /\ UNCHANGED result
       ELSE AfterCompare(p, PackedOf(real[p], cache[p]))
    /\ HRead(p, real[p]) /\ Op(p, "get", real[p])
    /\ UNCHANGED <<disk, lockf, job, cur, real, cache>>

ComparePacked(p) ==
    /\ pc[p] = "c_packed"
    /\ cache' = [cache EXCEPT ![p] = packed]
    /\ AfterCompare(p, PackedOf(real[p], packed))
    /\ HRead(p, "packed") /\ Op(p, "get", "packed")
    /\ UNCHANGED <<disk, lockf, job, cur, real>>

(* ---- the write of set_if_equals / add_if_new: put_bytes(<realname>, new) *)
Write(p) ==
    /\ pc[p] = "write"
    /\ IF real[p] = "HEAD" THEN head' = job[p].new /\ UNCHANGED loose ELSE loose' = job[p].new /\ UNCHANGED head
    /\ UNCHANGED packed
    /\ IF Lock THEN Goto(p, "unlock_t") /\ UNCHANGED result ELSE Goto(p, "done") /\ Ret(p, "T")
    /\ HWrite(p) /\ Op(p, "put", real[p])
    /\ UNCHANGED <<lockf, job, cur, real, cache>>

(* ---- remove_if_equals: delete(<name>) (NoSuchFile ignored), then _remove_packed_ref(<name>) *)
RemoveLoose(p) ==
    /\ pc[p] = "r_del"
    /\ IF job[p].name = "HEAD" THEN head' = "absent" /\ UNCHANGED loose ELSE loose' = "absent" /\ UNCHANGED head
    /\ UNCHANGED packed
    /\ IF cache[p] = "nocache" /\ ~RereadPacked            \* RemovePackedSkippedCold
       THEN IF Lock THEN Goto(p, "unlock_t") /\ UNCHANGED result ELSE Goto(p, "done") /\ Ret(p, "T")
       ELSE Goto(p, "r_reread") /\ UNCHANGED result
    /\ HWrite(p) /\ Op(p, "delete", job[p].name)
    /\ UNCHANGED <<lockf, job, cur, real, cache>>

RemoveReread(p) ==
    /\ pc[p] = "r_reread"
    /\ cache' = [cache EXCEPT ![p] = packed]
    /\ IF PackedOf(job[p].name, packed) # "absent" THEN Goto(p, "r_rewrite") /\ UNCHANGED result
       ELSE IF Lock THEN Goto(p, "unlock_t") /\ UNCHANGED result ELSE Goto(p, "done") /\ Ret(p, "T")
    /\ HRead(p, "packed") /\ Op(p, "get", "packed")
    /\ UNCHANGED <<disk, lockf, job, cur, real>>

\* open_write_stream(packed-refs) + write of the cached map without <name>, taken as one step
RemoveRewrite(p) ==
    /\ pc[p] = "r_rewrite"
    /\ packed' = "absent" /\ UNCHANGED <<head, loose>>
    /\ cache' = [cache EXCEPT ![p] = "absent"]
    /\ IF Lock THEN Goto(p, "unlock_t") /\ UNCHANGED result ELSE Goto(p, "done") /\ Ret(p, "T")
    /\ HWrite(p) /\ Op(p, "rewrite", "packed")
    /\ UNCHANGED <<lockf, job, cur, real>>

(* ---- the ideal design's lock file (one lock for the ref) *)
TakeLock(p) ==
    /\ Lock /\ pc[p] = "lock" /\ lockf = "free"
    /\ lockf' = p
    /\ IF job[p].op = "add" \/ (job[p].op \in CmpOps /\ job[p].old # "none") THEN Goto(p, "c_loose")
       ELSE Goto(p, IF job[p].op = "remove" THEN "r_del" ELSE "write")
    /\ HNone /\ Op(p, "lock", real[p])
    /\ UNCHANGED <<disk, job, cur, real, cache, result>>

Unlock(p) ==
    /\ Lock /\ pc[p] \in {"unlock_t", "unlock_f"} /\ lockf = p
    /\ lockf' = "free"
    /\ Goto(p, "done") /\ Ret(p, IF pc[p] = "unlock_t" THEN "T" ELSE "F")
    /\ HNone /\ Op(p, "unlock", real[p])
    /\ UNCHANGED <<disk, job, cur, real, cache>>

Act(p) == \/ FollowLoose(p) \/ FollowPacked(p) \/ CompareLoose(p) \/ ComparePacked(p) \/ Write(p)
          \/ RemoveLoose(p) \/ RemoveReread(p) \/ RemoveRewrite(p) \/ TakeLock(p) \/ Unlock(p)
Next == \E p \in Procs : Act(p)
Spec == Init /\ [][Next]_vars
View == <<head, loose, packed, lockf, job, pc, cur, real, cache, view, seen, linval, eff, wrote, result>>

TypeOK == /\ head \in Shas \cup {"absent", "sym"} /\ loose \in Shas \cup {"absent"} /\ packed \in Shas \cup {"absent"}
          /\ \A p \in Procs : result[p] \in {"none", "T", "F", "exc"} /\ (result[p] # "none" <=> pc[p] = "done" /\ job[p].op # "idle")
\* the lock is free whenever nobody is between lock and unlock
LockDiscipline == lockf = "free" \/ (Lock /\ pc[lockf] \notin {"done", "f_loose", "f_packed", "lock"})

\* anti-vacuity witnesses (TLC must violate them)
WitnessRefused == ~(\E p \in Procs : result[p] = "F" /\ job[p].op = "set")
WitnessSwapped == ~(\E p \in Procs : result[p] = "T" /\ job[p].op = "set" /\ job[p].old \in Shas)
WitnessRemovedPacked == ~(\E p \in Procs : result[p] = "T" /\ job[p].op = "remove" /\ linval[p].raw = "v2" /\ eff[p] = "ok")
WitnessBothDone == ~(\A p \in Procs : result[p] = "T" /\ job[p].old \in Shas)
=============================================================================
