----------------------------- MODULE WorkingTree -----------------------------
(* Property C09: a working tree behaves like an abstract versioned file system.

   Bound code: breezy/bzr/workingtree_4.py (DirStateWorkingTree), breezy/bzr/workingtree.py (InventoryWorkingTree /
   WorkingTree3), breezy/git/workingtree.py + breezy/git/tree.py (GitWorkingTree / MutableGitIndexTree),
   breezy/workingtree.py (revert), breezy/transform.py (revert), breezy/commit.py.

   State
     disk    what is on the file system below the tree root, restricted to the namespace
     ver     bzr: the identity ("file id") of the versioned entry at a path:  "no" = not versioned, "new" = added since
                  the basis, otherwise the PATH THE ENTRY HAS IN THE BASIS (ids are canonicalised to basis paths: only
                  identity relative to the basis is observable, through renames reported by iter_changes)
             git: "new" for every path that has an index entry (files only), "no" otherwise; directories are versioned
                  implicitly while a versioned file lives below them
     basis   the committed tree (bzr: may hold empty directories; git: files only)
     last    outcome of the last call: "ok" | "rejected:<rule>" (an exception is raised; <rule> names the rule of this
             model that forbids the call - it classifies the pre-state in violation signatures)
     obs     the OBSERVABLE PROJECTION of the state = what C09 compares with the real tree after every call:
             obs.view    versioned path -> what the tree reports for it (disk kind / "missing", content, exec bit)
             obs.changes normalised iter_changes(basis)

   Illegal operations are `Rej`: the versioned projection is unchanged (verdict); the error class is not modelled.
   Edit / Chmod are the environment (plain file-system writes below the tree root).                                  *)
EXTENDS Naturals, FiniteSets, TLC
CONSTANTS Flavour,      \* "bzr" | "git"
          Paths,        \* namespace: subset of Universe closed under Par
          InitKinds,    \* subset of {"empty", "pop"}
          MaxDepth,     \* sequences of at most this many calls are explored
          Passive       \* paths no call is aimed at: by-standers whose NAMES have a directory's name as a string prefix
                        \* (d2/, d2/a, da next to d/); whatever is done to d/ must leave them alone
VARIABLES disk, ver, basis, last, obs,
          calls         \* number of calls made so far (bounds the exploration only)
vars == <<disk, ver, basis, last, obs, calls>>

Universe == {"a", "b", "d", "d/a", "e", "e/a", "d2", "d2/a", "da"}
ASSUME Paths \subseteq Universe /\ Passive \subseteq Paths
Par(p)  == CASE p = "d/a" -> "d" [] p = "e/a" -> "e" [] p = "d2/a" -> "d2" [] OTHER -> ""
Name(p) == CASE p \in {"d/a", "e/a", "d2/a"} -> "a" [] OTHER -> p
Join(dir, n) == IF dir = "" THEN n
                ELSE IF dir = "d" /\ n = "a" THEN "d/a"
                ELSE IF dir = "e" /\ n = "a" THEN "e/a"
                ELSE IF dir = "d2" /\ n = "a" THEN "d2/a" ELSE "?"
ASSUME \A p \in Paths : Par(p) = "" \/ Par(p) \in Paths
Active == Paths \ Passive                                       \* what calls are aimed at
DirNames == {p \in Active : \E q \in Universe : Par(q) = p}    \* names Mkdir is tried on
Contents == {"x", "y"}

NONE == [k |-> "none", c |-> "", e |-> FALSE]
DIR  == [k |-> "dir", c |-> "", e |-> FALSE]
F(c, e) == [k |-> "file", c |-> c, e |-> e]
Entries == {NONE, DIR} \cup {F(c, e) : c \in Contents, e \in BOOLEAN}

Kids(p)  == {q \in Paths : Par(q) = p}
Under(p) == {p} \cup Kids(p)
Has(dk, p) == dk[p].k # "none"
IsDir(dk, p) == IF p = "" THEN TRUE ELSE dk[p].k = "dir"
\* versioned? (the root always is)
VerB(v, p) == IF p = "" THEN TRUE ELSE v[p] # "no"
VerG(v, p) == IF p = "" THEN TRUE ELSE (v[p] # "no" \/ \E q \in Kids(p) : v[q] # "no")
Versioned(v, p) == IF Flavour = "bzr" THEN VerB(v, p) ELSE VerG(v, p)
BasisHasG(b, p) == IF p = "" THEN TRUE ELSE (b[p].k = "file" \/ \E q \in Kids(p) : b[q].k = "file")

(* ------------------------------------------------------------------ observable projection *)
View(dk, v) == [p \in Paths |-> IF ~Versioned(v, p) THEN NONE
                                ELSE IF ~Has(dk, p) THEN [k |-> "missing", c |-> "", e |-> FALSE] ELSE dk[p]]

Chg(o, n, cc, ko, kn, eo, en) == [o |-> o, n |-> n, cc |-> cc, ko |-> ko, kn |-> kn, eo |-> eo, en |-> en]
\* bzr: one record per file id that differs between basis and tree; an entry below a renamed directory whose own name
\* and parent ID are unchanged is NOT a change
ParIdCur(v, q) == IF Par(q) = "" THEN "" ELSE v[Par(q)]
ChangesB(dk, v, b) ==
    LET ids == {i \in Paths : b[i].k # "none"}
        cur(i) == {q \in Paths : v[q] = i}
        gone == {Chg(i, "", TRUE, b[i].k, "none", b[i].e, FALSE) : i \in {j \in ids : cur(j) = {}}}
        kept == UNION {{Chg(i, q, dk[q].k # b[i].k \/ (dk[q].k = "file" /\ dk[q].c # b[i].c),
                            b[i].k, dk[q].k, b[i].e, dk[q].e) : q \in cur(i)} : i \in ids}
        added == {Chg("", q, TRUE, "none", dk[q].k, FALSE, dk[q].e) : q \in {r \in Paths : v[r] = "new"}}
    IN gone \cup added \cup
       {r \in kept : r.cc \/ r.eo # r.en \/ Name(r.o) # Name(r.n) \/ Par(r.o) # ParIdCur(v, r.n)}
\* git: per path, files only (directories are implicit, renames are remove + add); the mode is part of a git tree
\* entry, so a chmod counts as a content change (breezy/git/tree.py changes_from_git_changes: `modified`)
ChangesG(dk, v, b) ==
    LET was(p) == b[p].k = "file"
        is(p) == v[p] # "no"
    IN {Chg(p, "", TRUE, "file", "none", b[p].e, FALSE) : p \in {q \in Paths : was(q) /\ ~is(q)}} \cup
       {Chg("", p, TRUE, "none", dk[p].k, FALSE, dk[p].e) : p \in {q \in Paths : is(q) /\ ~was(q)}} \cup
       {r \in {Chg(p, p, dk[p].k # "file" \/ dk[p].c # b[p].c \/ dk[p].e # b[p].e, "file", dk[p].k, b[p].e, dk[p].e)
                 : p \in {q \in Paths : is(q) /\ was(q)}} : r.cc \/ r.eo # r.en}
Changes(dk, v, b) == IF Flavour = "bzr" THEN ChangesB(dk, v, b) ELSE ChangesG(dk, v, b)
Obs(dk, v, b) == [view |-> View(dk, v), changes |-> Changes(dk, v, b)]

(* ------------------------------------------------------------------ well-formedness *)
ValidDisk(dk) == \A p \in Paths : Has(dk, p) /\ Par(p) # "" => dk[Par(p)].k = "dir"
ValidVer(v) == IF Flavour = "bzr"
               THEN /\ \A p \in Paths : v[p] # "no" => VerB(v, Par(p))                   \* parents are versioned
                    /\ \A p, q \in Paths : (v[p] = v[q] /\ v[p] \notin {"no", "new"}) => p = q   \* ids are unique
               ELSE \A p \in Paths : v[p] \in {"no", "new"}
ValidBasis(b) == IF Flavour = "bzr" THEN ValidDisk(b)
                 ELSE \A p \in Paths : /\ b[p].k \in {"none", "file"}
                                        /\ b[p].k = "file" /\ Par(p) # "" => b[Par(p)].k = "none"
TypeOK == /\ disk \in [Paths -> Entries] /\ basis \in [Paths -> Entries]
          /\ ver \in [Paths -> {"no", "new"} \cup Paths] /\ last \in STRING
ValidTree == ValidDisk(disk) /\ ValidVer(ver) /\ ValidBasis(basis)
\* an id taken from the basis really is a basis entry
IdsFromBasis == \A p \in Paths : ver[p] \notin {"no", "new"} => basis[ver[p]].k # "none"
\* the tree a commit would record, compared with itself, has no changes
CleanVer(b) == [p \in Paths |-> IF b[p].k = "none" \/ (Flavour = "git" /\ b[p].k # "file") THEN "no"
                                ELSE IF Flavour = "bzr" THEN p ELSE "new"]
BasisSelfDiffEmpty == Changes(basis, CleanVer(basis), basis) = {}
ObsConsistent == obs = Obs(disk, ver, basis)

(* ------------------------------------------------------------------ results *)
Res(dk, v, b, l) == [disk |-> dk, ver |-> v, basis |-> b, last |-> l]
Rej(rule) == Res(disk, ver, basis, rule)                \* rule = "rejected:<the rule of this model that forbids the call>"
Ok(dk, v) == Res(dk, v, basis, "ok")
\* (x: TLC evaluates an operator argument anew at every use; a LET definition once)
Step(r) == LET x == r IN
           /\ calls < MaxDepth /\ calls' = calls + 1
           /\ disk' = x.disk /\ ver' = x.ver /\ basis' = x.basis /\ last' = x.last
           /\ obs' = Obs(x.disk, x.ver, x.basis)

\* moving the subtree at src to dst in a path-indexed function (blank = value of a vacated / empty slot)
Occupied(src) == {s \in Under(src) : Has(disk, s) \/ ver[s] # "no"}
MapTo(src, dst, s) == IF s = src THEN dst ELSE Join(dst, Name(s))
Movable(src, dst) == /\ src # dst /\ dst \notin Under(src) /\ src \notin Under(dst)
                     /\ \A s \in Occupied(src) : MapTo(src, dst, s) \in Paths
MoveTree(f, src, dst, blank) ==
    [q \in Paths |-> IF \E s \in Under(src) : MapTo(src, dst, s) = q
                     THEN f[CHOOSE s \in Under(src) : MapTo(src, dst, s) = q]
                     ELSE IF q \in Under(src) \/ q \in Under(dst) THEN blank ELSE f[q]]
Erase(f, p, blank) == [q \in Paths |-> IF q \in Under(p) THEN blank ELSE f[q]]

\* the kind an entry was recorded with (bzr): what it had in the basis, or what was on disk when it was added.  It differs
\* from the disk only after rename_one recorded the move of a removed file onto an existing directory (or vice versa).
RecKind(p) == IF ver[p] = "new" THEN disk[p].k ELSE IF ver[p] = "no" THEN "none" ELSE basis[ver[p]].k

(* ------------------------------------------------------------------ add / mkdir *)
\* a set of results: adding what is versioned already changes nothing; whether it raises differs by format
\* (WorkingTree3 raises AlreadyVersionedError, dirstate trees return silently)
AddRes(p) ==
    IF ~Has(disk, p) THEN {Rej("rejected:no-such-file")}
    ELSE IF Flavour = "git" THEN {IF disk[p].k = "file" THEN Ok(disk, [ver EXCEPT ![p] = "new"]) ELSE Ok(disk, ver)}
    ELSE IF ver[p] # "no" THEN {Ok(disk, ver), Rej("rejected:already-versioned")}
    ELSE IF ~VerB(ver, Par(p)) THEN {Rej("rejected:parent-not-versioned")}
    ELSE IF Par(p) # "" /\ RecKind(Par(p)) # "dir" THEN {Rej("rejected:parent-entry-is-no-directory")}
    ELSE {Ok(disk, [ver EXCEPT ![p] = "new"])}
Add(p) == /\ p \in Paths /\ \E r \in AddRes(p) : Step(r)

MkdirRes(p) ==
    IF Has(disk, p) THEN Rej("rejected:file-exists")
    ELSE LET dk == [disk EXCEPT ![p] = DIR] IN
         IF Flavour = "git" THEN Ok(dk, ver) ELSE Ok(dk, [ver EXCEPT ![p] = "new"])
Mkdir(p) == /\ p \in DirNames /\ Step(MkdirRes(p))

(* ------------------------------------------------------------------ remove (keep_files=True | force=True) *)
RemoveRes(p, mode) ==
    LET v == Erase(ver, p, "no")
        dk == IF mode = "force" THEN Erase(disk, p, NONE) ELSE disk
    IN Ok(dk, v)
Remove(p, mode) == /\ p \in Paths /\ Step(RemoveRes(p, mode))

(* ------------------------------------------------------------------ rename_one / move *)
\* bzr: identity of the source: its id, or - "rename even if the source was already unversioned"
\* (per_workingtree test_rename_one_after_source_removed) - the id the path has in the basis
BzrFromId(src) == IF ver[src] # "no" THEN ver[src] ELSE IF basis[src].k # "none" THEN src ELSE "no"
BzrResPath(src) == IF Par(src) = "" THEN src ELSE Join(CHOOSE q \in Paths : ver[q] = Par(src), Name(src))
BzrDoMove(src, dst, id) ==
    LET v0 == [ver EXCEPT ![src] = id]
        hs == Has(disk, src)
    IN Ok(IF hs THEN MoveTree(disk, src, dst, NONE) ELSE disk, MoveTree(v0, src, dst, "no"))
BzrRenameRes(src, dst) ==
    LET id == BzrFromId(src) IN
    IF id = "no" THEN Rej("rejected:source-not-versioned")
    ELSE IF ver[src] = "no" /\ \E q \in Paths : ver[q] = id THEN Rej("rejected:source-identity-lives-elsewhere")
    ELSE IF ver[src] = "no" /\ ~(Par(src) = "" \/ \E q \in Paths : ver[q] = Par(src)) THEN Rej("rejected:basis-parent-gone")
    \* the entry taken from the basis first re-appears below the directory that carries its basis parent's id
    ELSE IF ver[src] = "no" /\ (BzrResPath(src) = dst \/ (BzrResPath(src) # src /\ BzrResPath(src) \in Paths
                                                          /\ ver[BzrResPath(src)] # "no"))
         THEN Rej("rejected:resurrected-entry-in-the-way")
    ELSE IF ver[dst] # "no" THEN Rej("rejected:target-versioned")
    ELSE IF Has(disk, src) = Has(disk, dst) THEN Rej("rejected:both-or-neither-exist")
    ELSE IF ~VerB(ver, Par(dst)) THEN Rej("rejected:target-directory-not-versioned")
    ELSE IF ~IsDir(disk, Par(dst)) THEN Rej("rejected:target-directory-missing")
    ELSE BzrDoMove(src, dst, id)
BzrMoveRes(src, dir) ==
    LET dst == Join(dir, Name(src)) IN
    IF ~VerB(ver, dir) \/ ~IsDir(disk, dir) THEN Rej("rejected:target-directory-not-versioned")
    ELSE IF ver[src] = "no" THEN Rej("rejected:source-not-versioned")
    ELSE IF ver[dst] # "no" \/ src = dst THEN Rej("rejected:target-versioned")
    ELSE IF Has(disk, src) = Has(disk, dst) THEN Rej("rejected:both-or-neither-exist")
    ELSE BzrDoMove(src, dst, ver[src])

GitRenameRes(src, dst) ==
    LET hs == Has(disk, src)
        hd == Has(disk, dst)
    IN IF VerG(ver, dst) THEN Rej("rejected:target-versioned")
       \* nothing at the source, an untracked directory at the target: taken for a rename that already happened,
       \* which moves the index entries below the source - there are none
       ELSE IF ~hs /\ disk[dst].k = "dir" /\ ~BasisHasG(basis, dst) THEN Ok(disk, ver)
       ELSE IF ~hs THEN Rej("rejected:source-missing")                          \* (tracked but missing: not reachable)
       ELSE IF ~VerG(ver, src) /\ disk[src].k # "dir" THEN Rej("rejected:source-not-versioned")
       ELSE IF hd THEN Rej("rejected:both-or-neither-exist")
       ELSE IF ~IsDir(disk, Par(dst)) THEN Rej("rejected:target-directory-missing")
       ELSE Ok(MoveTree(disk, src, dst, NONE), MoveTree(ver, src, dst, "no"))
GitMoveRes(src, dir) ==
    LET dst == Join(dir, Name(src)) IN
    IF ~IsDir(disk, dir) THEN Rej("rejected:target-directory-missing")
    ELSE IF src = dst THEN Rej("rejected:target-versioned") ELSE GitRenameRes(src, dst)

Rename(src, dst) == /\ Movable(src, dst)
                    /\ Step(IF Flavour = "bzr" THEN BzrRenameRes(src, dst) ELSE GitRenameRes(src, dst))
Move(src, dir) == /\ Join(dir, Name(src)) \in Paths
                  /\ IF src = Join(dir, Name(src)) THEN TRUE ELSE Movable(src, Join(dir, Name(src)))
                  /\ Step(IF Flavour = "bzr" THEN BzrMoveRes(src, dir) ELSE GitMoveRes(src, dir))

(* ------------------------------------------------------------------ environment: edit / chmod *)
Edit(p, c) == /\ IF disk[p].k = "file" THEN disk[p].c # c ELSE (~Has(disk, p) /\ IsDir(disk, Par(p)))
              /\ Step(Ok([disk EXCEPT ![p] = F(c, IF Has(disk, p) THEN disk[p].e ELSE FALSE)], ver))
Chmod(p) == /\ disk[p].k = "file"
            /\ Step(Ok([disk EXCEPT ![p] = F(disk[p].c, ~disk[p].e)], ver))

(* ------------------------------------------------------------------ commit / revert / reopen *)
CommitRes ==
    IF Flavour = "bzr"
    THEN LET keep(p) == ver[p] # "no" /\ Has(disk, p) IN
         Res(disk, [p \in Paths |-> IF keep(p) THEN p ELSE "no"],
             [p \in Paths |-> IF keep(p) THEN disk[p] ELSE NONE], "ok")
    ELSE LET keep(p) == ver[p] # "no" /\ disk[p].k = "file" IN
         Res(disk, [p \in Paths |-> IF keep(p) THEN "new" ELSE "no"],
             [p \in Paths |-> IF keep(p) THEN disk[p] ELSE NONE], "ok")
Commit == /\ TRUE /\ Step(CommitRes)

\* revert(): every basis entry is back at its basis path with its basis content; files added since the basis
\* become unversioned and stay on disk (breezy/transform.py _alter_files: keep_content), added directories are deleted
\* when nothing is left inside; what was renamed moves back; anything in the way of a restored entry is moved aside
\* (out of the namespace).
\* git has no identities: an added file is "renamed" when the rename detector pairs it with a deleted basis file of the
\* same content; which pairs it forms is a heuristic, so any subset S of the candidates may move back (the
\* versioned projection does not depend on S: the files in S are unversioned either way).
RevertCands == IF Flavour = "bzr" THEN {}
               ELSE {p \in Paths : /\ ver[p] # "no" /\ basis[p].k = "none" /\ disk[p].k = "file"
                                    /\ \E q \in Paths \ {p} : basis[q].k = "file" /\ basis[q].c = disk[p].c /\ ver[q] = "no"}
RevertRes(S) ==
    LET bt == [p \in Paths |-> IF basis[p].k = "none" /\ \E q \in Kids(p) : basis[q].k # "none" THEN DIR ELSE basis[p]]
        inB(p) == bt[p].k # "none"
        movedHere(p) == IF Flavour = "bzr" THEN ver[p] \notin {"no", "new"} /\ ver[p] # p    \* goes back to its basis path
                        ELSE p \in S
        addedDir(p) == /\ disk[p].k = "dir"
                       /\ IF Flavour = "bzr" THEN ver[p] = "new" ELSE ~inB(p) /\ \E q \in Kids(p) : ver[q] # "no"
        stays(p) == /\ ~inB(p) /\ Has(disk, p) /\ ~movedHere(p)
                    /\ addedDir(p) => \E q \in Kids(p) : Has(disk, q) /\ ~movedHere(q)
        d1 == [p \in Paths |-> IF inB(p) THEN bt[p] ELSE IF stays(p) THEN disk[p] ELSE NONE]
        \* what occupies the path of a basis entry without being that entry is moved aside (bzr)
        replaced(q) == Flavour = "bzr" /\ inB(q) /\ Has(disk, q) /\ ver[q] \in {"no", "new"}
        \* left-overs below a path that is no directory any more, or that was moved aside, went away with it
        d2 == [p \in Paths |-> IF Par(p) # "" /\ ~inB(p) /\ (d1[Par(p)].k # "dir" \/ replaced(Par(p))) THEN NONE ELSE d1[p]]
    IN Res(d2, CleanVer(basis), basis, "ok")
\* (the Assert is the model property "directly after revert the tree has no changes against its basis and every basis
\*  entry is back", evaluated where it applies; TLC stops with an error if it fails)
RevertTo(S) == /\ S \in SUBSET RevertCands
               /\ LET r == RevertRes(S) IN
                  /\ Step(r)
                  /\ Assert(Changes(r.disk, r.ver, r.basis) = {} /\ \A p \in Paths : basis[p].k # "none" => r.disk[p] = basis[p],
                            "RevertIsClean")
Revert == \E S \in SUBSET RevertCands : RevertTo(S)

Reopen == /\ TRUE /\ Step(Ok(disk, ver))

(* ------------------------------------------------------------------ behaviours *)
InitState(kind) ==
    IF kind = "empty"
    THEN Res([p \in Paths |-> NONE], [p \in Paths |-> "no"], [p \in Paths |-> NONE], "ok")
    ELSE LET t == [p \in Paths |-> CASE p = "a" -> F("x", FALSE) [] p = "d" -> DIR [] p = "d/a" -> F("x", FALSE)
                                     [] p = "d2" /\ p \in Passive -> DIR
                                     [] p \in {"d2/a", "da"} /\ p \in Passive -> F("y", FALSE)     \* committed by-standers
                                     [] OTHER -> NONE]
             b == [p \in Paths |-> IF Flavour = "git" /\ t[p].k = "dir" THEN NONE ELSE t[p]]
         IN Res(t, CleanVer(b), b, "ok")
Init == \E kind \in InitKinds : LET r == InitState(kind) IN
            /\ disk = r.disk /\ ver = r.ver /\ basis = r.basis /\ last = r.last /\ obs = Obs(r.disk, r.ver, r.basis) /\ calls = 0

Next == \/ \E p \in Active : Add(p) \/ Mkdir(p) \/ Chmod(p)
        \/ \E p \in Active, mode \in {"keep", "force"} : Remove(p, mode)
        \/ \E p, q \in Active : Rename(p, q)
        \/ \E p \in Active, dir \in DirNames \cup {""} : Move(p, dir)
        \/ \E p \in Active, c \in Contents : Edit(p, c)
        \/ Commit \/ (\E S \in SUBSET Active : RevertTo(S)) \/ Reopen    \* (a constant set: TLC labels the edge RevertTo(S))
Spec == Init /\ [][Next]_vars

(* ------------------------------------------------------------------ properties of the model (checked by TLC) *)
\* a rejected call leaves the versioned projection alone
Rejected(l) == l # "ok"
RejectedIsNoop == [][Rejected(last') => obs' = obs]_vars
\* directly after commit / revert the tree has no changes against its basis
\* (only commit changes the basis; a commit that changes nothing was clean before.  RevertIsClean is the Assert in RevertTo:
\*  as action properties these two would re-evaluate the Commit / Revert actions on every transition)
CommitIsClean == [][basis' # basis => obs'.changes = {}]_vars
\* whatever happens, the by-standers stay as committed (checked on the model; on the real tree they are part of obs)
PassiveUntouched == \A p \in Passive : disk[p] = basis[p] \/ (Flavour = "git" /\ disk[p].k = "dir")
\* anti-vacuity witnesses (the harness looks for such states in the graph TLC dumps; usable as INVARIANTs by hand)
WitnessRenameReported == ~(\E r \in obs.changes : r.o # "" /\ r.n # "" /\ r.o # r.n)
WitnessRejected == ~Rejected(last)
WitnessKindChange == ~(\E r \in obs.changes : r.ko = "file" /\ r.kn = "dir")
=============================================================================
