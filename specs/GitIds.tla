------------------------------- MODULE GitIds -------------------------------
(* C36: the identifier mappings of breezy.git, transcribed, with the inverse laws of the property stated on
   OBSERVED results so that the same text judges the transcription (GitIdsGen) and the real functions
   (GitIdsTrace).

   Strings are sequences of tokens; a token is the text it stands for.  Bytes outside printable ASCII are written
   <Xhh> (the harness turns them into the byte), so "<X0C>" is a form feed and "<XC3><XA9>" the UTF-8 bytes of e-acute.
   Str(s) is the concatenation.  Alphabets are chosen so that a string has exactly one tokenisation and so that
   the prefix tests of the code ("refs/", "refs/heads/", "git:") coincide with tests on leading tokens. *)
EXTENDS Naturals, Sequences, FiniteSets

RECURSIVE Str(_)
Str(s) == IF s = <<>> THEN "" ELSE Head(s) \o Str(Tail(s))
Range(s) == {s[i] : i \in DOMAIN s}
ERR == <<"<ERR>">>                       \* "the function raised ValueError"
Out(s) == IF s = ERR THEN "ERR" ELSE Str(s)

(* ------------------------------------------------------------------ file id escaping  (mapping.py) *)
FF == "<X0C>"
RECURSIVE Replace(_, _, _)
Replace(s, from, to) == IF s = <<>> THEN <<>>
                        ELSE (IF Head(s) = from THEN to ELSE <<Head(s)>>) \o Replace(Tail(s), from, to)
\* escape_file_id: three bytes.replace calls, in this order
Escape(x) == Replace(Replace(Replace(x, "_", <<"_", "_">>), " ", <<"_", "s">>), FF, <<"_", "c">>)
\* unescape_file_id: left-to-right scan, "_" introduces a two-byte escape
RECURSIVE Unescape(_)
Unescape(s) ==
    IF s = <<>> THEN <<>>
    ELSE IF Head(s) # "_" THEN (LET r == Unescape(Tail(s)) IN IF r = ERR THEN ERR ELSE <<Head(s)>> \o r)
    ELSE IF Len(s) >= 2 /\ s[2] \in {"_", "s", "c"}
         THEN LET r == Unescape(SubSeq(s, 3, Len(s)))
                  ch == CASE s[2] = "_" -> "_" [] s[2] = "s" -> " " [] s[2] = "c" -> FF
              IN IF r = ERR THEN ERR ELSE <<ch>> \o r
         ELSE ERR

\* generate_file_id / parse_file_id
FileId(p) == IF p = <<>> THEN <<"TREE_ROOT">> ELSE <<"git:">> \o Escape(p)
ParseFileId(f) == IF f = <<"TREE_ROOT">> THEN <<>>
                  ELSE IF f # <<>> /\ Head(f) = "git:" THEN Unescape(Tail(f)) ELSE ERR

(* ------------------------------------------------------------------ revision ids  (mapping.py) *)
ZeroSha == "0000000000000000000000000000000000000000"
ShaOf == [zero |-> ZeroSha,
          one  |-> "0000000000000000000000000000000000000001",
          mix  |-> "0123456789abcdef0123456789abcdef01234567",
          ff   |-> "ffffffffffffffffffffffffffffffffffffffff"]
\* revision_id_foreign_to_bzr  (prefix of the default mapping)
ForeignToBzr(sha) == IF sha = ZeroSha THEN <<"null:">> ELSE <<"git-v1:", sha>>
\* revision_id_bzr_to_foreign : a revision id is a (prefix, rest) pair of tokens here
BzrToForeign(revid) == IF Len(revid) = 2 /\ revid[1] = "git-v1:" THEN <<revid[2]>> ELSE ERR

(* ------------------------------------------------------------------ ref names  (refs.py) *)
BranchToRef(n) == IF n = <<>> THEN <<"HEAD">>
                  ELSE IF Head(n) # "refs/" THEN <<"refs/", "heads/">> \o n ELSE n
HasPrefix2(r, a, b) == Len(r) >= 2 /\ r[1] = a /\ r[2] = b
RefToBranch(r) == IF r = <<"HEAD">> THEN <<>>
                  ELSE IF HasPrefix2(r, "refs/", "heads/") THEN SubSeq(r, 3, Len(r)) ELSE ERR
TagToRef(n) == <<"refs/", "tags/">> \o n
RefToTag(r) == IF HasPrefix2(r, "refs/", "tags/") THEN SubSeq(r, 3, Len(r)) ELSE ERR
\* domains on which the functions are inverse by contract (DESIGN C36 "Domains")
BranchNameDomain(n) == n = <<>> \/ Head(n) # "refs/"          \* names starting with refs/ are passed through as refs
BranchRefDomain(r) == r = <<"HEAD">> \/ (HasPrefix2(r, "refs/", "heads/") /\ Len(r) >= 3 /\ r[3] # "refs/")

(* ------------------------------------------------------------------ URLs  (urls.py, crates/git/src/lib.rs)
   u : [form : "url" | "rsync" | "file", scheme, user, port, abs (rsync: path starts with /), path : seq of segments]
   sel : [k : "none" | "branch" | "ref", v : a name or ref class]
   A path segment / branch name / ref is ONE token: its raw text.  Quoting is urllib's and is given as tables. *)
KnownSchemes == {"git+ssh", "git", "http", "https", "ftp", "ssh"}
SchemeOut(s) == IF s = "ssh" THEN "git+ssh" ELSE s                        \* SCHEME_REPLACEMENT
\* urllib quote with safe="/~" on one path segment (only the characters that occur)
QSeg(t) == CASE t = "a b" -> "a%20b" [] t = "c,d" -> "c%2Cd" [] t = "e=f" -> "e%3Df" [] t = "<XC3><XA9>" -> "%C3%A9"
             [] t = "x%y" -> "x%25y" [] OTHER -> t
Segs == {"p", "~u", "a b", "c,d", "e=f", "r.git", "<XC3><XA9>", "x%y"}
\* urlutils.escape(name, safe="") / quote_from_bytes(ref, safe="")
QName(t) == CASE t = "a b" -> "a%20b" [] t = "c,d" -> "c%2Cd" [] t = "e=f" -> "e%3Df" [] t = "y/z" -> "y%2Fz"
              [] t = "<XC3><XA9>" -> "%C3%A9" [] t = "%41" -> "%2541" [] t = "refs/heads/x" -> "refs%2Fheads%2Fx"
              [] t = "refs/tags/v 1" -> "refs%2Ftags%2Fv%201" [] t = "refs/tags/<XFF>" -> "refs%2Ftags%2F%FF"
              [] t = "refs/heads/<XFF>" -> "refs%2Fheads%2F%FF" [] t = "refs/x" -> "refs%2Fx"
              [] OTHER -> t
BranchNames == {"", "x", "a b", "c,d", "e=f", "y/z", "<XC3><XA9>", "%41", "HEAD", "refs/heads/x"}
Refs == {"HEAD", "refs/heads/", "refs/heads/x", "refs/heads/y/z", "refs/heads/<XC3><XA9>", "refs/heads/<XFF>",
         "refs/tags/v 1", "refs/tags/<XFF>", "refs/x", "x"}
\* ref_to_branch_name on the ref classes ("-" : ValueError, incl. UnicodeDecodeError for the non-UTF-8 ref)
RefBranch(r) == CASE r = "HEAD" -> "" [] r = "refs/heads/" -> "" [] r = "refs/heads/x" -> "x"
                  [] r = "refs/heads/y/z" -> "y/z" [] r = "refs/heads/<XC3><XA9>" -> "<XC3><XA9>" [] OTHER -> "-"

RECURSIVE PathStr(_, _)
PathStr(path, quoted) == IF path = <<>> THEN ""
                         ELSE "/" \o (IF quoted THEN QSeg(Head(path)) ELSE Head(path)) \o PathStr(Tail(path), quoted)
UserAt(u) == IF u.user = "" THEN "" ELSE u.user \o "@"
PortStr(u) == IF u.port = "" THEN "" ELSE ":" \o u.port
Host == "h.example"
\* the location as the caller writes it
InputLoc(u) ==
    CASE u.form = "url"   -> u.scheme \o "://" \o UserAt(u) \o Host \o PortStr(u) \o PathStr(u.path, TRUE)
      [] u.form = "rsync" -> UserAt(u) \o Host \o ":" \o
                             (IF u.abs THEN PathStr(u.path, FALSE) ELSE Head(u.path) \o PathStr(Tail(u.path), FALSE))
      [] u.form = "file"  -> "@BASE@" \o PathStr(u.path, TRUE)
\* git_url_to_bzr_url(location): the breezy URL of the same location
Normal(u) ==
    CASE u.form = "url"   -> SchemeOut(u.scheme) \o "://" \o UserAt(u) \o Host \o PortStr(u) \o PathStr(u.path, TRUE)
      [] u.form = "rsync" -> "git+ssh://" \o UserAt(u) \o Host \o PathStr(u.path, TRUE)
      [] u.form = "file"  -> InputLoc(u)
\* the segment parameters git_url_to_bzr_url appends: [branch, ref], "-" = none
Params(sel) ==
    CASE sel.k = "none"   -> [branch |-> "-", ref |-> "-"]
      [] sel.k = "branch" -> [branch |-> IF sel.v = "" THEN "-" ELSE sel.v, ref |-> "-"]
      [] sel.k = "ref"    -> IF sel.v = "HEAD" THEN [branch |-> "-", ref |-> "-"]
                             ELSE IF RefBranch(sel.v) = "-" THEN [branch |-> "-", ref |-> sel.v]
                             ELSE [branch |-> IF RefBranch(sel.v) = "" THEN "-" ELSE RefBranch(sel.v), ref |-> "-"]
ParamStr(p) == (IF p.ref # "-" THEN ",ref=" \o QName(p.ref) ELSE "") \o (IF p.branch # "-" THEN ",branch=" \o QName(p.branch) ELSE "")
GitToBzr(u, sel) == Normal(u) \o ParamStr(Params(sel))
\* bzr_url_to_git_url on that URL (crates/git/src/lib.rs): split the segment parameters off again and return
\* the values of "branch" and "ref" (until repo commit 1fe1045 the ref was looked up under "revno" and was lost).
BzrToGit(u, sel) == [loc |-> Normal(u), branch |-> Params(sel).branch, ref |-> Params(sel).ref]
\* GitBranch.set_parent(GitToBzr(u, sel)) ; get_parent().
\* AS CODED set_parent writes branch.<local branch>.merge (the branch as a ref, or the ref parameter as given),
\* _get_related_merge_branch reads branch.<remote>.merge, so neither a selected branch nor a selected ref comes back.
ParentIntended(u, sel) == GitToBzr(u, sel)
ParentCoded(u, sel) == Normal(u)

(* ------------------------------------------------------------------ what the spec predicts, per kind of case *)
SpecOut(kind, c) ==
    CASE kind = "esc" -> [esc |-> Str(Escape(c.x)), back |-> Out(Unescape(Escape(c.x))), direct |-> Out(Unescape(c.x))]
      [] kind = "fid" -> [fid |-> Str(FileId(c.x)), back |-> Out(ParseFileId(FileId(c.x))), fidS |-> Str(FileId(c.x)),
                          backS |-> Out(ParseFileId(FileId(c.x)))]
      [] kind = "sha" -> LET s == ShaOf[c.sha] IN
                         [revid |-> Str(ForeignToBzr(s)), back |-> Out(BzrToForeign(ForeignToBzr(s))),
                          fwd |-> Out(BzrToForeign(<<c.prefix, s>>)),
                          fwdback |-> IF BzrToForeign(<<c.prefix, s>>) = ERR THEN "ERR"
                                      ELSE Str(ForeignToBzr(BzrToForeign(<<c.prefix, s>>)[1]))]
      [] kind = "ref" -> [bref |-> Str(BranchToRef(c.x)), bback |-> Out(RefToBranch(BranchToRef(c.x))),
                          tref |-> Str(TagToRef(c.x)), tback |-> Out(RefToTag(TagToRef(c.x))),
                          rb |-> Out(RefToBranch(c.x)),
                          rbb |-> IF RefToBranch(c.x) = ERR THEN "ERR" ELSE Str(BranchToRef(RefToBranch(c.x))),
                          rt |-> Out(RefToTag(c.x)),
                          rtt |-> IF RefToTag(c.x) = ERR THEN "ERR" ELSE Str(TagToRef(RefToTag(c.x)))]
      [] kind = "url" -> LET b == BzrToGit(c.u, c.sel) IN
                         [plain |-> Normal(c.u), bz |-> GitToBzr(c.u, c.sel), loc |-> b.loc,
                          branch |-> IF b.branch = "-" THEN "-" ELSE QName(b.branch), branchU |-> b.branch,
                          ref |-> IF b.ref = "-" THEN "-" ELSE QName(b.ref), refU |-> b.ref]
      [] kind = "parent" -> [parent |-> ParentCoded(c.u, c.sel)]

(* ------------------------------------------------------------------ the laws of C36 on observed results o
   (field names as in SpecOut; every value is a string, "ERR" = raised) *)
LawNames == <<"escape", "fileid", "revid", "branchref", "refbranch", "tagref", "urlloc", "urlsel", "parent">>
Law(n, kind, c, o) ==
    CASE n = "escape"    -> kind = "esc" => o.back = Str(c.x)                      \* unescape(escape(x)) = x
      [] n = "fileid"    -> kind = "fid" => (o.back = Str(c.x) /\ o.backS = Str(c.x))   \* parse(generate(path)) = path
      [] n = "revid"     -> kind = "sha" =>
                              /\ (ShaOf[c.sha] # ZeroSha => o.back = ShaOf[c.sha])  \* bzr_to_foreign(foreign_to_bzr(sha)) = sha
                              /\ ((c.prefix = "git-v1:" /\ ShaOf[c.sha] # ZeroSha) => o.fwdback = c.prefix \o ShaOf[c.sha])
      [] n = "branchref" -> kind = "ref" => (BranchNameDomain(c.x) => o.bback = Str(c.x))
      [] n = "refbranch" -> kind = "ref" => (BranchRefDomain(c.x) => o.rbb = Str(c.x))
      [] n = "tagref"    -> kind = "ref" => (o.tback = Str(c.x) /\ (HasPrefix2(c.x, "refs/", "tags/") => o.rtt = Str(c.x)))
      \* there and back gives the location: as written, or in the documented breezy form (ssh -> git+ssh, rsync -> URL)
      [] n = "urlloc"    -> kind = "url" => (o.loc = o.plain /\ o.plain \in {InputLoc(c.u), Normal(c.u)})
      [] n = "urlsel"    -> kind = "url" => (o.branchU = Params(c.sel).branch /\ o.refU = Params(c.sel).ref)
      [] n = "parent"    -> kind = "parent" => o.parent = ParentIntended(c.u, c.sel)
Failed(kind, c, o) == {n \in Range(LawNames) : ~Law(n, kind, c, o)}

\* a ref survives as ref parameter (not HEAD, not a branch ref)
UrlRefSelected(c) == Params(c.sel).ref # "-"
\* named deviation of the code from the intended mapping
ParentDeviation(c) == Params(c.sel).ref # "-" \/ Params(c.sel).branch # "-"
=============================================================================
