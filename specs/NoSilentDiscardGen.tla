------------------------ MODULE NoSilentDiscardGen ------------------------
(* E1 + E2 for C12: TLC enumerates every assignment of file classes to Files x every command with its options for the
   tree flavours in Flavours, checks the safety rule on the specification's own command semantics (one initial state
   per case), and exports the case table with the specified before / after directory contents.
   "d/c" must be one of Files (it is the content of the directory that remove / revert address as "d"). *)
EXTENDS NoSilentDiscard, Json, IOUtils
CONSTANTS Files, Flavours
ASSUME "d/c" \in Files
Cmd(op, sel, backups, target, mode, inc, collide) ==
    [op |-> op, sel |-> sel, backups |-> backups, target |-> target, mode |-> mode, inc |-> inc, collide |-> collide]
Reverts  == {Cmd("revert", s, b, "-", "-", "-", FALSE) : s \in {"all", "d"} \cup Files, b \in BOOLEAN}
Removes  == {Cmd("remove", "-", FALSE, t, m, "-", FALSE) : t \in {"d"} \cup Files, m \in {"keep", "force", "default"}}
Uncommit == {Cmd("uncommit", "-", FALSE, "-", "-", "-", FALSE)}
Merges(fl, coll) == {Cmd(k, "-", FALSE, "-", "-", i, x) :
                         k \in (IF fl = "git" THEN {"merge", "pull"} ELSE MergeOps),
                         i \in {"same", "other", "delete", "rename", "rensame", "renother"}, x \in coll}
\* merge-like commands start from a tree without a pending merge
Plain(cls) == \A f \in Files : cls[f] \notin {"mergew", "confl"}
CmdsFor(fl, cls) == Reverts \cup Removes \cup Uncommit
                    \cup (IF Plain(cls) THEN Merges(fl, IF \E f \in Files : cls[f] \in {"added", "unknown"} THEN BOOLEAN ELSE {FALSE})
                          ELSE {})
Case(fl, cls, m) == [fl |-> fl, cls |-> cls, op |-> m.op, sel |-> m.sel, backups |-> m.backups, target |-> m.target,
                     mode |-> m.mode, inc |-> m.inc, collide |-> m.collide]
CaseSet == UNION {UNION {{Case(fl, cls, m) : m \in CmdsFor(fl, cls)} : cls \in [Files -> Classes]} : fl \in Flavours}
VARIABLE c
Init == c \in CaseSet
Next == UNCHANGED c
IsMap(A) == \A x, y \in A : x.p = y.p => x = y
LawsHoldOnSpec ==
    /\ Failed(c, SpecAfter(c)) = {} /\ Lost(c, SpecAfter(c)) = {}
    /\ IsMap(Before(c)) /\ IsMap(SpecAfter(c))
    \* the commands never invent content: everything afterwards was there before, is basis / incoming content,
    \* the clean merge, or a marker file
    /\ Tags(SpecAfter(c)) \subseteq Tags(Before(c)) \cup {"M"}
           \cup UNION {{B0(f), I0(f), OI(f), LI(f)} : f \in FilesOf(c)}
    \* keep-mode remove and uncommit are the identity
    /\ (c.op = "uncommit" \/ (c.op = "remove" /\ c.mode = "keep")) => SpecAfter(c) = Before(c)
\* anti-vacuity witnesses: TLC must find these states
WitnessBackup      == ~(c.op = "revert" /\ \E e \in SpecAfter(c) : e.p = "a.~1~" /\ e.t = L0("a"))
WitnessMoved       == ~(c.op = "revert" /\ \E e \in SpecAfter(c) : e.p = "a.moved")
WitnessDirBackup   == ~(c.op = "remove" /\ \E e \in SpecAfter(c) : e.p = "d.~1~/c" /\ e.t = L0("d/c"))
WitnessCleanMerge  == ~(c.op \in MergeOps /\ E("a", LI("a")) \in SpecAfter(c))
WitnessConflict    == ~(c.op \in MergeOps /\ E("a.THIS", L0("a")) \in SpecAfter(c) /\ E("a", "M") \in SpecAfter(c))
WitnessDiscardOk   == ~(Discard(c) # {} /\ \E f \in Discard(c) : c.cls[f] \in UserCls /\ L0(f) \notin Tags(SpecAfter(c)))
WitnessRenamedEdit == ~(c.op = "revert" /\ E("ar.~1~", L0("a")) \in SpecAfter(c))
WitnessRenamedBothSides == ~(c.op \in MergeOps /\ c.inc = "same" /\ E("ar.THIS", L0("a")) \in SpecAfter(c))
WitnessRenamedIncoming == ~(c.op \in MergeOps /\ c.inc = "rensame" /\ c.cls["a"] = "edit" /\ E("a2.THIS", L0("a")) \in SpecAfter(c))
WitnessHelperAtRisk == ~(c.op = "revert" /\ c.backups /\ c.fl = "bzr" /\ \E f \in Protected(c) : c.cls[f] = "confl")
Export == JsonSerialize(IOEnv.VF_OUT, SetToSeq({[c |-> x, before |-> SetToSeq(Before(x)), spec |-> SetToSeq(SpecAfter(x))]
                                                 : x \in CaseSet}))
ASSUME IF "VF_OUT" \in DOMAIN IOEnv THEN Export ELSE TRUE
=============================================================================
