----------------------------- MODULE MergeLaws -----------------------------
(* C17 - tree merges obey the three-way merge laws (breezy/merge.py Merge3Merger / WeaveMerger / LCAMerger:
   _entries3, _entries_lca, _merge_names, _do_merge_contents, _merge_executable; breezy/bzr/transform.py and
   breezy/git/transform.py apply the result).

   Trees.  An ITEM is a file identity.  BaseItems exist in (a subset of) BASE, NewItems can be added by a side.
   A tree is a function  item -> [par, name, k, c, x]:  par = the item id of the parent directory ("" = tree root),
   name = basename, k = kind, c = content token (files: "<item>.0" original text, "<item>.1" modified text; symlinks:
   the target "t"; directories ""), x = executable bit.  Path(t, i) is derived from par/name, so renaming a directory
   carries its children along.  The observation of a real tree is its projection ByPath(t): a set of
   [p, k, c, x] records.

   Edits.  A side's change is a SET of edits [op, i]:
       mod  new text            ren  new basename (name ++ "2")        mov  other directory ("" <-> d), same name
       del  remove              chm  toggle the executable bit         knd  file becomes a symlink
       add  a NewItem appears (n at the root, dn inside d)
   Edits of one set touch different fields or different items, so Apply(t, D) is defined on the set as a whole.

   A case is c = [law, fl, base, dT, dO]: fl = "ids" (native trees: a file is a file id) or "paths" (git trees: a file
   is a path; directories are implicit), base = the items of BASE, dT / dO = the edit sets of THIS / OTHER.
   The observation is o = [tree, disk, conflicts, base, this, other]: the versioned projection of the working tree
   after the merge, the projection of what is on disk, the conflict list, and the projections of the three revisions
   the harness built (fixture control). *)
EXTENDS Naturals, Sequences, FiniteSets, TLC

BaseItems == {"a", "b", "d", "da"}
NewItems  == {"n", "dn"}
Items     == BaseItems \cup NewItems
Ops       == {"mod", "ren", "mov", "del", "chm", "knd", "add"}
Range(s)  == {s[i] : i \in DOMAIN s}

Entry0(i) == CASE i = "a"  -> [par |-> "",  name |-> "a", k |-> "file",      c |-> "a.0",  x |-> FALSE]
               [] i = "b"  -> [par |-> "",  name |-> "b", k |-> "file",      c |-> "b.0",  x |-> TRUE]
               [] i = "d"  -> [par |-> "",  name |-> "d", k |-> "directory", c |-> "",     x |-> FALSE]
               [] i = "da" -> [par |-> "d", name |-> "a", k |-> "file",      c |-> "da.0", x |-> FALSE]
               [] i = "n"  -> [par |-> "",  name |-> "n", k |-> "file",      c |-> "n.0",  x |-> FALSE]
               [] i = "dn" -> [par |-> "d", name |-> "n", k |-> "file",      c |-> "dn.0", x |-> FALSE]
BaseTree(S) == [i \in S |-> Entry0(i)]

E(op, i) == [op |-> op, i |-> i]
AllEdits == {E(op, i) : op \in Ops \ {"add"}, i \in BaseItems} \cup {E("add", i) : i \in NewItems}
Touch(D) == {e.i : e \in D}                                    \* the FILES (identities) a side changes

\* every edit can be carried out on t, and the edits of one item do not contradict each other
Applicable(t, D) ==
    \A e \in D :
        IF e.op = "add" THEN e.i \in NewItems /\ e.i \notin DOMAIN t
        ELSE /\ e.i \in DOMAIN t
             /\ (e.op \in {"mod", "chm", "knd"} => t[e.i].k = "file")
             /\ (e.op = "mov" => t[e.i].k # "directory")
             /\ (e.op = "del" => \A f \in D : f.i = e.i => f = e)
             /\ (e.op = "knd" => E("mod", e.i) \notin D /\ E("chm", e.i) \notin D)

Apply(t, D) ==
    LET kept  == DOMAIN t \ {e.i : e \in {f \in D : f.op = "del"}}
        added == {e.i : e \in {f \in D : f.op = "add"}}
        Upd(i) == LET o == t[i] IN
            [par  |-> IF E("mov", i) \in D THEN (IF o.par = "" THEN "d" ELSE "") ELSE o.par,
             name |-> IF E("ren", i) \in D THEN o.name \o "2" ELSE o.name,
             k    |-> IF E("knd", i) \in D THEN "symlink" ELSE o.k,
             c    |-> IF E("knd", i) \in D THEN "t" ELSE IF E("mod", i) \in D THEN i \o ".1" ELSE o.c,
             x    |-> IF E("knd", i) \in D THEN FALSE ELSE IF E("chm", i) \in D THEN ~o.x ELSE o.x]
    IN [i \in kept \cup added |-> IF i \in added THEN Entry0(i) ELSE Upd(i)]

\* a well-formed tree: parents are directories of the tree, no two entries share a place
Valid(t) == /\ \A i \in DOMAIN t : t[i].par = "" \/ (t[i].par \in DOMAIN t /\ t[t[i].par].k = "directory")
            /\ \A i, j \in DOMAIN t : (i # j) => <<t[i].par, t[i].name>> # <<t[j].par, t[j].name>>
NoEmptyDir(t) == \A i \in DOMAIN t : t[i].k = "directory" => \E j \in DOMAIN t : t[j].par = i

Path(t, i) == IF t[i].par = "" THEN t[i].name ELSE t[t[i].par].name \o "/" \o t[i].name
ByPath(t)  == {[p |-> Path(t, i), k |-> t[i].k, c |-> t[i].c, x |-> t[i].x] : i \in DOMAIN t}
FilesOnly(S) == {e \in S : e.k # "directory"}
Paths(S)   == {e.p : e \in S}

(* ---- the three trees of a case *)
Base(c)  == BaseTree(Range(c.base))
DT(c)    == Range(c.dT)
DO(c)    == Range(c.dO)
This(c)  == Apply(Base(c), DT(c))
Other(c) == Apply(Base(c), DO(c))

\* path-based trees: the files a side changes are the paths whose entry it adds, removes or alters
PathDelta(b, s) == [del |-> FilesOnly(b) \ FilesOnly(s), add |-> FilesOnly(s) \ FilesOnly(b)]
PathTouch(b, s) == Paths(PathDelta(b, s).del) \cup Paths(PathDelta(b, s).add)
PathUnion(b, t, o) == ((b \ PathDelta(b, t).del) \ PathDelta(b, o).del) \cup PathDelta(b, t).add \cup PathDelta(b, o).add

WellFormed(c) ==
    /\ c.fl \in {"ids", "paths"} /\ Range(c.base) \subseteq BaseItems /\ Valid(Base(c))
    /\ Applicable(Base(c), DT(c)) /\ Applicable(Base(c), DO(c)) /\ Valid(This(c)) /\ Valid(Other(c))
    /\ (c.fl = "paths" => NoEmptyDir(Base(c)) /\ NoEmptyDir(This(c)) /\ NoEmptyDir(Other(c)))

(* ---- C17: antecedent and result tree of each law.  The result is what the working tree must project to
        (for path-based trees: its non-directory entries). *)
Proj(c, S) == IF c.fl = "paths" THEN FilesOnly(S) ELSE S
Disjoint(c) ==
    IF c.fl = "ids"
    THEN /\ Touch(DT(c)) \cap Touch(DO(c)) = {}
         /\ Applicable(Base(c), DT(c) \cup DO(c)) /\ Valid(Apply(Base(c), DT(c) \cup DO(c)))
    ELSE LET b == FilesOnly(ByPath(Base(c)))  t == FilesOnly(ByPath(This(c)))  o == FilesOnly(ByPath(Other(c))) IN
         /\ PathTouch(b, t) \cap PathTouch(b, o) = {}
         \* the union is a tree: one entry per path
         /\ \A e, f \in PathUnion(b, t, o) : e.p = f.p => e = f
Antecedent(n, c) == CASE n = "L1" -> DO(c) = {}
                      [] n = "L2" -> DT(c) = {}
                      [] n = "L3" -> DT(c) = DO(c)
                      [] n = "L4" -> Disjoint(c)
\* the trees a law accepts.  One tree, except law 4 on path-based trees when the sides are also disjoint as
\* identities (one side renames a directory, the other adds or moves a file into it): both the path-level union and
\* the union that follows the directory rename are "the union of both sides' changes".
IdUnion(c) == Apply(Base(c), DT(c) \cup DO(c))
IdDisjoint(c) == /\ Touch(DT(c)) \cap Touch(DO(c)) = {}
                 /\ Applicable(Base(c), DT(c) \cup DO(c)) /\ Valid(IdUnion(c))
Results(n, c) == CASE n = "L1" -> {Proj(c, ByPath(This(c)))}
                   [] n = "L2" -> {Proj(c, ByPath(Other(c)))}
                   [] n = "L3" -> {Proj(c, ByPath(This(c)))}
                   [] n = "L4" -> IF c.fl = "ids" THEN {ByPath(IdUnion(c))}
                                  ELSE {PathUnion(FilesOnly(ByPath(Base(c))), FilesOnly(ByPath(This(c))),
                                                  FilesOnly(ByPath(Other(c))))}
                                       \cup (IF IdDisjoint(c) THEN {FilesOnly(ByPath(IdUnion(c)))} ELSE {})
LawIds == <<"L1", "L2", "L3", "L4">>
Holds(c) == {n \in Range(LawIds) : Antecedent(n, c)}

(* ---- the laws on an observation.  A failed law is named "<law>.<clause>":
        tree      the versioned working tree is not the result tree
        conflicts conflicts are reported
        disk      the files on disk (unversioned leftovers included) are not the result tree *)
Obs(S) == Range(S)                  \* observed projections arrive as sequences of records
Failed(c, o) ==
    LET t == Proj(c, Obs(o.tree))  d == Proj(c, Obs(o.disk)) IN
    UNION {LET r == Results(n, c) IN
                (IF t \notin r THEN {n \o ".tree"} ELSE {})
           \cup (IF Len(o.conflicts) # 0 THEN {n \o ".conflicts"} ELSE {})
           \cup (IF d \notin r THEN {n \o ".disk"} ELSE {}) : n \in Holds(c)}
\* fixture control: the three revisions the harness built are the three trees of the case
FixtureOk(c, o) == /\ Proj(c, Obs(o.base)) = Proj(c, ByPath(Base(c)))
                   /\ Proj(c, Obs(o.this)) = Proj(c, ByPath(This(c)))
                   /\ Proj(c, Obs(o.other)) = Proj(c, ByPath(Other(c)))

\* the trees every applicable law accepts, and the observation of a correct merge (c satisfies some antecedent)
Common(c) == {r \in UNION {Results(n, c) : n \in Holds(c)} : \A n \in Holds(c) : r \in Results(n, c)}
SpecTree(c) == CHOOSE r \in Common(c) : TRUE
=============================================================================
