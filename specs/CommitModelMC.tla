--------------------------- MODULE CommitModelMC ---------------------------
(* The commit state machine of C01, model-checked by TLC: edits of the working tree, Commit (a new revision holding
   ExpectedCommitTree, or refused with the state unchanged), CommitFails(point) (an exception anywhere in the pipeline:
   nothing of the attempt is visible).  Definitions and laws: CommitModel.tla. *)
EXTENDS CommitModel
CONSTANTS Ids,           \* file ids (strings); an id's default name is the id itself
          BasisName,     \* which of Bases is the tree of revision 0
          MaxEdits, MaxCommits, MaxSel, MaxExcl,
          Flags,         \* BOOLEAN: also start with a pending merge / unresolved conflicts
          FaultPoints    \* names of the places where a commit can be made to fail
VARIABLES basis, wt, missing,     \* the working tree and its basis
          merge, conflicts,       \* a pending merge (second parent) / unresolved conflicts
          tip, revs, trees,       \* branch tip, revisions in the repository, their trees
          nedits, last, lastS     \* bound / outcome of the last call / the ids the last successful commit selected
vars == <<basis, wt, missing, merge, conflicts, tip, revs, trees, nedits, last, lastS>>
Basis0 == Bases[BasisName]

SelChoices(P) == SelChoicesN(P, MaxSel)
ExclChoices(P) == ExclChoicesN(P, MaxExcl)

Init == /\ basis = Basis0 /\ wt = Basis0 /\ missing = {}
        /\ merge \in (IF Flags THEN BOOLEAN ELSE {FALSE}) /\ conflicts \in (IF Flags THEN BOOLEAN ELSE {FALSE})
        /\ tip = 0 /\ revs = {0} /\ trees = [r \in {0} |-> Basis0] /\ nedits = 0 /\ last = "init" /\ lastS = {}
Edit == /\ nedits < MaxEdits
        /\ \E s \in EditSucc(Ids, basis, wt, missing) : wt' = s.w /\ missing' = s.m
        /\ nedits' = nedits + 1 /\ last' = "edit"
        /\ UNCHANGED <<basis, merge, conflicts, tip, revs, trees, lastS>>
\* Commit.commit: refused (conflicts; selected-file commit of a merge; an infeasible selection) with
\* the state unchanged, or a new revision holding ExpectedCommitTree that becomes the tip and the new basis
Commit(S, full, exp) ==
    LET new == Cardinality(revs)
        refused == conflicts \/ (merge /\ ~full) \/ ~FeasibleS(basis, wt, missing, S)
    IN /\ Cardinality(revs) <= MaxCommits
       /\ IF ~refused
          THEN /\ basis' = exp
               /\ wt' = WtAfter(wt, missing, S) /\ missing' = MissAfter(wt, missing, S)
               /\ merge' = FALSE /\ tip' = new /\ revs' = revs \cup {new}
               /\ trees' = [r \in revs \cup {new} |-> IF r = new THEN exp ELSE trees[r]]
               /\ last' = "ok" /\ lastS' = S /\ UNCHANGED <<conflicts, nedits>>
          ELSE /\ last' = "refused"
               /\ UNCHANGED <<basis, wt, missing, merge, conflicts, tip, revs, trees, nedits, lastS>>
\* an exception at any point of the pipeline: nothing of the attempt is visible
CommitFails(point) == /\ last' = "failed" /\ Cardinality(revs) <= MaxCommits
                      /\ UNCHANGED <<basis, wt, missing, merge, conflicts, tip, revs, trees, nedits, lastS>>
Next == \/ Edit
        \* (bound by \E so that TLC evaluates Info and the set of distinct selections once per state)
        \/ \E I \in {Info(basis, wt, missing)} :
             \E x \in {[S |-> SelectedI(I, sel, excl), full |-> sel.all /\ excl = {}] :
                         sel \in SelChoices(DOMAIN I.inside), excl \in ExclChoices(DOMAIN I.inside)} :
                \E exp \in {ExpectedCommitTree(basis, wt, missing, x.S)} : Commit(x.S, x.full, exp)
        \/ \E p \in FaultPoints : CommitFails(p)
Spec == Init /\ [][Next]_vars

(* C01 on the model *)
TreesValid == ValidTree(wt) /\ ValidTree(basis) /\ \A r \in revs : ValidTree(trees[r])
TipIsBasis == tip \in revs /\ trees[tip] = basis /\ missing \subseteq DOMAIN wt
\* every id keeps its basis entry unless it is selected; selected ids get the working entry
UnselectedKeepBasis == [][last' = "ok" =>
    LET S == lastS' IN
    /\ \A i \in AllIds(basis, wt) \ S : (i \in DOMAIN basis') = (i \in DOMAIN basis) /\ (i \in DOMAIN basis => basis'[i] = basis[i])
    /\ \A i \in S : IF i \in DOMAIN wt /\ i \notin missing THEN i \in DOMAIN basis' /\ basis'[i] = wt[i] ELSE i \notin DOMAIN basis'
    /\ \A i \in S : ~Pending(basis', wt', missing', i)
    /\ \A i \in AllIds(basis, wt) \ S : Pending(basis, wt, missing, i) => Pending(basis', wt', missing', i)
    /\ tip' \notin revs /\ revs' = revs \cup {tip'}]_vars
FailureIsNoop == [][last' \in {"refused", "failed"} => UNCHANGED <<tip, revs, trees, basis, wt, missing>>]_vars
\* anti-vacuity
WitnessRefusedInfeasible == ~(last = "refused" /\ ~merge /\ ~conflicts)
WitnessPartialWithPending == ~(last = "ok" /\ \E i \in AllIds(basis, wt) : Pending(basis, wt, missing, i))
WitnessSecondCommit == Cardinality(revs) < 3
=============================================================================
