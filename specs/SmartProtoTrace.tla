-------------------------- MODULE SmartProtoTrace --------------------------
(* E3 for C29 / C30: runs recorded from the real encoders / decoders / media are judged by the laws of SmartProto.
   One row = one (shape, target, mode, segmentation) run:
     r.s, r.tg, r.mode, r.seg (lengths of the reads the stream was cut into; they cover message + trailing bytes),
     r.obs  what the real code did (see "the laws" in SmartProto).
   Verdict: the laws of property Prop that fail on the OBSERVED values.
   Drift  : the real run differs from what the transcription predicts for the same segmentation (hint after every
            accept_bytes / size of every read request / message length) - conformance, not a verdict. *)
EXTENDS SmartProto, TLC, Json, IOUtils, SequencesExt
CONSTANT Prop
Rows == JsonDeserialize(IOEnv.VF_IN)
VARIABLE i
Init == i \in 1..Len(Rows)
Next == UNCHANGED i
Drift(r, toks) ==
    \/ r.obs.len # Total(toks)
    \/ /\ Prop = "C30" /\ r.mode = "push"
       /\ LET p == SpecPush(toks, r.tg, r.seg) IN r.obs.hints # p.hints \/ r.obs.fins # p.fins \/ r.obs.rems # p.rems
    \/ /\ Prop = "C30" /\ r.mode = "pull"
       /\ r.obs.asks # PullAsks(toks, r.tg, PullInit(r.tg), r.seg, 0)
Judge(k) == LET r == Rows[k]
                toks == View(r.s, r.tg)
            IN [row |-> k, failed |-> SetToSeq(Failed(Prop, r, toks)), drift |-> Drift(r, toks)]
Bad == SelectSeq([k \in 1..Len(Rows) |-> Judge(k)], LAMBDA j : j.failed # <<>> \/ j.drift)
ASSUME JsonSerialize(IOEnv.VF_OUT, [n |-> Len(Rows), bad |-> Bad])
=============================================================================
