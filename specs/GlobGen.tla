------------------------------ MODULE GlobGen ------------------------------
(* E1 + E2 for C48: TLC enumerates the bounded space of ignore lists, checks the laws of Glob on the spec's own
   prediction for every list and every name of the grammar, and exports the case table with the expected
   answers (sparse: only names for which some observer reports a pattern).

   Lists:  singles - every well-formed pattern (<= MaxTok tokens, RE: <= MaxRE), no prefix;
           pairs   - both orders of two entries prefix x pattern, one over the patterns of <= PairTok tokens, the
                     other over those of <= Pair2Tok tokens (RE: <= PairRE);
           triples - ordered triples of entries over TriplePool x prefixes (TripleSize = size of the pool).

   State graph: Parts initial states (one per slice of the case table), each with its cases as successors, so
   that the invariants are evaluated by all TLC workers in parallel.                                          *)
EXTENDS Glob, Json, IOUtils
CONSTANTS PairTok, Pair2Tok, PairRE, TripleSize, Parts

PoolUpTo(k) == {p \in AllPats : IF IsRE(p) THEN Len(p) - 1 <= PairRE ELSE Len(p) <= k}
\* representatives of every class and feature, for precedence x class-order interplay
TripleSeq == <<<<"*", ".", "a">>, <<"a", "*">>, <<"a", "/", "*">>, <<RETag, ".*", "a">>,
               <<"*">>, <<"**/", "b">>, <<".", "/", "a">>, <<"a">>>>
TriplePool == {TripleSeq[i] : i \in 1..TripleSize} \cap AllPats
Entries(P) == [pre : PrefixSet, pat : P]
Singles == {<<[pre |-> "", pat |-> p]>> : p \in AllPats}
Pairs   == LET P == Entries(PoolUpTo(PairTok)) \X Entries(PoolUpTo(Pair2Tok)) IN
           {<<x[1], x[2]>> : x \in P} \cup {<<x[2], x[1]>> : x \in P}
Trips   == {<<e1, e2, e3>> : e1 \in Entries(TriplePool), e2 \in Entries(TriplePool), e3 \in Entries(TriplePool)}
Cases   == Singles \cup Pairs \cup Trips
CaseSeq == TLCEval(SetToSeq(Cases))

VARIABLES part, c
Init == part \in 1..Parts /\ c = <<>>
Next == c = <<>> /\ part' = part /\ c' \in {CaseSeq[i] : i \in {j \in 1..Len(CaseSeq) : j % Parts = part - 1}}

\* names on which some pattern of the list matches under either relation; on every other name all observers of
\* the spec are silent (first conjunct of LawsHoldOnSpec), with or without a filler entry
Cand(L) == UNION {MT[L[i].pat] \cup CT[L[i].pat] : i \in DOMAIN L}
LawsHoldOnSpec == c # <<>> =>
    /\ \A n \in NameIdx : Failed(c, n, SpecOut(c, n)) = {}
    /\ \A n \in NameIdx \ Cand(c) : SpecOut(c, n) = Silent /\ Failed(c, n, Silent @@ [tr |-> 0]) = {}
    /\ \A n \in Cand(c) : LawFillSpec(c, n)
    /\ \A i \in DOMAIN c : LawExtension(c[i].pat)

\* anti-vacuity witnesses (predicates on a case).  WitnessAll is the invariant TLC must VIOLATE: it fails in the
\* first root state exactly when every kind of witness exists in the case table.
Slashes(s) == Cardinality({j \in DOMAIN s : s[j] = "/"})
WDoubleNeg(x)  == \E n \in NameIdx : LET D == MatchIdx(x, n) IN       \* all three classes match, "!!" wins
                     Pre(x, D, "!!") # {} /\ Pre(x, D, "!") # {} /\ Pre(x, D, "") # {} /\ SpecOut(x, n).eg # 0
WException(x)  == \E n \in NameIdx : Pre(x, MatchIdx(x, n), "") # {} /\ ~Ignored(x, n)   \* "!" rescues a name
WClassOrder(x) == \E n \in NameIdx : SpecOut(x, n).g # SpecOut(x, n).og                   \* class order # list order
WStarStar(x)   == Len(x) = 1 /\ (\E i \in DOMAIN x[1].pat : x[1].pat[i] = "**/") /\       \* "**/" spans >= 1 directory
                     \E n \in NameIdx : PatMatches(x[1].pat, n) /\ Slashes(NameSeq[n]) >= 2
WExtension(x)  == Len(x) = 1 /\ KR[x[1].pat] = 1 /\                                      \* "*.x" below the root
                     \E n \in NameIdx : PatMatches(x[1].pat, n) /\ LastSlash(NameSeq[n]) > 0
WRooted(x)     == Len(x) = 1 /\ Len(x[1].pat) >= 3 /\ x[1].pat[1] = "." /\ x[1].pat[2] = "/" /\
                     \E n \in NameIdx : PatMatches(x[1].pat, n)
WRegex(x)      == Len(x) = 1 /\ IsRE(x[1].pat) /\ \E n \in NameIdx : PatMatches(x[1].pat, n) /\ Slashes(NameSeq[n]) >= 1
WTrailing(x)   == Len(x) = 1 /\ NORM[x[1].pat] # x[1].pat /\ \E n \in NameIdx : PatMatches(x[1].pat, n)
Wit(W(_)) == \E x \in Cases : W(x)
WitnessAll == ~(/\ c = <<>> /\ part = 1
                /\ Wit(WDoubleNeg) /\ Wit(WException) /\ Wit(WClassOrder) /\ Wit(WStarStar)
                /\ Wit(WExtension) /\ Wit(WRooted) /\ Wit(WRegex) /\ Wit(WTrailing))

Expected(L) == LET S == SetToSeq(Cand(L)) IN
    SelectSeq([k \in 1..Len(S) |-> [name |-> NameSeq[S[k]]] @@ SpecOut(L, S[k])],
              LAMBDA h : h.eg # 0 \/ h.g # 0 \/ h.og # 0)
Export == JsonSerialize(IOEnv.VF_OUT,
            [names |-> NameSeq,
             cases |-> [k \in 1..Len(CaseSeq) |-> LET x == CaseSeq[k] IN
                          [L |-> x, norm |-> [i \in DOMAIN x |-> NORM[x[i].pat]], kr |-> [i \in DOMAIN x |-> KR[x[i].pat]],
                           exp |-> Expected(x)]]])
ASSUME IF "VF_OUT" \in DOMAIN IOEnv THEN Export ELSE TRUE
=============================================================================
