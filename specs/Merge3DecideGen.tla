------------------------- MODULE Merge3DecideGen -------------------------
(* E1 + E2 for C18: TLC enumerates the whole bounded input space, checks the laws on the transcription
   (every case is one initial state), and exports the case table with the specified answers. *)
EXTENDS Merge3Decide, TLC, Json, IOUtils, SequencesExt
CONSTANTS MaxVal, MaxLcas
Vals == 0..MaxVal
SeqsUpTo(S, n) == UNION {[1..k -> S] : k \in 0..n}
Cases == [base : Vals, lcas : SeqsUpTo(Vals, MaxLcas), other : Vals, this : Vals, ov : BOOLEAN]
VARIABLE c
Init == c \in Cases
Next == UNCHANGED c
LawsHoldOnSpec == Failed(c, SpecOut(c)) = {}
\* anti-vacuity witnesses: TLC must find these states
WitnessConflict == ~(SpecOut(c).lca = "conflict" /\ Len(c.lcas) >= 2)
WitnessOverride == ~(c.ov /\ SpecOut(c).lca = "other" /\ Cardinality(Range(c.lcas) \ {c.base}) >= 2)
Export == JsonSerialize(IOEnv.VF_OUT, SetToSeq({[c |-> x, spec |-> SpecOut(x)] : x \in Cases}))
ASSUME IF "VF_OUT" \in DOMAIN IOEnv THEN Export ELSE TRUE
=============================================================================
