------------------------------- MODULE Bundle -------------------------------
(* Revision bundles and merge directives - property C40.
   breezy/bzr/bundle/serializer/v4.py (BundleWriteOperation, RevisionInstaller), v08.py / v09.py + bundle_data.py
   (patch-based bundles, BundleInfo.revision_tree / _validate_revision), apply_bundle.py, breezy/merge_directive.py
   (MergeDirective2.from_objects / to_lines / from_lines / install_revisions / _verify_patch).

   A history is a revision graph P (lib/Dag.tla).  What a revision ATTESTS (tree paths, contents, executable bits,
   symlink targets, message, committer, time, parents, properties - Testament.tla) is opaque here: a repository content
   is a function  revision -> attested record,  and the source repository holds  r |-> r  for every revision of P.
   A bundle is a CHANNEL between repositories, specified as identity on that projection:

       InstallBundle(base, target)   precondition  Ancestry(base) \subseteq present
                                     the target repository gains exactly  Ancestry(target) \ Ancestry(base),
                                     every carried revision with the attested record of the source.

   The byte formats (bzip2 + pack container + bencode + multi-parent diffs for v4; rio-like headers + unified / base64
   patches for 0.9; rio stanza + base64 for directives) are executed, not modelled (DESIGN 6): the laws below are
   stated on OBSERVATIONS of real executions, so that the same text judges the specification's own outcome (design
   check in BundleGen) and the implementation (BundleTrace). *)
EXTENDS Dag, TLC

Set(q) == {q[i] : i \in DOMAIN q}

(* ---- repositories as functions  revision -> attested record *)
Source(P) == [r \in DOMAIN P |-> r]
Holding(P, X) == [r \in X |-> r]
AncOf(P, r) == IF r = Null THEN {} ELSE Ancestry(P, r)            \* base 0 = "null:", the empty history
Carried(P, base, target) == AncOf(P, target) \ AncOf(P, base)
InstallPre(P, repo, base) == AncOf(P, base) \subseteq DOMAIN repo
InstallBundle(P, src, repo, base, target) ==
    [r \in DOMAIN repo \cup Carried(P, base, target) |-> IF r \in DOMAIN repo THEN repo[r] ELSE src[r]]
AncestryClosed(P, X) == \A r \in X : (ParentSet(P, r) \cap DOMAIN P) \subseteq X

(* ---- bundle cases.  c = [P, base, target, fmt]  with base \in Ancestry(target) \cup {0}, fmt \in {"4", "0.9"}.
   Observation o of one real write + install into a fresh repository that was given Ancestry(base):
     o.outcome            "ok" | "error: ..."                       writing and installing went through
     o.written            revisions write_bundle reported
     o.before, o.after    revisions of the receiving repository before / after the install
     o.tsrc, o.ttgt       per revision number 1..Len(P): digest of the three testaments' long and short texts in the
                          source / in the receiving repository ("" = revision absent)
     o.tparents           per revision number: ordered parent list in the receiving repository (<<>> if absent)
     o.tamper             <<[section, outcome]>>  outcome of installing the bundle with one byte changed in that
                          section into another fresh repository:  "rejected" (an error was raised),  "same" (the
                          receiving repository ends up exactly as after the untampered install),  "changed" (anything
                          else: accepted with different content, or silently installing something else / less). *)
BundleFormats == {"4", "0.9"}
TamperOk == {"rejected", "same"}
BLawInstalls(c, o)  == o.outcome = "ok"
BLawWritten(c, o)   == o.outcome = "ok" => Set(o.written) = Carried(c.P, c.base, c.target)
BLawGained(c, o)    == o.outcome = "ok" =>
                          /\ Set(o.before) = AncOf(c.P, c.base)
                          /\ Set(o.after) = DOMAIN InstallBundle(c.P, Source(c.P), Holding(c.P, Set(o.before)), c.base, c.target)
BLawAttested(c, o)  == o.outcome = "ok" => \A r \in Set(o.after) : o.tsrc[r] # "" /\ o.ttgt[r] = o.tsrc[r]
BLawGraph(c, o)     == o.outcome = "ok" => \A r \in Set(o.after) \cap DOMAIN c.P : o.tparents[r] = c.P[r]
BLawTamper(c, o)    == \A i \in DOMAIN o.tamper : o.tamper[i].outcome \in TamperOk
BundleLawNames == <<"installs", "written", "gained", "attested", "graph", "tamper">>
BundleLaw(n, c, o) == CASE n = "installs" -> BLawInstalls(c, o) [] n = "written" -> BLawWritten(c, o)
                        [] n = "gained" -> BLawGained(c, o) [] n = "attested" -> BLawAttested(c, o)
                        [] n = "graph" -> BLawGraph(c, o) [] n = "tamper" -> BLawTamper(c, o)
BundleFailed(c, o) == {n \in Set(BundleLawNames) : ~BundleLaw(n, c, o)}

\* what the specification says a correct execution observes
BundleSpecOut(c) ==
    LET before == AncOf(c.P, c.base)
        after == InstallBundle(c.P, Source(c.P), Holding(c.P, before), c.base, c.target)
    IN [outcome |-> "ok", written |-> Carried(c.P, c.base, c.target), before |-> before, after |-> DOMAIN after]
\* the same as an observation record (sets as sequences are produced by the Gen module)
BundleSpecObs(c, seqOf(_)) ==
    LET s == BundleSpecOut(c) n == Len(c.P)
    IN [outcome |-> "ok", written |-> seqOf(s.written), before |-> seqOf(s.before), after |-> seqOf(s.after),
        tsrc |-> [r \in 1..n |-> "t"], ttgt |-> [r \in 1..n |-> IF r \in s.after THEN "t" ELSE ""],
        tparents |-> [r \in 1..n |-> IF r \in s.after THEN c.P[r] ELSE <<>>], tamper |-> <<>>]

(* ---- merge directives.  A directive's fields:  revision_id, testament_sha1, time, timezone, target_branch,
   base_revision_id (always there) and the optional  message, patch, bundle, source_branch;  the constructor insists on
   a merge source (source_branch or bundle); signatures are off.
   c = [P, submit, target, md, merge]   md = [msg, patch, bundle, src : BOOLEAN]  - a directive for merging revision `target`
   into a branch whose tip is `submit`, produced by MergeDirective2.from_objects and reduced to the fields md asks for.
   Observation:
     o.present      [msg, patch, bundle, src] - which optional fields the parsed directive carries
     o.same         <<names of the fields (all ten) that are equal before to_lines and after from_lines>>
     o.verify       _maybe_verify on the receiving side: "verified" | "failed" | "inapplicable"
     o.patchTamper  <<verification status after changing one byte of the patch>>  (one entry per position)
     o.bundleTamper <<[section, outcome]>>  as for bundles: the directive's bundle text with one byte changed, parsed and
                    installed
     o.written      revisions inside the directive's bundle (<<>> if none)
     o.before / o.after   revisions of the receiving repository (a branch at `submit`) before / after
                    Merger.from_mergeable(tree, directive)
     o.mergeBundle / o.mergeBranch   digest of the tree (paths, ids, kinds, contents, executable bits, symlink targets,
                    conflicts, pending merges) after merging by the directive / by Merger.from_revision_ids from the
                    source branch into an identical receiving tree *)
MdFields == {"revision_id", "testament_sha1", "time", "timezone", "target_branch", "base_revision_id",
             "message", "patch", "bundle", "source_branch"}
MdCombos == {m \in [msg : BOOLEAN, patch : BOOLEAN, bundle : BOOLEAN, src : BOOLEAN] : m.src \/ m.bundle}
MLawRoundTrip(c, o) == o.present = c.md /\ Set(o.same) = MdFields
MLawVerify(c, o)    == o.verify = IF c.md.patch THEN "verified" ELSE "inapplicable"
MLawPatchTamper(c, o) == \A i \in DOMAIN o.patchTamper : o.patchTamper[i] = "failed"
MLawBundleTamper(c, o) == \A i \in DOMAIN o.bundleTamper : o.bundleTamper[i].outcome \in TamperOk
\* the bundle inside a directive is InstallBundle(b, target) for SOME common ancestor b of submit and target (or null:)
MLawWritten(c, o)   == c.md.bundle => \E b \in CommonAncestors(c.P, c.submit, c.target) \cup {Null} :
                                          Set(o.written) = Carried(c.P, b, c.target)
\* c.merge: the harness also merged this directive into a tree at `submit` (and did the same from the source branch)
MLawGained(c, o)    == c.merge => /\ Set(o.before) = AncOf(c.P, c.submit)
                                  /\ Set(o.after) = AncOf(c.P, c.submit) \cup AncOf(c.P, c.target)
MLawMerge(c, o)     == c.merge => o.mergeBundle # "" /\ o.mergeBundle = o.mergeBranch
MdLawNames == <<"roundtrip", "verify", "patchtamper", "bundletamper", "mdwritten", "mdgained", "merge">>
MdLaw(n, c, o) == CASE n = "roundtrip" -> MLawRoundTrip(c, o) [] n = "verify" -> MLawVerify(c, o)
                    [] n = "patchtamper" -> MLawPatchTamper(c, o) [] n = "bundletamper" -> MLawBundleTamper(c, o)
                    [] n = "mdwritten" -> MLawWritten(c, o) [] n = "mdgained" -> MLawGained(c, o)
                    [] n = "merge" -> MLawMerge(c, o)
MdFailed(c, o) == {n \in Set(MdLawNames) : ~MdLaw(n, c, o)}
\* the specified outcome of a directive case, whatever common ancestor b the implementation picks as the bundle's base
MdSpecAfter(c, b) ==
    DOMAIN InstallBundle(c.P, Source(c.P), Holding(c.P, AncOf(c.P, c.submit)), b, c.target)
=============================================================================
