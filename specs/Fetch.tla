------------------------------- MODULE Fetch -------------------------------
(* Copying history between repositories - properties C03 (fetch / push / pull / sprout) and C08 (stacked repositories).
   breezy/bzr/fetch.py RepoFetcher, vf_repository.py InterVersionedFileRepository.search_missing_revision_ids /
   StreamSource.get_stream / StreamSink.insert_stream / InterDifferingSerializer, groupcompress_repo.py
   GroupCHKStreamSource, knitpack_repo.py, remote.py RemoteStreamSource / RemoteStreamSink.

   A HISTORY is a revision graph P (lib/Dag.tla: ordered parent lists, revisions numbered in creation order, a parent
   outside DOMAIN P is a GHOST) together with the revision trees T and the per-file data that the commit RULE of
   PerFileGraph.tla derives from them:  fv[r][f] = last-changed revision (file version) of file f in revision r,
   fp[r][f] = per-file parents of the text key (f, r) for exactly the keys revision r introduced.

   A REPOSITORY CONTENT is what a repository holds of a history, per kind:
       revs  - revision texts,  invs - inventories,  texts - text keys <<file, version>>,  sigs - signatures.
   Operators on contents (Fetch) are the specification of C03; StackedComplete etc. (Stacking.tla) build on them. *)
EXTENDS PerFileGraph, SequencesExt

GhostId == 9                      \* the only ghost of a bounded universe (GhostDags(n, k, {GhostId}))
Files == {"a", "b", "l"}          \* file ids: a and b are files, l is a SYMBOLIC LINK; the root directory is implicit
Set(q) == {q[i] : i \in DOMAIN q}

(* ---- revision trees.  An entry is [alt, content]: the file is called f (alt = FALSE) or fx (alt = TRUE) and holds the
   bytes written by revision `content` (for the symbolic link l: it points to the target chosen by revision `content`).  A revision without a present left-hand parent (a root, or a revision whose
   left-hand parent is a ghost) starts from nothing and adds every file; any other revision edits its left-hand parent's
   tree file by file according to an edit PATTERN - a fixed function of (revision number, merge or not), so that a
   history is determined by (P, pat) and the harness can build exactly the same trees:
       keep  - unchanged      mod - new content / link target (re-adds a deleted entry)      ren - renamed, same content
       del   - removed        other - the entry of the second parent (what a merge that takes OTHER commits) *)
Ent(alt, c) == [alt |-> alt, content |-> c]
PresentParents(P, r) == SelectSeq(P[r], LAMBDA p : p \in DOMAIN P)
IsMergeRev(P, r) == Len(PresentParents(P, r)) > 1
EditOf(pat, P, r, f) ==
    CASE pat = 1 -> IF f = "a" THEN "mod" ELSE "keep"
      [] pat = 2 -> IF IsMergeRev(P, r) THEN (IF f = "b" THEN "keep" ELSE "other")
                    ELSE IF r % 2 = 1 THEN (IF f = "a" THEN "mod" ELSE "keep")
                    ELSE (IF f = "a" THEN "keep" ELSE "mod")              \* b rewritten, l retargeted
      [] pat = 3 -> IF r % 3 = 0 THEN (IF f = "a" THEN "ren" ELSE "keep")
                    ELSE IF r % 3 = 1 THEN (IF f = "b" THEN "mod" ELSE IF f = "l" THEN "ren" ELSE "keep")
                    ELSE "keep"                                       \* a revision that changes nothing
      [] pat = 4 -> IF f = "b" THEN (IF r % 4 = 2 THEN "del" ELSE IF r % 4 = 0 THEN "mod" ELSE "keep")
                    ELSE IF f = "l" THEN (IF r % 4 = 3 THEN "del" ELSE IF r % 4 = 1 THEN "mod" ELSE "keep")
                    ELSE IF IsMergeRev(P, r) THEN "mod" ELSE "keep"
Patterns == 1..4
TreeAt(P, T, r, pat) ==
    IF LeftParent(P, r) \notin DOMAIN P THEN [f \in Files |-> Ent(FALSE, r)]
    ELSE LET base == T[LeftParent(P, r)]
             ps == PresentParents(P, r)
             oth == IF Len(ps) > 1 THEN T[ps[2]] ELSE base
             New(f) == LET e == EditOf(pat, P, r, f)
                       IN CASE e = "keep" -> IF f \in DOMAIN base THEN <<base[f]>> ELSE <<>>
                            [] e = "mod" -> IF f \in DOMAIN base THEN <<Ent(base[f].alt, r)>> ELSE <<Ent(FALSE, r)>>
                            [] e = "ren" -> IF f \in DOMAIN base THEN <<Ent(~base[f].alt, base[f].content)>> ELSE <<>>
                            [] e = "del" -> <<>>
                            [] e = "other" -> IF f \in DOMAIN oth THEN <<oth[f]>> ELSE <<>>
         IN [f \in {g \in Files : New(g) # <<>>} |-> New(f)[1]]

\* one more revision on top of a history h = [P, T, fv, fp]: the RULE of PerFileGraph.tla decides the file versions
Extend(h, ps, tree) ==
    Let(StepFor(h.T, h.fv, h.fp, SelectSeq(ps, LAMBDA p : p \in DOMAIN h.P), tree, Len(h.P) + 1), LAMBDA s :
        [P |-> Append(h.P, ps), T |-> Append(h.T, tree), fv |-> Append(h.fv, s.fv), fp |-> Append(h.fp, s.fp)])
\* the whole history of (P, pat), revision by revision (a left fold: TLC evaluates it iteratively, so that a history of
\* 100+ revisions does not need a deep recursion)
HistStep(P, pat, g, n) ==
    Let(TreeAt(P, g.T, n, pat), LAMBDA tree :
        Let(StepFor(g.T, g.fv, g.fp, PresentParents(P, n), tree, n), LAMBDA s :
            [T |-> Append(g.T, tree), fv |-> Append(g.fv, s.fv), fp |-> Append(g.fp, s.fp)]))
History(P, pat) ==
    Let(FoldLeft(LAMBDA g, n : HistStep(P, pat, g, n), [T |-> <<>>, fv |-> <<>>, fp |-> <<>>], [i \in 1..Len(P) |-> i]),
        LAMBDA g : [P |-> P, T |-> g.T, fv |-> g.fv, fp |-> g.fp])

TextKeys(h) == UNION {{<<f, r>> : f \in DOMAIN h.fp[r]} : r \in DOMAIN h.fp}
FileParentKeys(h) == UNION {{<<f, r, h.fp[r][f]>> : f \in DOMAIN h.fp[r]} : r \in DOMAIN h.fp}    \* the per-file graph
Signed(P) == {r \in DOMAIN P : r % 2 = 1}            \* the revisions that carry a signature in the universe

(* ---- repository contents *)
Empty == [revs |-> {}, invs |-> {}, texts |-> {}, sigs |-> {}]
Content(h, X) == [revs |-> X, invs |-> X, texts |-> {k \in TextKeys(h) : k[2] \in X}, sigs |-> X \cap Signed(h.P)]
Join(c, d) == [revs |-> c.revs \cup d.revs, invs |-> c.invs \cup d.invs, texts |-> c.texts \cup d.texts,
               sigs |-> c.sigs \cup d.sigs]
Only(c, X) == [revs |-> c.revs \cap X, invs |-> c.invs \cap X, texts |-> {k \in c.texts : k[2] \in X},
                   sigs |-> c.sigs \cap X]
AncestryClosed(P, X) == \A r \in X : (ParentSet(P, r) \cap DOMAIN P) \subseteq X
ClosedSubsets(P) == {X \in SUBSET DOMAIN P : AncestryClosed(P, X)}
\* the ancestry of rev as repository content s knows it: a parent whose revision s does not hold ends the walk
AncIn(P, s, rev) == Let(SubDag(P, s.revs), LAMBDA Q : BFS(Q, {rev}, {}))

(* ---- C03: the fetch.  Everything the source holds of the ancestry of rev, of every kind, is added to the target;
   nothing else changes; ghosts are never created.  Fetching again is the same operator, and it is idempotent. *)
FetchOut(P, s, t, rev) == Join(t, Only(s, AncIn(P, s, rev)))

(* ---- the laws of C03 on an OBSERVED fetch.
   c : [P, rev]   the graph of the source and the revision that was fetched
   o : what was read back from the real repositories after the operation (sequences for sets; revisions as numbers,
       anything unknown as 0):
         outcome            "ok" or the exception class
         trevs tinvs tsigs  revision / inventory / signature keys of the target          ssigs   same for the source
         stexts ttexts      text keys <<f, v>> of source / target (sroot troot: those of the root directory, which only
                            rich-root formats have)                                     sfp tfp <<f, v, <<parents>>>>
         stest ttest        per revision 1..n: testament text digest ("" = absent)       stree ttree  tree content digest
         check              "ok" or what Repository.check() reported
         names1 names2      digest of pack-names after the fetch / after fetching again; revs2 = trevs after fetching
         again; copied2 = number of revisions the second fetch reported as copied *)
Anc(c) == BFS(c.P, {c.rev}, {})                      \* non-ghost ancestors, rev included (= Ancestry(c.P, c.rev); the
                                                     \* breadth-first form also copes with histories of 100+ revisions)
LawCompletes(c, o) == o.outcome = "ok"
LawTip(c, o) == c.rev \in Set(o.trevs)
LawAncestors(c, o) == Anc(c) \subseteq Set(o.trevs)
LawInventories(c, o) == Anc(c) \subseteq Set(o.tinvs)
LawTexts(c, o) == {k \in Set(o.stexts) \cup Set(o.sroot) : k[2] \in Anc(c)} \subseteq (Set(o.ttexts) \cup Set(o.troot))
LawFileGraph(c, o) == {k \in Set(o.sfp) : k[2] \in Anc(c)} \subseteq Set(o.tfp)
LawSignatures(c, o) == (Set(o.ssigs) \cap Anc(c)) \subseteq Set(o.tsigs)
LawTestament(c, o) == \A a \in Anc(c) : o.stest[a] # "" /\ o.ttest[a] = o.stest[a]
LawTree(c, o) == \A a \in Anc(c) : o.stree[a] # "" /\ o.ttree[a] = o.stree[a]
LawCheckOk(c, o) == o.check = "ok"
LawRefetch(c, o) == o.names2 = o.names1 /\ Set(o.revs2) = Set(o.trevs) /\ o.copied2 = 0
FetchLawNames == <<"completes", "tip", "ancestors", "inventories", "texts", "file-graph", "signatures", "testament", "tree",
              "check", "refetch">>
FetchLaw(n, c, o) == CASE n = "completes" -> LawCompletes(c, o) [] n = "tip" -> LawTip(c, o)
                  [] n = "ancestors" -> LawAncestors(c, o) [] n = "inventories" -> LawInventories(c, o)
                  [] n = "texts" -> LawTexts(c, o) [] n = "file-graph" -> LawFileGraph(c, o)
                  [] n = "signatures" -> LawSignatures(c, o) [] n = "testament" -> LawTestament(c, o)
                  [] n = "tree" -> LawTree(c, o) [] n = "check" -> LawCheckOk(c, o) [] n = "refetch" -> LawRefetch(c, o)
\* when the operation itself failed only that is reported (the other observations were not made)
FetchFailed(c, o) == IF o.outcome # "ok" THEN {"completes"} ELSE {n \in Set(FetchLawNames) : ~FetchLaw(n, c, o)}

\* the observation the SPECIFICATION predicts for a target holding content t after the fetch (and again after a re-fetch)
ObsOf(h, s, t, t2) ==
    [outcome |-> "ok", trevs |-> SetToSeq(t.revs), tinvs |-> SetToSeq(t.invs), tsigs |-> SetToSeq(t.sigs),
     ssigs |-> SetToSeq(s.sigs), stexts |-> SetToSeq(s.texts), ttexts |-> SetToSeq(t.texts), sroot |-> <<>>, troot |-> <<>>,
     sfp |-> SetToSeq({k \in FileParentKeys(h) : <<k[1], k[2]>> \in s.texts}),
     tfp |-> SetToSeq({k \in FileParentKeys(h) : <<k[1], k[2]>> \in t.texts}),
     stest |-> [r \in DOMAIN h.P |-> IF r \in s.revs THEN "t" ELSE ""], ttest |-> [r \in DOMAIN h.P |-> IF r \in t.revs THEN "t" ELSE ""],
     stree |-> [r \in DOMAIN h.P |-> IF r \in s.invs THEN "t" ELSE ""], ttree |-> [r \in DOMAIN h.P |-> IF r \in t.invs THEN "t" ELSE ""],
     check |-> "ok", names1 |-> t, names2 |-> t2, revs2 |-> SetToSeq(t2.revs), copied2 |-> Cardinality(t2.revs \ t.revs)]
=============================================================================
