--------------------------- MODULE HistoryC25Trace ---------------------------
(* E3 for C25: log listings recorded from the real log generator judged by the laws of History.  Rows
     [c |-> [par, t], kind, files |-> <<ver, ...>>, ob |-> [ms, logs]]
   with ms / listing rows as tuples <<r, n, d>> and requests as tuples <<dir, levels, limit, a, b, file, deltas>>.
   Written back: failed laws (verdict); badfile = the file requests whose mainline differs from the other algorithm's;
   drift = a file listing whose mainline revisions differ from the content model's prediction, or a range listing that is not the corresponding slice of the full listing. *)
EXTENDS History, TLC, Json, IOUtils, SequencesExt
VARIABLE i
Init == i = 0
Next == UNCHANGED i
RowsOf(s) == [k \in DOMAIN s |-> Row(s[k][1], s[k][2], s[k][3])]
ReqOf(u) == Req(u[1], u[2], u[3], u[4], u[5], u[6], u[7] = 1)
ObOf(row) == [ms |-> RowsOf(row.ob.ms),
              logs |-> [k \in DOMAIN row.ob.logs |-> [q |-> ReqOf(row.ob.logs[k].q), rows |-> RowsOf(row.ob.logs[k].rows)]]]
Slice(full, S) == SelectSeq(full, LAMBDA x : x.r \in S)
Drift(P, t, files, ob) ==
    {k \in DOMAIN ob.logs :
        LET q == ob.logs[k].q
            rows == ob.logs[k].rows
            want == FileMainline(P, t, files[q.file])
        IN \/ /\ q.file # 0
              /\ [j \in DOMAIN MainOnly(rows) |-> MainOnly(rows)[j].r] # (IF q.dir = "reverse" THEN want ELSE RevSeq(want))
           \/ /\ q.file = 0 /\ q.a # 0 /\ q.levels = 0 /\ q.limit = 0 /\ q.dir = "reverse"
              /\ rows # Slice(FullRev(ob), RangeRevs(P, t, q.a, q.b))}
Judge(row) ==
    LET ob == ObOf(row)
    IN [failed |-> SetToSeq(C25Failed(row.c.par, row.c.t, ob)), badfile |-> SetToSeq(BadFile(row.c.par, row.c.t, ob)), drift |-> SetToSeq(Drift(row.c.par, row.c.t, row.files, ob))]
Bad(R) == SelectSeq([k \in 1..Len(R) |-> LET j == Judge(R[k]) IN [row |-> k, failed |-> j.failed, badfile |-> j.badfile, drift |-> j.drift]],
                    LAMBDA r : r.failed # <<>> \/ r.drift # <<>>)
ASSUME LET R == JsonDeserialize(IOEnv.VF_IN) IN JsonSerialize(IOEnv.VF_OUT, [n |-> Len(R), bad |-> Bad(R)])
=============================================================================
