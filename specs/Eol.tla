-------------------------------- MODULE Eol --------------------------------
(* breezy.filters.eol: the two converters transcribed, the seven `eol` settings as (reader, writer) pairs
   (_eol_filter_stack_map), the canonical repository form of a setting, and the laws of property C45 as
   operators on *observed* results.  Content is a sequence over {"CR", "LF", "NUL", "a"}. *)
EXTENDS Naturals, Sequences, FiniteSets
CONSTANT Native      \* "lf" or "crlf": what _native_output is on the platform running the check

Range(s) == {s[i] : i \in DOMAIN s}
HasNul(s) == "NUL" \in Range(s)

RECURSIVE LfFrom(_, _)
LfFrom(s, i) == IF i > Len(s) THEN <<>>                                   \* content.replace(b"\r\n", b"\n")
                ELSE IF s[i] = "CR" /\ i < Len(s) /\ s[i + 1] = "LF" THEN <<"LF">> \o LfFrom(s, i + 2)
                ELSE <<s[i]>> \o LfFrom(s, i + 1)
ToLf(s) == IF HasNul(s) THEN s ELSE LfFrom(s, 1)                          \* _to_lf_converter

RECURSIVE CrlfFrom(_, _)
CrlfFrom(s, i) == IF i > Len(s) THEN <<>>                                 \* re.sub(rb"(?<!\r)\n", b"\r\n", content)
                  ELSE IF s[i] = "LF" /\ (i = 1 \/ s[i - 1] # "CR") THEN <<"CR", "LF">> \o CrlfFrom(s, i + 1)
                  ELSE <<s[i]>> \o CrlfFrom(s, i + 1)
ToCrlf(s) == IF HasNul(s) THEN s ELSE CrlfFrom(s, 1)                      \* _to_crlf_converter

Conv(k, s) == CASE k = "id" -> s [] k = "lf" -> ToLf(s) [] k = "crlf" -> ToCrlf(s)

Settings == {"exact", "native", "lf", "crlf", "native-with-crlf-in-repo", "lf-with-crlf-in-repo",
             "crlf-with-crlf-in-repo"}
Reader(st) == CASE st = "exact" -> "id"                                   \* working tree -> repository
                [] st \in {"native", "lf", "crlf"} -> "lf"
                [] OTHER -> "crlf"
Writer(st) == CASE st = "exact" -> "id"                                   \* repository -> working tree
                [] st \in {"native", "native-with-crlf-in-repo"} -> Native
                [] st \in {"lf", "lf-with-crlf-in-repo"} -> "lf"
                [] OTHER -> "crlf"
Out(st, s) == Conv(Writer(st), s)        \* filtered_output_bytes
In(st, s)  == Conv(Reader(st), s)        \* filtered_input_file

\* canonical repository form of a setting = the fixed points of its reader (the converters are not idempotent:
\* ToLf(CR CR LF) = CR LF, so "some reader output" would be the wrong definition), text = without NUL
Canonical(st, s) == ~HasNul(s) /\ In(st, s) = s

(* ---- the laws of C45 on observed results.
   c.st, c.s : setting, repository content
   o.out  : bytes written to the working tree for c.s          (filtered_output_bytes)
   o.inp  : bytes read back when the working file holds c.s    (filtered_input_file)
   o.back : bytes read back from o.out                          (input(output(c.s)))
   o.co   : "clean" / "dirty" = iter_changes of a fresh checkout of c.s under the rule, "skip" = not checked out *)
LawRoundTrip(c, o) == Canonical(c.st, c.s) => o.back = c.s
LawBinary(c, o)    == HasNul(c.s) => (o.out = c.s /\ o.inp = c.s /\ o.back = c.s)
LawCheckout(c, o)  == (Canonical(c.st, c.s) \/ HasNul(c.s)) => o.co # "dirty"

LawNames == <<"roundtrip", "binary", "checkout">>
Law(n, c, o) == CASE n = "roundtrip" -> LawRoundTrip(c, o) [] n = "binary" -> LawBinary(c, o)
                  [] n = "checkout" -> LawCheckout(c, o)
Failed(c, o) == {n \in Range(LawNames) : ~Law(n, c, o)}

SpecOut(c) == LET w == Out(c.st, c.s) b == In(c.st, w) IN
              [out |-> w, inp |-> In(c.st, c.s), back |-> b, co |-> IF b = c.s THEN "clean" ELSE "dirty"]
\* conformance of a recorded row with the transcription ("skip" = the row was not taken to the tree level)
Conforms(c, o) == LET e == SpecOut(c) IN
                  o.out = e.out /\ o.inp = e.inp /\ o.back = e.back /\ o.co \in {"skip", e.co}

\* the input class on which the transcription itself loses content (proved exact by TLC in EolGen):
\* a CR directly before a CRLF, CRLF repository form, LF working-tree form
RECURSIVE HasCrCrLfFrom(_, _)
HasCrCrLfFrom(s, i) == IF i + 2 > Len(s) THEN FALSE
                       ELSE (s[i] = "CR" /\ s[i + 1] = "CR" /\ s[i + 2] = "LF") \/ HasCrCrLfFrom(s, i + 1)
LossClass(c) == Reader(c.st) = "crlf" /\ Writer(c.st) = "lf" /\ Canonical(c.st, c.s) /\ HasCrCrLfFrom(c.s, 1)
=============================================================================
