---------------------------- MODULE TransformGen ----------------------------
(* E1 + E2 for C13: the tree {a, b, d/, d/a}, every conflict-free transform that changes at most MaxChanged of the
   trans-ids A B D DA (tree entries) N1 N2 (new entries) by
       delete | move (rename, swap, move into an existing or a NEW directory) | replace by a new file | replace by a
       directory (file->dir, dir->file kind changes) | create file | create directory,
   times every fault index: one initial state per (transform, k); TLC checks the C13 invariants on Transform.tla and
   exports the transforms with their declared pre / post states and the number of file-system calls per phase. *)
EXTENDS Transform, TransformWorld, Json, IOUtils
CONSTANTS MaxChanged,   \* at most this many trans-ids change
          Focus         \* only these trans-ids change (GenTids for the full enumeration; small sets for witnesses)

F(f, n, p) == [f |-> f, name |-> n, parent |-> p]
Moves(t, names, parents) == {F("move", n, p) : n \in names, p \in parents} \ {F("move", GenTree[t].name, GenTree[t].parent)}
FateSet(t) ==
    CASE t \in {"A", "B", "DA"} -> {F("delete", NONE, NONE), F("file", NONE, NONE), F("dir", NONE, NONE)}
                                   \cup Moves(t, {"a", "b", "c"}, {ROOT, "D", "N1"})
      [] t = "D"  -> {F("delete", NONE, NONE), F("file", NONE, NONE)} \cup Moves(t, {"d", "c"}, {ROOT, "N1"})
      [] t = "N1" -> {F("newdir", n, p) : n \in {"c", "e"}, p \in {ROOT, "D"}}
      [] t = "N2" -> {F("newfile", n, p) : n \in {"a", "b", "c"}, p \in {ROOT, "D", "N1", "A"}}
AllFates == UNION {FateSet(t) : t \in GenTids}
Keep == F("keep", NONE, NONE)

MapsOf(G) == LET Ft(t) == IF t \in DOMAIN G THEN G[t] ELSE Keep IN
    [name     |-> [t \in GenTids |-> Ft(t).name],
     parent   |-> [t \in GenTids |-> Ft(t).parent],
     contents |-> [t \in GenTids |-> CASE Ft(t).f \in {"file", "newfile"} -> "file"
                                       [] Ft(t).f \in {"dir", "newdir"} -> "directory" [] OTHER -> NONE],
     removed  |-> {t \in GenTids : Ft(t).f \in {"delete", "file", "dir"}},
     newid    |-> {t \in GenTids : Ft(t).f \in {"newfile", "newdir"}},
     remid    |-> {t \in GenTids : Ft(t).f = "delete"},
     exec     |-> [t \in GenTids |-> NONE]]

FateChoices == UNION {{G \in [S -> AllFates] : \A t \in S : G[t] \in FateSet(t)}
                  : S \in {S \in SUBSET Focus : Cardinality(S) \in 1..MaxChanged}}
GenCases == {mm \in {MapsOf(G) : G \in FateChoices} : ~HasRawConflicts(mm, "bzr")}

Describe(mm) == [m |-> mm, w |-> Want(mm)]
Export == JsonSerialize(IOEnv.VF_OUT, [tree |-> [t \in DOMAIN GenTree |-> [path |-> TreePath(t), kind |-> GenTree[t].kind]],
                                       cases |-> SetToSeq({Describe(mm) : mm \in GenCases})])
ASSUME IF "VF_OUT" \in DOMAIN IOEnv THEN Export ELSE TRUE
=============================================================================
