--------------------------- MODULE HistoryC21Trace ---------------------------
(* E3 for C21: outcomes recorded from real branches (the operation run on a target branch with tip t against a
   source with tip s; new tip and recorded revno read from a freshly opened branch and from the live object, the
   master's for a bound target, exception class) are judged by the laws of History.  Rows
     [c |-> [par, t, s], kind |-> implementation, ops |-> <<op tuples>>, out |-> <<outcome tuples>>]
   with outcome tuples <<tip, revno, exc, ctip, crevno, mtip, mrevno, np>>.  Written back: per row the operations
   whose laws fail (verdict) and those whose outcome differs from the transcription's (drift). *)
EXTENDS History, TLC, Json, IOUtils, SequencesExt
VARIABLE i
Init == i = 0
Next == UNCHANGED i
N2B(n) == n = 1
OpOfT(u) == Op(u[1], u[2], N2B(u[3]), u[4], N2B(u[5]), N2B(u[6]))
ObsOfT(u) == [tip |-> u[1], revno |-> u[2], exc |-> u[3], ctip |-> u[4], crevno |-> u[5], mtip |-> u[6],
              mrevno |-> u[7], np |-> u[8]]
\* Conformance with the transcription.  Two deviations of RemoteBranch are part of the model: it does not check last_rev
\* in generate_revision_history (allow_diverged on the wire), and the error class of a refused tip change is whatever
\* the vfs-level fallback meets first (compared as "some error").
SpecFor(row, o) == SpecObs(row.c.par, row.c.t, row.c.s, IF row.kind = "remote" /\ o.op = "genhist" THEN [o EXCEPT !.lr = FALSE] ELSE o)
Conforms(row, o, r) ==
    LET sp == SpecFor(row, o)
    IN IF row.kind = "remote" /\ sp.exc # "" THEN r.exc # "" /\ [r EXCEPT !.exc = sp.exc] = sp ELSE r = sp
Judge(row) ==
    LET P == row.c.par
        bad == {k \in DOMAIN row.ops : C21Failed(P, row.c.t, row.c.s, OpOfT(row.ops[k]), ObsOfT(row.out[k])) # {}}
        dr == {k \in DOMAIN row.ops : ~Conforms(row, OpOfT(row.ops[k]), ObsOfT(row.out[k]))}
    IN [failed |-> SetToSeq(UNION {{<<k, n>> : n \in C21Failed(P, row.c.t, row.c.s, OpOfT(row.ops[k]), ObsOfT(row.out[k]))} : k \in bad}),
        drift |-> SetToSeq(dr \ bad)]
Bad(R) == SelectSeq([k \in 1..Len(R) |-> LET j == Judge(R[k]) IN [row |-> k, failed |-> j.failed, drift |-> j.drift]],
                    LAMBDA r : r.failed # <<>> \/ r.drift # <<>>)
ASSUME LET R == JsonDeserialize(IOEnv.VF_IN) IN JsonSerialize(IOEnv.VF_OUT, [n |-> Len(R), bad |-> Bad(R)])
=============================================================================
