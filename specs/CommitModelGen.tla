--------------------------- MODULE CommitModelGen ---------------------------
(* E1 + E2 for C01: TLC enumerates every working-tree state reachable from the basis by <= MaxEdits edits (with the
   edit sequence that leads there, so the harness can replay it through the real WorkingTree API), and for each state
   every (specific_files, exclude) choice with <= MaxSel / <= MaxExcl paths out of the paths that exist in the basis or
   in the working tree.  Choices are grouped by the set of ids they select; for each group the expected committed
   tree is exported.  Every state is one initial state, on which TLC checks the laws of C01 against the specification's
   own outcome (design check).  The deepest level can be sampled: states whose index = Offset modulo Stride. *)
EXTENDS CommitModel, Json, IOUtils, SequencesExt
CONSTANTS Ids, BasisName, MaxEdits, MaxSel, MaxExcl, Stride, Offset
Basis0 == Bases[BasisName]
SelChoices(P) == SelChoicesN(P, MaxSel)
ExclChoices(P) == ExclChoicesN(P, MaxExcl)

RECURSIVE StatesAt(_)
StatesAt(k) == IF k = 0 THEN {[w |-> Basis0, m |-> {}, h |-> <<>>]}
               ELSE UNION {{[w |-> s.w, m |-> s.m, h |-> Append(st.h, s.e)] : s \in EditSucc(Ids, Basis0, st.w, st.m)} :
                           st \in StatesAt(k - 1)}
Sample(S) == IF Stride = 1 THEN S
             ELSE LET all == SetToSeq(S) IN {all[k] : k \in {j \in DOMAIN all : (j + Offset) % Stride = 0}}
States == (IF MaxEdits = 0 THEN {} ELSE UNION {StatesAt(k) : k \in 0..(MaxEdits - 1)}) \cup Sample(StatesAt(MaxEdits))

Combos(P) == {[sel |-> s, excl |-> e] : s \in SelChoices(P), e \in ExclChoices(P)}
\* per state: the distinct selections, each with the choices that produce it and what the commit must record
\* (values are bound through one-element sets so that TLC evaluates each of them once)
Classes(st) ==
    UNION {UNION {UNION {
        {[S |-> S, ok |-> FeasibleS(Basis0, st.w, st.m, S), tree |-> ExpectedCommitTree(Basis0, st.w, st.m, S),
          combos |-> {x \in cs : selOf[x] = S}] : S \in {selOf[x] : x \in cs}}
      : selOf \in {[x \in cs |-> SelectedI(I, x.sel, x.excl)]}} : cs \in {Combos(DOMAIN I.inside)}} : I \in {Info(Basis0, st.w, st.m)}}
AnyCase(st) == [b |-> Basis0, w |-> st.w, m |-> st.m, sel |-> [all |-> TRUE, paths |-> {}], excl |-> {}, merge |-> FALSE,
                conflicts |-> FALSE, fault |-> "none"]

VARIABLE st
Init == st \in States
Next == UNCHANGED st
\* the laws hold on the specification's own outcome, for every distinct selection of the state
LawsHoldOnSpec ==
    /\ ValidTree(st.w) /\ st.m \subseteq DOMAIN st.w
    /\ \A k \in Classes(st) : \E o \in {SpecOutS(AnyCase(st), k.S)} :
          /\ FailedS(AnyCase(st), k.S, o) = {}
          /\ (o.outcome = "ok") = k.ok
          /\ o.outcome = "ok" => (ValidTree(o.tree) /\ ValidTree(o.w2) /\ o.m2 \subseteq DOMAIN o.w2)
\* anti-vacuity: TLC must find such states
WitnessInfeasible == ~(\E k \in Classes(st) : ~k.ok)
WitnessParentPulledIn == ~(\E I \in {Info(Basis0, st.w, st.m)} : \E k \in Classes(st) : \E x \in k.combos :
                              ~x.sel.all /\ x.excl = {} /\ k.S # Down(I, Seed(I, x.sel)))
WitnessMissingCommitted == ~(\E k \in Classes(st) : k.ok /\ k.S \cap st.m # {} /\ k.S # AllIds(Basis0, st.w))

SeqOfSet(S) == SetToSeq(S)
Export == JsonSerialize(IOEnv.VF_OUT,
    SetToSeq({[h |-> s.h, w |-> s.w, m |-> s.m, paths |-> AllPaths(Basis0, s.w), b |-> Basis0,
               classes |-> {[S |-> k.S, ok |-> k.ok, tree |-> k.tree,
                             combos |-> {[all |-> x.sel.all, sel |-> x.sel.paths, excl |-> x.excl] : x \in k.combos}] : k \in Classes(s)}] :
              s \in States}))
ASSUME IF "VF_OUT" \in DOMAIN IOEnv THEN Export ELSE TRUE
=============================================================================
