-------------------------- MODULE TreeExportTrace --------------------------
(* C42 judge: every row is one (tree, options) with what the real breezy.export.export produced for each format,
   re-read from the directory / archive.  impl is a sequence of groups [fmts, err, n, ents]: the formats whose
   projection was identical share a group; err # "" = the export raised; n = number of members found.
   Failed laws are reported as "<law>@<format>"; mtime-class mismatches as drift. *)
EXTENDS TreeExport, TLC, Json, IOUtils, SequencesExt
Rows == JsonDeserialize(IOEnv.VF_IN)
VARIABLE i
Init == i \in 1..Len(Rows)
Next == UNCHANGED i
Groups(r) == Range(r.impl)
FailedRow(r) ==
    LET tree == Range(r.c.tree) IN
    UNION {UNION {LET exp == Expected(f, tree, r.c.o, r.c.dest)
                      obs == Range(g.ents) IN
                  {n \o "@" \o f : n \in (IF g.err # "" THEN {"completes"}
                                           ELSE FailedLaws(exp, obs) \cup (IF g.n = Cardinality(obs) THEN {} ELSE {"paths"}))}
                  : f \in Range(g.fmts)} : g \in Groups(r)}
    \cup {"completes@" \o f : f \in {x \in Range(r.c.fmts) : ~\E g \in Groups(r) : x \in Range(g.fmts)}}
    \cup (IF r.c.enc = "é" THEN {} ELSE {"machinery-encoding@all"})
DriftRow(r) ==
    \E g \in Groups(r) : g.err = "" /\ \E f \in Range(g.fmts) :
        ~MtOk(f, Expected(f, Range(r.c.tree), r.c.o, r.c.dest), Range(g.ents), r.c.o)
Bad == SelectSeq([k \in 1..Len(Rows) |-> [row |-> k, failed |-> SetToSeq(FailedRow(Rows[k])), drift |-> DriftRow(Rows[k])]],
                 LAMBDA r : r.failed # <<>> \/ r.drift)
ASSUME JsonSerialize(IOEnv.VF_OUT, [n |-> Len(Rows), bad |-> Bad])
=============================================================================
