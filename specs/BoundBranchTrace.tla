-------------------------- MODULE BoundBranchTrace --------------------------
(* E3 for C23: behaviours recorded from real heavyweight checkouts (WorkingTree.commit / update / pull, Branch.bind /
   unbind, faults injected into the transport operations of Commit._update_branches) judged by the laws of BoundBranch.
   A row: c = [cs: checkout names, acts: actions], impl = observations (initial one first), each
       [tip, bound, basis, pend: records over the branch / checkout names, out, np: parents of the revisions that
        came into existence during the step (at most one)].
   The observer's graph grows by np; a revision made by a local-only commit joins lrevs.
   failed = violated laws (with the step's op); drift = observed worlds / outcomes differ from BoundBranch!Run. *)
EXTENDS BoundBranch, TLC, Json, IOUtils, SequencesExt
Rows == JsonDeserialize(IOEnv.VF_IN)
VARIABLE i
Init == i \in 1..Len(Rows)
Next == UNCHANGED i
W0(cs, bs) == [P |-> <<<<>>>>, tip |-> [b \in bs |-> 1], bound |-> [c \in cs |-> TRUE], basis |-> [c \in cs |-> 1],
           pend |-> [c \in cs |-> <<>>], lrevs |-> {}]
RECURSIVE GraphAt(_, _)                 \* the observed graph after k steps
GraphAt(impl, k) == IF k = 0 THEN <<<<>>>> ELSE GraphAt(impl, k - 1) \o impl[k + 1].np
RECURSIVE LocalAt(_, _, _)
LocalAt(c, impl, k) ==
    IF k = 0 THEN {}
    ELSE LocalAt(c, impl, k - 1)
         \cup (IF c.acts[k].op \in {"commitLocal", "commitUnbound", "commitF"}
               THEN (Len(GraphAt(impl, k - 1)) + 1)..Len(GraphAt(impl, k)) ELSE {})
Seen(c, impl, k) == [P |-> GraphAt(impl, k), tip |-> impl[k + 1].tip, bound |-> impl[k + 1].bound,
                     basis |-> impl[k + 1].basis, pend |-> impl[k + 1].pend, lrevs |-> LocalAt(c, impl, k)]
FailedRow(c, impl) ==
    UNION {{<<n, c.acts[k].op>> : n \in StepFailed(Seen(c, impl, k - 1), c.acts[k], impl[k + 1].out, Seen(c, impl, k))}
           : k \in DOMAIN c.acts}
DriftRow(c, impl) ==
    LET r == Run(W0(DOMAIN impl[1].bound, DOMAIN impl[1].tip), c.acts)
    IN Len(impl) # Len(r) + 1
       \/ \E k \in DOMAIN r : r[k].out # impl[k + 1].out \/ r[k].W # Seen(c, impl, k)
Bad == SelectSeq([k \in 1..Len(Rows) |->
                    [row |-> k, failed |-> SetToSeq({x[1] \o "@" \o x[2] : x \in FailedRow(Rows[k].c, Rows[k].impl)}),
                     drift |-> DriftRow(Rows[k].c, Rows[k].impl)]],
                 LAMBDA r : r.failed # <<>> \/ r.drift)
ASSUME JsonSerialize(IOEnv.VF_OUT, [n |-> Len(Rows), bad |-> Bad])
=============================================================================
