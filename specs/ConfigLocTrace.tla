-------------------------- MODULE ConfigLocTrace --------------------------
(* E3 for C49: values recorded from the real code are judged by the laws of ConfigLoc.
     kind = "loc": [secs, vals, chk]  vals[l] = LocationStack(location l).get("o") with secs as locations.conf
                   ("<none>" for None, "<exc:Type>" for an exception); chk = [n, loc] re-checks the numbering of
                   locations (LocSeq of ConfigLocGen with the same LocMaxSeg);
     kind = "val": [v, status, read]  the value v (tokens) set through a Stack, saved, and read back by a fresh
                   store.
   Output: rows with failed laws, or drift (value differs from the implementation-shaped prediction).       *)
EXTENDS ConfigLoc, Json, IOUtils, SequencesExt
CONSTANT LocMaxSeg
Locs   == SeqsFromTo(LocSegs, 1, LocMaxSeg)
LocSeq == TLCEval(SetToSeq(Locs))
Rows == JsonDeserialize(IOEnv.VF_IN)
VARIABLE rowno     \* (a variable named like a bound identifier of ConfigLoc would stop TLC caching constants)
Init == rowno \in 1..Len(Rows)
Next == UNCHANGED rowno

Judge(r) ==
    IF r.kind = "val" THEN [failed |-> ValFailed(r.v, [status |-> r.status, read |-> r.read]), drift |-> FALSE]
    ELSE IF ~(Len(r.vals) = Len(LocSeq) /\ LocSeq[r.chk.n] = r.chk.loc) THEN [failed |-> {"coverage"}, drift |-> FALSE]
    ELSE LET J == [l \in 1..Len(LocSeq) |-> LET A == Analyse(r.secs, LocSeq[l]) IN
                                              [f |-> LocFailedA(A, r.vals[l]), d |-> r.vals[l] # A.code]] IN
         [failed |-> UNION {J[l].f : l \in 1..Len(LocSeq)}, drift |-> \E l \in 1..Len(LocSeq) : J[l].d]
\* (Rows is passed as an argument so that the file is parsed once)
Verdict(R) ==
    [n |-> Len(R),
     bad |-> SelectSeq([q \in 1..Len(R) |-> LET j == Judge(R[q]) IN
                          [row |-> q, failed |-> SetToSeq(j.failed), drift |-> j.drift]],
                       LAMBDA x : x.failed # <<>> \/ x.drift)]
ASSUME JsonSerialize(IOEnv.VF_OUT, Verdict(Rows))
=============================================================================
