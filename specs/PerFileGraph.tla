---------------------------- MODULE PerFileGraph ----------------------------
(* Per-file history - property C02.
   breezy/bzr/vf_repository.py VersionedFileCommitBuilder.record_iter_changes (heads, carry-over), pack_repo.py
   PackCommitBuilder._heads, check.py / _VersionedFileChecker.

   A HISTORY is  P : 1..n -> Seq(1..n)  (ordered parents, revisions numbered in creation order, see lib/Dag.tla) and
   T : 1..n -> tree, a tree being a function FileId -> entry = [parent, name, kind, exec, content].
   Every entry of every revision carries a LAST-CHANGED revision  FV[r][f]  (RevisionTree.get_file_revision); the file
   version (f, FV[r][f]) is a node of the PER-FILE GRAPH of f, whose edges FP[r][f] (for r = FV[r][f]: the revision
   introduced that version) are what repository.texts.get_parent_map((f, r)) returns.

   The RULE (property level, not a transcription of the commit builder).  Committing revision r with parents ps:
       candidates(f) = { FV[p][f] : p in ps, f in tree(p) }            the versions of f in the parents
       heads(f)      = the candidates that are not a per-file ancestor of another candidate
       if heads(f) = {h} and the new entry equals the entry of version h   ->  carried over:  FV[r][f] = h, no new text key
       otherwise                                                           ->  new version:   FV[r][f] = r, FP[r][f] = heads(f) *)
EXTENDS Naturals, Sequences, FiniteSets, TLC, Dag

Rng(s) == {s[k] : k \in DOMAIN s}
\* bind a value once (TLC re-evaluates LET definitions on every use): Let(v, F) = F(v)
Let(v, F(_)) == CHOOSE y \in {F(x) : x \in {v}} : TRUE

(* ---- the per-file graph.  fp[v] = [f |-> set of parent versions] for the keys (f, v) that revision v introduced *)
FileParents(fp, f, v) == IF v \in DOMAIN fp /\ f \in DOMAIN fp[v] THEN fp[v][f] ELSE {}
RECURSIVE FileAnc(_, _, _)
FileAnc(fp, f, v) == UNION {{p} \cup FileAnc(fp, f, p) : p \in FileParents(fp, f, v)}        \* proper per-file ancestors
FileHeads(fp, f, C) == {x \in C : \A y \in C \ {x} : x \notin FileAnc(fp, f, y)}

(* ---- one commit: revision r = Len(T) gets fv[r], fp[r] from the parents' data *)
Candidates(T, fv, ps, f) == {fv[p][f] : p \in {q \in Rng(ps) : f \in DOMAIN T[q]}}
StepFor(T, fv, fp, ps, tree, r) ==
    Let([f \in DOMAIN tree |-> FileHeads(fp, f, Candidates(T, fv, ps, f))], LAMBDA H :
        Let([f \in DOMAIN tree |-> Cardinality(H[f]) = 1 /\ tree[f] = T[CHOOSE h \in H[f] : TRUE][f]], LAMBDA carried :
            [fv |-> [f \in DOMAIN tree |-> IF carried[f] THEN CHOOSE h \in H[f] : TRUE ELSE r],
             fp |-> [f \in {g \in DOMAIN tree : ~carried[g]} |-> H[f]]]))

(* ---- the rule applied to a whole recorded history (P, T as sequences): [fv, fp] as sequences over revisions *)
RECURSIVE RuleUpTo(_, _, _)
RuleUpTo(P, T, n) ==
    IF n = 0 THEN [fv |-> <<>>, fp |-> <<>>]
    ELSE Let(RuleUpTo(P, T, n - 1), LAMBDA prev :
             Let(StepFor(T, prev.fv, prev.fp, P[n], T[n], n), LAMBDA s :
                 [fv |-> Append(prev.fv, s.fv), fp |-> Append(prev.fp, s.fp)]))
Rule(P, T) == RuleUpTo(P, T, Len(P))

(* ---- the laws of C02 on an observed history
   c : [P, T]          graph and revision trees as read back from the real repository
   o : [fv, fp, nodup, check]
                       fv[r][f] = get_file_revision; fp[r][f] = parents of text key (f, r) for the keys that exist
                       (f in DOMAIN fp[r] iff the key exists), as a set; nodup = no text key lists a parent twice;
                       check = what Repository.check() reported ("ok" or text) *)
\* last-changed revision of every entry = the rule's
LawLastChanged(c, R, o) == \A r \in DOMAIN c.T : \A f \in DOMAIN c.T[r] : o.fv[r][f] = R.fv[r][f]
\* per-file parents of every version a revision introduced = the heads among the versions in its parents, each once
LawParents(c, R, o) == /\ o.nodup
                       /\ \A r \in DOMAIN c.T : \A f \in DOMAIN c.T[r] :
                           (o.fv[r][f] = r /\ R.fv[r][f] = r) => (f \in DOMAIN o.fp[r] /\ o.fp[r][f] = R.fp[r][f])
\* every last-changed revision names an existing text key, and a revision adds no text key it does not reference
LawKeys(c, R, o) == /\ \A r \in DOMAIN c.T : \A f \in DOMAIN c.T[r] : o.fv[r][f] \in DOMAIN o.fp /\ f \in DOMAIN o.fp[o.fv[r][f]]
                    /\ \A r \in DOMAIN o.fp : \A f \in DOMAIN o.fp[r] : f \in DOMAIN c.T[r] /\ o.fv[r][f] = r
\* the consistency check agrees
LawCheck(c, R, o) == o.check = "ok"
LawNames == <<"last-changed", "parents", "keys", "check">>
Law(n, c, R, o) == CASE n = "last-changed" -> LawLastChanged(c, R, o) [] n = "parents" -> LawParents(c, R, o)
                     [] n = "keys" -> LawKeys(c, R, o) [] n = "check" -> LawCheck(c, R, o)
FailedR(c, R, o) == {n \in Rng(LawNames) : ~Law(n, c, R, o)}
Failed(c, o) == Let(Rule(c.P, c.T), LAMBDA R : FailedR(c, R, o))
SpecOut(c) == Let(Rule(c.P, c.T), LAMBDA R : [fv |-> R.fv, fp |-> R.fp, nodup |-> TRUE, check |-> "ok"])
=============================================================================
