-------------------------------- MODULE Dag --------------------------------
(* Revision graphs (shared library).

   A graph is a function  P : 1..n -> Seq(Nat \ {0})  giving the ordered parent list of every PRESENT revision;
   P[r][1] is the left-hand (mainline) parent.  Revisions are numbered in creation order, so every present
   parent of r is < r and the graph is acyclic by construction.  A parent that is not in DOMAIN P is a GHOST
   (referenced but absent).  0 is never a revision: it stands for the null revision ("null:") where one is
   needed.  All operators take the graph as their first argument, so a module can talk about several graphs
   (repositories) at once; nothing here is a CONSTANT or VARIABLE.

   Generators:  Dags(n, k)  all graphs over 1..n with at most k parents per revision (no ghosts, no duplicate
   parents);  DagsUpTo(n, k);  GhostDags(n, k, G)  additionally allows parents from the ghost set G. *)
EXTENDS Naturals, Sequences, FiniteSets

Null == 0
SeqRange(s) == {s[i] : i \in DOMAIN s}

Revs(P) == DOMAIN P
ParentSet(P, r) == IF r \in DOMAIN P THEN SeqRange(P[r]) ELSE {}
IsGhost(P, x) == x # Null /\ x \notin DOMAIN P
Ghosts(P) == UNION {ParentSet(P, r) : r \in DOMAIN P} \ DOMAIN P
Roots(P) == {r \in DOMAIN P : P[r] = <<>>}
Children(P, r) == {c \in DOMAIN P : r \in ParentSet(P, c)}
IsMerge(P, r) == r \in DOMAIN P /\ Len(P[r]) > 1
LeftParent(P, r) == IF r \in DOMAIN P /\ P[r] # <<>> THEN P[r][1] ELSE Null

(* Ancestry including the revision itself; present revisions only.  Defined by recursion on the revision
   number (parents are smaller).  AncestryG also contains the ghosts that are reached. *)
AncestryFn(P) ==
    LET A[r \in DOMAIN P] == {r} \cup UNION {IF p \in DOMAIN P /\ p < r THEN A[p] ELSE {} : p \in SeqRange(P[r])}
    IN A
Ancestry(P, r) == IF r \in DOMAIN P THEN AncestryFn(P)[r] ELSE {}
AncestryG(P, r) == IF r \in DOMAIN P
                   THEN Ancestry(P, r) \cup (UNION {ParentSet(P, a) : a \in Ancestry(P, r)} \ DOMAIN P)
                   ELSE IF r = Null THEN {} ELSE {r}
AncestryOf(P, S) == UNION {Ancestry(P, r) : r \in S}
IsAncestor(P, a, d) == a \in Ancestry(P, d)                 \* reflexive: IsAncestor(P, r, r)
IsProperAncestor(P, a, d) == a # d /\ a \in Ancestry(P, d)
Descendants(P, r) == {d \in DOMAIN P : r \in Ancestry(P, d)}
WellFormed(P) == \A r \in DOMAIN P : \A p \in SeqRange(P[r]) : p # Null /\ (p \in DOMAIN P => p < r)

(* Left-hand history, oldest first; stops at a root or at a ghost left parent.  Revno = its length. *)
RECURSIVE LeftHand(_, _)
LeftHand(P, r) == IF r \notin DOMAIN P THEN <<>>
                  ELSE IF P[r] = <<>> \/ P[r][1] \notin DOMAIN P THEN <<r>>
                  ELSE Append(LeftHand(P, P[r][1]), r)
Mainline(P, tip) == SeqRange(LeftHand(P, tip))
Revno(P, r) == Len(LeftHand(P, r))

(* Heads: members of S that are not a proper ancestor of another member (graph.heads).  The null revision is
   dominated by everything; a ghost only by revisions that reach it. *)
Heads(P, S) ==
    LET T == IF S = {Null} THEN S ELSE S \ {Null}
    IN {x \in T : \A y \in T \ {x} : x \notin AncestryG(P, y)}
CommonAncestors(P, a, b) == Ancestry(P, a) \cap Ancestry(P, b)
LCAs(P, a, b) == Heads(P, CommonAncestors(P, a, b))        \* graph.find_lca; {} = only null: in common
Related(P, a, b) == CommonAncestors(P, a, b) # {}
UniqueAncestors(P, tip, others) == Ancestry(P, tip) \ AncestryOf(P, others)    \* graph.find_unique_ancestors
Difference(P, a, b) == <<Ancestry(P, a) \ Ancestry(P, b), Ancestry(P, b) \ Ancestry(P, a)>>   \* graph.find_difference

(* Revisions merged by mainline revision m: what m brought in beyond its left parent (log's merge view). *)
MergedBy(P, m) == Ancestry(P, m) \ ({m} \cup Ancestry(P, LeftParent(P, m)))

(* Breadth-first walk from `starts` that does not enter or pass `stops` (the searcher behind search recipes). *)
RECURSIVE BfsFrom(_, _, _, _)
BfsFrom(P, frontier, stops, seen) ==
    LET f == (frontier \cap DOMAIN P) \ (stops \cup seen)
    IN IF f = {} THEN seen
       ELSE BfsFrom(P, UNION {ParentSet(P, r) : r \in f}, stops, seen \cup f)
BFS(P, starts, stops) == BfsFrom(P, starts, stops, {})

(* A sequence of distinct revisions in which every revision comes after those of its parents that occur. *)
NoDuplicates(seq) == \A i, j \in DOMAIN seq : i # j => seq[i] # seq[j]
TopoSorted(P, seq) ==
    /\ NoDuplicates(seq)
    /\ \A i, j \in DOMAIN seq : seq[j] \in ParentSet(P, seq[i]) => j < i
IsTopoOrderOf(P, seq, S) == SeqRange(seq) = S /\ Len(seq) = Cardinality(S) /\ TopoSorted(P, seq)

(* ---- generators *)
\* sequences of distinct elements of S of length <= k
RECURSIVE DistinctSeqs(_, _)
DistinctSeqs(S, k) == IF k = 0 THEN {<<>>}
                      ELSE {<<>>} \cup UNION {{<<x>> \o t : t \in DistinctSeqs(S \ {x}, k - 1)} : x \in S}
\* built revision by revision, so only well-formed graphs are ever constructed; a graph over 1..n is a sequence
RECURSIVE GhostDags(_, _, _)
GhostDags(n, k, G) == IF n = 0 THEN {<<>>}
                      ELSE {Append(P, ps) : P \in GhostDags(n - 1, k, G), ps \in DistinctSeqs((1..(n - 1)) \cup G, k)}
Dags(n, k) == GhostDags(n, k, {})
DagsUpTo(n, k) == UNION {Dags(m, k) : m \in 1..n}

(* Restriction of a graph to an ancestry-closed set (parents outside become ghosts if S is not closed). *)
SubDag(P, S) == [r \in S \cap DOMAIN P |-> P[r]]
=============================================================================
