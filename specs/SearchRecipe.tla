---------------------------- MODULE SearchRecipe ----------------------------
(* C33 - search recipes sent to the server describe exactly the intended revisions.

   Client (breezy/bzr/vf_search.py):  search_result_from_parent_map(K, missing) turns the client's cache K of
   get_parent_map answers into a recipe (start, stop, count); limited_search_result_from_parent_map(K, missing,
   tips, depth) does the same for the part of K within `depth` child-steps of the keys being asked about.
   Server (breezy/bzr/smart/repository.py recreate_search_from_recipe): breadth-first walk over the FULL revision
   graph from `start`, never walking past `stop`, then the count check  |walked| = count.

   Revision graph (self-contained; no shared library): revisions are 1..n, parents among smaller numbers or ghosts
   (ids > 100, referenced but absent); 0 is "null:".  A root revision has parents (null:,) in every parent map, the
   server's graph knows null: (with no parents) and therefore walks it; the client's `missing` set may contain
   null: - these facts matter, see the +1 in the client code.

   Ghost filled later: `filled` is a set of ghosts that are ghosts when the client fills its cache (so K's values
   name them as absent parents and the client may have recorded them in `missing`) but are PRESENT in the server's
   graph when the recipe is replayed (somebody pushed the revision in between; it is modelled as a root revision).
   The intended set does not change: it is what the client has seen (K, resp. its own walk for the limited
   variant); the filled revision and whatever lies behind it has NOT been seen by the client and must not be
   walked.  The limited variant (the one RemoteRepository uses, depth 100) must hold under filling because every key
   its own walk could not answer is a stop key.  The full variant drops `missing` from the stop keys by design and
   is therefore not robust against filling (WitnessFullNotFillRobust in SearchRecipeMC exhibits it); for such cases
   only the server's last line of defence is judged: the count check refuses the recipe (law "check"). *)
EXTENDS Naturals, FiniteSets, Sequences

NULL == 0
GhostIds(ng) == {100 + i : i \in 1..ng}
Rng(s) == {s[i] : i \in DOMAIN s}
\* a graph is a sequence par: par[i] = set of parents of revision i ({} = a root)
Revs(par) == 1..Len(par)
Present(par) == {NULL} \cup Revs(par)                     \* what the server's graph answers for
Parents(par, x) == IF x = NULL THEN {} ELSE IF par[x] = {} THEN {NULL} ELSE par[x]     \* x \in Present(par)

(* ---------------------------------------------------------------- the searcher (vcsgraph _BreadthFirstSearcher
   driven the way both sides drive it: next(); stop_searching_any(stop \cap returned))
   know = the keys the graph has an answer for, pf(x) = their parents. *)
RECURSIVE BfsR(_, _, _, _, _, _)
BfsR(know, pf(_), stop, frontier, seen, stopped) ==
    IF frontier = {} THEN [seen |-> seen, stopped |-> stopped]
    ELSE LET seen2 == seen \cup frontier
             active == frontier \ stop                      \* stop_searching_any removes them from the query
             found == active \cap know
             ghosts == active \ know                        \* unanswered keys are implicit stop points
             next == UNION {pf(x) : x \in found} \ seen2
         IN BfsR(know, pf, stop, next, seen2, stopped \cup (frontier \cap stop) \cup ghosts)
Bfs(know, pf(_), start, stop) ==
    LET r == BfsR(know, pf, stop, start, {}, {})
    IN [included |-> r.seen \ r.stopped, excludes |-> r.stopped]

\* recreate_search_from_recipe: walk of the server's full graph (the graph plus the ghosts filled in meanwhile, each
\* a root); the check the server then makes
ParentsS(par, filled, x) == IF x \in filled THEN {NULL} ELSE Parents(par, x)
ServerWalk(par, filled, start, stop) ==
    Bfs(Present(par) \cup filled, LAMBDA x : ParentsS(par, filled, x), start, stop).included
CountOk(walk, count) == Cardinality(walk) = count

(* ---------------------------------------------------------------- search_result_from_parent_map, transcribed
   K = the keys of the client's parent map (their values are the true parents) *)
Recipe(par, K, missing) ==
    IF K = {} THEN [start |-> {}, stop |-> {}, count |-> 0]
    ELSE LET rp == UNION {Parents(par, k) : k \in K}           \* result_parents
         IN [start |-> K \ rp,
             stop |-> (rp \ K) \ missing,
             count |-> Cardinality(K) + (IF NULL \in rp /\ NULL \in missing THEN 1 ELSE 0)]

(* ---------------------------------------------------------------- limited_search_result_from_parent_map
   (takes missing_keys too, and does not use them: every key the client's own walk cannot answer stays a stop key) *)
Children(par, K, p) == {k \in K : p \in Parents(par, k)}              \* invert_parent_map(K)[p]
RECURSIVE HeadsR(_, _, _, _, _, _)
HeadsR(par, K, current, walked, depth, heads) ==
    IF current = {} \/ depth = 0 THEN heads \cup current
    ELSE LET childless == {p \in current : Children(par, K, p) = {}}
             children == UNION {Children(par, K, p) : p \in current} \ walked
         IN HeadsR(par, K, children, walked \cup children, depth - 1, heads \cup childless)
PossibleHeads(par, K, tips, depth) == HeadsR(par, K, tips, tips, depth, {})
Limited(par, K, missing, tips, depth) ==
    IF K = {} THEN [start |-> {}, stop |-> {}, count |-> 0, keys |-> {}]
    ELSE LET heads == PossibleHeads(par, K, tips, depth)
             s == Bfs(K, LAMBDA x : Parents(par, x), heads, tips)     \* the client walks its own cache
             foundHeads == heads \cap UNION {Parents(par, x) : x \in s.included}
         IN [start |-> heads \ foundHeads, stop |-> s.excludes, count |-> Cardinality(s.included),
             keys |-> s.included]

(* ---------------------------------------------------------------- laws on OBSERVED outcomes
   c = [par (sequence of parent sequences), K, missing, kind, tips, depth, filled]
   o = [start, stop, count : what the real client function returned (after the real serialisation),
        keys : (limited) the keys the client's own walk covered,
        walk : the keys the real server-side walk included, ok : the server's count check passed] *)
SetOf(s) == Rng(s)
ParOf(c) == [i \in DOMAIN c.par |-> SetOf(c.par[i])]
Intended(c, o) == IF c.kind = "full" THEN SetOf(c.K) ELSE SetOf(o.keys)
\* the client-side guarantee is claimed for everything except the full variant under ghost filling (see above)
Guaranteed(kind, filled) == ~(kind = "full" /\ filled # {})
LawExact(c, o) == SetOf(o.walk) \ {NULL} = Intended(c, o) \ {NULL}    \* neither missing nor extra revisions
LawCount(c, o) == o.ok /\ o.count = Cardinality(SetOf(o.walk))         \* the server's count check succeeds
LawCheck(c, o) == o.ok <=> (o.count = Cardinality(SetOf(o.walk)))      \* ... and it is an exact check
LawNames == <<"exact", "count", "check">>
Law(n, c, o) == CASE n = "exact" -> Guaranteed(c.kind, SetOf(c.filled)) => LawExact(c, o)
                  [] n = "count" -> Guaranteed(c.kind, SetOf(c.filled)) => LawCount(c, o)
                  [] n = "check" -> LawCheck(c, o)
Failed(c, o) == {n \in Rng(LawNames) : ~Law(n, c, o)}

\* what the specification says the outcome is (sets)
SpecOutS(par, kind, K, missing, tips, depth, filled) ==
    LET r == IF kind = "full" THEN Recipe(par, K, missing) ELSE Limited(par, K, missing, tips, depth)
        walk == ServerWalk(par, filled, r.start, r.stop)
    IN [start |-> r.start, stop |-> r.stop, count |-> r.count, keys |-> IF kind = "full" THEN K ELSE r.keys,
        walk |-> walk, ok |-> CountOk(walk, r.count)]
SpecOut(c) == SpecOutS(ParOf(c), c.kind, SetOf(c.K), SetOf(c.missing), SetOf(c.tips), c.depth, SetOf(c.filled))
\* the property on the specification's own outcome (design check)
HoldsOn(s) == s.walk \ {NULL} = s.keys \ {NULL} /\ s.ok
SpecHolds(c) == Guaranteed(c.kind, SetOf(c.filled)) => HoldsOn(SpecOut(c))
\* observation = specification (drift)
Conforms(c, o) == LET s == SpecOut(c) IN
                  /\ SetOf(o.start) = s.start /\ SetOf(o.stop) = s.stop /\ o.count = s.count
                  /\ SetOf(o.walk) = s.walk /\ o.ok = s.ok
                  /\ (c.kind = "limited" => SetOf(o.keys) = s.keys)
                  \* the server's walk of the OBSERVED recipe is the model's walk of it
                  /\ SetOf(o.walk) = ServerWalk(ParOf(c), SetOf(c.filled), SetOf(o.start), SetOf(o.stop))
=============================================================================
