---------------------------- MODULE SearchRecipe ----------------------------
(* C33 - search recipes sent to the server describe exactly the intended revisions.

   Client (breezy/bzr/vf_search.py):  search_result_from_parent_map(K, missing) turns the client's cache K of
   get_parent_map answers into a recipe (start, stop, count); limited_search_result_from_parent_map(K, missing,
   tips, depth) does the same for the part of K within `depth` child-steps of the keys being asked about.
   Server (breezy/bzr/smart/repository.py recreate_search_from_recipe): breadth-first walk over the FULL revision
   graph from `start`, never walking past `stop`, then the count check  |walked| = count.

   Revision graph (self-contained; no shared library): revisions are 1..n, parents among smaller numbers or ghosts
   (ids > 100, referenced but absent); 0 is "null:".  A root revision has parents (null:,) in every parent map, the
   server's graph knows null: (with no parents) and therefore walks it; the client's `missing` set may contain
   null: - these facts matter, see the +1 in the client code. *)
EXTENDS Naturals, FiniteSets, Sequences

NULL == 0
GhostIds(ng) == {100 + i : i \in 1..ng}
Rng(s) == {s[i] : i \in DOMAIN s}
\* a graph is a sequence par: par[i] = set of parents of revision i ({} = a root)
Revs(par) == 1..Len(par)
Present(par) == {NULL} \cup Revs(par)                     \* what the server's graph answers for
Parents(par, x) == IF x = NULL THEN {} ELSE IF par[x] = {} THEN {NULL} ELSE par[x]     \* x \in Present(par)

(* ---------------------------------------------------------------- the searcher (vcsgraph _BreadthFirstSearcher
   driven the way both sides drive it: next(); stop_searching_any(stop \cap returned))
   know = the keys the graph has an answer for, pf(x) = their parents. *)
RECURSIVE BfsR(_, _, _, _, _, _)
BfsR(know, pf(_), stop, frontier, seen, stopped) ==
    IF frontier = {} THEN [seen |-> seen, stopped |-> stopped]
    ELSE LET seen2 == seen \cup frontier
             active == frontier \ stop                      \* stop_searching_any removes them from the query
             found == active \cap know
             ghosts == active \ know                        \* unanswered keys are implicit stop points
             next == UNION {pf(x) : x \in found} \ seen2
         IN BfsR(know, pf, stop, next, seen2, stopped \cup (frontier \cap stop) \cup ghosts)
Bfs(know, pf(_), start, stop) ==
    LET r == BfsR(know, pf, stop, start, {}, {})
    IN [included |-> r.seen \ r.stopped, excludes |-> r.stopped]

\* recreate_search_from_recipe: walk of the full graph; the check the server then makes
ServerWalk(par, start, stop) == Bfs(Present(par), LAMBDA x : Parents(par, x), start, stop).included
CountOk(walk, count) == Cardinality(walk) = count

(* ---------------------------------------------------------------- search_result_from_parent_map, transcribed
   K = the keys of the client's parent map (their values are the true parents) *)
Recipe(par, K, missing) ==
    IF K = {} THEN [start |-> {}, stop |-> {}, count |-> 0]
    ELSE LET rp == UNION {Parents(par, k) : k \in K}           \* result_parents
         IN [start |-> K \ rp,
             stop |-> (rp \ K) \ missing,
             count |-> Cardinality(K) + (IF NULL \in rp /\ NULL \in missing THEN 1 ELSE 0)]

(* ---------------------------------------------------------------- limited_search_result_from_parent_map *)
Children(par, K, p) == {k \in K : p \in Parents(par, k)}              \* invert_parent_map(K)[p]
RECURSIVE HeadsR(_, _, _, _, _, _)
HeadsR(par, K, current, walked, depth, heads) ==
    IF current = {} \/ depth = 0 THEN heads \cup current
    ELSE LET childless == {p \in current : Children(par, K, p) = {}}
             children == UNION {Children(par, K, p) : p \in current} \ walked
         IN HeadsR(par, K, children, walked \cup children, depth - 1, heads \cup childless)
PossibleHeads(par, K, tips, depth) == HeadsR(par, K, tips, tips, depth, {})
Limited(par, K, tips, depth) ==
    IF K = {} THEN [start |-> {}, stop |-> {}, count |-> 0, keys |-> {}]
    ELSE LET heads == PossibleHeads(par, K, tips, depth)
             s == Bfs(K, LAMBDA x : Parents(par, x), heads, tips)     \* the client walks its own cache
             foundHeads == heads \cap UNION {Parents(par, x) : x \in s.included}
         IN [start |-> heads \ foundHeads, stop |-> s.excludes, count |-> Cardinality(s.included),
             keys |-> s.included]

(* ---------------------------------------------------------------- laws on OBSERVED outcomes
   c = [par (sequence of parent sequences), K, missing, kind, tips, depth]
   o = [start, stop, count : what the real client function returned (after the real serialisation),
        keys : (limited) the keys the client's own walk covered,
        walk : the keys the real server-side walk included, ok : the server's count check passed] *)
SetOf(s) == Rng(s)
ParOf(c) == [i \in DOMAIN c.par |-> SetOf(c.par[i])]
Intended(c, o) == IF c.kind = "full" THEN SetOf(c.K) ELSE SetOf(o.keys)
LawExact(c, o) == SetOf(o.walk) \ {NULL} = Intended(c, o) \ {NULL}    \* neither missing nor extra revisions
LawCount(c, o) == o.ok /\ o.count = Cardinality(SetOf(o.walk))         \* the server's count check succeeds
LawNames == <<"exact", "count">>
Law(n, c, o) == CASE n = "exact" -> LawExact(c, o) [] n = "count" -> LawCount(c, o)
Failed(c, o) == {n \in Rng(LawNames) : ~Law(n, c, o)}

\* what the specification says the outcome is (sets)
SpecOutS(par, kind, K, missing, tips, depth) ==
    LET r == IF kind = "full" THEN Recipe(par, K, missing) ELSE Limited(par, K, tips, depth)
        walk == ServerWalk(par, r.start, r.stop)
    IN [start |-> r.start, stop |-> r.stop, count |-> r.count, keys |-> IF kind = "full" THEN K ELSE r.keys,
        walk |-> walk, ok |-> CountOk(walk, r.count)]
SpecOut(c) == SpecOutS(ParOf(c), c.kind, SetOf(c.K), SetOf(c.missing), SetOf(c.tips), c.depth)
\* the property on the specification's own outcome (design check)
HoldsOn(s) == s.walk \ {NULL} = s.keys \ {NULL} /\ s.ok
SpecHolds(c) == HoldsOn(SpecOut(c))
\* observation = specification (drift)
Conforms(c, o) == LET s == SpecOut(c) IN
                  /\ SetOf(o.start) = s.start /\ SetOf(o.stop) = s.stop /\ o.count = s.count
                  /\ SetOf(o.walk) = s.walk /\ o.ok = s.ok
                  /\ (c.kind = "limited" => SetOf(o.keys) = s.keys)
                  \* the server's walk of the OBSERVED recipe is the model's walk of it
                  /\ SetOf(o.walk) = ServerWalk(ParOf(c), SetOf(o.start), SetOf(o.stop))
=============================================================================
