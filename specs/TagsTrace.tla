----------------------------- MODULE TagsTrace -----------------------------
(* E3 for C24: outcomes recorded from real tag stores (BasicTags on bzr branches incl. a bound destination,
   MemoryTags, git refs) are judged by the laws of Tags; one state per recorded row.  Rows are
   [c |-> case, impl |-> observation] (see Tags.tla).  Written back: rows with failed laws (verdict) and rows
   whose observation differs from the specified outcome (drift). *)
EXTENDS Tags, TLC, Json, IOUtils
Rows == JsonDeserialize(IOEnv.VF_IN)
VARIABLE i
Init == i \in 1..Len(Rows)
Next == UNCHANGED i
Bad == SelectSeq([k \in 1..Len(Rows) |->
                    [row |-> k, failed |-> SetToSeq(Failed(Rows[k].c, Rows[k].impl)),
                     drift |-> ~Conforms(Rows[k].c, Rows[k].impl)]],
                 LAMBDA r : r.failed # <<>> \/ r.drift)
ASSUME JsonSerialize(IOEnv.VF_OUT, [n |-> Len(Rows), bad |-> Bad])
=============================================================================
