------------------------------ MODULE SmartAdd ------------------------------
(* Property C11: adding files versions exactly the intended paths.

   Bound code: breezy/bzr/inventorytree.py (MutableInventoryTree.smart_add, _SmartAddHelper.add), breezy/add.py
   (AddAction), breezy/git/workingtree.py (GitWorkingTree.smart_add), breezy/mutabletree.py.

   A case c is
     lay   the paths that exist below the tree root (closed under parents), out of Items;  "x/@" is a control
           directory (.bzr / .git) inside directory x, which makes x a nested tree; "@ign" is the tree's ignore file
     ign   the patterns in the ignore file (bzr: .bzrignore, git: .gitignore with ./d/f written /d/f)
     conf  paths with a recorded text conflict (their helpers are <path>.BASE/.THIS/.OTHER)
     pre   the paths versioned before the call (bzr: closed under parents; git: files only)
     args  the paths handed to smart_add ("." = the tree root)
     rec   recurse?

   ExpectedAdded(c) is the property's statement, declaratively; WalkAdded(c) transcribes the directory walk of the
   code.  TLC proves them equal on every generated case (SmartAddGen) and judges the recorded results of the real
   smart_add with the same text (SmartAddTrace).                                                                 *)
EXTENDS Naturals, FiniteSets, Sequences
CONSTANT Flavour          \* "bzr" | "git"

Items == {"f", "g.o", "d", "d/f", "d/g.o", "d/@", "n", "n/@", "f.THIS", "f.OTHER", "@ign"}
Par(p) == CASE p \in {"d/f", "d/g.o", "d/@"} -> "d" [] p = "n/@" -> "n" [] OTHER -> ""
IsDir(p) == p \in {"d", "n", "d/@", "n/@"}
Ctl(p) == p \in {"d/@", "n/@"}
Pats == {"*.o", "d", "./d/f", "!g.o"}
ArgPaths == {".", "d", "g.o", "d/g.o", "n"}
DirOf(a) == IF a = "." THEN "" ELSE a
Anc(p) == IF Par(p) = "" THEN {} ELSE {Par(p)}                  \* proper ancestors below the root (depth <= 2)
Kids(c, dir) == {q \in c.lay : Par(q) = dir}
Helpers(c) == IF "f" \in c.conf THEN {"f.BASE", "f.THIS", "f.OTHER"} ELSE {}     \* conflict.associated_filenames()
Nested(c, dir) == \E q \in c.lay : Par(q) = dir /\ Ctl(q)       \* holds a control directory: a tree of its own

(* ignore rules as documented for the two ignore-file syntaxes, tabulated for Items x Pats.
   bzr (breezy/globbing.py ExceptionGlobster): a pattern without "/" matches the last component, "./x" the whole
   path from the root, "!x" is an exception that wins over everything.
   git (dulwich IgnoreFilterManager as used by GitWorkingTree.is_ignored): the last matching pattern decides (file
   order: *.o, d, /d/f, !g.o) and a pattern matching a directory matches everything below it.                  *)
IgnoredB(c, p) == \/ (p \in {"g.o", "d/g.o"} /\ "*.o" \in c.ign /\ "!g.o" \notin c.ign)
                  \/ (p = "d" /\ "d" \in c.ign)
                  \/ (p = "d/f" /\ "./d/f" \in c.ign)
IgnoredG(c, p) == CASE p = "g.o" -> "*.o" \in c.ign /\ "!g.o" \notin c.ign
                    [] p = "d" -> "d" \in c.ign
                    [] p = "d/f" -> "d" \in c.ign \/ "./d/f" \in c.ign
                    [] p = "d/g.o" -> "!g.o" \notin c.ign /\ ("*.o" \in c.ign \/ "d" \in c.ign)
                    [] p = "d/@" -> "d" \in c.ign
                    [] OTHER -> FALSE
Ignored(c, p) == IF Flavour = "bzr" THEN IgnoredB(c, p) ELSE IgnoredG(c, p)

(* ------------------------------------------------------------------ the property, declaratively *)
Named(c) == c.args \ {"."}
\* named paths are always versioned, with their unversioned parents (git has no directory entries)
NamedAdded(c) == IF Flavour = "bzr" THEN (UNION {{a} \cup Anc(a) : a \in Named(c)}) \ c.pre
                 ELSE {a \in Named(c) : ~IsDir(a)} \ c.pre
Versioned0(c) == c.pre \cup NamedAdded(c)
\* does the recursive walk step over q?  ignored (bzr: only while unversioned - being versioned or named overrides
\* the ignore rule; git: always), a conflict helper, a nested tree, a control directory
Skipped(c, q) == \/ (Ignored(c, q) /\ (Flavour = "git" \/ q \notin Versioned0(c)))
                 \/ q \in Helpers(c)
                 \/ Ctl(q)
                 \/ (IsDir(q) /\ Nested(c, q))
\* p is reached from the named directory a: every step from below a down to p is not skipped; a itself is no nested tree
Reached(c, a, p) == /\ (DirOf(a) = "" \/ IsDir(a))
                    /\ (DirOf(a) = "" \/ ~Nested(c, a))
                    /\ p # DirOf(a)
                    /\ (Par(p) = DirOf(a) \/ (Par(p) # "" /\ Par(Par(p)) = DirOf(a) /\ ~Skipped(c, Par(p))))
                    /\ ~Skipped(c, p)
RecAdded(c) == IF ~c.rec THEN {}
               ELSE {p \in c.lay \ Versioned0(c) : (\E a \in c.args : Reached(c, a, p)) /\ (Flavour = "git" => ~IsDir(p))}
ExpectedAdded(c) == NamedAdded(c) \cup RecAdded(c)

(* ------------------------------------------------------------------ the walk of the code, transcribed *)
RECURSIVE VisitB(_, _, _), VisitG(_, _)
\* _SmartAddHelper.add: one (directory, this_ie) work item; V = what is versioned or scheduled so far
ChildB(c, V, q) ==
    IF q \in V THEN (IF q \in Helpers(c) THEN {} ELSE IF IsDir(q) THEN VisitB(c, V, q) ELSE {})
    ELSE IF IgnoredB(c, q) THEN {}
    ELSE IF q \in Helpers(c) THEN {}
    ELSE IF IsDir(q) /\ Nested(c, q) THEN {}
    ELSE {q} \cup (IF IsDir(q) THEN VisitB(c, V \cup {q}, q) ELSE {})
VisitB(c, V, dir) == IF dir # "" /\ Nested(c, dir) THEN {} ELSE UNION {ChildB(c, V, q) : q \in Kids(c, dir)}
\* GitWorkingTree.smart_add: user_dirs work list
ChildG(c, q) == IF IgnoredG(c, q) THEN {}
                ELSE IF IsDir(q) THEN VisitG(c, q)
                ELSE IF q \in c.pre \/ q \in Helpers(c) THEN {} ELSE {q}
VisitG(c, dir) == IF dir # "" /\ Nested(c, dir) THEN {} ELSE UNION {ChildG(c, q) : q \in Kids(c, dir)}
StartDirs(c) == {DirOf(a) : a \in {x \in c.args : x = "." \/ IsDir(x)}}
WalkAdded(c) == NamedAdded(c) \cup
                (IF ~c.rec THEN {}
                 ELSE IF Flavour = "bzr" THEN UNION {VisitB(c, Versioned0(c), dir) : dir \in StartDirs(c)}
                 ELSE UNION {VisitG(c, dir) : dir \in StartDirs(c)} \ NamedAdded(c))

(* ------------------------------------------------------------------ the law on an observed result
   o.before / o.after : versioned paths before / after the call (sequences; git: files only)
   o.changed          : already-versioned paths whose entry (identity, kind) differs afterwards
   o.err              : class of the exception smart_add raised, "" if none                              *)
Range(s) == {s[i] : i \in DOMAIN s}
LawNoError(c, o) == o.err = ""
LawExactlyExpected(c, o) == Range(o.after) = Range(o.before) \cup ExpectedAdded(c)
LawOldUnchanged(c, o) == o.changed = <<>>
LawNames == <<"no-error", "exactly-expected", "old-unchanged">>
Law(n, c, o) == CASE n = "no-error" -> LawNoError(c, o) [] n = "exactly-expected" -> LawExactlyExpected(c, o)
                  [] n = "old-unchanged" -> LawOldUnchanged(c, o)
Failed(c, o) == {n \in Range(LawNames) : ~Law(n, c, o)}
\* how the result deviates (for narrow violation signatures)
Extra(c, o) == Range(o.after) \ (Range(o.before) \cup ExpectedAdded(c))
Missing(c, o) == (Range(o.before) \cup ExpectedAdded(c)) \ Range(o.after)
\* what kind of path deviates
Role(c, p) == IF p \notin Items THEN "unknown-path"
              ELSE IF p \in Named(c) THEN "named"
              ELSE IF \E a \in Named(c) : p \in Anc(a) THEN "parent-of-named"
              ELSE IF Ctl(p) THEN "control-dir"
              ELSE IF p \in Helpers(c) THEN "conflict-helper"
              ELSE IF IsDir(p) /\ Nested(c, p) THEN "nested-tree"
              ELSE IF Par(p) # "" /\ Nested(c, Par(p)) THEN "in-nested-tree"
              ELSE IF Ignored(c, p) THEN "ignored"
              ELSE IF Par(p) # "" /\ Ignored(c, Par(p)) THEN "in-ignored-dir"
              ELSE IF p \in c.pre THEN "versioned" ELSE "plain"
\* the harness set the case up as specified (conformance)
SetupOK(c, o) == Range(o.before) = c.pre
=============================================================================
