------------------------------ MODULE Layouts ------------------------------
(* Control-directory layouts and the operations that move a location between them
   (breezy/reconfigure.py Reconfigure.to_tree / to_branch / to_checkout / to_lightweight_checkout / to_use_shared /
   to_standalone + apply; breezy/upgrade.py upgrade; breezy/bzr/bzrdir.py ConvertMetaToMeta, ConvertMetaToColo) - C52:
   every such operation preserves the branch tip, revno, every revision's testament, the tags and - where the
   layout has a working tree - the tree's content and pending changes.

   A layout is [tree, br, repo, above, fmt, mfmt, sfmt, dirty, sync, pre, km, pure]:
     tree  : the location has a working tree
     br    : "local" (own branch) | "bound" (own branch bound to the master = heavy checkout) | "ref" (branch reference to
             the master = lightweight checkout)
     repo  : "own" | "shared" (the enclosing shared repository) | "none" (lightweight checkout) | "unused" (a
             lightweight checkout that was made `standalone`: an own repository nothing points to)
     above : the location sits inside a shared repository; sfmt its format ("none" otherwise)
     fmt   : format of the location's control directory;  dirty : the working tree has pending changes (and a pending merge)
     sync  : the master's tip is the same as / ahead of / behind / diverged from the location's own tip
     pre   : the enclosing shared repository already holds the tip's ancestry
   The usual names: standalone tree = [T, local, own]; branch = [F, local, own]; checkout = [T, bound, own];
   lightweight checkout = [T, ref, none]; tree / branch in a shared repository = [T/F, local, shared].

   The CONTENT is one abstract value that no action touches, except its `refs` component (see DropsOffMainline): the
   model is a channel.  What the
   model adds is the layout algebra: which operation is refused where, and which components exist afterwards. *)
EXTENDS LayoutAlgebra
CONSTANTS MaxSteps, InitFormats

VARIABLES lay, content, last, steps,
          drops      \* the last step was one DropsOffMainline names
vars == <<lay, content, last, steps, drops>>
\* refs: the revisions outside the tip's ancestry that a tag / a pending merge names are available at the location
Content0 == [tip |-> "tip", revno |-> "n", testaments |-> "T", tags |-> "G", basis |-> "tip", refs |-> "present"]
InitLayouts == {l \in [tree : BOOLEAN, br : {"local", "bound", "ref"}, repo : {"own", "shared", "none"}, above : BOOLEAN,
                       fmt : InitFormats, mfmt : InitFormats, sfmt : InitFormats \cup {"none"}, dirty : BOOLEAN,
                       sync : Syncs, pre : BOOLEAN, km : {TRUE}, pure : {TRUE}] :
                    ValidLayout(l) /\ (l.above => l.sfmt = l.fmt) /\ l.mfmt = l.fmt /\ (l.pre => l.repo = "own")}
Init == lay \in InitLayouts /\ content = Content0 /\ last = "none" /\ steps = 0 /\ drops = FALSE
Do(p, d) == /\ steps < MaxSteps /\ steps' = steps + 1 /\ last # "diverges"
            /\ lay' = p.lay /\ last' = p.out /\ drops' = d
            /\ content' = IF d THEN [content EXCEPT !.refs = "absent"] ELSE content
\* (the leading conjunct keeps the action's own name and argument on the edges of the dumped state graph)
Reconfigure(k) == k \in Targets /\ Do(Impure(Plan(lay, k)), DropsOffMainline(lay, k))
\* C52 is about going to the same or a NEWER format; attempts to go back are not explored
Upgrade(f) == Rank(f) >= Rank(lay.fmt) /\ Do(PlanUpgrade(lay, f), FALSE)
UpgradeShared(f) == lay.above /\ Rank(f) >= Rank(lay.sfmt) /\ Do(PlanUpgradeShared(lay, f), FALSE)
Next == (\E k \in Targets : Reconfigure(k)) \/ (\E f \in Formats : Upgrade(f) \/ UpgradeShared(f))
Spec == Init /\ [][Next]_vars

LayoutOK == ValidLayout(lay)
\* tip, revno, testaments of the ancestry, tags and the tree basis: never touched by any planned operation
ContentPreserved == [content EXCEPT !.refs = "present"] = Content0
\* the off-mainline revisions are only ever lost by the operations DropsOffMainline names (the implementation-shaped
\* model DOES lose them there: ReferencedKept is violated, which is what the recorded findings are about)
DropsOnlyWhereNamed == [][content'.refs # content.refs => \E k \in Targets : DropsOffMainline(lay, k) /\ lay' = Impure(Plan(lay, k)).lay]_vars
ReferencedKept == content.refs = "present"
\* the tip of a location only goes away (branch turned into a reference) when the master has the very same tip
TipNeverJumps == [][(lay.br # "ref" /\ lay'.br = "ref") => lay.sync = "same"]_vars
\* a tree that survives keeps its pending changes; a tree that is created is clean; a refusal changes nothing
PendingKept == [][(lay.tree /\ lay'.tree) => lay'.dirty = lay.dirty]_vars
CreatedClean == [][(~lay.tree /\ lay'.tree) => ~lay'.dirty]_vars
\* (UpgradeShared may have converted the shared repository before one of its branches refuses,
\* and to_checkout without a bind location leaves the working tree it has already created)
RefusalIsNoop == [][(last' \in {"already", "refused", "diverges"}) =>
                       \/ [lay' EXCEPT !.sfmt = lay.sfmt, !.pure = lay.pure] = lay
                       \/ (~lay.km /\ ~lay.tree /\ lay' = [lay EXCEPT !.tree = TRUE, !.pure = FALSE])]_vars
\* pending changes are never silently dropped: a dirty tree is only ever kept
NeverDropsPending == [][lay.dirty => lay'.dirty]_vars
\* anti-vacuity
WitnessRoundTrip == ~(steps = 2 /\ lay.dirty /\ lay.br = "ref" /\ last = "ok")
WitnessUnused == ~(lay.repo = "unused")
WitnessUpgradedShared == ~(steps = 2 /\ lay.repo = "shared" /\ lay.fmt = "2a" /\ lay.sfmt = "2a" /\ "2a" \notin InitFormats)
=============================================================================
