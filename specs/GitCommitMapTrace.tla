------------------------ MODULE GitCommitMapTrace ------------------------
(* C34, code -> spec: rows recorded from the real import_commit / export_commit are judged by the laws of
   GitCommitMap (verdict) and compared with the transcription (drift). *)
EXTENDS GitCommitMap, TLC, Json, IOUtils, SequencesExt
Rows == JsonDeserialize(IOEnv.VF_IN)
VARIABLE i
Init == i \in 1..Len(Rows)
Next == UNCHANGED i
Bad == SelectSeq([k \in 1..Len(Rows) |->
                    [row |-> k, failed |-> SetToSeq(Failed(Rows[k].c, Rows[k].impl)),
                     drift |-> ~Conforms(Rows[k].c, Rows[k].impl)]],
                 LAMBDA r : r.failed # <<>> \/ r.drift)
ASSUME JsonSerialize(IOEnv.VF_OUT, [n |-> Len(Rows), bad |-> Bad])
=============================================================================
