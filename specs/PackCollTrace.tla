---------------------------- MODULE PackCollTrace ----------------------------
(* Trace validation for PackColl.  Executions of real pack repositories (2-3 processes single-stepped through their
   boundary transport operations by the deterministic scheduler, random and TLC-seeded schedules, crashes) are read
   from JSON.  Each event must be an instance of the corresponding PackColl action by that process, leading to
   exactly the recorded directory projection (pack-names content, packs/, indices/, obsolete_packs/).  The autopack
   plan (`chosen`) and the set written to pack-names are taken from the recording; per-process memory (mem, atLoad),
   committed data and the latched clause violations are inferred by the spec.  Invariants are latched into `tviol`
   so that one bad trace does not stop the batch; a fully consumed trace prints one ACCEPT line. *)
EXTENDS PackColl, Json, IOUtils, TLCExt
Traces == JsonDeserialize(IOEnv.VF_IN)
VARIABLES tid, l, tviol
tvars == <<vars, tid, l, tviol>>
SeqToSet(s) == {s[i] : i \in DOMAIN s}
Evs == Traces[tid].events
StateInvs == {"ListedPresent", "NoLoss", "VisibleWhole"}
Holds(n) == CASE n = "ListedPresent" -> ListedPresent [] n = "NoLoss" -> NoLoss [] n = "VisibleWhole" -> VisibleWhole
TraceInit == Init /\ tid \in 1..Len(Traces) /\ l = 1 /\ tviol = {}

Stutter == UNCHANGED vars
\* EndPack(p) . Load(p) as one step (there is no transport operation between two pack() calls)
EndPackThenLoad(p) ==
  /\ alive[p] /\ done[p] + 1 < MaxCommits
  /\ done' = [done EXCEPT ![p] = @ + 1]
  /\ mem' = [mem EXCEPT ![p] = namesFile] /\ atLoad' = [atLoad EXCEPT ![p] = namesFile]
  /\ pc' = [pc EXCEPT ![p] = "write"]
  /\ UNCHANGED <<namesFile, packsDir, idxDir, obsDir, content, nextId, lock, newp, obs, alive, committed, crashes, viol>>
Step(e) ==
  LET p == e.p IN
  CASE e.kind = "read_names" ->
         IF e.locked THEN Stutter
         ELSE IF pc[p] = "idle" THEN Load(p)
         ELSE IF pc[p] = "tip" /\ newp[p] = NoPack THEN EndPackThenLoad(p)     \* next pack() of the same process
         ELSE Refresh(p)
    [] e.kind = "publish" ->
         /\ e.id = nextId
         /\ IF e.auto THEN PackOk(p, SeqToSet(e.chosen)) /\ content'[e.id] = SeqToSet(e.keys)
                      ELSE Publish(p, SeqToSet(e.keys))
    [] e.kind = "lock"      -> IF e.ok THEN LockNames(p) ELSE Stutter
    [] e.kind = "put_names" -> PutNames(p, SeqToSet(e.names))
    [] e.kind = "clear"     -> ClearObsolete(p)
    [] e.kind = "unlock"    -> UnlockNames(p)
    [] e.kind = "obs_pack"  -> ObsoletePack(p, e.id)
    [] e.kind = "obs_idx"   -> ObsoleteIdx(p, e.id)
    [] e.kind = "tip"       -> SetTip(p) /\ SeqToSet(<<e.key>>) \subseteq committed'
    [] e.kind = "read_pack" -> Stutter          \* only failed reads are recorded; the reload follows as read_names
    [] e.kind = "finish"    -> IF p \in Readers /\ pc[p] = "read" THEN ReaderDone(p)
                               ELSE IF pc[p] = "tip" /\ newp[p] = NoPack THEN EndPack(p) ELSE Stutter
    [] e.kind = "packed"    -> EndPack(p)
    [] e.kind = "crash"     -> Crash(p)

Consume ==
  /\ l <= Len(Evs)
  /\ LET e == Evs[l] IN
     /\ Step(e)
     /\ namesFile' = SeqToSet(e.names) /\ packsDir' = SeqToSet(e.packs) /\ idxDir' = SeqToSet(e.idx)
     /\ obsDir' = SeqToSet(e.obs)
  /\ l' = l + 1 /\ tid' = tid
  /\ tviol' = tviol \cup {n \in StateInvs : ~Holds(n)'} \cup viol'
Finish ==
  /\ l = Len(Evs) + 1
  /\ PrintT(<<"ACCEPT", tid, tviol>>)
  /\ l' = l + 1 /\ UNCHANGED <<vars, tid, tviol>>
TraceNext == Consume \/ Finish
TraceSpec == TraceInit /\ [][TraceNext]_tvars
Progress == PrintT(<<"AT", tid, l>>)
=============================================================================
