--------------------------- MODULE SmartProtoGen ---------------------------
(* E1 + E2 for C29 / C30.
   E1: every (shape, target) is one initial state; Next delivers any number of bytes (every partial-read pattern,
       including every hint-limited "short read" pattern); TLC checks the C30 invariants on the transcribed
       next_read_size (Hint <= Remaining, Hint > 0 while incomplete, completion exactly at the end, trailing bytes
       = unused) over all of them.
   E2: for every case TLC enumerates segmentations of message + trailing bytes into reads: ALL compositions when
       the stream is short (<= AllMax cut positions), otherwise one or two cuts chosen on / around the part
       boundaries (token ends and the end of each 4-byte length prefix, +- a radius), plus no cut, byte-by-byte and
       cut-at-every-boundary; exported as JSON with the part structure the harness checks real encoder output
       against. *)
EXTENDS SmartProto, TLC, Json, IOUtils, SequencesExt, FiniteSetsExt
CONSTANTS Tier,         \* "quick" | "thorough": selects the bounds below (cfg files cannot hold tuples)
          VerLen        \* len(breezy.__version__): the v3 responder always sends {"Software version": <version>}
Q == Tier = "quick"
ArgLists == IF Q THEN {<<2>>, <<1, 0, 3>>} ELSE {<<1>>, <<5, 0>>, <<0, 12, 1, 2>>}       \* argument-length lists
Arg0 == IF Q THEN <<2>> ELSE <<1>>     \* used for the bare body-decoder targets (their input has no args)
HdrLists == IF Q THEN {<<>>, <<<<3, 1>>>>} ELSE {<<>>, <<<<16, 5>>, <<0, 0>>>>}          \* v3 request headers <<klen, vlen>>
RespHdr == <<<<16, VerLen>>>>
BodyLens == IF Q THEN {0, 3} ELSE {0, 1, 10, 123}
OffLists == IF Q THEN {<<<<0, 10>>>>, <<<<0, 1>>, <<20, 300>>>>}
            ELSE {<<>>, <<<<0, 1>>, <<20, 300>>>>, <<<<7, 0>>, <<1000, 65536>>, <<5, 5>>>>}
ChunkLists == IF Q THEN {<<>>, <<2, 0, 1>>, <<17>>} ELSE {<<>>, <<0>>, <<1>>, <<2, 0, 1>>, <<17>>, <<4, 5, 16>>}
ErrLists == IF Q THEN {<<3>>, <<5, 0>>} ELSE {<<3>>, <<0>>, <<10, 1, 17>>}
Trails == IF Q THEN {0, 2} ELSE {0, 3}
V1ErrArgs == <<10, 1>>      \* v1 error responses are recognised by their first argument (a 10-byte code here)
AllMax == IF Q THEN 9 ELSE 11           \* all compositions when the stream has at most AllMax cut positions
RadOne == IF Q THEN 1 ELSE 4            \* single cuts: within this distance of a part boundary
PairWide == 30                          \* thorough: streams up to this length get all pairs of cuts within 1 of a boundary,
                                        \* longer ones all pairs of boundary cuts; quick: pairs isolating one part (AdjPairs)
Triples == FALSE                        \* triples of boundary cuts (off: the row budget goes to more shapes)

Base(v, d, h, a, t) == [ver |-> v, dir |-> d, hdr |-> h, args |-> a, kind |-> "none", n |-> 0, offs |-> <<>>,
                        cs |-> <<>>, err |-> <<>>, trail |-> t]
Streams(b) == b.ver = 3 \/ (b.ver = 2 /\ b.dir = "resp")
Kinds(b) ==
    {b} \cup {[b EXCEPT !.kind = "bytes", !.n = n] : n \in BodyLens}
    \cup (IF b.dir = "req" THEN {[b EXCEPT !.kind = "readv", !.offs = o] : o \in OffLists} ELSE {})
    \cup (IF Streams(b)
          THEN {[b EXCEPT !.kind = "stream", !.cs = c] : c \in ChunkLists}
               \cup {[b EXCEPT !.kind = "streamerr", !.cs = c, !.err = e] :
                        c \in ChunkLists, e \in (IF b.dir = "req" THEN {<<5>>} ELSE ErrLists)}   \* requester sends ("error",)
          ELSE {})
    \cup (IF b.dir = "resp" THEN {[b EXCEPT !.kind = "error", !.args = IF b.ver = 1 THEN V1ErrArgs ELSE b.args]} ELSE {})
Hdrs(v, d) == IF v = 3 THEN (IF d = "req" THEN HdrLists ELSE {RespHdr}) ELSE {<<>>}
BaseSet == UNION {{Base(v, d, h, a, t) : h \in Hdrs(v, d), a \in ArgLists, t \in Trails} : v \in 1..3, d \in {"req", "resp"}}
Shapes == UNION {Kinds(b) : b \in BaseSet}
MkCase(s, tg) == LET v == View(s, tg) IN [s |-> s, tg |-> tg, toks |-> v, need |-> Needs(v), len |-> Total(v), stream |-> Total(v) + s.trail]
Cases == UNION {{MkCase(s, tg) : tg \in {x \in Targets(s) : x \in {"lp", "chunked"} => s.args = Arg0}} : s \in Shapes}
CaseSeq == SetToSeq(Cases)      \* evaluated once per TLC run; states carry only the index

\* ---------------------------------------------------------------- E1
VARIABLES ci, st
c == CaseSeq[ci]
Init == ci \in 1..Len(CaseSeq) /\ st = InitSt
Next == \E k \in 0..(c.stream - st.pos) :
            /\ (k > 0 \/ st.fresh)                  \* accept_bytes(b"") happens once, before the first byte (medium)
            /\ st' = AcceptN(c.need, st, k) /\ ci' = ci
H == Hint(c.toks, c.tg, st)
D == Done(c.toks, st)
HintLeRemaining == ~D => H <= Remaining(c.toks, st)
HintPositive == ~D => H > 0
DoneExact == D <=> st.pos >= c.len
DoneHint == D => H = EndHint(c.tg)
UnusedIsTrailing == D => Unused(c.toks, st) = st.pos - c.len
ShapesValid == ValidShape(c.s) /\ c.tg \in Targets(c.s) /\ Len(c.toks) >= 1 /\ c.len = Total(c.toks)
LawsHoldOnSpec == ShapesValid /\ HintLeRemaining /\ HintPositive /\ DoneExact /\ DoneHint /\ UnusedIsTrailing
\* anti-vacuity witnesses: TLC must reach these states (as invariants they must be VIOLATED: thorough tier; and the
\* ASSUME below makes every run of this module fail if one of them is unreachable - one TLC start instead of five)
Wit(w, k, s) ==
    LET d == Done(k.toks, s)
        h == Hint(k.toks, k.tg, s)
    IN CASE w = "SplitPrefix" -> ~d /\ Phase(k.toks, s) = "lp" /\ s.buf \in 1..3           \* a 4-byte length prefix cut by a read
         [] w = "Tight" -> ~d /\ s.pos > 0 /\ h > 1 /\ h = Remaining(k.toks, s)            \* hint = all that remains: +1 would block
         [] w = "Trailing" -> d /\ Unused(k.toks, s) > 0                                   \* bytes of the next message delivered
         [] w = "PartialChunk" -> ~d /\ Phase(k.toks, s) = "cbody" /\ s.buf > 0
         [] w = "PartialTrailer" -> ~d /\ Phase(k.toks, s) = "lptrail" /\ s.buf > 0
WitnessNames == {"SplitPrefix", "Tight", "Trailing", "PartialChunk", "PartialTrailer"}
WitnessSplitPrefix == ~Wit("SplitPrefix", c, st)
WitnessTight == ~Wit("Tight", c, st)
WitnessTrailing == ~Wit("Trailing", c, st)
WitnessPartialChunk == ~Wit("PartialChunk", c, st)
WitnessPartialTrailer == ~Wit("PartialTrailer", c, st)
\* every state is one Accept away from Init (Next allows any k), so reachability can be evaluated directly
WitnessesReached == \A w \in WitnessNames : \E j \in 1..Len(CaseSeq) : \E p \in 1..CaseSeq[j].stream :
                        Wit(w, CaseSeq[j], AcceptN(CaseSeq[j].need, InitSt, p))
ASSUME WitnessesReached

\* ---------------------------------------------------------------- E2
Pre(toks, i) == Total(SubSeq(toks, 1, i))
Boundaries(toks) == {Pre(toks, i) : i \in DOMAIN toks} \cup {Pre(toks, i - 1) + 4 : i \in {j \in DOMAIN toks : toks[j].t = "lp"}}
\* cut sets are exported as ascending sequences of cut positions
Lt(a, b) == a < b
Asc(S) == SetToSortSeq(S, Lt)
\* two cuts that isolate exactly one part (or one length prefix / one payload) in a read of its own
AdjPairs(B) == {y \in B \X B : y[1] < y[2] /\ ~\E m \in B : y[1] < m /\ m < y[2]}
Pairs(C) == {y \in C \X C : y[1] < y[2]}
Cuts(k) ==
    LET T == k.stream
        P == 1..(T - 1)
        BB == Boundaries(k.toks)
        B == BB \cap P
        Cand(r) == {p \in P : \E b \in BB : p + r >= b /\ p <= b + r}
    IN IF T - 1 <= AllMax THEN {Asc(x) : x \in SUBSET P}
       ELSE {<<>>, Asc(P), Asc(B)} \cup {<<a>> : a \in Cand(RadOne)}
            \cup (IF Q THEN AdjPairs(B) ELSE Pairs(Cand(IF T <= PairWide THEN 1 ELSE 0)))
            \cup (IF Triples THEN {y \in B \X B \X B : y[1] < y[2] /\ y[2] < y[3]} ELSE {})
ExportCase(k) == [s |-> k.s, tg |-> k.tg, toks |-> k.toks, wire |-> Wire(k.s), len |-> k.len,
                  skip |-> Total(Wire(k.s)) - k.len, modes |-> SetToSeq(Modes(k.s, k.tg)),
                  cuts |-> SetToSeq(Cuts(k))]
Export == JsonSerialize(IOEnv.VF_OUT, [j \in 1..Len(CaseSeq) |-> ExportCase(CaseSeq[j])])
ASSUME IF "VF_OUT" \in DOMAIN IOEnv THEN Export ELSE TRUE
=============================================================================
