--------------------------- MODULE ConflictsTrace ---------------------------
(* E3 for C20: what a re-opened real working tree returned (conflicts(), merge_modified()) and what the real
   select_conflicts / resolve did is judged by the laws of Conflicts; one state per recorded row. *)
EXTENDS Conflicts, TLC, Json, IOUtils
Rows == JsonDeserialize(IOEnv.VF_IN)
VARIABLE i
Init == i \in 1..Len(Rows)
Next == UNCHANGED i
Bad == SelectSeq([k \in 1..Len(Rows) |->
                    [row |-> k, failed |-> SetToSeq(Failed(Rows[k].c, Rows[k].impl)),
                     drift |-> ~Conforms(Rows[k].c, Rows[k].impl)]],
                 LAMBDA r : r.failed # <<>> \/ r.drift)
ASSUME JsonSerialize(IOEnv.VF_OUT, [n |-> Len(Rows), bad |-> Bad])
=============================================================================
