-------------------------- MODULE PatchApplyTrace --------------------------
(* E3 for C39: what the real internal_diff / parse_patches / as_bytes / stats_values / iter_patched /
   iter_patched_from_hunks produced for every case is judged by the laws of PatchApply: the recorded hunks are
   run through the transcribed patcher to decide which perturbed texts must be conflicts. *)
EXTENDS PatchApply, TLC, Json, IOUtils, SequencesExt
Rows == JsonDeserialize(IOEnv.VF_IN)
VARIABLE i
Init == i \in 1..Len(Rows)
Next == UNCHANGED i
Bad == SelectSeq([k \in 1..Len(Rows) |->
                    LET v == Verdict(Rows[k].c, Rows[k].impl) IN
                    [row |-> k, failed |-> SetToSeq(v.failed), drift |-> v.drift]],
                 LAMBDA r : r.failed # <<>> \/ r.drift)
ASSUME JsonSerialize(IOEnv.VF_OUT, [n |-> Len(Rows), bad |-> Bad])
=============================================================================
