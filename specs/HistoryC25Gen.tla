---------------------------- MODULE HistoryC25Gen ----------------------------
(* E1 + E2 for C25: every branch (graph, tip) of the bounded universe is one initial state.  The merge-sorted order
   and dotted numbers are not specified, so the design checks concern the view operators themselves: on every
   depth-labelled listing that has the shape of a merge-sorted listing of the branch (mainline rows of depth 0 in
   left-hand order, each followed by the revisions it merged at depth 1), reverse_by_depth is a permutation that
   reverses the mainline and keeps every merged revision behind the revision that merged it, applying it twice is
   the identity, and _rebase_merge_depth leaves a listing that starts or ends on the mainline unchanged; the file
   content model is well-defined (a touched file is present, the closure is a fixpoint) and predicts at least
   the touching mainline revisions.
   Exported per case: the files (touch closure -> version function) and the log requests as tuples
   <<dir, levels, limit, a, b, file, deltas>>. *)
EXTENDS HistoryGenLib, Json, IOUtils
Cases == {[par |-> x[1], t |-> x[2]] : x \in Branches}
\* one initial state per graph (cheap), its cases as successor states: TLC's workers share the law evaluation
VARIABLE c
Init == c \in {[par |-> P, t |-> -1] : P \in Graphs2}
Next == c.t = -1 /\ c' \in {[par |-> c.par, t |-> t] : t \in TipsOf(c.par)}
IsCase == c.t # -1
\* a listing shaped like merge-sort output: newest mainline first, merged revisions (any order) at depth 1
RECURSIVE Flat(_, _)
Flat(P, lh) == IF lh = <<>> THEN <<>>
               ELSE LET m == lh[Len(lh)]
                        merged == SetToSeq(MergedByF(P, m))
                    IN <<Row(m, <<Len(lh)>>, 0)>> \o [k \in DOMAIN merged |-> Row(merged[k], <<0, 1, merged[k]>>, 1)]
                       \o Flat(P, SubSeq(lh, 1, Len(lh) - 1))
Closures(P) == {TouchClosure(P, T) : T \in {U \in SUBSET DOMAIN P : SingleOrigin(P, U)}}
\* long graphs: three touch sets instead of all 2^n
LongTouch(P) == {T \in {{1}, {r \in DOMAIN P : r % 3 = 0}, {Len(P) \div 2}} : SingleOrigin(P, T)}
Files(P) == SetToSeq({VerOf(P, T) : T \in IF IsLong(P) THEN LongTouch(P) ELSE Closures(P)} \ {[k \in DOMAIN P |-> Null]})
LawsHoldOnSpec == IsCase =>
    LET P == c.par
        lh == LeftHand(P, c.t)
        rows == Flat(P, lh)
        fwd == ReverseByDepth(rows)
        main(rs) == SelectSeq(rs, LAMBDA x : x.d = 0)
        pos(rs, r) == CHOOSE k \in DOMAIN rs : rs[k].r = r
    IN /\ RowRevs(rows) = Anc0(P, c.t) /\ EachOnce(rows)
       /\ RowRevs(fwd) = RowRevs(rows) /\ Len(fwd) = Len(rows)
       /\ main(fwd) = RevSeq(main(rows))
       /\ ReverseByDepth(fwd) = rows
       /\ RebaseDepth(fwd) = fwd /\ Forward(rows) = fwd
       /\ \A k \in DOMAIN lh : \A x \in MergedByF(P, lh[k]) :
             /\ pos(fwd, x) > pos(fwd, lh[k])
             /\ (k < Len(lh) => pos(fwd, x) < pos(fwd, lh[k + 1]))
       /\ RangeRevs(P, c.t, 1, Len(lh)) = Anc0(P, c.t)
       /\ \A T \in IF IsLong(P) THEN LongTouch(P) ELSE SUBSET DOMAIN P :
             LET C == TouchClosure(P, T)
                 v == VerOf(P, C)
             IN /\ TouchClosure(P, C) = C /\ v = VerOf(P, T)
                /\ \A r \in DOMAIN P : (v[r] = r) = (r \in C)
                /\ \A r \in DOMAIN P : v[r] # Null => v[r] \in C \cap Anc0(P, r)
                /\ \A m \in SeqRange(lh) \cap C : \E k \in DOMAIN FileMainline(P, c.t, v) : FileMainline(P, c.t, v)[k] = m
WNestedMerge(x) == \E r \in Anc0(x.par, x.t) \ LeftSet(x.par, x.t) : IsMerge(x.par, r)
WCarriedOver(x) == \E T \in SUBSET DOMAIN x.par : \E m \in LeftSet(x.par, x.t) \ TouchClosure(x.par, T) :
                          IsMerge(x.par, m) /\ VerOf(x.par, T)[m] # Null /\ VerOf(x.par, T)[m] # VerOf(x.par, T)[x.par[m][1]]
Dirs == {"reverse", "forward"}
\* range ends: all mainline numbers, or for a long mainline both ends, the quarter and the middle
RangeEnds(n) == IF n <= 8 THEN 1..n ELSE {1, 2, n \div 4, n \div 2, n - 1, n}
ReqsOf(P, t) ==
    LET n == RevnoOf(P, t)
        E == RangeEnds(n)
    IN {Req(dr, lv, 0, 0, 0, 0, TRUE) : dr \in Dirs, lv \in {0, 1, 2}}
       \cup {Req(dr, lv, lim, 0, 0, 0, TRUE) : dr \in Dirs, lv \in {0, 1}, lim \in {1, 2}}
       \cup {Req(dr, lv, 0, a, b, 0, TRUE) : dr \in Dirs, lv \in {0, 1, 2}, a \in E, b \in E}
       \cup {Req(dr, 0, 2, a, b, 0, TRUE) : dr \in Dirs, a \in E, b \in E}
\* file requests (a file index, both matching algorithms, both directions, levels 0 and 1) are added by the harness
\* for the files it samples from `files`
ReqTuple(q) == <<q.dir, q.levels, q.limit, q.a, q.b, q.file, B2N(q.deltas)>>
CaseRow(x) == LET fs == Files(x.par)
              IN [c |-> x, files |-> fs,
                  reqs |-> SetToSeq({ReqTuple(q) : q \in {r \in ReqsOf(x.par, x.t) : r.a <= r.b}})]
\* anti-vacuity: each of these must be reached by some case (checked in the export run: VF_WITNESSES)
WitnessesReached ==
    /\ \E x \in SmallOnly(Cases) : WNestedMerge(x)
    /\ \E x \in SmallOnly(Cases) : WCarriedOver(x)
Export == JsonSerialize(IOEnv.VF_OUT, SetToSeq({CaseRow(x) : x \in Picked(Cases)}))
ASSUME IF "VF_OUT" \in DOMAIN IOEnv THEN Export ELSE TRUE
ASSUME IF "VF_WITNESSES" \in DOMAIN IOEnv THEN WitnessesReached ELSE TRUE
=============================================================================
