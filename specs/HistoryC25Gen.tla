---------------------------- MODULE HistoryC25Gen ----------------------------
(* E1 + E2 for C25: every branch (graph, tip) of the bounded universe is one initial state.  The merge-sorted order
   and dotted numbers are not specified, so the design checks concern the view operators themselves: on every
   depth-labelled listing that has the shape of a merge-sorted listing of the branch (mainline rows of depth 0 in
   left-hand order, each followed by the revisions it merged at depth 1), reverse_by_depth is a permutation that
   reverses the mainline and keeps every merged revision behind the revision that merged it, applying it twice is
   the identity, and _rebase_merge_depth leaves a listing that starts or ends on the mainline unchanged; the file
   content model is well-defined (a touched file is present, the closure is a fixpoint) and predicts at least
   the touching mainline revisions.
   Exported per case: the files (touch closure -> version function) and the log requests as tuples
   <<dir, levels, limit, a, b, file, deltas>>. *)
EXTENDS HistoryGenLib, Json, IOUtils
Cases == {[par |-> x[1], t |-> x[2]] : x \in Branches}
VARIABLE c
Init == c \in Cases
Next == UNCHANGED c
\* a listing shaped like merge-sort output: newest mainline first, merged revisions (any order) at depth 1
RECURSIVE Flat(_, _)
Flat(P, lh) == IF lh = <<>> THEN <<>>
               ELSE LET m == lh[Len(lh)]
                        merged == SetToSeq(MergedByF(P, m))
                    IN <<Row(m, <<Len(lh)>>, 0)>> \o [k \in DOMAIN merged |-> Row(merged[k], <<0, 1, merged[k]>>, 1)]
                       \o Flat(P, SubSeq(lh, 1, Len(lh) - 1))
Closures(P) == {TouchClosure(P, T) : T \in SUBSET DOMAIN P}
Files(P) == SetToSeq({VerOf(P, T) : T \in Closures(P)} \ {[k \in DOMAIN P |-> Null]})
LawsHoldOnSpec ==
    LET P == c.par
        lh == LeftHand(P, c.t)
        rows == Flat(P, lh)
        fwd == ReverseByDepth(rows)
        main(rs) == SelectSeq(rs, LAMBDA x : x.d = 0)
        pos(rs, r) == CHOOSE k \in DOMAIN rs : rs[k].r = r
    IN /\ RowRevs(rows) = Anc0(P, c.t) /\ EachOnce(rows)
       /\ RowRevs(fwd) = RowRevs(rows) /\ Len(fwd) = Len(rows)
       /\ main(fwd) = RevSeq(main(rows))
       /\ ReverseByDepth(fwd) = rows
       /\ RebaseDepth(fwd) = fwd /\ Forward(rows) = fwd
       /\ \A k \in DOMAIN lh : \A x \in MergedByF(P, lh[k]) :
             /\ pos(fwd, x) > pos(fwd, lh[k])
             /\ (k < Len(lh) => pos(fwd, x) < pos(fwd, lh[k + 1]))
       /\ RangeRevs(P, c.t, 1, Len(lh)) = Anc0(P, c.t)
       /\ \A T \in SUBSET DOMAIN P :
             LET C == TouchClosure(P, T)
                 v == VerOf(P, C)
             IN /\ TouchClosure(P, C) = C /\ v = VerOf(P, T)
                /\ \A r \in DOMAIN P : (v[r] = r) = (r \in C)
                /\ \A r \in DOMAIN P : v[r] # Null => v[r] \in C \cap Anc0(P, r)
                /\ \A m \in SeqRange(lh) \cap C : \E k \in DOMAIN FileMainline(P, c.t, v) : FileMainline(P, c.t, v)[k] = m
WitnessNestedMerge == ~(\E r \in Anc0(c.par, c.t) \ LeftSet(c.par, c.t) : IsMerge(c.par, r))
WitnessCarriedOver == ~(\E T \in SUBSET DOMAIN c.par : \E m \in LeftSet(c.par, c.t) \ TouchClosure(c.par, T) :
                          IsMerge(c.par, m) /\ VerOf(c.par, T)[m] # Null /\ VerOf(c.par, T)[m] # VerOf(c.par, T)[c.par[m][1]])
Dirs == {"reverse", "forward"}
ReqsOf(P, t, nfiles) ==
    LET n == RevnoOf(P, t)
    IN {Req(dr, lv, 0, 0, 0, 0, TRUE) : dr \in Dirs, lv \in {0, 1, 2}}
       \cup {Req(dr, lv, lim, 0, 0, 0, TRUE) : dr \in Dirs, lv \in {0, 1}, lim \in {1, 2}}
       \cup {Req(dr, lv, 0, a, b, 0, TRUE) : dr \in Dirs, lv \in {0, 1, 2}, a \in 1..n, b \in 1..n}
       \cup {Req(dr, 0, 2, a, b, 0, TRUE) : dr \in Dirs, a \in 1..n, b \in 1..n}
       \cup {Req(dr, lv, 0, 0, 0, f, dl) : dr \in Dirs, lv \in {0, 1}, f \in 1..nfiles, dl \in BOOLEAN}
ReqTuple(q) == <<q.dir, q.levels, q.limit, q.a, q.b, q.file, B2N(q.deltas)>>
CaseRow(x) == LET fs == Files(x.par)
              IN [c |-> x, files |-> fs,
                  reqs |-> SetToSeq({ReqTuple(q) : q \in {r \in ReqsOf(x.par, x.t, Len(fs)) : r.a <= r.b}})]
Export == JsonSerialize(IOEnv.VF_OUT, SetToSeq({CaseRow(x) : x \in Sample(Cases)}))
ASSUME IF "VF_OUT" \in DOMAIN IOEnv THEN Export ELSE TRUE
=============================================================================
