--------------------------- MODULE ConfigLocGen ---------------------------
(* E1 + E2 for C49.  Family = "loc": TLC enumerates sets of location sections (1..MaxSecs sections with distinct
   names over paths of <= MaxSeg components of Segs, option kinds Kinds, ignore_parents values Igns, trailing slash Trails),
   checks the laws of ConfigLoc on the spec's own prediction for every location of <= LocMaxSeg components and the
   declarative characterisation of the search for every admissible order, and exports the sections with the
   predicted value per location.  Family = "val": TLC enumerates the option values of <= MaxVal tokens with their
   input class (the round-trip law is the identity).
   State graph: Parts root states, each with a slice of the case table as successors (parallel checking).   *)
EXTENDS ConfigLoc, Json, IOUtils, SequencesExt
CONSTANTS Family, Segs, MaxSeg, LocMaxSeg, MaxSecs, Kinds, Igns, Trails, MaxVal, Parts

Locs   == SeqsFromTo(LocSegs, 1, LocMaxSeg)
LocSeq == TLCEval(SetToSeq(Locs))

SecRecs == IF Family = "loc" THEN [path : SeqsFromTo(Segs, 1, MaxSeg), trail : Trails, opt : Kinds, ign : Igns] ELSE {}
SameName(x, y) == x.path = y.path /\ x.trail = y.trail
SecSets == {{x} : x \in SecRecs}
           \cup (IF MaxSecs >= 2 THEN {{x, y} : x, y \in SecRecs} ELSE {})
           \cup (IF MaxSecs >= 3 THEN {{x, y, z} : x, y, z \in SecRecs} ELSE {})
GoodSet(S) == (\A x, y \in S : x # y => ~SameName(x, y)) /\ (\E x \in S : Defines(x))
LocCases == {SetToSeq(S) : S \in {T \in SecSets : GoodSet(T)}}
ValCases == IF Family = "val" THEN SeqsFromTo(ValToks, 0, MaxVal) ELSE {}
CaseSeq  == TLCEval(SetToSeq(IF Family = "loc" THEN LocCases ELSE ValCases))

VARIABLES part, lvl, cs          \* lvl = 0: root of slice part;  lvl = 1: cs is a case
Init == part \in 1..Parts /\ lvl = 0 /\ cs = <<>>
Next == lvl = 0 /\ lvl' = 1 /\ part' = part /\ cs' \in {CaseSeq[q] : q \in {j \in 1..Len(CaseSeq) : j % Parts = part - 1}}

LocLawsOnSpec(S) == \A loc \in Locs :
    LET M == Applicable(S, loc)  A == Analyse(S, loc) IN
    /\ LocFailedA(A, A.spec) = {}
    /\ A.code \in A.cod /\ LawResolve(A, A.code)
    /\ \A f \in Orders(S, M) : LawDeclarative(S, loc, Walk(S, f, TRUE))
LawsHoldOnSpec == lvl = 1 =>
    IF Family = "loc" THEN LocLawsOnSpec(cs) ELSE ValFailed(cs, [status |-> "ok", read |-> cs]) = {}

\* anti-vacuity witnesses (predicates on a case); WitnessAll is the invariant TLC must VIOLATE
WCut(S)    == \E loc \in Locs : SpecValue(S, loc) = None /\ \E k \in Applicable(S, loc) : Defines(S[k])
WOwn(S)    == \E loc \in Locs : SpecValue(S, loc) # CodeValue(S, loc)
WTie(S)    == \E loc \in Locs : Cardinality(Outcomes(S, loc, TRUE)) > 1 /\ Cardinality(Orders(S, Applicable(S, loc))) > 1
WGlob(S)   == \E loc \in Locs : \E k \in Applicable(S, loc) :
                 Defines(S[k]) /\ SpecValue(S, loc) = ValueOf(S, k, Extra(S[k], loc)) /\ (\E q \in DOMAIN S[k].path : S[k].path[q] \in {"*", "a*", "a*b*"})
                 /\ \E j \in Applicable(S, loc) : Len(S[j].path) < Len(S[k].path) /\ Defines(S[j])
WRest(S)   == \E loc \in Locs : \E k \in Applicable(S, loc) :
                 S[k].opt \in {"append", "relpath", "basename"} /\ Len(Extra(S[k], loc)) >= 2
                 /\ SpecValue(S, loc) = ValueOf(S, k, Extra(S[k], loc))
\* the value comes from a section with more components but a SHORTER name than another applicable, defining section
WLen(S)    == \E loc \in Locs : \E k, j \in Applicable(S, loc) :
                 Defines(S[k]) /\ Defines(S[j]) /\ Len(S[k].path) > Len(S[j].path) /\ Len(IdChars(S[k])) < Len(IdChars(S[j]))
                 /\ SpecValue(S, loc) = ValueOf(S, k, Extra(S[k], loc))
\* ignore_parents = false on a more specific section does not stop the search
WFalse(S)  == \E loc \in Locs : \E k, j \in Applicable(S, loc) :
                 S[k].ign = "false" /\ ~Defines(S[k]) /\ Defines(S[j]) /\ Len(S[k].path) > Len(S[j].path)
                 /\ SpecValue(S, loc) = ValueOf(S, j, Extra(S[j], loc))
Wit(W(_)) == \E x \in LocCases : W(x)
WitV(cl)  == \E x \in ValCases : ValClass(x) = cl
WitnessAll == ~(/\ lvl = 0 /\ part = 1
                /\ IF Family = "loc"
                   THEN ("true" \notin Igns \/ (Wit(WOwn) /\ ("none" \notin Kinds \/ Wit(WCut)))) /\ Wit(WTie) /\ (MaxSeg < 2 \/ Wit(WGlob)) /\ (Kinds \subseteq {"none", "plain"} \/ Wit(WRest))
                        /\ ("a*b*" \notin Segs \/ MaxSeg < 2 \/ Wit(WLen))
                        /\ ("false" \notin Igns \/ "none" \notin Kinds \/ MaxSeg < 2 \/ Wit(WFalse))
                   ELSE WitV("newline") /\ WitV("both-quote-kinds-and-hash")
                        /\ WitV("quoted-string-with-both-quote-kinds") /\ WitV("other"))

Export == JsonSerialize(IOEnv.VF_OUT,
    IF Family = "loc"
    THEN [locs  |-> LocSeq,
          cases |-> [q \in 1..Len(CaseSeq) |-> LET S == CaseSeq[q] IN
                       LET A == [l \in 1..Len(LocSeq) |-> Analyse(S, LocSeq[l])] IN
                       [secs |-> S, exp |-> [l \in 1..Len(LocSeq) |-> A[l].code],
                        own |-> [l \in 1..Len(LocSeq) |-> A[l].spec]]]]
    ELSE [cases |-> [q \in 1..Len(CaseSeq) |-> [v |-> CaseSeq[q], class |-> ValClass(CaseSeq[q])]]])
ASSUME IF "VF_OUT" \in DOMAIN IOEnv THEN Export ELSE TRUE
=============================================================================
