------------------------- MODULE TextConflictTrace -------------------------
(* E3 for C19: traces recorded from real tree merges followed by the real resolve() are judged by the laws of
   TextConflict and validated as behaviours of its state machine; one state per recorded row {c, hc, tr}.
   Written back: rows with failed laws (verdict) and rows that do not conform to the machine (drift). *)
EXTENDS TextConflict, SequencesExt, Json, IOUtils
Rows == JsonDeserialize(IOEnv.VF_IN)
VARIABLE i
Init == i \in 1..Len(Rows) /\ st = S0
Next == UNCHANGED <<i, st>>
Bad == SelectSeq([k \in 1..Len(Rows) |->
                    [row |-> k, failed |-> SetToSeq(Failed(Rows[k].c, Rows[k].hc, Rows[k].tr)),
                     drift |-> ~Conforms(Rows[k].c, Rows[k].hc, Rows[k].tr)]],
                 LAMBDA r : r.failed # <<>> \/ r.drift)
ASSUME JsonSerialize(IOEnv.VF_OUT, [n |-> Len(Rows), bad |-> Bad])
=============================================================================
