----------------------------- MODULE TreeExport -----------------------------
(* Export of a revision tree (breezy/export.py export, _export_iter_entries, dir_exporter_generator;
   breezy/archive/tar.py prepare_tarball_item / tarball_generator; breezy/archive/zip.py zip_archive_generator)
   - property C42: an export contains exactly Prefix(root, Subtree(tree, subdir)).

   A path is a non-empty sequence of segments; an abstract tree is a SET of entries
       [path, kind, val, exec, rev]
   kind in {"file","directory","symlink"}; val = content token of a file / target of a symlink / "" for a directory;
   exec is the executable bit (files only); rev in {"old","tip"} says whether the entry was last changed in the
   exported revision ("tip") or before it ("old") - only the per_file_timestamps rule looks at it.

   Options of one export call:
       root   = [given, segs]          given = FALSE: root=None, the exporter derives it from the destination name
       subdir = [given, segs, slash]   given = FALSE: subdir=None; slash: the caller wrote a trailing "/"
       pft    = per_file_timestamps
   Content filters / keyword expansion are off (export() is given a plain RevisionTree). *)
EXTENDS Naturals, Sequences, FiniteSets

Kinds == {"file", "directory", "symlink"}
Formats == <<"dir", "tar", "tgz", "tbz2", "txz", "zip">>
Range(s) == {s[i] : i \in DOMAIN s}

(* ------------------------------------------------------------------ trees *)
PathsOf(t) == {e.path : e \in t}
PathPrefix(p, q) == Len(p) <= Len(q) /\ SubSeq(q, 1, Len(p)) = p
StrictPrefix(p, q) == Len(p) < Len(q) /\ PathPrefix(p, q)
Parent(p) == SubSeq(p, 1, Len(p) - 1)
LastSeg(p) == p[Len(p)]
At(t, p) == CHOOSE e \in t : e.path = p
ValidTree(t) ==
    /\ \A e \in t : Len(e.path) >= 1 /\ e.kind \in Kinds /\ (e.kind # "file" => ~e.exec)
                    /\ (e.kind = "directory" => e.val = "")
    /\ \A e1, e2 \in t : e1.path = e2.path => e1 = e2
    /\ \A e \in t : Len(e.path) > 1 => \E d \in t : d.path = Parent(e.path) /\ d.kind = "directory"

Move(e, newpath) == [e EXCEPT !.path = newpath]

(* Subtree(t, sub): what "export this sub-directory" selects, re-rooted at the sub-directory.
   sub = <<>> is the whole tree; a sub that names a non-directory selects that single entry under its own name
   (_export_iter_entries: `path == subdir` with a non-directory entry -> final_path = entry.name);
   a sub that names nothing selects nothing. *)
Subtree(t, sub) ==
    IF sub = <<>> THEN t
    ELSE IF \E e \in t : e.path = sub /\ e.kind # "directory"
         THEN {Move(At(t, sub), <<LastSeg(sub)>>)}
         ELSE {Move(e, SubSeq(e.path, Len(sub) + 1, Len(e.path))) : e \in {x \in t : StrictPrefix(sub, x.path)}}

(* Prefix(root, t): the tree placed under the root directory of a container (no entry for the root itself). *)
Prefix(root, t) == {Move(e, root \o e.path) : e \in t}

(* ------------------------------------------------------------------ option handling *)
SubdirSegs(o) == IF o.subdir.given THEN o.subdir.segs ELSE <<>>          \* None, "" and a trailing "/" are neutral
\* the destination is "<DestBase><extension of the format>"; "The root option has no effect for 'dir' format"
EffRoot(fmt, o, destBase) == IF fmt = "dir" THEN <<>>
                             ELSE IF o.root.given THEN o.root.segs ELSE <<destBase>>

(* ------------------------------------------------------------------ format-specific representation rules
   dir : a directory on disk; kinds, bytes, symlink targets as such; exec = owner-x bit of the file mode.
   tar*: one member per entry (REGTYPE / DIRTYPE / SYMTYPE); exec = owner-x bit of the member mode; target = linkname.
   zip : a file / directory member per file / directory entry (directories carry a trailing "/"); exec = owner-x bit of
         the unix mode in the upper 16 bits of external_attr; the format has no symlink members in breezy's encoding:
         a symlink is stored as a regular member "<path>.lnk" whose content is the target text.
   The observer (harness) undoes nothing: it reports members as it finds them; Repr states what must be found. *)
LnkName(p) == [p EXCEPT ![Len(p)] = p[Len(p)] \o ".lnk"]
Repr(fmt, t) ==
    IF fmt = "zip"
    THEN {IF e.kind = "symlink" THEN [e EXCEPT !.path = LnkName(e.path), !.kind = "file", !.val = "raw:" \o e.val] ELSE e
          : e \in t}
    ELSE t
\* the zip encoding loses nothing as long as no versioned name ends in ".lnk": a member "<n>.lnk" then always stands for
\* the symlink <n> (ZipUnambiguous is checked for the explored namespace by the generator module)
ZipUnambiguous(names) == \A n \in names : \A m \in names : n \o ".lnk" # m

Expected(fmt, tree, o, destBase) == Repr(fmt, Prefix(EffRoot(fmt, o, destBase), Subtree(tree, SubdirSegs(o))))

\* modification time class of an exported entry (not part of C42's statement: judged as conformance only).
\* dir exports stamp files only.
MtClass(fmt, e, o) == IF fmt = "dir" /\ e.kind # "file" THEN "na"
                      ELSE IF o.pft THEN e.rev ELSE "tip"

(* ------------------------------------------------------------------ the laws of C42 on an OBSERVED export
   obs: set of [path, kind, val, exec, mt] as read back from the directory / archive (mt = observed mtime class)
   exp: Expected(...) *)
Core(e) == [path |-> e.path, kind |-> e.kind]
LawPaths(exp, obs)   == PathsOf(obs) = PathsOf(exp) /\ Cardinality(obs) = Cardinality(PathsOf(obs))
Common(exp, obs)     == {<<x, y>> \in exp \X obs : x.path = y.path}
LawKinds(exp, obs)   == \A pr \in Common(exp, obs) : pr[1].kind = pr[2].kind
LawBytes(exp, obs)   == \A pr \in Common(exp, obs) : (pr[1].kind = "file" /\ pr[2].kind = "file") => pr[1].val = pr[2].val
LawExec(exp, obs)    == \A pr \in Common(exp, obs) : (pr[1].kind = "file" /\ pr[2].kind = "file") => pr[1].exec = pr[2].exec
LawTargets(exp, obs) == \A pr \in Common(exp, obs) : (pr[1].kind = "symlink" /\ pr[2].kind = "symlink") => pr[1].val = pr[2].val

LawNames == <<"paths", "kinds", "bytes", "exec", "targets">>
Law(n, exp, obs) == CASE n = "paths" -> LawPaths(exp, obs) [] n = "kinds" -> LawKinds(exp, obs)
                      [] n = "bytes" -> LawBytes(exp, obs) [] n = "exec" -> LawExec(exp, obs)
                      [] n = "targets" -> LawTargets(exp, obs)
FailedLaws(exp, obs) == {n \in Range(LawNames) : ~Law(n, exp, obs)}
\* conformance: the observed mtime classes follow the per_file_timestamps rule
MtOk(fmt, exp, obs, o) == \A pr \in Common(exp, obs) : pr[2].mt = MtClass(fmt, pr[1], o)
=============================================================================
