----------------------- MODULE NoSilentDiscardTrace -----------------------
(* E3 for C12: directory contents recorded before and after real revert / remove / merge / pull / update / switch /
   uncommit runs are judged by the safety rule of NoSilentDiscard; one state per recorded row
   {c, impl: {before: [[p, t]..], after: [[p, t]..]}}.  Written back: rows with failed laws + the files whose user
   content is gone (verdict), rows whose fixture is not the specified before-state (prebad) and rows whose
   after-state is not where the specification puts things (drift). *)
EXTENDS NoSilentDiscard, Json, IOUtils
Rows == JsonDeserialize(IOEnv.VF_IN)
VARIABLE i
Init == i \in 1..Len(Rows)
Next == UNCHANGED i
After(k) == Range(Rows[k].impl.after)
Bad == SelectSeq([k \in 1..Len(Rows) |->
                    [row |-> k, failed |-> SetToSeq(Failed(Rows[k].c, After(k))),
                     lost |-> SetToSeq(Lost(Rows[k].c, After(k))),
                     prebad |-> Range(Rows[k].impl.before) # Before(Rows[k].c),
                     drift |-> After(k) # SpecAfter(Rows[k].c)]],
                 LAMBDA r : r.failed # <<>> \/ r.prebad \/ r.drift)
ASSUME JsonSerialize(IOEnv.VF_OUT, [n |-> Len(Rows), bad |-> Bad])
=============================================================================
