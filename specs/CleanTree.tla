----------------------------- MODULE CleanTree -----------------------------
(* C46 - clean-tree deletes only what was asked for (breezy/clean_tree.py: clean_tree, iter_deletables,
   _filter_out_nested_controldirs, delete_items; WorkingTree.extras of the bzr and git flavours).

   A layout is a set of ELEMENTS; every element stands for a fixed group of observed paths:

     "v"      versioned file v                         "u"      unknown file u
     "i.o"    ignored file (pattern *.o)               "x~"     detritus name that is also ignored (pattern *~)
     "x.THIS" detritus name, otherwise unknown         "ud"     unknown directory ud/ holding the unknown file ud/f
     "nested" a branch nested INSIDE the unknown directory: ud/nested/<control dir> + its working file ud/nested/file
     "nb"     an unknown top-level directory that is itself a branch: nb/<control dir> + nb/file
     "vd"     versioned directory vd/ holding the versioned file vd/v2
     "vd/u"   unknown file inside the versioned directory
     "link"   unknown symlink link -> ../outside (a directory OUTSIDE the tree holding outside/sentinel)

   Always there: the versioned ignore file "ign" (.bzrignore / .gitignore) and, outside the tree, "outside" and
   "outside/sentinel".  "<x>/ctl" is the observation "the control directory of the nested branch is complete".
   A case is c = [lay, fl, nk, unknown, ignored, detritus, dry]: fl = flavour of the cleaned tree, nk = format of the
   nested branches ("bzr" | "git").  The observation is the set `gone` of observed paths that existed before the call
   and do not exist (for ctl: are no longer complete) after it. *)
EXTENDS Naturals, Sequences, FiniteSets, TLC

Elements == {"v", "u", "i.o", "x~", "x.THIS", "ud", "nested", "nb", "vd", "vd/u", "link"}
ValidLayout(L) == /\ L \subseteq Elements
                  /\ ("nested" \in L => "ud" \in L)
                  /\ ("vd/u" \in L => "vd" \in L)

Range(s) == {s[i] : i \in DOMAIN s}

Group(e) == CASE e = "ud"     -> {"ud", "ud/f"}
              [] e = "nested" -> {"ud/nested", "ud/nested/ctl", "ud/nested/file"}
              [] e = "nb"     -> {"nb", "nb/ctl", "nb/file"}
              [] e = "vd"     -> {"vd", "vd/v2"}
              [] OTHER        -> {e}
Outside == {"outside", "outside/sentinel"}
Present(L) == {"ign"} \cup Outside \cup UNION {Group(e) : e \in L}

(* ---- what the property speaks about *)
Versioned(L)    == {"ign"} \cup (IF "v" \in L THEN {"v"} ELSE {}) \cup (IF "vd" \in L THEN {"vd", "vd/v2"} ELSE {})
NestedBranch(L) == (IF "nested" \in L THEN Group("nested") ELSE {}) \cup (IF "nb" \in L THEN Group("nb") ELSE {})
\* a directory that (transitively) contains a nested branch cannot disappear without the branch disappearing
HoldsNested(L)  == IF "nested" \in L THEN {"ud"} ELSE {}

\* categories of the unversioned paths that do not belong to a nested branch
Cats(p) == CASE p = "i.o"    -> {"ignored"}
             [] p = "x~"     -> {"detritus", "ignored"}
             [] p = "x.THIS" -> {"detritus", "unknown"}
             [] OTHER        -> {"unknown"}          \* u, ud, ud/f, vd/u, link
Candidates(L) == Present(L) \ (Versioned(L) \cup NestedBranch(L) \cup Outside)
Requested(c) == (IF c.unknown THEN {"unknown"} ELSE {}) \cup (IF c.ignored THEN {"ignored"} ELSE {})
                \cup (IF c.detritus THEN {"detritus"} ELSE {})

\* the paths a run with these options is allowed to remove
Deletable(c) == LET L == Range(c.lay) IN
    IF c.dry THEN {}
    ELSE {p \in Candidates(L) : Cats(p) \cap Requested(c) # {} /\ p \notin HoldsNested(L)}

(* ---- the laws of C46 on an observed `gone` set *)
LawOnly(c, g)      == g \subseteq Deletable(c)
LawVersioned(c, g) == g \cap Versioned(Range(c.lay)) = {}       \* includes the directory that holds versioned files
LawNested(c, g)    == g \cap (NestedBranch(Range(c.lay)) \cup HoldsNested(Range(c.lay))) = {}
LawOutside(c, g)   == g \cap Outside = {}
LawDry(c, g)       == c.dry => g = {}

LawNames == <<"only", "versioned", "nested", "outside", "dry">>
Law(n, c, g) == CASE n = "only" -> LawOnly(c, g) [] n = "versioned" -> LawVersioned(c, g)
                  [] n = "nested" -> LawNested(c, g) [] n = "outside" -> LawOutside(c, g) [] n = "dry" -> LawDry(c, g)
Failed(c, g) == {n \in Range(LawNames) : ~Law(n, c, g)}

(* ---- the deletions the specification expects from a correct implementation (reference for drift; the property
        itself only bounds the deletions from above).
   bzr trees list an unknown directory as ONE item and remove it recursively, unless it is (or, by the property,
   contains) a branch; git trees list unversioned FILES only (directories, and a symlink that points to a directory,
   are never listed), skip sub-trees that hold a .git, and must not list the files of a nested branch. *)
SpecGone(c) == LET L == Range(c.lay) IN
    IF c.fl = "bzr"
    THEN {p \in Deletable(c) : ~(p = "ud/f" /\ "nested" \in L)}      \* ud is skipped as a whole when it holds a branch
    ELSE {p \in Deletable(c) : p \notin {"ud", "link"}}
=============================================================================
