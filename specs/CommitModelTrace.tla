-------------------------- MODULE CommitModelTrace --------------------------
(* E3 for C01: commits executed on real working trees, judged by the laws of CommitModel.  One row per real commit:
   row.c = the input as projected from the real trees (basis tree, working tree, missing, selection, flags, injected
   fault), row.impl = what was observed afterwards.  Sets arrive as JSON arrays. *)
EXTENDS CommitModel, Json, IOUtils, SequencesExt
Rows == JsonDeserialize(IOEnv.VF_IN)
VARIABLE i
Init == i \in 1..Len(Rows)
Next == UNCHANGED i
CaseOfRow(r) == [b |-> r.c.b, w |-> r.c.w, m |-> Rng(r.c.m),
                 sel |-> [all |-> r.c.all, paths |-> Rng(r.c.sel)], excl |-> Rng(r.c.excl),
                 merge |-> r.c.merge, conflicts |-> r.c.conflicts, fault |-> r.c.fault]
ObsOfRow(r) == [outcome |-> r.impl.outcome, tipMoved |-> r.impl.tipMoved, revsAdded |-> r.impl.revsAdded,
                tree |-> r.impl.tree, changed |-> Rng(r.impl.changed), w2 |-> r.impl.w2, m2 |-> Rng(r.impl.m2)]
Bad == SelectSeq([k \in 1..Len(Rows) |->
                    LET c == CaseOfRow(Rows[k])
                        o == ObsOfRow(Rows[k])
                    IN [row |-> k, failed |-> SetToSeq(Failed(c, o)), drift |-> o.outcome # SpecOutcome(c),
                        S |-> SetToSeq(SelOf(c)), spec |-> SpecOut(c)]],
                 LAMBDA r : r.failed # <<>> \/ r.drift)
ASSUME JsonSerialize(IOEnv.VF_OUT, [n |-> Len(Rows), bad |-> Bad])
=============================================================================
