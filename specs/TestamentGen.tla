--------------------------- MODULE TestamentGen ---------------------------
(* E1 + E2 for C41.  BASE records: every field outside BaseVary holds token 0, the fields in BaseVary range over their
   whole domain.  From every base record TLC derives ALL single-field perturbations (every field, every other token),
   the alias pairs (two perturbations with the same attested data: parent lists that are the same set) and the
   storage-variant cases (the same record stored in two ways).  Every base record is one initial state on which TLC
   checks that a perturbation changes exactly the perturbed field's attested value (or nothing: two tokens of `parents`
   that denote the same set), that both records are valid trees, and that the specification's own texts satisfy the
   laws.  The case table is exported for the replay. *)
EXTENDS Testament, Json, IOUtils, SequencesExt
CONSTANTS BaseVary, Variants
RECURSIVE RecsOver(_)
RecsOver(flds) ==
    IF flds = {} THEN {[x \in {} |-> 0]}
    ELSE LET fld == CHOOSE x \in flds : TRUE
         IN {(fld :> v) @@ r : v \in (IF fld \in BaseVary THEN Tokens(fld) ELSE {0}), r \in RecsOver(flds \ {fld})}
Bases == RecsOver(Fields)
Perturbed(b) == UNION {{[rec |-> [b EXCEPT ![fld] = v], fld |-> fld] : v \in Tokens(fld) \ {b[fld]}} : fld \in Fields}
\* each unordered pair once: a perturbation that is itself a base record is generated from the smaller token only
PairsOf(b) == {[a |-> b, b |-> p.rec, fld |-> p.fld, va |-> "2a", vb |-> "2a"] :
                  p \in {q \in Perturbed(b) : q.rec \notin Bases \/ b[q.fld] < q.rec[q.fld]}}
\* pairs of DIFFERENT token records with the SAME attested data among a base record's perturbations (parent order)
AliasesOf(b) == UNION {{[a |-> p.rec, b |-> q.rec, fld |-> p.fld, va |-> "2a", vb |-> "2a"] :
                           q \in {x \in Perturbed(b) : x.fld = p.fld /\ x.rec[x.fld] > p.rec[p.fld] /\ Diff(x.rec, p.rec) = {}}} :
                       p \in Perturbed(b)}
VariantsOf(b) == {[a |-> b, b |-> b, fld |-> "", va |-> "2a", vb |-> v] : v \in Variants \ {"2a"}}
VARIABLE c
Init == c \in Bases
Next == UNCHANGED c
LawsHoldOnSpec ==
    /\ Valid(c)
    /\ \A p \in PairsOf(c) : /\ Valid(p.b) /\ Diff(p.a, p.b) \subseteq {p.fld}
                             /\ (Diff(p.a, p.b) = {} => p.fld = "parents")
                             /\ Failed(p, SpecOut(p)) = {}
    /\ \A p \in AliasesOf(c) : Valid(p.a) /\ Valid(p.b) /\ p.a # p.b /\ Diff(p.a, p.b) = {} /\ Failed(p, SpecOut(p)) = {}
    /\ \A p \in VariantsOf(c) : Diff(p.a, p.b) = {} /\ Failed(p, SpecOut(p)) = {}
    /\ \A fld \in Fields : \E p \in Perturbed(c) : p.fld = fld                 \* every field is perturbed
\* anti-vacuity witnesses
WitnessAlias == AliasesOf(c) = {}
WitnessExec == ~ \E p \in PairsOf(c) : Diff(p.a, p.b) \subseteq ExecFields /\ Diff(p.a, p.b) # {}
WitnessBackslash == ~ \E p \in PairsOf(c) : p.fld = "g.path" /\ PathOf(p.a, "g.path") = "d/g" /\ PathOf(p.b, "g.path") = "d\\g"
Export == JsonSerialize(IOEnv.VF_OUT, [dom |-> DomSize, paths |-> PathNames, parents |-> ParentLists,
                                       pairs |-> SetToSeq(UNION {PairsOf(b) \cup AliasesOf(b) : b \in Bases}),
                                       variants |-> SetToSeq(UNION {VariantsOf(b) : b \in Bases})])
ASSUME IF "VF_OUT" \in DOMAIN IOEnv THEN Export ELSE TRUE
=============================================================================
