--------------------------- MODULE TestamentGen ---------------------------
(* E1 + E2 for C41.  BASE records: every field outside BaseVary holds token 0, the fields in BaseVary range over their
   whole domain.  From every base record TLC derives ALL single-field perturbation pairs (every field, every two
   different tokens of its domain, the other fields as in the base record) and the storage-variant cases (the same record
   stored in two ways).  Every base record is one initial state on which TLC checks that the two records of a pair differ
   in exactly the perturbed field's attested value (or in nothing: two tokens of `parents` that denote the same set),
   that both records are valid trees, and that the specification's own texts satisfy the laws.  The case table is
   exported for the replay. *)
EXTENDS Testament, Json, IOUtils, SequencesExt
CONSTANTS BaseVary, Variants
RECURSIVE RecsOver(_)
RecsOver(flds) ==
    IF flds = {} THEN {[x \in {} |-> 0]}
    ELSE LET fld == CHOOSE x \in flds : TRUE
         IN {(fld :> v) @@ r : v \in (IF fld \in BaseVary THEN Tokens(fld) ELSE {0}), r \in RecsOver(flds \ {fld})}
Bases == RecsOver(Fields)
With(b, fld, v) == [b EXCEPT ![fld] = v]
\* ALL pairs of records that agree with base record b outside one field and hold two different tokens there
PairsOf(b) == UNION {{[a |-> With(b, fld, u), b |-> With(b, fld, v), fld |-> fld, va |-> "2a", vb |-> "2a"] :
                         <<u, v>> \in {x \in Tokens(fld) \X Tokens(fld) : x[1] < x[2]}} : fld \in Fields}
\* the same record stored in two different ways
\* (the base record, and the base record without parents / as a merge: the root datum of StrictTestament3 depends on it)
VariantsOf(b) == {[a |-> r, b |-> r, fld |-> "", va |-> x[1], vb |-> x[2]] :
                     r \in {b, With(b, "parents", 1), With(b, "parents", 3)},
                     x \in {y \in Variants \X Variants : y[1] # y[2] /\ (y[1] = "2a" \/ (y[2] # "2a" /\ y[1] = "pack-0.92"))}}
VARIABLE c
Init == c \in Bases
Next == UNCHANGED c
LawsHoldOnSpec ==
    /\ Valid(c)
    /\ \A p \in PairsOf(c) : /\ Valid(p.a) /\ Valid(p.b) /\ p.a # p.b /\ Diff(p.a, p.b) \subseteq {p.fld}
                             /\ (Diff(p.a, p.b) = {} => p.fld = "parents")
                             /\ Failed(p, SpecOut(p)) = {}
    /\ \A p \in VariantsOf(c) : Diff(p.a, p.b) = {} /\ Failed(p, SpecOut(p)) = {}
    /\ \A fld \in Fields : \E p \in PairsOf(c) : p.fld = fld /\ Diff(p.a, p.b) = {fld}       \* every field is perturbed
\* anti-vacuity witnesses
WitnessAlias == ~ \E p \in PairsOf(c) : Diff(p.a, p.b) = {}
WitnessExec == ~ \E p \in PairsOf(c) : Diff(p.a, p.b) \subseteq ExecFields /\ Diff(p.a, p.b) # {}
WitnessRoot == ~ \E p \in VariantsOf(c) : RootRev(p.a, p.va) # RootRev(p.b, p.vb)
WitnessBackslash == ~ \E p \in PairsOf(c) : p.fld = "g.path" /\ PathOf(p.a, "g.path") = "d/g" /\ PathOf(p.b, "g.path") = "d\\g"
Export == JsonSerialize(IOEnv.VF_OUT, [dom |-> DomSize, paths |-> PathNames, parents |-> ParentLists,
                                       pairs |-> SetToSeq(UNION {PairsOf(b) : b \in Bases}),
                                       variants |-> SetToSeq(UNION {VariantsOf(b) : b \in Bases})])
ASSUME IF "VF_OUT" \in DOMAIN IOEnv THEN Export ELSE TRUE
=============================================================================
