--------------------------- MODULE Merge3Decide ---------------------------
(* Per-attribute merge decisions of breezy.merge.Merge3Merger, transcribed:
   _three_way(base, other, this) and _lca_multi_way((base, lcas), other, this, allow_overriding_lca).
   Property C18 states laws about them; they are the operators Law* below. *)
EXTENDS Naturals, Sequences, FiniteSets

ThreeWay(base, other, this) ==
    IF base = other THEN "this"
    ELSE IF this # base /\ this # other THEN "conflict"
    ELSE IF this = other THEN "this"
    ELSE "other"

Range(s) == {s[i] : i \in DOMAIN s}

LcaMultiWay(base, lcas, other, this, allowOverride) ==
    IF other = this THEN "this"
    ELSE LET filtered == Range(lcas) \ {base} IN
         IF filtered = {} THEN ThreeWay(base, other, this)
         ELSE IF Cardinality(filtered) = 1 THEN ThreeWay(CHOOSE v \in filtered : TRUE, other, this)
         ELSE IF allowOverride /\ other \in filtered /\ this \in filtered THEN "conflict"
         ELSE IF allowOverride /\ other \in filtered THEN "this"
         ELSE IF allowOverride /\ this \in filtered THEN "other"
         ELSE "conflict"

Swap(r) == CASE r = "this" -> "other" [] r = "other" -> "this" [] OTHER -> r
Results == {"this", "other", "conflict"}

(* ---- the laws of C18, stated on *observed* results so that the same text judges the
        transcription (design check) and the implementation (trace check).
   c      : [base, lcas, other, this, ov]
   o.tw   : result of three_way(base, other, this)
   o.twS  : result of three_way(base, this, other)        (sides exchanged)
   o.lca  : result of lca_multi_way((base, lcas), other, this, ov)
   o.lcaS : same with sides exchanged *)
AncVals(c) == {c.base} \cup Range(c.lcas)

LawRange(c, o) == o.tw \in Results /\ o.twS \in Results /\ o.lca \in Results /\ o.lcaS \in Results
\* exchanging THIS and OTHER exchanges the answers, except the documented tie (both sides agree -> "this")
LawSymThree(c, o) == IF c.other = c.this THEN o.tw = "this" /\ o.twS = "this" ELSE o.twS = Swap(o.tw)
LawSymLca(c, o)   == IF c.other = c.this THEN o.lca = "this" /\ o.lcaS = "this" ELSE o.lcaS = Swap(o.lca)
\* all ancestors carry the same value -> the LCA decision is the plain three-way decision
AllSame(c) == \A v \in Range(c.lcas) : v = c.base
LawLcaExtends(c, o) == AllSame(c) => o.lca = o.tw
\* a side that did not change relative to the ancestors never wins against a side that did
LawUnchangedLoses(c, o) ==
    /\ (c.this \in AncVals(c) /\ c.other \notin AncVals(c)) => (o.lca # "this")
    /\ (c.other \in AncVals(c) /\ c.this \notin AncVals(c)) => (o.lca # "other")
    /\ (c.this = c.base /\ c.other # c.base) => (o.tw # "this")
    /\ (c.other = c.base /\ c.this # c.base) => (o.tw # "other")
\* a three-way decision where at most one side changed, or both made the same change, is never a conflict
LawCleanThree(c, o) == (c.this = c.base \/ c.other = c.base \/ c.this = c.other) => o.tw # "conflict"

LawNames == <<"range", "sym3", "symlca", "lcaext", "unchanged", "clean3">>
Law(n, c, o) == CASE n = "range" -> LawRange(c, o) [] n = "sym3" -> LawSymThree(c, o)
                  [] n = "symlca" -> LawSymLca(c, o) [] n = "lcaext" -> LawLcaExtends(c, o)
                  [] n = "unchanged" -> LawUnchangedLoses(c, o) [] n = "clean3" -> LawCleanThree(c, o)
Failed(c, o) == {n \in Range(LawNames) : ~Law(n, c, o)}

SpecOut(c) == [tw   |-> ThreeWay(c.base, c.other, c.this),
               twS  |-> ThreeWay(c.base, c.this, c.other),
               lca  |-> LcaMultiWay(c.base, c.lcas, c.other, c.this, c.ov),
               lcaS |-> LcaMultiWay(c.base, c.lcas, c.this, c.other, c.ov)]
=============================================================================
