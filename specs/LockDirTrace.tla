---------------------------- MODULE LockDirTrace ----------------------------
(* Trace validation (code -> spec) for LockDir.  A batch of executions recorded from the real LockDir objects
   (random schedules, crashes, injected faults) is read from JSON; each event is <<process, transport op>> plus the
   projected on-disk state and is_held flags AFTER the operation.  Every event must be an instance of an action
   of LockDir by that process leading to exactly the recorded state; the history variables (brokenLive, wrongBreak,
   heldAfterFail) are NOT logged - TLC infers them through the spec's actions - and the C26/C27 invariants are
   evaluated in every reached state (latched into `viol`, so one bad trace does not stop the batch).
   A fully consumed trace prints one ACCEPT line. *)
EXTENDS LockDir, Json, IOUtils, TLCExt
Traces == JsonDeserialize(IOEnv.VF_IN)
VARIABLES tid, l, viol
tvars == <<vars, tid, l, viol>>
SeqToSet(s) == {s[i] : i \in DOMAIN s}
Evs == Traces[tid].events
InvNames == {"MutualExclusion", "HolderOnDisk", "BreakOnlyExamined", "StealOnlyDead", "Recoverable", "FailedNotHeld"}
Holds(n) == CASE n = "MutualExclusion" -> MutualExclusion [] n = "HolderOnDisk" -> HolderOnDisk
              [] n = "BreakOnlyExamined" -> BreakOnlyExamined [] n = "StealOnlyDead" -> StealOnlyDead
              [] n = "Recoverable" -> Recoverable [] n = "FailedNotHeld" -> FailedNotHeld
TraceInit == Init /\ tid \in 1..Len(Traces) /\ l = 1 /\ viol = {}
Consume ==
    /\ l <= Len(Evs)
    /\ LET e == Evs[l] IN
       /\ \/ (e.op \notin {"crash", "fault"} /\ Act(e.p))
          \/ (e.op = "crash" /\ Crash(e.p))
          \/ (e.op = "fault" /\ Fail(e.p))
       /\ step' = <<e.p, e.op>>
       /\ held' = e.held
       /\ tmpdirs' = SeqToSet(e.tmpdirs)
       /\ lockHeld' = e.lockHeld
    /\ l' = l + 1 /\ tid' = tid
    /\ viol' = viol \cup {n \in InvNames : ~Holds(n)'}
Finish ==
    /\ l = Len(Evs) + 1
    /\ PrintT(<<"ACCEPT", tid, viol>>)
    /\ l' = l + 1 /\ UNCHANGED <<vars, tid, viol>>
TraceNext == Consume \/ Finish
TraceSpec == TraceInit /\ [][TraceNext]_tvars
Progress == PrintT(<<"AT", tid, l>>)
=============================================================================
