-------------------------- MODULE NoSilentDiscard --------------------------
(* C12 - tree-changing commands never silently discard uncommitted work
   (breezy/transform.py revert / _alter_files / conflict_pass, breezy/workingtree.py WorkingTree.revert (+ resolve),
    breezy/bzr/workingtree.py and breezy/git/workingtree.py remove, breezy/merge.py Merge3Merger (merge_from_branch,
    pull, update, switch.switch), breezy/uncommit.py).

   FILE MODEL.  Every file is a text with two independent regions A and B; content is written f:<A>/<B> with region
   values 0 (basis), L (local uncommitted edit), I (incoming revision), S (a side branch merged earlier).  Local edits
   touch region A, so an incoming change of region A conflicts ("same") and one of region B merges cleanly ("other"):
   CleanMerge(f:L/0, f:0/I) = f:L/I.  "M" is a file with conflict markers.  d/k is an unchanged versioned file that
   keeps directory d alive.

   FILE CLASSES (state of path f before the command; the basis holds f:0/0 unless stated):
     unch     f:0/0                                edit     f:L/0, versioned
     mergew   f:S/0 written by an earlier merge and recorded in merge-modified (pending merge)
     confl    the earlier merge conflicted with an uncommitted edit: f = M, f.BASE = f:0/0, f.OTHER = f:S/0 and the
              user's text f:L/0 only in f.THIS
     added    f:L/0 versioned, not in the basis       unknown  f:L/0 unversioned, not in the basis
     missing  versioned, deleted on disk              rmkept   in the basis, unversioned by `rm --keep`, then edited: f:L/0
     renedit  renamed to <f>r AND edited, both uncommitted: <f>r holds f:L/0, nothing at f
   USER CONTENT is what the property protects: the f:L/0 of edit / renedit / added / unknown / rmkept / confl.  S-content and M
   were written by a merge.

   The tree directory (without the control directory) is a set of entries [p |-> path, t |-> content]. *)
EXTENDS Naturals, Sequences, FiniteSets, TLC, SequencesExt

Classes  == {"unch", "edit", "mergew", "added", "unknown", "confl", "missing", "rmkept", "renedit"}
InBasis  == {"unch", "edit", "mergew", "confl", "missing", "rmkept", "renedit"}
UserCls  == {"edit", "added", "unknown", "rmkept", "confl", "renedit"}
MergeOps == {"merge", "pull", "update", "switch"}

Tag(f, ra, rb) == f \o ":" \o ra \o "/" \o rb
E(p, t) == [p |-> p, t |-> t]
B0(f) == Tag(f, "0", "0")
L0(f) == Tag(f, "L", "0")
S0(f) == Tag(f, "S", "0")
I0(f) == Tag(f, "I", "0")
OI(f) == Tag(f, "0", "I")
LI(f) == Tag(f, "L", "I")
Helpers(f, base, this, other) == {E(f \o ".BASE", base), E(f \o ".THIS", this), E(f \o ".OTHER", other)}
Keep == {E("d/k", "k")}
UnderD(f) == f = "d/c"
Cur(f, cl) == IF cl = "renedit" THEN f \o "r" ELSE f        \* where the tree has the file now
Ren(f) == f \o "2"                                         \* where an incoming rename puts it

BeforeF(f, cl) ==
    CASE cl = "unch"    -> {E(f, B0(f))}
      [] cl = "edit"    -> {E(f, L0(f))}
      [] cl = "mergew"  -> {E(f, S0(f))}
      [] cl = "confl"   -> {E(f, "M")} \cup Helpers(f, B0(f), L0(f), S0(f))
      [] cl = "missing" -> {}
      [] cl = "renedit" -> {E(Cur(f, cl), L0(f))}
      [] OTHER          -> {E(f, L0(f))}              \* added, unknown, rmkept
FilesOf(c) == DOMAIN c.cls
Before(c) == Keep \cup UNION {BeforeF(f, c.cls[f]) : f \in FilesOf(c)}

(* ---------------------------------------------------------------- revert(files?, backups) *)
Selected(f, sel) == sel = "all" \/ sel = f \/ (sel = "d" /\ UnderD(f))
RevertF(f, cl, fl, backups) ==
    CASE cl \in {"unch", "added", "unknown"} -> BeforeF(f, cl)           \* an added file is unversioned and kept
      [] cl = "edit"    -> {E(f, B0(f))} \cup (IF backups THEN {E(f \o ".~1~", L0(f))} ELSE {})
      \* the basis text is found by following the rename; the backup is made next to the current name
      [] cl = "renedit" -> {E(f, B0(f))} \cup (IF backups THEN {E(Cur(f, cl) \o ".~1~", L0(f))} ELSE {})
      \* merge-written content is not backed up where the tree records it (bzr); git trees have no such record
      [] cl = "mergew"  -> {E(f, B0(f))} \cup (IF backups /\ fl = "git" THEN {E(f \o ".~1~", S0(f))} ELSE {})
      \* the conflict is resolved; the SAFE outcome keeps the user's text unless --no-backup: bzr drops the helpers
      \* but must keep .THIS, git keeps all helpers and backs up the marker file
      [] cl = "confl"   -> (IF fl = "git"
                            THEN {E(f, B0(f))} \cup Helpers(f, B0(f), L0(f), S0(f))
                                 \cup (IF backups THEN {E(f \o ".~1~", "M")} ELSE {})
                            ELSE {E(f, B0(f))} \cup (IF backups THEN {E(f \o ".THIS", L0(f))} ELSE {}))
      [] cl = "missing" -> {E(f, B0(f))}
      [] cl = "rmkept"  -> {E(f, B0(f)), E(f \o ".moved", L0(f))}       \* conflict_pass: duplicate -> .moved
RevertCmd(c) ==
    IF c.sel \in FilesOf(c) /\ c.cls[c.sel] = "unknown" THEN Before(c)      \* PathsNotVersionedError, nothing done
    ELSE Keep \cup UNION {IF Selected(f, c.sel) THEN RevertF(f, c.cls[f], c.fl, c.backups) ELSE BeforeF(f, c.cls[f])
                          : f \in FilesOf(c)}

(* ---------------------------------------------------------------- remove(keep | force | default) *)
\* one path: force deletes; default deletes what revert can bring back and backs up everything else
RemoveF(f, cl, mode) ==
    LET at == {e \in BeforeF(f, cl) : e.p = Cur(f, cl)}
        rest == BeforeF(f, cl) \ at
    IN IF mode = "force" \/ cl = "unch" THEN rest ELSE rest \cup {E(Cur(f, cl) \o ".~1~", e.t) : e \in at}
\* a directory: versioned children are handled one by one, then a directory that is still not empty is renamed as a
\* whole (default) or removed recursively (force)
DMoved(p) == CASE p = "d/c" -> "d.~1~/c" [] p = "d/c.~1~" -> "d.~1~/c.~1~" [] p = "d/c.BASE" -> "d.~1~/c.BASE"
               [] p = "d/c.THIS" -> "d.~1~/c.THIS" [] p = "d/c.OTHER" -> "d.~1~/c.OTHER"
               [] p = "d/cr" -> "d.~1~/cr" [] p = "d/cr.~1~" -> "d.~1~/cr.~1~"
RemoveDir(c) ==
    LET cl == c.cls["d/c"]
        outside == UNION {BeforeF(f, c.cls[f]) : f \in FilesOf(c) \ {"d/c"}}
        inner == IF cl \in {"unknown", "rmkept"} THEN BeforeF("d/c", cl) ELSE RemoveF("d/c", cl, "default")
    IN IF c.fl = "git" /\ cl = "confl" THEN Before(c)                     \* raises (conflicted index entry): nothing done
       ELSE IF c.mode = "force" THEN outside
       ELSE outside \cup {E(DMoved(e.p), e.t) : e \in inner}
RemoveCmd(c) ==
    IF c.mode = "keep" THEN Before(c)
    ELSE IF c.target = "d" THEN RemoveDir(c)
    ELSE Keep \cup UNION {IF f = c.target THEN RemoveF(f, c.cls[f], c.mode) ELSE BeforeF(f, c.cls[f]) : f \in FilesOf(c)}

(* ---------------------------------------------------------------- merge-like: merge, pull, update, switch
   inc: what the incoming revision does to every basis file: "same" (edits region A), "other" (edits region B),
   "delete", "rename" (f -> f2), "rensame" / "renother" (renames f -> f2 AND edits region A / B: the file then has
   different paths on the two sides of the text merge, as it has for a locally renamed file);
   collide: it also ADDS every path that is locally added / unknown, with content f:I/0 *)
RenIncs == {"rename", "rensame", "renother"}
IncText(f, inc) == IF inc \in {"same", "rensame"} THEN I0(f) ELSE OI(f)
\* a versioned local text (at path p = where the merged file ends up) against the incoming change
MergeText(f, p, inc) ==
    CASE inc \in {"same", "rensame"}   -> {E(p, "M")} \cup Helpers(p, B0(f), L0(f), I0(f))       \* text conflict
      [] inc \in {"other", "renother"} -> {E(p, LI(f))}                                          \* clean merge
      [] inc = "delete"                -> {E(p \o ".BASE", B0(f)), E(p \o ".THIS", L0(f))}        \* contents conflict
      [] inc = "rename"                -> {E(p, L0(f))}
MergeF(f, cl, fl, inc, collide) ==
    CASE cl = "unch" ->
            (CASE inc = "delete" -> {} [] inc = "rename" -> {E(Ren(f), B0(f))}
               [] OTHER -> {E(IF inc \in RenIncs THEN Ren(f) ELSE f, IncText(f, inc))})
      \* the incoming rename wins over the local name
      [] cl \in {"edit", "renedit"} -> MergeText(f, IF inc \in RenIncs THEN Ren(f) ELSE Cur(f, cl), inc)
      [] cl = "missing" ->
            (CASE inc \in {"same", "other"} -> {E(f, IncText(f, inc))}
               [] inc \in {"rensame", "renother"} -> {E(Ren(f) \o ".BASE", B0(f)), E(Ren(f) \o ".OTHER", IncText(f, inc))}
               [] OTHER -> {})
      [] cl = "rmkept" ->                                      \* contents conflict; the unversioned file stays
            (CASE inc \in {"delete", "rename"} -> {E(f, L0(f))}
               [] OTHER -> LET p == IF inc \in RenIncs THEN Ren(f) ELSE f
                           IN {E(f, L0(f)), E(p \o ".BASE", B0(f)), E(p \o ".OTHER", IncText(f, inc))})
      [] cl = "added" ->
            (IF ~collide THEN {E(f, L0(f))}
             ELSE IF fl = "git" THEN {E(f, "M"), E(f \o ".THIS", L0(f)), E(f \o ".OTHER", I0(f))}
             ELSE {E(f, I0(f)), E(f \o ".moved", L0(f))})
      [] cl = "unknown" ->
            (IF ~collide THEN {E(f, L0(f))} ELSE {E(f, I0(f)), E(f \o ".moved", L0(f))})
\* bzr trees: a file that is missing on disk and renamed + edited by the incoming revision makes the whole command
\* fail (NoSuchFile) before anything is changed
MergeFails(c) == c.fl = "bzr" /\ c.inc \in {"rensame", "renother"} /\ \E f \in FilesOf(c) : c.cls[f] = "missing"
MergeLike(c) == IF MergeFails(c) THEN Before(c)
                ELSE Keep \cup UNION {MergeF(f, c.cls[f], c.fl, c.inc, c.collide) : f \in FilesOf(c)}

SpecAfter(c) == CASE c.op = "revert" -> RevertCmd(c) [] c.op = "remove" -> RemoveCmd(c) [] c.op \in MergeOps -> MergeLike(c)
                  [] c.op = "uncommit" -> Before(c)

(* ---------------------------------------------------------------- THE SAFETY RULE, on an observed `after` set A *)
Tags(A) == {e.t : e \in A}
\* files whose uncommitted content the user asked to discard
Discard(c) ==
    CASE c.op = "revert" /\ ~c.backups -> {f \in FilesOf(c) : Selected(f, c.sel) /\ c.cls[f] # "unknown"}
      [] c.op = "remove" /\ c.mode = "force" -> {f \in FilesOf(c) : f = c.target \/ (c.target = "d" /\ UnderD(f))}
      [] OTHER -> {}
Protected(c) == {f \in FilesOf(c) \ Discard(c) : c.cls[f] \in UserCls}
\* revert / remove: every protected user content still exists somewhere in the tree directory
\* (same path, .~N~ backup, .moved, .THIS, inside a backed-up directory)
LostRR(c, A) == {f \in Protected(c) : L0(f) \notin Tags(A)}
\* merge-like: the file holds the clean merge of local and incoming, or the local content is still somewhere
CleanMerged(c, A, f) == /\ c.cls[f] \in {"edit", "renedit"} /\ c.inc \in {"other", "renother"}
                        /\ \E p \in {f, Cur(f, c.cls[f]), Ren(f)} : E(p, LI(f)) \in A
LostM(c, A) == {f \in Protected(c) : ~CleanMerged(c, A, f) /\ L0(f) \notin Tags(A)}
Lost(c, A) == IF c.op \in MergeOps THEN LostM(c, A) ELSE IF c.op \in {"revert", "remove"} THEN LostRR(c, A) ELSE {}
LawRevert(c, A)   == c.op = "revert" => LostRR(c, A) = {}
LawRemove(c, A)   == c.op = "remove" => LostRR(c, A) = {}        \* includes: an unknown file's content never goes without force
LawMerge(c, A)    == c.op \in MergeOps => LostM(c, A) = {}
LawUncommit(c, A) == c.op = "uncommit" => A = Before(c)           \* uncommit changes no working file
LawNames == <<"revert-keeps", "remove-keeps", "merge-keeps", "uncommit-same">>
Law(n, c, A) == CASE n = "revert-keeps" -> LawRevert(c, A) [] n = "remove-keeps" -> LawRemove(c, A)
                  [] n = "merge-keeps" -> LawMerge(c, A) [] n = "uncommit-same" -> LawUncommit(c, A)
Failed(c, A) == {n \in Range(LawNames) : ~Law(n, c, A)}
=============================================================================
