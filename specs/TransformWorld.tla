--------------------------- MODULE TransformWorld ---------------------------
(* The bounded world of the C13 check: the tree {a, b, d/, d/a} (all versioned), its trans-ids A B D DA, two
   trans-ids N1 N2 for new entries, and the names a transform may use (with python's string order). *)
WRoot   == "root"
GenTids == {"A", "B", "D", "DA", "N1", "N2"}
GenTree == [A  |-> [name |-> "a", parent |-> WRoot, kind |-> "file", ver |-> TRUE, x |-> FALSE],
            B  |-> [name |-> "b", parent |-> WRoot, kind |-> "file", ver |-> TRUE, x |-> FALSE],
            D  |-> [name |-> "d", parent |-> WRoot, kind |-> "directory", ver |-> TRUE, x |-> FALSE],
            DA |-> [name |-> "a", parent |-> "D", kind |-> "file", ver |-> TRUE, x |-> FALSE]]
GenRank == [a |-> 1, b |-> 2, c |-> 3, d |-> 4, e |-> 5]
=============================================================================
