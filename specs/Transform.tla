------------------------------- MODULE Transform -------------------------------
(* Applying a tree transform - property C13 (all-or-nothing on the file system).
   breezy/bzr/transform.py InventoryTreeTransform.apply / _apply_removals / _apply_insertions / DiskTreeTransform.finalize,
   breezy/git/transform.py GitTreeTransform.apply (same shape), breezy/transform.py _FileMover.rename / pre_delete /
   rollback / apply_deletions.

   The file system is a set of objects [at, t, g, kind]: `at` is a path (sequence of names; <<"L", ...>> is the limbo
   directory, <<"P", ...>> the pending-deletion directory), (t, g) says whose content it is (old content of tree
   trans-id t, or the new content created for t).  Every file-system call of apply() is one action:
       RemovalStep*   (tree paths, children first: os.rename into pending-deletion or limbo)
       InsertionStep* (final paths, parents first: os.rename out of limbo)
       DeletionStep*  (delete_any of the pending deletions)              -- the commit point is BEFORE these
       ApplyInventory (apply_inventory_delta / _apply_index_changes; it may itself raise: fault index MetaK)
       CleanupStep*   (finalize(): delete_any of stale limbo names, the limbo dir, the pending-deletion dir)
   The k-th call fails (Fault): before the commit point apply switches to RollbackStep* (journal reversed), in the
   deletion phase the error propagates.  Then the caller's finalize() runs (Finalize).

   InventoryFirst = FALSE is the order deletions, then metadata update (the pinned tree, both flavours): TLC shows that
   it violates DeletionFailureNewMeta; TRUE is the order metadata update, then deletions (the repair), for which every
   invariant holds.  The harness probes which order each flavour of the tree under test implements and expects the
   counter-example to reproduce exactly on the flavours with the FALSE order. *)
EXTENDS TransformMaps, SequencesExt
CONSTANTS Cases, MaxK, InventoryFirst,
          MetaInTry       \* the metadata update sits inside apply()'s try block: its failure rolls the file moves back
VARIABLES m, k, fs, inv, pc, rem, ins, del, cln, nops, journal, failedIn
vars == <<m, k, fs, inv, pc, rem, ins, del, cln, nops, journal, failedIn>>

(* ---- where content sits while the transform is pending (DiskTreeTransform._limbo_name / _generate_limbo_path) *)
OldInLimbo(mm, t) == InTree(t) /\ Moved(mm, t) /\ t \notin mm.removed          \* old content travels through limbo
HasLimbo(mm, t)   == mm.contents[t] # NONE \/ OldInLimbo(mm, t)
\* a child of a directory that is itself new content gets its limbo name INSIDE the parent's limbo directory
Rides(mm, t)      == HasLimbo(mm, t) /\ mm.parent[t] \notin {NONE, ROOT} /\ mm.contents[mm.parent[t]] = "directory"
RECURSIVE LimboPath(_, _)
LimboPath(mm, t)  == IF Rides(mm, t) THEN Append(LimboPath(mm, mm.parent[t]), mm.name[t]) ELSE <<"L", t>>

PreFS(mm)  == {[at |-> TreePath(t), t |-> t, g |-> "old", kind |-> Tree[t].kind] : t \in DOMAIN Tree}
         \cup {[at |-> LimboPath(mm, t), t |-> t, g |-> "new", kind |-> mm.contents[t]] : t \in {x \in Tids : mm.contents[x] # NONE}}
PostFS(mm) == {[at |-> PathOf(mm, t), t |-> t, g |-> IF mm.contents[t] # NONE THEN "new" ELSE "old", kind |-> FinalKind(mm, t)]
               : t \in Live(mm)}
Disk(f)    == {o \in f : o.at[1] \notin {"L", "P"}}
Left(f)    == {o \in f : o.at[1] \in {"L", "P"}}
PreInv     == {[path |-> TreePath(t), kind |-> Tree[t].kind] : t \in {x \in DOMAIN Tree : Tree[x].ver}}
PostInv(mm) == {[path |-> e.path, kind |-> e.kind] : e \in {x \in FinalTree(mm) : x.ver}}

(* ---- the file-system calls of apply(), in order *)
RemSet(mm)  == {t \in DOMAIN Tree : t \in mm.removed \/ Moved(mm, t)}
RemSeq(mm)  == SortSeq(SetToSeq(RemSet(mm)), LAMBDA x, y : PathLess(TreePath(y), TreePath(x)))      \* reverse path order
RemOp(mm, t) == [from |-> TreePath(t), to |-> IF t \in mm.removed THEN <<"P", t>> ELSE LimboPath(mm, t)]
InsSet(mm)  == {t \in Tids : HasLimbo(mm, t) /\ ~Rides(mm, t)}                                       \* _needs_rename
InsSeq(mm)  == SortSeq(SetToSeq(InsSet(mm)), LAMBDA x, y : PathLess(PathOf(mm, x), PathOf(mm, y)))
InsOp(mm, t) == [from |-> <<"L", t>>, to |-> PathOf(mm, t)]
DelSeq(mm)  == SelectSeq(RemSeq(mm), LAMBDA t : t \in mm.removed)
NClean(mm)  == Cardinality({t \in Tids : Rides(mm, t)}) + 2          \* stale limbo names of the riders, limbo, pending-deletion
NOps(mm)    == [removal |-> Len(RemSeq(mm)), insertion |-> Len(InsSeq(mm)), deletion |-> Len(DelSeq(mm)), cleanup |-> NClean(mm)]
IsUnder(p, q) == Len(p) <= Len(q) /\ SubSeq(q, 1, Len(p)) = p
Ren(f, op)    == {IF IsUnder(op.from, o.at) THEN [o EXCEPT !.at = op.to \o SubSeq(o.at, Len(op.from) + 1, Len(o.at))] ELSE o : o \in f}
ParentIsDir(f, p) == Len(p) = 1 \/ (Len(p) = 2 /\ p[1] \in {"L", "P"})
                     \/ \E o \in f : o.at = SubSeq(p, 1, Len(p) - 1) /\ o.kind = "directory"
RenameOK(f, op) == (\E o \in f : o.at = op.from) /\ ~(\E o \in f : o.at = op.to) /\ ParentIsDir(f, op.to)
DeleteOK(f, p)  == (\E o \in f : o.at = p) /\ ~(\E o \in f : o.at # p /\ IsUnder(p, o.at))

Fault == k = nops + 1
MetaK == 99                    \* fault index meaning "the metadata update itself raises" (not a file-system call, not counted)

Init == \E mm \in Cases :
          LET r == RemSeq(mm)  i == InsSeq(mm)  d == SelectSeq(r, LAMBDA t : t \in mm.removed)  c == NClean(mm)
              tot == Len(r) + Len(i) + Len(d) + c
          IN /\ m = mm /\ k \in 0..(IF tot < MaxK THEN tot ELSE MaxK) \cup {MetaK}
             /\ fs = PreFS(mm) /\ inv = PreInv /\ pc = "removals"
             /\ rem = r /\ ins = i /\ del = d /\ cln = c
             /\ nops = 0 /\ journal = <<>> /\ failedIn = NONE

RenameStep(phase, op, rest) ==
    /\ nops' = nops + 1
    /\ IF Fault THEN /\ pc' = "rollback" /\ failedIn' = phase /\ UNCHANGED <<fs, journal, rem, ins>>
       ELSE IF ~RenameOK(fs, op) THEN /\ pc' = "stuck" /\ UNCHANGED <<fs, journal, rem, ins, failedIn>>
       ELSE /\ fs' = Ren(fs, op) /\ journal' = Append(journal, op) /\ UNCHANGED <<pc, failedIn>>
            /\ IF phase = "removal" THEN rem' = rest /\ UNCHANGED ins ELSE ins' = rest /\ UNCHANGED rem
    /\ UNCHANGED <<m, k, inv, del, cln>>
RemovalStep   == pc = "removals" /\ rem # <<>> /\ RenameStep("removal", RemOp(m, Head(rem)), Tail(rem))
RemovalsDone  == pc = "removals" /\ rem = <<>> /\ pc' = "insertions" /\ UNCHANGED <<m, k, fs, inv, rem, ins, del, cln, nops, journal, failedIn>>
InsertionStep == pc = "insertions" /\ ins # <<>> /\ RenameStep("insertion", InsOp(m, Head(ins)), Tail(ins))
InsertionsDone == /\ pc = "insertions" /\ ins = <<>> /\ pc' = (IF InventoryFirst THEN "inventory" ELSE "deletions")
                  /\ UNCHANGED <<m, k, fs, inv, rem, ins, del, cln, nops, journal, failedIn>>
DeletionStep  == /\ pc = "deletions" /\ del # <<>> /\ nops' = nops + 1
                 /\ IF Fault THEN pc' = "finalize" /\ failedIn' = "deletion" /\ UNCHANGED <<fs, del>>     \* propagates
                    ELSE IF ~DeleteOK(fs, <<"P", Head(del)>>) THEN pc' = "stuck" /\ UNCHANGED <<fs, del, failedIn>>
                    ELSE fs' = {o \in fs : o.at # <<"P", Head(del)>>} /\ del' = Tail(del) /\ UNCHANGED <<pc, failedIn>>
                 /\ UNCHANGED <<m, k, inv, rem, ins, cln, journal>>
DeletionsDone == /\ pc = "deletions" /\ del = <<>> /\ pc' = (IF InventoryFirst THEN "cleanup" ELSE "inventory")
                 /\ UNCHANGED <<m, k, fs, inv, rem, ins, del, cln, nops, journal, failedIn>>
\* apply_inventory_delta / _apply_index_changes.  When it raises: inside the try block (and before the deletions) the journal is
\* rolled back; otherwise the error propagates with the files where they are.
ApplyInventory == /\ pc = "inventory"
                  /\ IF k = MetaK
                     THEN /\ failedIn' = "metadata" /\ UNCHANGED inv
                          /\ pc' = (IF MetaInTry /\ InventoryFirst THEN "rollback" ELSE "finalize")
                     ELSE /\ inv' = PostInv(m) /\ pc' = (IF InventoryFirst THEN "deletions" ELSE "cleanup") /\ UNCHANGED failedIn
                  /\ UNCHANGED <<m, k, fs, rem, ins, del, cln, nops, journal>>
CleanupStep   == /\ pc = "cleanup" /\ cln > 0 /\ nops' = nops + 1
                 /\ IF Fault THEN pc' = "end" /\ failedIn' = "cleanup" /\ UNCHANGED cln
                    ELSE cln' = cln - 1 /\ UNCHANGED <<pc, failedIn>>
                 /\ UNCHANGED <<m, k, fs, inv, rem, ins, del, journal>>
CleanupDone   == pc = "cleanup" /\ cln = 0 /\ pc' = "end" /\ UNCHANGED <<m, k, fs, inv, rem, ins, del, cln, nops, journal, failedIn>>
RollbackStep  == /\ pc = "rollback" /\ journal # <<>>
                 /\ LET op == journal[Len(journal)] IN fs' = Ren(fs, [from |-> op.to, to |-> op.from])
                 /\ journal' = SubSeq(journal, 1, Len(journal) - 1)
                 /\ UNCHANGED <<m, k, inv, pc, rem, ins, del, cln, nops, failedIn>>
RollbackDone  == pc = "rollback" /\ journal = <<>> /\ pc' = "finalize" /\ UNCHANGED <<m, k, fs, inv, rem, ins, del, cln, nops, journal, failedIn>>
\* the caller's finalize() after a failed apply: limbo content is deleted; pending-deletion is removed only when empty
Finalize      == pc = "finalize" /\ fs' = {o \in fs : o.at[1] # "L"} /\ pc' = "end"
                 /\ UNCHANGED <<m, k, inv, rem, ins, del, cln, nops, journal, failedIn>>
Next == RemovalStep \/ RemovalsDone \/ InsertionStep \/ InsertionsDone \/ DeletionStep \/ DeletionsDone \/ ApplyInventory
        \/ CleanupStep \/ CleanupDone \/ RollbackStep \/ RollbackDone \/ Finalize
Spec == Init /\ [][Next]_vars

(* ---- C13 as laws on an OBSERVATION o of a finished (failed or not) apply, against what the transform declares (w):
        o.disk  set of [path, kind, c, t]   files and directories of the working tree (c/t: whose content, files only)
        o.ver   set of [path, kind]         versioned paths as a re-opened tree reports them
        o.left  BOOLEAN                     limbo / pending-deletion still hold something after finalize
        o.reusable BOOLEAN                  a further transform can be built and applied on the tree
        o.phase where the failing call was: "removal" | "insertion" | "deletion" | "cleanup" | NONE (no failure)
                | "metadata" (the inventory / index update itself raised)
                | "spontaneous" (apply raised although no fault was injected)
        w       Want(transform): pre / post disk, pre / post versioning, calls per phase
   The same text judges the model's terminal states (below) and the recorded real executions (TransformTrace). *)
ObsDisk(f)   == {[path |-> o.at, kind |-> o.kind, c |-> IF o.kind = "file" THEN o.g ELSE "", t |-> IF o.kind = "file" THEN o.t ELSE ""]
                 : o \in Disk(f)}
\* NAMED DEVIATION (git flavour, independent of faults): GitTreeTransform._generate_index_changes re-keys only the
\* trans-ids the transform touched; an untouched file below a MOVED directory keeps its old index key.
Touched(mm, t) == Moved(mm, t) \/ mm.contents[t] # NONE \/ mm.exec[t] # NONE
GitInv(mm)   == {[path |-> IF Touched(mm, t) \/ ~InTree(t) THEN PathOf(mm, t) ELSE TreePath(t), kind |-> FinalKind(mm, t)]
                 : t \in {x \in Live(mm) : FinalVer(mm, x) /\ FinalKind(mm, x) # "directory"}}
Want(mm)     == [pre |-> ObsDisk(PreFS(mm)), post |-> ObsDisk(PostFS(mm)), preinv |-> PreInv, postinv |-> PostInv(mm),
                 gitinv |-> GitInv(mm), n |-> NOps(mm)]
Files(s)     == {e \in s : e.kind # "directory"}
\* a git tree reports a directory as versioned exactly when it holds a versioned file
VerEq(fl, a, b) == IF fl = "git" THEN Files(a) = Files(b) ELSE a = b
DiskIsPre(w, o)  == o.disk = w.pre
DiskIsPost(w, o) == o.disk = w.post
VerIsPre(w, fl, o)  == VerEq(fl, o.ver, w.preinv)
VerIsPost(w, fl, o) == VerEq(fl, o.ver, w.postinv)
VerAsCoded(w, fl, o) == IF fl = "git" THEN VerEq(fl, o.ver, w.gitinv) ELSE VerIsPost(w, fl, o)
LawAllOrNothing(w, fl, o) == (DiskIsPre(w, o) /\ VerIsPre(w, fl, o)) \/ (DiskIsPost(w, o) /\ VerIsPost(w, fl, o))
LawConsistent(w, fl, o)   == \A v \in o.ver : \E d \in o.disk : d.path = v.path /\ d.kind = v.kind
\* a failure before the transform is committed restores every file and directory exactly
LawRollbackExact(w, fl, o) == o.phase \in {"removal", "insertion"} => DiskIsPre(w, o) /\ VerIsPre(w, fl, o) /\ ~o.left /\ o.reusable
\* ... and so does a failure of the metadata update itself: entirely old, nothing left behind, the tree stays usable
LawMetadataRollsBack(w, fl, o) == o.phase = "metadata" => DiskIsPre(w, o) /\ VerIsPre(w, fl, o) /\ ~o.left /\ o.reusable
\* a failure while discarding replaced content never leaves the metadata describing the old layout
LawDeletionNewMeta(w, fl, o) == o.phase = "deletion" => VerIsPost(w, fl, o)
LawNames == <<"allornothing", "consistent", "rollback", "deletion", "metadata">>
Law(n, w, fl, o) == CASE n = "allornothing" -> LawAllOrNothing(w, fl, o) [] n = "consistent" -> LawConsistent(w, fl, o)
                      [] n = "rollback" -> LawRollbackExact(w, fl, o) [] n = "deletion" -> LawDeletionNewMeta(w, fl, o)
                      [] n = "metadata" -> LawMetadataRollsBack(w, fl, o)
\* the property speaks about applies in which a file-system call FAILED
Failed(w, fl, o) == IF o.phase = NONE THEN {} ELSE {n \in Rng(LawNames) : ~Law(n, w, fl, o)}
Shape(w, fl, o)  == [disk |-> IF DiskIsPost(w, o) THEN "post" ELSE IF DiskIsPre(w, o) THEN "pre" ELSE "other",
                     ver  |-> (IF VerIsPost(w, fl, o) THEN <<"post">> ELSE <<>>) \o (IF VerIsPre(w, fl, o) THEN <<"pre">> ELSE <<>>)
                              \o (IF VerAsCoded(w, fl, o) /\ ~VerIsPost(w, fl, o) THEN <<"stale-children">> ELSE <<>>)]
\* conformance with the model: an apply that did not fail (or failed only while cleaning up) produced the declared
\* result (as coded); the k-th call is in the phase the model says; the number of calls is the model's
Sum(n) == n.removal + n.insertion + n.deletion + n.cleanup
PhaseAt(n, kk) == IF kk = MetaK THEN "metadata" ELSE IF kk = 0 \/ kk > Sum(n) THEN NONE
                  ELSE IF kk <= n.removal THEN "removal" ELSE IF kk <= n.removal + n.insertion THEN "insertion"
                  ELSE IF kk <= n.removal + n.insertion + n.deletion THEN "deletion" ELSE "cleanup"
DoneIsPost(w, fl, o) == o.phase \in {NONE, "cleanup"} => DiskIsPost(w, o) /\ VerAsCoded(w, fl, o) /\ ~o.left
Drift(w, fl, kk, o, ncalls) == (IF o.phase # PhaseAt(w.n, kk) THEN {"phase"} ELSE {})
                        \cup (IF o.phase = NONE /\ ncalls # Sum(w.n) THEN {"nops"} ELSE {})
                        \cup (IF ~DoneIsPost(w, fl, o) THEN {"result"} ELSE {})

SpecObs == [disk |-> ObsDisk(fs), ver |-> inv, left |-> Left(fs) # {}, reusable |-> Left(fs) = {}, phase |-> failedIn]

(* ---- invariants of the model *)
NotStuck       == pc # "stuck"                      \* every rename has a source, a free destination and a parent directory
AllOrNothing   == pc = "end" => LawAllOrNothing(Want(m), "bzr", SpecObs)
MetaConsistent == pc = "end" => LawConsistent(Want(m), "bzr", SpecObs)
RollbackExact  == pc = "end" => LawRollbackExact(Want(m), "bzr", SpecObs)
DeletionFailureNewMeta == pc = "end" => LawDeletionNewMeta(Want(m), "bzr", SpecObs)
MetaFailureRollsBack == pc = "end" => LawMetadataRollsBack(Want(m), "bzr", SpecObs)
Conformant     == pc = "end" => Drift(Want(m), "bzr", k, SpecObs, nops) = {}
\* anti-vacuity
WitnessRollbackNested == ~(pc = "end" /\ failedIn = "insertion" /\ Len(journal) = 0 /\ nops >= 4)
WitnessDeletionFailure == ~(pc = "end" /\ failedIn = "deletion")
WitnessRider == ~(pc = "end" /\ failedIn = NONE /\ \E t \in Tids : Rides(m, t) /\ InTree(t))
=============================================================================
