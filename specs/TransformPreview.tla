------------------------- MODULE TransformPreview -------------------------
(* Building a tree transform through its public builder API - property C14 (previews match their applied result;
   resolve_conflicts ends clean or MalformedTransform).  breezy/transform.py TreeTransform.create_file /
   create_directory / delete_contents / adjust_path / version_file / unversion_file / set_executability,
   find_raw_conflicts, resolve_conflicts, PreviewTree.

   World: the tree {a (executable), d/, d/c} (all versioned) with trans-ids a d c, and one new trans-id n created by
   create_path("n", root) before the first operation.  One action per builder call; the calls respect the API's own
   preconditions (create contents once, version only an unversioned trans-id with a fresh file id, unversion only a
   versioned one, set executability once).  A state is the op maps `m`; `hist` is the call sequence that builds it (the calls
   touch independent slots of the maps, so each transform is generated once, its calls in the canonical order
   `Order`: A = contents first, then paths and versioning; B = paths first, contents last), `out` what the maps declare: the raw-conflict families
   (TransformMaps!ConflictKinds) and, for a conflict-free transform, the resulting tree (TransformMaps!FinalTree).
   The resolvers' choices are NOT specified: C14 only needs preview = applied, and clean-or-MalformedTransform. *)
EXTENDS TransformMaps, SequencesExt
CONSTANTS MaxOps,       \* builder calls per transform
          AdjNames,     \* names adjust_path may give
          ExecVals,     \* subset of {"yes", "no"}
          Order         \* "A" | "B": the order in which the calls of one transform are issued
VARIABLES m, hist, out
vars == <<m, hist, out>>

PTids == {"a", "d", "c", "n"}
PTree == [a |-> [name |-> "a", parent |-> ROOT, kind |-> "file", ver |-> TRUE, x |-> TRUE],
          d |-> [name |-> "d", parent |-> ROOT, kind |-> "directory", ver |-> TRUE, x |-> FALSE],
          c |-> [name |-> "c", parent |-> "d", kind |-> "file", ver |-> TRUE, x |-> FALSE]]
PRank == [a |-> 1, c |-> 2, d |-> 3, n |-> 4, x |-> 5]

M0 == [Blank EXCEPT !.name = [@ EXCEPT !["n"] = "n"], !.parent = [@ EXCEPT !["n"] = ROOT]]      \* after create_path("n", root)
Fresh(mm, t) == IF InTree(t) THEN mm.name[t] = NONE ELSE (mm.name[t] = "n" /\ mm.parent[t] = ROOT)  \* path not adjusted yet
Size(mm) == Cardinality({t \in Tids : mm.contents[t] # NONE}) + Cardinality(mm.removed) + Cardinality({t \in Tids : ~Fresh(mm, t)})
            + Cardinality(mm.newid) + Cardinality(mm.remid) + Cardinality({t \in Tids : mm.exec[t] # NONE})

O(op, t, nm, p, v) == [op |-> op, t |-> t, name |-> nm, parent |-> p, v |-> v]
Pre(mm, o) ==
    CASE o.op \in {"create_file", "create_directory"} -> mm.contents[o.t] = NONE
      [] o.op = "delete_contents"   -> InTree(o.t) /\ o.t \notin mm.removed
      [] o.op = "adjust_path"       -> Fresh(mm, o.t)                         \* one adjust per trans-id (a second one overwrites)
      [] o.op = "version_file"      -> ~FinalVer(mm, o.t)
      [] o.op = "unversion_file"    -> TreeVer(o.t) /\ o.t \notin mm.remid /\ o.t \notin mm.newid
      [] o.op = "set_executability" -> mm.exec[o.t] = NONE
Do(mm, o) ==
    CASE o.op = "create_file"       -> [mm EXCEPT !.contents[o.t] = "file"]
      [] o.op = "create_directory"  -> [mm EXCEPT !.contents[o.t] = "directory"]
      [] o.op = "delete_contents"   -> [mm EXCEPT !.removed = @ \cup {o.t}]
      [] o.op = "adjust_path"       -> [mm EXCEPT !.name[o.t] = o.name, !.parent[o.t] = o.parent]
      [] o.op = "version_file"      -> [mm EXCEPT !.newid = @ \cup {o.t}]
      [] o.op = "unversion_file"    -> [mm EXCEPT !.remid = @ \cup {o.t}]
      [] o.op = "set_executability" -> [mm EXCEPT !.exec[o.t] = o.v]

\* NAMED DEVIATION (git flavour): GitTreeTransform._generate_index_changes drops the index entry of every trans-id that is
\* unversioned, deleted or moved, and (re-)adds only trans-ids whose path, contents or executability the transform
\* touched.  So an untouched file below a MOVED directory keeps its old index key (unversioned at its new path), and
\* unversion_file + version_file of an otherwise untouched file leaves it unversioned.
GitTouched(mm, t) == Moved(mm, t) \/ mm.contents[t] # NONE \/ mm.exec[t] # NONE
GitVer(mm, t)  == IF GitTouched(mm, t) THEN FinalVer(mm, t)
                  ELSE IF t \in mm.remid \cup mm.removed THEN FALSE
                  ELSE InTree(t) /\ Tree[t].ver /\ PathOf(mm, t) = TreePath(t)
GitFinalTree(mm) == {[e EXCEPT !.ver = IF e.kind = "directory" THEN e.ver ELSE \E t \in Live(mm) : e.t = t /\ GitVer(mm, t)]
                     : e \in FinalTree(mm)}
Describe(mm) == LET kb == ConflictKinds(mm, "bzr")  kg == kb \ {"unversioned parent"} IN
                [kinds |-> [bzr |-> kb, git |-> kg],
                 final |-> [bzr |-> IF kb = {} THEN FinalTree(mm) ELSE {}, git |-> IF kg = {} THEN GitFinalTree(mm) ELSE {}]]

TypeRank == IF Order = "A"
            THEN [create_file |-> 1, create_directory |-> 2, delete_contents |-> 3, adjust_path |-> 4, unversion_file |-> 5,
                  version_file |-> 6, set_executability |-> 7]
            ELSE [adjust_path |-> 1, delete_contents |-> 2, set_executability |-> 3, unversion_file |-> 4, version_file |-> 5,
                  create_directory |-> 6, create_file |-> 7]
TidRank  == [a |-> 1, d |-> 2, c |-> 3, n |-> 4]
Key(o)   == TypeRank[o.op] * 10 + TidRank[o.t]

Init == m = M0 /\ hist = <<>> /\ out = Describe(M0)
Step(o) == Size(m) < MaxOps /\ Pre(m, o) /\ (IF hist = <<>> THEN TRUE ELSE Key(hist[Len(hist)]) < Key(o)) /\ m' = Do(m, o) /\ hist' = Append(hist, o) /\ out' = Describe(m')
CreateFile(t)     == Step(O("create_file", t, "", "", ""))
CreateDir(t)      == Step(O("create_directory", t, "", "", ""))
Delete(t)         == Step(O("delete_contents", t, "", "", ""))
Adjust(nm, p, t)  == ~(InTree(t) /\ nm = Tree[t].name /\ p = Tree[t].parent) /\ ~(t = "n" /\ nm = "n" /\ p = ROOT)
                     /\ Step(O("adjust_path", t, nm, p, ""))
Version(t)        == Step(O("version_file", t, "", "", ""))
Unversion(t)      == Step(O("unversion_file", t, "", "", ""))
SetExec(v, t)     == Step(O("set_executability", t, "", "", v))
Next == \E t \in Tids : \/ CreateFile(t) \/ CreateDir(t) \/ Delete(t) \/ Version(t) \/ Unversion(t)
                        \/ \E v \in ExecVals : SetExec(v, t)
                        \/ \E nm \in AdjNames, p \in Tids \cup {ROOT} : Adjust(nm, p, t)
Spec == Init /\ [][Next]_vars

(* ---- C14 as laws on an OBSERVED execution r of one transform through the real API (the same record for bzr and git):
        r.build    "ok" | "<call>:<exception>"         the builder calls themselves
        r.raw      families reported by find_raw_conflicts()
        r.resolve  "none" (no conflicts) | "clean" | "malformed" | "timeout" | "raises:<exception>";  r.passes
        r.preview  "none" | "ok" | "raises:<exception>"   reading get_preview_tree();  r.preview_tree its projection
        r.apply    "none" | "ok" | "raises:<exception>";  r.applied_tree projection of the re-opened working tree
        r.unchanged  disk, versioning and limbo as before the transform (recorded when apply did not succeed) *)
Usable(r)              == r.build = "ok" /\ (r.raw = {} \/ r.resolve = "clean")   \* conflict-free, or made so by resolve_conflicts
LawBuilds(r)           == r.build = "ok"
LawTerminates(r)       == r.resolve # "timeout" /\ r.passes <= 10
LawCleanOrMalformed(r) == r.resolve \in {"none", "clean", "malformed", "timeout"}
LawAppliesCleanly(r)   == Usable(r) => r.apply = "ok"
LawAtomic(r)           == r.apply # "ok" => r.unchanged                            \* never a partially applied tree
LawPreviewReadable(r)  == Usable(r) => r.preview = "ok"
\* git has no versioned directories (a tree reports the directories its versioned files imply): files are compared
NoDirs(fl, s)          == IF fl = "git" THEN {e \in s : e.kind # "directory"} ELSE s
LawPreviewEqApplied(fl, r) == (r.preview = "ok" /\ r.apply = "ok") => NoDirs(fl, r.preview_tree) = NoDirs(fl, r.applied_tree)
PLawNames == <<"builds", "terminates", "clean_or_malformed", "applies_cleanly", "atomic", "preview_readable", "preview_eq_applied">>
PLaw(n, fl, r) == CASE n = "builds" -> LawBuilds(r) [] n = "terminates" -> LawTerminates(r)
                [] n = "clean_or_malformed" -> LawCleanOrMalformed(r) [] n = "applies_cleanly" -> LawAppliesCleanly(r)
                [] n = "atomic" -> LawAtomic(r) [] n = "preview_readable" -> LawPreviewReadable(r)
                [] n = "preview_eq_applied" -> LawPreviewEqApplied(fl, r)
PFailed(fl, r) == {n \in Rng(PLawNames) : ~PLaw(n, fl, r)}
\* conformance with the model (sp = Describe(maps), fl = flavour): same conflict families; a conflict-free transform
\* yields the declared tree.  (What the resolvers do is not modelled: e.g. git's resolve_duplicate merges two directories by
\* delete_contents / cancel_creation and can thereby clear an "overwrite", a family that has no resolver of its own.)
GitDirs(fl, s) == IF fl = "git" THEN {[e EXCEPT !.ver = IF e.kind = "directory" THEN FALSE ELSE e.ver] : e \in s} ELSE s
PDrift(sp, fl, r) == IF r.build # "ok" THEN {} ELSE
         (IF r.raw # sp.kinds[fl] THEN {"kinds"} ELSE {})
    \cup (IF sp.kinds[fl] = {} /\ r.apply = "ok" /\ GitDirs(fl, r.applied_full) # GitDirs(fl, sp.final[fl]) THEN {"final"} ELSE {})

(* ---- design checks on the declarative meaning *)
\* a transform without raw conflicts declares a well-formed tree: every live entry is rooted, paths are unique, every
\* entry's parent is the root or a live directory; versioned entries have versioned parents (bzr)
ParentPath(p) == SubSeq(p, 1, Len(p) - 1)
WellFormed(ft) == /\ \A e1, e2 \in ft : e1.path = e2.path => e1 = e2
                  /\ \A e \in ft : Len(e.path) = 1 \/ \E q \in ft : q.path = ParentPath(e.path) /\ q.kind = "directory"
CleanIsWellFormed == out.kinds.git = {} => /\ \A t \in Live(m) : Rooted(m, t)
                                           /\ WellFormed(FinalTree(m))
                                           /\ Cardinality(out.final.git) = Cardinality(Live(m))
CleanBzrVersionedParents == out.kinds.bzr = {} =>
    \A e \in out.final.bzr : (e.ver /\ Len(e.path) > 1) => \E q \in out.final.bzr : q.path = ParentPath(e.path) /\ q.ver
HistReplays == m = FoldLeft(Do, M0, hist) /\ Len(hist) = Size(m)
\* anti-vacuity (TLC must reach these)
WitnessLoop  == "parent loop" \notin out.kinds.bzr
WitnessCleanMove == ~(out.kinds.bzr = {} /\ Len(hist) = MaxOps /\ \E e \in out.final.bzr : e.c = "new" /\ Len(e.path) = 2)
=============================================================================
