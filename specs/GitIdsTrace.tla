---------------------------- MODULE GitIdsTrace ----------------------------
(* C36, code -> spec: results recorded from the real functions are judged by the laws of GitIds (verdict) and
   compared with the transcription (drift). *)
EXTENDS GitIds, TLC, Json, IOUtils, SequencesExt
Rows == JsonDeserialize(IOEnv.VF_IN)
VARIABLE i
Init == i \in 1..Len(Rows)
Next == UNCHANGED i
Bad == SelectSeq([k \in 1..Len(Rows) |->
                    [row |-> k, failed |-> SetToSeq(Failed(Rows[k].c.kind, Rows[k].c, Rows[k].impl)),
                     drift |-> Rows[k].impl # SpecOut(Rows[k].c.kind, Rows[k].c)]],
                 LAMBDA r : r.failed # <<>> \/ r.drift)
ASSUME JsonSerialize(IOEnv.VF_OUT, [n |-> Len(Rows), bad |-> Bad])
=============================================================================
