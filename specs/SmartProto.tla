----------------------------- MODULE SmartProto -----------------------------
(* The bzr smart protocol (breezy/bzr/smart/protocol.py, message.py, medium.py) at the level of byte COUNTS.

   - A message SHAPE fixes protocol version, direction, the byte lengths of headers / arguments / body / stream
     chunks / error arguments and the number of trailing bytes; Wire(s) is its encoded part structure (a sequence
     of tokens with lengths), transcribed from the encoders (_ProtocolThreeEncoder and subclasses, _encode_tuple,
     _encode_bulk_data, _send_stream/_send_chunks, SmartServerRequestProtocolOne/Two._send_response,
     SmartClientRequestProtocolOne/Two.call, call_with_body_bytes, call_with_body_readv_array).  Byte VALUES are not modelled: the harness picks them.
   - View(s, tg) is the part of the wire a decoding TARGET sees, each token tagged with the decoder phase (role)
     that consumes it.  Targets: "v3" ProtocolThreeDecoder, "v12srv" SmartServerRequestProtocolOne/Two.accept_bytes,
     "lp" LengthPrefixedBodyDecoder, "chunked" ChunkedBodyDecoder, "v12cli" SmartClientRequestProtocolOne/Two reading
     a response through the medium, "pipe" SmartServerPipeStreamMedium reading one request.
   - The decoders are ONE state machine over counts: state = (token index = phase, bytes buffered towards the
     current token, fresh, bytes accepted); Accept(toks, st, k) delivers k bytes; Hint is next_read_size()
     transcribed branch by branch.
   - The laws of C29 / C30 are operators on OBSERVED runs (the Law operators), so the same text judges the transcription
     (SmartProtoGen, model checking) and the implementation (SmartProtoTrace). *)
EXTENDS Naturals, Sequences, FiniteSets, SequencesExt

\* ---------------------------------------------------------------- wire constants (lengths of literal markers)
M3 == 24        \* "bzr message 3 (bzr 1.6)\n"
Q2 == 14        \* "bzr request 2\n"
R2 == 15        \* "bzr response 2\n"

MinOf(a, b) == IF a < b THEN a ELSE b
\* FoldLeft is evaluated iteratively by TLC (Java override): no recursion depth proportional to the data
SumSeq(q) == FoldLeft(LAMBDA a, b : a + b, 0, q)
Flat(qq) == FoldLeft(LAMBDA a, b : a \o b, <<>>, qq)
Digits(n) == IF n < 10 THEN 1 ELSE IF n < 100 THEN 2 ELSE IF n < 1000 THEN 3 ELSE IF n < 10000 THEN 4 ELSE 5
HexDigits(n) == IF n < 16 THEN 1 ELSE IF n < 256 THEN 2 ELSE IF n < 4096 THEN 3 ELSE 4
BStr(n) == Digits(n) + 1 + n                                            \* bencoded byte string  "<n>:<bytes>"
BList(lens) == 2 + SumSeq([i \in DOMAIN lens |-> BStr(lens[i])])        \* "l" ... "e"
BDict(kv) == 2 + SumSeq([i \in DOMAIN kv |-> BStr(kv[i][1]) + BStr(kv[i][2])])     \* "d" ... "e"
TupleLine(lens) == SumSeq(lens) + Len(lens)                             \* args joined by 0x01, "\n" (>= 1 arg)
ReadvLen(offs) == IF offs = <<>> THEN 0                                 \* "start,len" lines joined by "\n"
                  ELSE SumSeq([i \in DOMAIN offs |-> Digits(offs[i][1]) + 1 + Digits(offs[i][2])]) + Len(offs) - 1

\* ---------------------------------------------------------------- shapes
(* s.ver 1..3; s.dir "req"|"resp"; s.hdr <<<<klen, vlen>>, ...>> (v3 headers); s.args <<len, ...>>;
   s.kind "none" | "bytes" (s.n) | "readv" (s.offs) | "stream" (s.cs) | "streamerr" (s.cs, s.err) | "error"
   (failed response, no body); s.trail = number of bytes following the message. *)
BodyLen(s) == IF s.kind = "readv" THEN ReadvLen(s.offs) ELSE s.n
ValidShape(s) ==
    /\ s.ver \in 1..3 /\ s.dir \in {"req", "resp"} /\ Len(s.args) >= 1
    /\ s.kind \in {"none", "bytes", "readv", "stream", "streamerr", "error"}
    /\ (s.kind = "readv" => s.dir = "req")
    /\ (s.kind = "error" => s.dir = "resp")
    /\ (s.kind \in {"stream", "streamerr"} => (s.ver = 3 \/ (s.ver = 2 /\ s.dir = "resp")))
    /\ (s.ver < 3 => s.hdr = <<>>)

\* ---------------------------------------------------------------- tokens
(* t: "lit" (fixed literal of n bytes) | "lp" (4-byte big-endian length + n bytes) | "line" (n bytes ending in the
   only "\n") | "raw" (n bytes).  what: which part it is (for the harness' structural check of real encoder
   output).  role: the decoder phase that consumes it (selects the next_read_size branch). *)
Tok(t, n, what, role) == [t |-> t, n |-> n, what |-> what, role |-> role]
One(what) == Tok("lit", 1, what, "one")
LP(n, what) == Tok("lp", n, what, "lp")
Need(tok) == IF tok.t = "lp" THEN 4 + tok.n ELSE tok.n
Total(toks) == SumSeq([i \in DOMAIN toks |-> Need(toks[i])])

\* _ProtocolThreeEncoder: _write_prefixed_body per chunk
Chunks3(cs) == Flat([i \in DOMAIN cs |-> <<One("kind_b"), LP(cs[i], "chunk")>>])
\* "oE" + structure(err): ProtocolThreeResponder.send_response (FailedSmartServerResponse in the stream) and
\* ProtocolThreeRequester.call_with_body_stream (stream iteration failed)
ErrTail3(err) == <<One("kind_o"), One("status_E"), One("kind_s"), LP(BList(err), "errargs")>>
V3Body(s) ==
    CASE s.kind \in {"none", "error"} -> <<>>
      [] s.kind \in {"bytes", "readv"} -> <<One("kind_b"), LP(BodyLen(s), "body")>>
      [] s.kind = "stream" -> Chunks3(s.cs)
      [] s.kind = "streamerr" -> Chunks3(s.cs) \o ErrTail3(s.err)
V3Wire(s) ==
    <<Tok("lit", M3, "marker3", "marker"), LP(BDict(s.hdr), "headers")>>
    \o (IF s.dir = "resp" THEN <<One("kind_o"), One(IF s.kind = "error" THEN "status_E" ELSE "status_S")>> ELSE <<>>)
    \o <<One("kind_s"), LP(BList(s.args), "args")>>
    \o V3Body(s) \o <<One("kind_e")>>

\* _encode_bulk_data: "<decimal>\n" body "done\n"
LPBody(n) == <<Tok("line", Digits(n) + 1, "declen", "lplen"), Tok("raw", n, "body", "lpbody"),
               Tok("lit", 5, "done", "lptrail")>>
\* _send_stream / _send_chunks: "chunked\n" ("<hex>\n" chunk)* ["ERR\n" ("<hex>\n" arg)*] "END\n"
ChunkToks(cs, what) == Flat([i \in DOMAIN cs |-> <<Tok("line", HexDigits(cs[i]) + 1, "hexlen", "clen"),
                                                   Tok("raw", cs[i], what, "cbody")>>])
ChunkedBody(s) ==
    <<Tok("lit", 8, "chunked", "chdr")>> \o ChunkToks(s.cs, "chunk")
    \o (IF s.kind = "streamerr" THEN <<Tok("lit", 4, "ERR", "clen")>> \o ChunkToks(s.err, "errarg") ELSE <<>>)
    \o <<Tok("lit", 4, "END", "clen")>>
V12Body(s) ==
    CASE s.kind \in {"none", "error"} -> <<>>
      [] s.kind \in {"bytes", "readv"} -> LPBody(BodyLen(s))
      [] s.kind \in {"stream", "streamerr"} -> ChunkedBody(s)
V12Wire(s) ==
    (IF s.ver = 2 THEN (IF s.dir = "req" THEN <<Tok("lit", Q2, "marker_req2", "getline")>>
                        ELSE <<Tok("lit", R2, "marker_resp2", "getline"),
                               IF s.kind = "error" THEN Tok("lit", 7, "failed", "getline")
                               ELSE Tok("lit", 8, "success", "getline")>>)
     ELSE <<>>)
    \o <<Tok("line", TupleLine(s.args), "argline", "argline")>> \o V12Body(s)
Wire(s) == IF s.ver = 3 THEN V3Wire(s) ELSE V12Wire(s)

\* ---------------------------------------------------------------- targets
BodyRoles == {"lplen", "lpbody", "lptrail", "chdr", "clen", "cbody"}
Targets(s) ==
    IF s.ver = 3 THEN {"v3"} \cup (IF s.dir = "req" THEN {"pipe"} ELSE {})
    ELSE IF s.dir = "req" THEN {"v12srv", "pipe"} \cup (IF s.kind \in {"bytes", "readv"} THEN {"lp"} ELSE {})
    ELSE {"v12cli"} \cup (IF s.kind = "bytes" THEN {"lp"} ELSE {})
                    \cup (IF s.kind \in {"stream", "streamerr"} THEN {"chunked"} ELSE {})
\* push: the harness cuts the bytes and calls accept_bytes; pull: the real reader asks for next_read_size() bytes
\* and the pipe returns at most what is left of the current segment.
Modes(s, tg) == CASE tg = "v3" -> IF s.dir = "resp" THEN {"push", "pull"} ELSE {"push"}
                  [] tg \in {"v12srv", "lp", "chunked"} -> {"push"}
                  [] tg \in {"v12cli", "pipe"} -> {"pull"}
ReRole(toks, from, to) == [i \in DOMAIN toks |-> IF toks[i].role \in from THEN [toks[i] EXCEPT !.role = to] ELSE toks[i]]
View(s, tg) ==
    LET w == Wire(s) IN
    CASE tg = "v3" -> IF s.dir = "req" THEN Tail(w) ELSE w           \* the server medium strips the marker line
      [] tg = "v12srv" -> IF s.ver = 2 THEN Tail(w) ELSE w
      [] tg \in {"lp", "chunked"} -> SelectSeq(w, LAMBDA k : k.role \in BodyRoles)
      [] tg = "v12cli" -> ReRole(w, {"argline"}, "getline")          \* read_line -> _get_line: one byte per read
      [] tg = "pipe" -> <<[w[1] EXCEPT !.role = "getline"]>> \o Tail(w)   \* _build_protocol -> _get_line
\* what the target reports once the message is complete: next_read_size() = 0 (v3, v1/v2 server, hence the pipe
\* medium), or finished_reading with a 1-byte "reading unused" hint (body decoders); v12cli just stops reading.
EndHint(tg) == IF tg \in {"lp", "chunked"} THEN 1 ELSE 0

\* ---------------------------------------------------------------- the decoder state machine over counts
InitSt == [ti |-> 1, buf |-> 0, fresh |-> TRUE, pos |-> 0]
Needs(toks) == [i \in DOMAIN toks |-> Need(toks[i])]
\* run the state machine as far as the buffered bytes allow (the while loop of _StatefulDecoder.accept_bytes)
RECURSIVE Settle(_, _, _)
Settle(need, ti, buf) == IF ti <= Len(need) /\ buf >= need[ti] THEN Settle(need, ti + 1, buf - need[ti]) ELSE <<ti, buf>>
AcceptN(need, st, k) == LET r == Settle(need, st.ti, st.buf + k)
                        IN [ti |-> r[1], buf |-> r[2], fresh |-> FALSE, pos |-> st.pos + k]
Accept(toks, st, k) == AcceptN(Needs(toks), st, k)
Done(toks, st) == st.ti > Len(toks)
Phase(toks, st) == IF Done(toks, st) THEN "unused" ELSE toks[st.ti].role
Remaining(toks, st) == IF st.pos < Total(toks) THEN Total(toks) - st.pos ELSE 0
Unused(toks, st) == IF Done(toks, st) THEN st.buf ELSE 0

(* next_read_size(), branch by branch *)
RoleHint(tok, buf, fresh) ==
    CASE tok.role = "marker" -> IF fresh THEN tok.n + 4 ELSE tok.n - buf   \* ProtocolThreeDecoder.__init__ / _NeedMoreBytes(len(MARKER))
      [] tok.role = "one" -> 1                                            \* _extract_single_byte: _NeedMoreBytes(1)
      [] tok.role = "lp" -> IF buf < 4 THEN 4 - buf ELSE 4 + tok.n - buf  \* _extract_length_prefixed_bytes
      [] tok.role = "getline" -> 1                                        \* medium._get_line: read_bytes(1)
      [] tok.role = "argline" -> 1                                        \* ProtocolOne: _body_decoder is None
      [] tok.role = "lplen" -> 6                                          \* LengthPrefixedBodyDecoder: expecting_length
      [] tok.role = "lpbody" -> (tok.n - buf) + 5                         \* bytes_left + 5
      [] tok.role = "lptrail" -> 5 - buf                                  \* 5 - len(_trailer_buffer)
      [] tok.role = "chdr" -> IF buf < 8 THEN 8 - buf ELSE 0              \* max(0, len("chunked\n") - buffered)
      [] tok.role = "clen" -> IF buf = 0 THEN 2 ELSE 1                    \* ChunkedBodyDecoder: expecting_length
      [] tok.role = "cbody" -> (tok.n - buf) + 4                          \* bytes_left + 4
Hint(toks, tg, st) == IF Done(toks, st) THEN EndHint(tg) ELSE RoleHint(toks[st.ti], st.buf, st.fresh)

\* push run: states before the first and after every accept_bytes
PushStatesN(need, st, seg) == FoldLeft(LAMBDA acc, k : Append(acc, AcceptN(need, acc[Len(acc)], k)), <<st>>, seg)
PushStates(toks, st, seg) == PushStatesN(Needs(toks), st, seg)
PushHints(toks, tg, seg) == LET q == PushStates(toks, InitSt, seg) IN [i \in DOMAIN q |-> Hint(toks, tg, q[i])]
\* pull run: sizes the reader asks for, when every read returns min(asked, rest of the current segment).
\* One loop iteration per read (at most one per byte of the stream); a = [st, si (current segment), off (bytes of it
\* already taken), asks, stop].
PullStep(toks, need, tg, seg, a) ==
    IF a.stop THEN a
    ELSE IF Done(toks, a.st) \/ a.si > Len(seg) THEN [a EXCEPT !.stop = TRUE]
    ELSE LET h == Hint(toks, tg, a.st)
             got == MinOf(h, seg[a.si] - a.off)
             last == a.off + got = seg[a.si]
         IN IF h = 0 THEN [a EXCEPT !.stop = TRUE]
            ELSE [st |-> AcceptN(need, a.st, got), si |-> IF last THEN a.si + 1 ELSE a.si,
                  off |-> IF last THEN 0 ELSE a.off + got, asks |-> Append(a.asks, h), stop |-> FALSE]
PullAsks(toks, tg, st, seg, off) ==
    LET need == Needs(toks)
        nz == SelectSeq(seg, LAMBDA k : k > 0)
    IN FoldLeft(LAMBDA a, j : PullStep(toks, need, tg, nz, a),
                [st |-> st, si |-> 1, off |-> off, asks |-> <<>>, stop |-> FALSE],
                [j \in 1..SumSeq(nz) |-> j]).asks
\* the v1/v2 client and the pipe medium start reading without a preceding empty accept; the pipe medium hands the
\* protocol an empty buffer after the first line (accept_bytes(b"")), which only matters for fresh.
PullInit(tg) == IF tg = "pipe" THEN [InitSt EXCEPT !.fresh = FALSE] ELSE InitSt

\* ---------------------------------------------------------------- expected handler events
(* v3: MessageHandler callbacks, one per part, as <<kind, payload length>>. *)
V3Events(toks) ==
    LET n == Len(toks)
        ev(i) == CASE toks[i].what = "headers" -> <<<<"h", toks[i].n>>>>
                   [] toks[i].what \in {"args", "errargs"} -> <<<<"s", toks[i].n>>>>
                   [] toks[i].what \in {"body", "chunk"} -> <<<<"b", toks[i].n>>>>
                   [] toks[i].what \in {"status_S", "status_E"} -> <<<<"o", 1>>>>
                   [] toks[i].what = "kind_e" -> <<<<"e", 0>>>>
                   [] OTHER -> <<>>
    IN Flat([i \in 1..n |-> ev(i)])
EvSum(ev, k) == SumSeq([i \in DOMAIN ev |-> IF ev[i][1] = k THEN ev[i][2] ELSE 0])
EvCount(ev, k) == Cardinality({i \in DOMAIN ev : ev[i][1] = k})
EvKinds(ev) == {ev[i][1] : i \in DOMAIN ev}
(* server command callbacks: do(args) once; body delivered in pieces ("chunk", any split) whose total is the body;
   do_end -> do_body once with the whole body, after all pieces.  A body-less v1/v2 request only sees do(). *)
CmdEventsOK(s, ev) ==
    LET hasBody == s.kind \in {"bytes", "readv", "stream", "streamerr"}
        total == IF s.kind \in {"stream", "streamerr"} THEN SumSeq(s.cs) ELSE IF hasBody THEN BodyLen(s) ELSE 0
    IN /\ Len(ev) >= 1 /\ ev[1] = <<"do", Len(s.args)>> /\ EvCount(ev, "do") = 1
       /\ EvKinds(ev) \subseteq {"do", "chunk", "body"}
       /\ EvSum(ev, "chunk") = total
       /\ IF hasBody \/ s.ver = 3
          THEN EvCount(ev, "body") = 1 /\ ev[Len(ev)] = <<"body", total>>
          ELSE EvCount(ev, "body") = 0
       /\ (s.kind \in {"stream", "streamerr"} =>
             [i \in 1..Len(s.cs) |-> <<"chunk", s.cs[i]>>] = SelectSeq(ev, LAMBDA e : e[1] = "chunk"))
EventsOK(s, tg, mode, toks, ev) ==
    CASE tg = "v3" /\ s.dir = "resp" -> ev = V3Events(toks)
      [] tg = "v3" /\ s.dir = "req" -> SelectSeq(ev, LAMBDA e : e[1] \notin {"do", "chunk", "body"}) = V3Events(toks)
                                       /\ CmdEventsOK(s, SelectSeq(ev, LAMBDA e : e[1] \in {"do", "chunk", "body"}))
      [] tg \in {"v12srv", "pipe"} -> CmdEventsOK(s, ev)
      [] tg = "lp" -> EvKinds(ev) \subseteq {"piece"} /\ EvSum(ev, "piece") = BodyLen(s)
      [] tg = "chunked" -> ev = [i \in 1..Len(s.cs) |-> <<"chunk", s.cs[i]>>]
                                \o (IF s.kind = "streamerr" THEN <<<<"err", Len(s.err)>>>> ELSE <<>>)
      [] OTHER -> TRUE

\* ---------------------------------------------------------------- the laws, on OBSERVED runs
(* o (push): hints, fins, rems : sequences indexed 1..Len(seg)+1 (before the first / after each accept_bytes);
             rems = REAL remaining byte count of the message (from the real encoder output)
   o (pull): asks, rems (remaining before each read), gots; fin (completion reported), consumed (bytes taken
             from the pipe), len (real message length)
   both:     enc / dec (what was encoded / what came out, hex strings), trail / unused (hex), ev *)
AllIdx(q, P(_)) == \A i \in DOMAIN q : P(i)
\* C30
LawHintLeRemaining(o) == AllIdx(o.hints, LAMBDA i : o.rems[i] > 0 => o.hints[i] <= o.rems[i])
LawHintPositive(o) == AllIdx(o.hints, LAMBDA i : o.rems[i] > 0 => o.hints[i] > 0)
LawDoneExact(o, tg) == AllIdx(o.fins, LAMBDA i : o.fins[i] <=> (o.rems[i] = 0))
                       /\ (EndHint(tg) = 0 => AllIdx(o.hints, LAMBDA i : (o.hints[i] = 0) <=> (o.rems[i] = 0)))
LawNeverAskBeyond(o) == AllIdx(o.asks, LAMBDA i : o.asks[i] >= 1 /\ o.asks[i] <= o.rems[i])
LawStopsAtEnd(o) == o.fin /\ o.consumed = o.len
\* C29
LawDecoded(o) == o.dec = o.enc
LawUnused(o) == o.unused = o.trail
C30Push == <<"hint_le_remaining", "hint_positive", "done_exact">>
C30Pull == <<"never_ask_beyond", "stops_at_end">>
C29Laws == <<"decoded", "unused", "events">>
Law(n, r, toks) ==
    LET o == r.obs IN
    CASE n = "hint_le_remaining" -> LawHintLeRemaining(o) [] n = "hint_positive" -> LawHintPositive(o)
      [] n = "done_exact" -> LawDoneExact(o, r.tg) [] n = "never_ask_beyond" -> LawNeverAskBeyond(o)
      [] n = "stops_at_end" -> LawStopsAtEnd(o) [] n = "decoded" -> LawDecoded(o) [] n = "unused" -> LawUnused(o)
      [] n = "events" -> EventsOK(r.s, r.tg, r.mode, toks, o.ev)
RangeOf(q) == {q[i] : i \in DOMAIN q}
LawNamesFor(prop, mode) == IF prop = "C29" THEN C29Laws ELSE IF mode = "push" THEN C30Push ELSE C30Pull
Failed(prop, r, toks) == {n \in RangeOf(LawNamesFor(prop, r.mode)) : ~Law(n, r, toks)}

\* what the transcription predicts for a run (the design check applies the laws to this; the trace check compares
\* the implementation's hints / reads with it = conformance)
SpecPush(toks, tg, seg) ==
    LET q == PushStates(toks, InitSt, seg)
        L == Total(toks)
    IN [hints |-> [i \in DOMAIN q |-> Hint(toks, tg, q[i])],
        fins |-> [i \in DOMAIN q |-> Done(toks, q[i])],
        rems |-> [i \in DOMAIN q |-> IF q[i].pos < L THEN L - q[i].pos ELSE 0]]
=============================================================================
