--------------------------- MODULE TreeDiffTrace ---------------------------
(* E3 for C10: change sets recorded from the real InterTree implementations are judged by the laws of TreeDiff.
   One row per tree pair:
     [s, t, tx, recs, grecs, qs]    recs / grecs = the distinct change records (bzr / git form) seen for this pair,
     qs[k] = [f, iu, wu, o, g]      one query: filter, include_unchanged, want_unversioned, and per implementation the
                                    observed change set as indices into recs (o: chk, inv, old, ds, wt) / grecs (g: rt, wt).
   The verdict table (queries with failed laws, the implementations at fault, drift against the declarative model) is
   written back as JSON. *)
EXTENDS TreeDiff, Json, IOUtils, SequencesExt
Rows == JsonDeserialize(IOEnv.VF_IN)
VARIABLE i
Init == i \in 1..Len(Rows)
Next == UNCHANGED i
Q(r, k) == LET x == Rows[r].qs[k] IN [s |-> Rows[r].s, t |-> Rows[r].t, tx |-> Rows[r].tx, f |-> x.f, iu |-> x.iu, wu |-> x.wu]
Pick(tab, idx) == [j \in 1..Len(idx) |-> tab[idx[j]]]
O(r, k) == LET x == Rows[r].qs[k].o IN [key \in DOMAIN x |-> Pick(Rows[r].recs, x[key])]
G(r, k) == LET x == Rows[r].qs[k].g IN [key \in DOMAIN x |-> Pick(Rows[r].grecs, x[key])]
Verdict(r, k) == LET q == Q(r, k) o == O(r, k) g == G(r, k)
                     failed == Failed(q, o) gf == GitFailed(q, g)
                 IN [row |-> r, q |-> k, failed |-> SetToSeq(failed), gitfailed |-> SetToSeq(gf),
                     culprits |-> IF failed = {} THEN <<>> ELSE SetToSeq(Culprits(q, o)),
                     gitculprits |-> IF gf = {} THEN <<>>
                                     ELSE SetToSeq({key \in DOMAIN g : GitFailed(q, [x \in {key} |-> g[key]]) # {}}),
                     drift |-> SetToSeq(DriftKeys(q, o))]
All == UNION {{Verdict(r, k) : k \in 1..Len(Rows[r].qs)} : r \in 1..Len(Rows)}
Bad == SetToSeq({v \in All : v.failed # <<>> \/ v.gitfailed # <<>> \/ v.drift # <<>>})
NQ == LET F[r \in 0..Len(Rows)] == IF r = 0 THEN 0 ELSE F[r - 1] + Len(Rows[r].qs) IN F[Len(Rows)]
ASSUME JsonSerialize(IOEnv.VF_OUT, [n |-> Len(Rows), nq |-> NQ, bad |-> Bad])
=============================================================================
