--------------------------- MODULE TreeDiffTrace ---------------------------
(* E3 for C10: change sets recorded from the real InterTree implementations are judged by the laws of TreeDiff.
   One row per tree pair:
     [s, t, tx, recs, grecs, qs]    recs / grecs = the distinct change records (bzr / git form) seen for this pair,
     qs[k] = [f, iu, wu, o, g]      one query: filter, include_unchanged, want_unversioned, and per implementation the
                                    observed change set as indices into recs (o: chk, inv, old, ds, wt) / grecs (g: rt, wt).
   The verdict table (queries with failed laws, the implementations at fault, drift against the declarative model) is
   written back as JSON.  (The rows are bound once in a LET: a definition  Rows == JsonDeserialize(..)  would be
   re-read at every use.) *)
EXTENDS TreeDiff, Json, IOUtils, SequencesExt
VARIABLE i
Init == i = 0
Next == UNCHANGED i
Pick(tab, idx) == [j \in 1..Len(idx) |-> tab[idx[j]]]
Verdict(row, r, k, x, g) ==
    LET y == row.qs[k]
        q == [tx |-> row.tx, f |-> y.f, iu |-> y.iu, wu |-> y.wu]
        o == [key \in DOMAIN y.o |-> Pick(row.recs, y.o[key])]
        go == [key \in DOMAIN y.g |-> Pick(row.grecs, y.g[key])]
        failed == Failed(x, q, o) gf == GitFailed(g, q, go)
    IN [row |-> r, q |-> k, failed |-> SetToSeq(failed), gitfailed |-> SetToSeq(gf),
        culprits |-> [n \in failed \cap PerImplLaws |-> SetToSeq(Culprits(n, x, q, o))],
        gitculprits |-> IF gf = {} THEN <<>>
                        ELSE SetToSeq({key \in DOMAIN go : GitFailed(g, q, [z \in {key} |-> go[key]]) # {}}),
        drift |-> SetToSeq(DriftKeys(x, q, o))]
RowVerdicts(row, r) == LET x == Pair(row.s, row.t) g == GitPair(x)       \* computed once per pair
                       IN {Verdict(row, r, k, x, g) : k \in 1..Len(row.qs)}
Judge(rows) == LET all == UNION {RowVerdicts(rows[r], r) : r \in 1..Len(rows)}
               IN [n |-> Len(rows), nq |-> Cardinality(all),        \* one verdict per (row, query)
                   bad |-> SetToSeq({v \in all : v.failed # <<>> \/ v.gitfailed # <<>> \/ v.drift # <<>>})]
ASSUME JsonSerialize(IOEnv.VF_OUT, Judge(JsonDeserialize(IOEnv.VF_IN)))
=============================================================================
