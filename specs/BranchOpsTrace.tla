--------------------------- MODULE BranchOpsTrace ---------------------------
(* E3 for C32: behaviours of BranchOpsMC replayed on real branches, judged by TLC.
   A row: acts = the operations (tuples as in BranchOps), runs = <<<<mode, steps>>, ...>> with the run on the local
   path first ("local") and the runs through bzr:// after it ("vfs": smart server with VFS verbs, "novfs": without);
   steps[k] = <<err, val, disk>> = exception class or "", returned value in BranchOps' encoding, and the projection of
   what a fresh local open of the backing transport showed after operation k (BranchOps!Disk).

   failed = "mode@k" for every bzr:// run whose step k is the first that differs from the local run - THE PROPERTY:
            same returned values, same stored state, after every operation;
   drift  = the run on the local path differs from BranchOps!Run(acts): the specification is not what the code does
            on either path (conformance; at / want describe the first such step).  A bzr:// run that differs from a
            local run that is as specified is a failure, not drift. *)
EXTENDS BranchOps, TLC, Json, IOUtils
Rows == JsonDeserialize(IOEnv.VF_IN)
VARIABLE i
Init == i \in 1..Len(Rows)
Next == UNCHANGED i

Want(r) == <<r.out.err, r.out.val, Disk(r.W)>>
DiffSteps(a, b) == {k \in DOMAIN a : k \notin DOMAIN b \/ a[k] # b[k]} \cup (DOMAIN b \ DOMAIN a)
Failed(row) ==
    LET ref == row.runs[1][2]
    IN {j \in 2..Len(row.runs) : DiffSteps(ref, row.runs[j][2]) # {}}
Judge(rows, k) ==
    LET row == rows[k]
        spec == TLCEval(Run(row.acts))
        want == TLCEval([s \in DOMAIN spec |-> Want(spec[s])])
        off == {j \in {1} : DiffSteps(want, row.runs[j][2]) # {}}
        j0 == Min(off)
        k0 == Min(DiffSteps(want, row.runs[j0][2]))
    IN [row |-> k,
        failed |-> SetToSeq({row.runs[j][1] \o "@" \o ToString(Min(DiffSteps(row.runs[1][2], row.runs[j][2]))) : j \in Failed(row)}),
        drift |-> off # {},
        mode |-> IF off = {} THEN "" ELSE row.runs[j0][1],
        at |-> IF off = {} THEN 0 ELSE k0,
        want |-> IF off = {} \/ k0 \notin DOMAIN want THEN <<>> ELSE want[k0]]
\* (an operator with a parameter: TLC evaluates it in the ASSUME only, not already while it processes the constant definitions)
Bad(rows) == SelectSeq([k \in 1..Len(rows) |-> Judge(rows, k)], LAMBDA r : r.failed # <<>> \/ r.drift)
ASSUME JsonSerialize(IOEnv.VF_OUT, [n |-> Len(Rows), bad |-> Bad(Rows)])
=============================================================================
