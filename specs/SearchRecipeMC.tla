--------------------------- MODULE SearchRecipeMC ---------------------------
(* E1 for C33: every revision graph up to MaxN revisions (parents among smaller numbers and NGhosts ghosts, at most
   MaxPar parents) is built revision by revision; for every finished graph every client state (cache K, missing
   set; or K, tips, depth for the limited variant) is one successor state on which the property is checked on the
   specification's own Recipe / Limited / ServerWalk.  (Growing the graph by transitions lets TLC's workers share
   the enumeration.) *)
EXTENDS SearchRecipe, TLC
CONSTANTS MaxN, NGhosts, MaxPar, MaxTips, MaxDepth     \* MaxTips = 0: no limited cases
VARIABLES par, cs
Ghosts == GhostIds(NGhosts)
Small(S, k) == {x \in SUBSET S : Cardinality(x) <= k}
NoCase == [kind |-> "none"]
Init == par = <<>> /\ cs = NoCase
Grow == /\ cs = NoCase /\ Len(par) < MaxN
        /\ \E ps \in Small(Revs(par) \cup Ghosts, MaxPar) : par' = Append(par, ps)
        /\ UNCHANGED cs
\* (missing, filled): a key cannot be both answered and recorded missing; only ghosts the client recorded as
\* missing are filled later
MF(K) == {mf \in (SUBSET (Ghosts \cup {NULL})) \X (SUBSET Ghosts) : mf[1] \cap K = {} /\ mf[2] \subseteq mf[1]}
FullCases == {[kind |-> "full", K |-> K, missing |-> mf[1], tips |-> {}, depth |-> 0, filled |-> mf[2]] :
              K \in SUBSET Present(par), mf \in MF({})}
LimitedCases == IF MaxTips = 0 THEN {} ELSE
                {[kind |-> "limited", K |-> K, missing |-> mf[1], tips |-> t, depth |-> d, filled |-> mf[2]] :
                 K \in SUBSET Present(par) \ {{}}, t \in Small(Present(par) \cup Ghosts, MaxTips) \ {{}},
                 d \in 0..MaxDepth, mf \in MF({})}
Obtainable(x) == x.K \cap x.missing = {}
Pick == /\ cs = NoCase /\ Len(par) >= 1
        /\ cs' \in {x \in FullCases \cup LimitedCases : Obtainable(x)}
        /\ UNCHANGED par
Next == Grow \/ Pick
Out == SpecOutS(par, cs.kind, cs.K, cs.missing, cs.tips, cs.depth, cs.filled)
RecipeExact == cs # NoCase /\ Guaranteed(cs.kind, cs.filled) => HoldsOn(Out)
\* design fact, expected to be VIOLATED: the full variant is not robust against a ghost being filled in
WitnessFullNotFillRobust == cs # NoCase /\ cs.kind = "full" => HoldsOn(Out)
\* ... and then the count check is what refuses the recipe (never a silent acceptance of a wrong walk)
CheckRefusesWrongWalk == cs # NoCase /\ Out.walk \ {NULL} # Out.keys \ {NULL} => ~Out.ok
\* anti-vacuity: a violable invariant showing non-trivial recipes are reached (further witnesses: SearchRecipeGen)
WitnessPartialCache == ~(cs.kind = "full" /\ Cardinality(Out.start) >= 2 /\ Cardinality(Out.stop) >= 2)
=============================================================================
