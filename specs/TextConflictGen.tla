-------------------------- MODULE TextConflictGen --------------------------
(* E1 + E2 for C19: TLC enumerates the cases - texts (B, T, O) as sequences of at most MaxLen lines over
       1 = "a\n"   2 = "b\n"   3 = "<<<<<<< TREE\n" (looks like the start marker)   4 = "z" (no newline; last line only)
   x merge options x resolve action - and, for every case, explores the per-file state machine of TextConflict with the
   C19 clauses as invariants.  Texts of at most FullLen lines are combined with EVERY option combination and action;
   longer ones with one combination each, rotating with the texts.  weave / lca (scope "bookkeeping"): texts of at most
   WeaveLen lines, no show-base (not supported by these mergers). *)
EXTENDS TextConflict, SequencesExt, Json, IOUtils
CONSTANTS MaxLen, FullLen, WeaveLen

Lines == 1..4
Texts(n) == {s \in UNION {[1..k -> Lines] : k \in 0..n} : \A i \in 1..(Len(s) - 1) : s[i] # 4}
Sum(s) == FoldSeq(LAMBDA x, y : x + y, 0, s)
Opts3 == <<[rp |-> FALSE, sb |-> FALSE], [rp |-> TRUE, sb |-> FALSE], [rp |-> FALSE, sb |-> TRUE]>>
OptsW == <<[rp |-> FALSE, sb |-> FALSE], [rp |-> TRUE, sb |-> FALSE]>>
Acts  == <<"take_this", "take_other", "done">>
Case(b, t, o, mt, op, cp, a) ==
    [b |-> b, t |-> t, o |-> o, mt |-> mt, scope |-> IF mt = "merge3" THEN "full" ELSE "bookkeeping",
     rp |-> op.rp, sb |-> op.sb, cp |-> cp, act |-> a]
Hash(b, t, o) == Sum(b) + 3 * Sum(t) + 7 * Sum(o) + Len(b) + 5 * Len(t) + 11 * Len(o)
Rot(b, t, o, mt, opts) == LET h == Hash(b, t, o) IN
    Case(b, t, o, mt, opts[(h % Len(opts)) + 1], ((h \div Len(opts)) % 2) = 1, Acts[((h \div (2 * Len(opts))) % 3) + 1])
Cases ==
         {Rot(b, t, o, "merge3", Opts3) : b \in Texts(MaxLen), t \in Texts(MaxLen), o \in Texts(MaxLen)}
    \cup {Case(b, t, o, "merge3", Opts3[k], cp, a) :
              b \in Texts(FullLen), t \in Texts(FullLen), o \in Texts(FullLen), k \in 1..3, cp \in BOOLEAN, a \in Range(Acts)}
    \cup UNION {{Case(b, t, o, mt, OptsW[k], cp, Rot(b, t, o, mt, OptsW).act) :
                   b \in Texts(WeaveLen), t \in Texts(WeaveLen), o \in Texts(WeaveLen), k \in 1..2, cp \in BOOLEAN}
               : mt \in {"weave", "lca"}}

VARIABLE c
Init == c \in Cases /\ st = S0
Next == /\ UNCHANGED c
        /\ \/ \E h \in BOOLEAN : TextMerge(h)
           \/ Resolve(c.act)

\* a correct implementation's trace for the case, given h: judged clean by the laws and conforming
SpecObs(scope, s) == [rec |-> s.rec, regions |-> s.file = "marked", others |-> 0,
                      file |-> CASE s.file \in {"marked", "merged"} -> IF scope = "full" THEN <<"oracle">> ELSE <<>>
                                 [] s.file = "this" -> <<"this">> [] s.file = "other" -> <<"other">>,
                      helpers |-> s.helpers]
SpecTrace(k, h) == LET s1 == StepMerge(S0, h) IN
    IF h THEN <<SpecObs(k.scope, s1), SpecObs(k.scope, StepResolve(s1, k.act))>> ELSE <<SpecObs(k.scope, s1)>>
LawsHoldOnSpec ==
    /\ TypeOk /\ RecordIffHelpers /\ RecordIffMarked /\ CleanIsMerged /\ ResolvedIsClean
    /\ \A h \in BOOLEAN : Failed(c, h, SpecTrace(c, h)) = {} /\ Conforms(c, h, SpecTrace(c, h))
    /\ ~(c.rp /\ c.sb) /\ (c.scope = "bookkeeping" => ~c.sb)

\* anti-vacuity witnesses: TLC must find these states
WitnessTakeOther  == ~(st.phase = "resolved" /\ st.file = "other" /\ c.cp /\ c.rp)
WitnessDoneKeeps  == ~(st.phase = "resolved" /\ st.file = "marked" /\ c.sb)
WitnessLookalike  == ~(st.phase = "merged" /\ ~st.rec /\ 3 \in Range(c.t) /\ 4 \in Range(c.o) /\ c.t # c.b /\ c.o # c.b)
WitnessWeave      == ~(st.phase = "resolved" /\ c.mt = "lca" /\ c.act = "take_this")

Export == JsonSerialize(IOEnv.VF_OUT, SetToSeq(Cases))
ASSUME IF "VF_OUT" \in DOMAIN IOEnv THEN Export ELSE TRUE
=============================================================================
