-------------------------- MODULE TextConflictGen --------------------------
(* E1 + E2 for C19.  The per-file machine of TextConflict depends on a case only through its CLASS (merge type, scope,
   options, resolve action): TLC explores the machine for every class with the C19 clauses as invariants (one initial
   state per class), and enumerates the CASES = class x texts for export:  texts (B, T, O) are sequences of at most
   MaxLen lines over
       1 = "a\n"   2 = "b\n"   3 = "<<<<<<< TREE\n" (looks like the start marker)   4 = "z" (no newline; last line only)
   Every triple gets one (options, cherrypick, action) combination, rotating with the texts; triples of at most FullLen
   lines additionally get EVERY option x cherrypick combination.  weave / lca (scope "bookkeeping"): texts of at most
   WeaveLen lines x reprocess, no show-base (not supported by these mergers). *)
EXTENDS TextConflict, SequencesExt, Json, IOUtils
CONSTANTS MaxLen, FullLen, WeaveLen

Lines == 1..4
Texts(n) == {s \in UNION {[1..k -> Lines] : k \in 0..n} : \A i \in 1..(Len(s) - 1) : s[i] # 4}
Sum(s) == FoldSeq(LAMBDA x, y : x + y, 0, s)
Opts3 == <<[rp |-> FALSE, sb |-> FALSE], [rp |-> TRUE, sb |-> FALSE], [rp |-> FALSE, sb |-> TRUE]>>
OptsW == <<[rp |-> FALSE, sb |-> FALSE], [rp |-> TRUE, sb |-> FALSE]>>
Acts  == <<"take_this", "take_other", "done">>
Scope(mt) == IF mt = "merge3" THEN "full" ELSE "bookkeeping"
Class(mt, op, cp, a) == [mt |-> mt, scope |-> Scope(mt), rp |-> op.rp, sb |-> op.sb, cp |-> cp, act |-> a]
Classes == {Class("merge3", Opts3[k], cp, a) : k \in 1..3, cp \in BOOLEAN, a \in Range(Acts)}
           \cup {Class(mt, OptsW[k], cp, a) : mt \in {"weave", "lca"}, k \in 1..2, cp \in BOOLEAN, a \in Range(Acts)}
Case(b, t, o, k) == [b |-> b, t |-> t, o |-> o, mt |-> k.mt, scope |-> k.scope, rp |-> k.rp, sb |-> k.sb, cp |-> k.cp,
                     act |-> k.act]
ClassOf(x) == [mt |-> x.mt, scope |-> x.scope, rp |-> x.rp, sb |-> x.sb, cp |-> x.cp, act |-> x.act]
Hash(b, t, o) == Sum(b) + 3 * Sum(t) + 7 * Sum(o) + Len(b) + 5 * Len(t) + 11 * Len(o)
RotAct(b, t, o, n) == Acts[((Hash(b, t, o) \div (2 * n)) % 3) + 1]
Rot(b, t, o, mt, opts) == LET h == Hash(b, t, o) IN
    Case(b, t, o, Class(mt, opts[(h % Len(opts)) + 1], ((h \div Len(opts)) % 2) = 1, RotAct(b, t, o, Len(opts))))
\* the case table in three parts (TLC's union of large sets of records is slow; the harness concatenates the parts)
CasesRot  == {Rot(b, t, o, "merge3", Opts3) : b \in Texts(MaxLen), t \in Texts(MaxLen), o \in Texts(MaxLen)}
CasesFull == {Case(b, t, o, Class("merge3", Opts3[k], cp, RotAct(b, t, o, 3))) :
                  b \in Texts(FullLen), t \in Texts(FullLen), o \in Texts(FullLen), k \in 1..3, cp \in BOOLEAN}
CasesWeave == UNION {{Case(b, t, o, Class(mt, OptsW[k], ((Hash(b, t, o) \div 2) % 2) = 1, RotAct(b, t, o, 2))) :
                        b \in Texts(WeaveLen), t \in Texts(WeaveLen), o \in Texts(WeaveLen), k \in 1..2}
                    : mt \in {"weave", "lca"}}
Parts == <<CasesRot, CasesFull, CasesWeave>>

VARIABLE c
Init == c \in Classes /\ st = S0
Next == /\ UNCHANGED c
        /\ \/ \E h \in BOOLEAN : TextMerge(h)
           \/ Resolve(c.act)

\* a correct implementation's trace for the case, given h: judged clean by the laws and conforming
SpecObs(scope, s) == [rec |-> s.rec, regions |-> s.file = "marked", others |-> 0,
                      file |-> CASE s.file \in {"marked", "merged"} -> IF scope = "full" THEN <<"oracle">> ELSE <<>>
                                 [] s.file = "this" -> <<"this">> [] s.file = "other" -> <<"other">>,
                      helpers |-> s.helpers]
SpecTrace(k, h) == LET s1 == StepMerge(S0, h) IN
    IF h THEN <<SpecObs(k.scope, s1), SpecObs(k.scope, StepResolve(s1, k.act))>> ELSE <<SpecObs(k.scope, s1)>>
LawsHoldOnSpec ==
    /\ TypeOk /\ RecordIffHelpers /\ RecordIffMarked /\ CleanIsMerged /\ ResolvedIsClean
    /\ \A h \in BOOLEAN : Failed(c, h, SpecTrace(c, h)) = {} /\ Conforms(c, h, SpecTrace(c, h))
    /\ ~(c.rp /\ c.sb) /\ (c.scope = "bookkeeping" => ~c.sb)

\* anti-vacuity witnesses: TLC must find these states
WitnessTakeOther  == ~(st.phase = "resolved" /\ st.file = "other" /\ c.cp /\ c.rp)
WitnessDoneKeeps  == ~(st.phase = "resolved" /\ st.file = "marked" /\ c.sb)
WitnessCleanMerge == ~(st.phase = "merged" /\ ~st.rec /\ c.mt = "merge3" /\ c.cp)
WitnessWeave      == ~(st.phase = "resolved" /\ c.mt = "lca" /\ c.act = "take_this")

\* every exported case belongs to a class the machine was explored for
ASSUME "VF_OUT" \in DOMAIN IOEnv => \A p \in 1..3 : {ClassOf(x) : x \in Parts[p]} \subseteq Classes
Export == JsonSerialize(IOEnv.VF_OUT, [p \in 1..3 |-> SetToSeq(Parts[p])])
ASSUME IF "VF_OUT" \in DOMAIN IOEnv THEN Export ELSE TRUE
=============================================================================
