------------------------------- MODULE Upload -------------------------------
(* The upload plugin (breezy/plugins/upload/cmds.py: cmd_upload.run, BzrUploader.upload_tree / upload_full_tree,
   rename_remote, finish_renames, finish_deletions) - property C43:
       after every successful upload the remote directory is exactly the uploaded revision's tree.

   Trees are sets of entries [id, path, kind, val, exec] over the paths a, b, d and x/a (x in {a, b, d}); kind in
   {"file", "dir", "symlink"}; val = content token of a file ("c1", "c2") / target token of a symlink ("s1", "s2");
   ids make renames, swaps and kind changes expressible.  The remote directory is an abstract file system: a set of
   [path, kind, val, exec] whose operations fail the way the transport's do (Fs* below, calibrated on LocalTransport).

   The upload is modelled AS IMPLEMENTED, one action per staging phase of BzrUploader.upload_tree:
       Removed . RenameToTemp . FinishRenames . FinishDeletions . KindChanged . Added . Modified . SetMarker
   (a failing transport operation aborts the upload: last = "failed", err = "<phase>:<error>", marker untouched), and
   one action for upload_full_tree.  Deviations of the code from "remote := tree" are therefore visible to TLC:
   UploadCorrect / UploadNeverFails are proved for the deltas SafeDelta admits and are violated outside (see Unsafe).

   Symlink targets: "s1" is a plain name inside the link's own directory, "s2" leaves the link's directory ("../b").

   Names.  a, b, d and the child name are ABSTRACT: nothing below depends on what they are, only on their string order
   (a < a/x < b < d).  The real transports take URL-escaped paths, so the real code may well depend on them.  The binding
   therefore instantiates the names in several ways that keep the order - plain ("a", "b", "d"), with literal escape
   sequences ("a%20b", "b%", "d%41 x", child "a%2Fc") and with space / '#' / non-ASCII characters - and replays every
   symlink-free behaviour class under each of them: the projections (taken back to the abstract names) must be the same.
   Behaviours with symlinks are replayed under the plain names only: upload_symlink hands the unescaped link path to
   transport.symlink, which this model does not describe (reported separately). *)
EXTENDS Naturals, Sequences, FiniteSets, SequencesExt, TLC

CONSTANTS MaxEdits,        \* number of Commit / Uncommit actions after the initial commit
          Symlinks,        \* BOOLEAN: symlink entries are explored
          OnlySafe,        \* BOOLEAN: prune uploads whose delta is not SafeDelta (the configuration TLC proves correct)
          InitNames        \* which initial trees (subset of DOMAIN InitTree)

Tops == {"a", "b", "d"}
TreePaths == {<<t>> : t \in Tops} \cup {<<t, "a">> : t \in Tops}
TopRank(t) == CASE t = "a" -> 1 [] t = "b" -> 3 [] t = "d" -> 5 [] OTHER -> 0       \* temp names sort first
Rank(p) == TopRank(p[1]) + (Len(p) - 1)                 \* string order of the joined path (TreeDelta sorts by path)
DirRank(p) == 10 * Len(p) + Rank(p)                     \* iter_entries_by_dir: directory by directory
ParentOf(p) == SubSeq(p, 1, Len(p) - 1)
NameOf(p) == p[Len(p)]
Under(p, q) == Len(q) > Len(p) /\ SubSeq(q, 1, Len(p)) = p            \* q strictly below p
Rebase(path, p, q) == q \o SubSeq(path, Len(p) + 1, Len(path))        \* path (= p or below p) moved along p -> q
ByRank(S, key(_)) == SetToSortSeq(S, LAMBDA x, y : key(x) < key(y))

(* ------------------------------------------------------------------ abstract remote file system *)
Absent(fs, p) == ~\E e \in fs : e.path = p
EntAt(fs, p) == CHOOSE e \in fs : e.path = p
IsDirAt(fs, p) == \E e \in fs : e.path = p /\ e.kind = "dir"
KindAt(fs, p) == IF Absent(fs, p) THEN "absent" ELSE EntAt(fs, p).kind
Below(fs, p) == {e \in fs : Under(p, e.path)}
ParentOK(fs, p) == Len(p) = 1 \/ IsDirAt(fs, ParentOf(p))
Without(fs, p) == {e \in fs : e.path # p}
WellFormedFs(fs) == /\ \A e \in fs : ParentOK(fs, e.path)
                    /\ \A e1, e2 \in fs : e1.path = e2.path => e1 = e2
FOk(fs) == [ok |-> TRUE, fs |-> fs, err |-> ""]
FErr(fs, e) == [ok |-> FALSE, fs |-> fs, err |-> e]
FsPut(fs, p, val, exec) ==        \* put_bytes(path, bytes, mode): atomic replace of a file or symlink
    IF ~ParentOK(fs, p) THEN FErr(fs, "NoSuchFile") ELSE IF IsDirAt(fs, p) THEN FErr(fs, "ReadError")
    ELSE FOk(Without(fs, p) \cup {[path |-> p, kind |-> "file", val |-> val, exec |-> exec]})
FsMkdir(fs, p) ==
    IF ~ParentOK(fs, p) THEN FErr(fs, "NoSuchFile") ELSE IF ~Absent(fs, p) THEN FErr(fs, "FileExists")
    ELSE FOk(fs \cup {[path |-> p, kind |-> "dir", val |-> "", exec |-> FALSE]})
FsRmdir(fs, p) ==
    IF ~IsDirAt(fs, p) THEN FErr(fs, "NoSuchFile") ELSE IF Below(fs, p) # {} THEN FErr(fs, "DirectoryNotEmpty")
    ELSE FOk(Without(fs, p))
FsDelete(fs, p) ==
    IF Absent(fs, p) THEN FErr(fs, "NoSuchFile") ELSE IF IsDirAt(fs, p) THEN FErr(fs, "ReadError") ELSE FOk(Without(fs, p))
FsDeleteTree(fs, p) == FOk({e \in fs : e.path # p /\ ~Under(p, e.path)})
FsSymlink(fs, p, val) ==
    IF ~ParentOK(fs, p) THEN FErr(fs, "NoSuchFile") ELSE IF ~Absent(fs, p) THEN FErr(fs, "FileExists")
    ELSE FOk(fs \cup {[path |-> p, kind |-> "symlink", val |-> val, exec |-> FALSE]})
FsRename(fs, p, q) ==             \* os.rename semantics as the transport reports them
    IF Absent(fs, p) \/ ~ParentOK(fs, q) THEN FErr(fs, "NoSuchFile")
    ELSE IF ~Absent(fs, q) /\ ~IsDirAt(fs, p) /\ IsDirAt(fs, q) THEN FErr(fs, "ReadError")
    ELSE IF ~Absent(fs, q) /\ IsDirAt(fs, p) /\ ~IsDirAt(fs, q) THEN FErr(fs, "NoSuchFile")
    ELSE IF IsDirAt(fs, p) /\ IsDirAt(fs, q) /\ Below(fs, q) # {} THEN FErr(fs, "DirectoryNotEmpty")
    ELSE FOk({IF e.path = p \/ Under(p, e.path) THEN [e EXCEPT !.path = Rebase(e.path, p, q)] ELSE e : e \in Without(fs, q)})

(* ------------------------------------------------------------------ trees and their delta (TreeDelta of changes_from) *)
IdsOf(t) == {e.id : e \in t}
ById(t, i) == CHOOSE e \in t : e.id = i
TreeAt(t, p) == CHOOSE e \in t : e.path = p
Proj(t) == {[path |-> e.path, kind |-> e.kind, val |-> e.val, exec |-> e.exec] : e \in t}
ParentId(t, e) == IF Len(e.path) = 1 THEN 0 ELSE TreeAt(t, ParentOf(e.path)).id
ValidTree(t) == /\ \A e \in t : e.path \in TreePaths /\ (Len(e.path) > 1 => \E d \in t : d.path = ParentOf(e.path) /\ d.kind = "dir")
                /\ \A e1, e2 \in t : (e1.path = e2.path \/ e1.id = e2.id) => e1 = e2
Removed(f, t) == {e \in f : e.id \notin IdsOf(t)}
Added(f, t) == {e \in t : e.id \notin IdsOf(f)}
Pairs(f, t) == {<<ById(f, i), ById(t, i)>> : i \in IdsOf(f) \cap IdsOf(t)}
IsRenamed(f, t, pr) == NameOf(pr[1].path) # NameOf(pr[2].path) \/ ParentId(f, pr[1]) # ParentId(t, pr[2])
Renamed(f, t) == {pr \in Pairs(f, t) : IsRenamed(f, t, pr)}
KindChanged(f, t) == {pr \in Pairs(f, t) : ~IsRenamed(f, t, pr) /\ pr[1].kind # pr[2].kind}
Modified(f, t) == {pr \in Pairs(f, t) : ~IsRenamed(f, t, pr) /\ pr[1].kind = pr[2].kind
                                          /\ (pr[1].val # pr[2].val \/ pr[1].exec # pr[2].exec)}
ChangedContent(pr) == pr[1].kind # pr[2].kind \/ pr[1].val # pr[2].val

(* ------------------------------------------------------------------ the staging phases, as implemented
   S = [fs, pr, pd, n, ok, err]: remote, pending renames <<temp, final>>, pending directory deletions, temp counter *)
Stage0(fs) == [fs |-> fs, pr |-> <<>>, pd |-> <<>>, n |-> 0, ok |-> TRUE, err |-> ""]
Got(S, r) == IF r.ok THEN [S EXCEPT !.fs = r.fs] ELSE [S EXCEPT !.ok = FALSE, !.err = r.err]
TempName(n) == <<CASE n = 1 -> "tmp1" [] n = 2 -> "tmp2" [] n = 3 -> "tmp3" [] n = 4 -> "tmp4" [] n = 5 -> "tmp5" [] OTHER -> "tmp6">>
\* upload_symlink(relpath, target) of the incremental path hands the link's RAW target to transport.symlink, which takes a
\* path relative to the upload root and only links inside the link's own directory: it raises below the top level, and at
\* the top level for a target that leaves the directory
IncrSymlink(fs, p, val) == IF Len(p) > 1 \/ val = "s2" THEN FErr(fs, "InvalidURL") ELSE FsSymlink(fs, p, val)
\* upload_file(where, source): the text of a non-file source reads as empty
TextOf(e) == IF e.kind = "file" THEN e.val ELSE "empty"
ExecOf(e) == e.kind = "file" /\ e.exec

StepRemoved(S, e) ==
    IF ~S.ok THEN S
    ELSE IF e.kind = "dir" THEN (LET r == FsRmdir(S.fs, e.path) IN                        \* delete_remote_dir_maybe
                                 IF r.ok THEN [S EXCEPT !.fs = r.fs] ELSE [S EXCEPT !.pd = Append(@, e.path)])
    ELSE Got(S, FsDelete(S.fs, e.path))
PhaseRemoved(S, f, t) == FoldLeft(StepRemoved, S, ByRank(Removed(f, t), LAMBDA e : Rank(e.path)))

StepRenameTemp(S, pr) ==
    IF ~S.ok THEN S
    ELSE LET S1 == IF ChangedContent(pr) THEN Got(S, FsPut(S.fs, pr[1].path, TextOf(pr[2]), ExecOf(pr[2]))) ELSE S IN
         IF ~S1.ok THEN S1
         ELSE LET tmp == TempName(S1.n + 1)
                  S2 == Got(S1, FsRename(S1.fs, pr[1].path, tmp)) IN
              IF ~S2.ok THEN S2 ELSE [S2 EXCEPT !.n = @ + 1, !.pr = Append(@, <<tmp, pr[2].path>>)]
PhaseRenameTemp(S, f, t) == FoldLeft(StepRenameTemp, S, ByRank(Renamed(f, t), LAMBDA pr : Rank(pr[1].path)))

StepFinishRename(S, x) == IF ~S.ok THEN S ELSE Got(S, FsRename(S.fs, x[1], x[2]))
PhaseFinishRenames(S) == [FoldLeft(StepFinishRename, S, S.pr) EXCEPT !.pr = <<>>]

StepFinishDeletion(S, p) == IF ~S.ok THEN S ELSE Got(S, FsRmdir(S.fs, p))
PhaseFinishDeletions(S) == [FoldLeft(StepFinishDeletion, S, Reverse(S.pd)) EXCEPT !.pd = <<>>]

Create(S, e) == IF ~S.ok THEN S
                ELSE CASE e.kind = "file" -> Got(S, FsPut(S.fs, e.path, e.val, e.exec))
                       [] e.kind = "dir" -> Got(S, FsMkdir(S.fs, e.path))
                       [] e.kind = "symlink" -> Got(S, IncrSymlink(S.fs, e.path, e.val))
StepKindChanged(S, pr) ==
    IF ~S.ok THEN S
    ELSE Create(Got(S, IF pr[1].kind = "dir" THEN FsRmdir(S.fs, pr[1].path) ELSE FsDelete(S.fs, pr[1].path)), pr[2])
PhaseKindChanged(S, f, t) == FoldLeft(StepKindChanged, S, ByRank(KindChanged(f, t), LAMBDA pr : Rank(pr[2].path)))
PhaseAdded(S, f, t) == FoldLeft(Create, S, ByRank(Added(f, t), LAMBDA e : Rank(e.path)))
StepModified(S, pr) == IF pr[2].kind = "dir" THEN S ELSE Create(S, pr[2])        \* a modified symlink: symlink() onto the old link
PhaseModified(S, f, t) == FoldLeft(StepModified, S, ByRank(Modified(f, t), LAMBDA pr : Rank(pr[1].path)))

\* upload_full_tree: every entry "robustly"; nothing is ever deleted that the tree does not name
ForceClear(fs, p) == IF IsDirAt(fs, p) THEN FsDeleteTree(fs, p).fs ELSE IF KindAt(fs, p) = "symlink" THEN Without(fs, p) ELSE fs
\* upload_symlink_robustly normalises dirname(link)/target with osutils.normpath, which DROPS ".." segments instead of
\* resolving them: a target that leaves the link's directory is rewritten
FullTarget(e) == IF e.val = "s2" THEN "s2-rewritten" ELSE e.val
StepFull(S, e) ==
    IF ~S.ok THEN S
    ELSE CASE e.kind = "file" -> Got(S, FsPut(ForceClear(S.fs, e.path), e.path, e.val, e.exec))
           [] e.kind = "symlink" -> Got(S, FsSymlink(ForceClear(S.fs, e.path), e.path, FullTarget(e)))
           [] e.kind = "dir" -> IF IsDirAt(S.fs, e.path) THEN S
                                ELSE IF Absent(S.fs, e.path) THEN Got(S, FsMkdir(S.fs, e.path))
                                ELSE Got(S, FsMkdir(Without(S.fs, e.path), e.path))
PhaseFull(S, t) == FoldLeft(StepFull, S, ByRank(t, LAMBDA e : DirRank(e.path)))

(* ------------------------------------------------------------------ which deltas the implementation handles
   Unsafe(f, t, mode, fs) names the reasons why a delta is outside the class TLC proves correct (OnlySafe = TRUE). *)
NewParentSettled(f, t, e) ==      \* the directory an entry is renamed into is, at FinishRenames time, where the tree says
    Len(e.path) = 1 \/ LET d == TreeAt(t, ParentOf(e.path)) IN
                       d.id \in IdsOf(f) /\ ById(f, d.id).path = d.path /\ ById(f, d.id).kind = "dir"
OldParentStays(f, t, e) ==        \* the directory an entry is renamed out of / changed in keeps its place until then
    Len(e.path) = 1 \/ LET d == TreeAt(f, ParentOf(e.path)) IN
                       d.id \notin IdsOf(t) \/ ~IsRenamed(f, t, <<d, ById(t, d.id)>>)
UnsafeIncr(f, t) ==
    {"symlink-not-plain-top-level" : x \in {e \in Added(f, t) \cup {pr[2] : pr \in KindChanged(f, t) \cup Modified(f, t)} :
                                                e.kind = "symlink" /\ (Len(e.path) > 1 \/ e.val = "s2")}}
    \cup {"symlink-retarget" : pr \in {x \in Modified(f, t) : x[2].kind = "symlink"}}
    \cup {"rename+kind-change" : pr \in {x \in Renamed(f, t) : x[1].kind # x[2].kind}}
    \cup {"rename+retarget" : pr \in {x \in Renamed(f, t) : x[1].kind = "symlink" /\ x[2].kind = "symlink" /\ x[1].val # x[2].val}}
    \cup {"rename+chmod" : pr \in {x \in Renamed(f, t) : x[1].kind = "file" /\ x[2].kind = "file" /\ x[1].val = x[2].val /\ x[1].exec # x[2].exec}}
    \cup {"rename-into-unsettled-dir" : pr \in {x \in Renamed(f, t) : ~NewParentSettled(f, t, x[2])}}
    \cup {"change-below-renamed-dir" : pr \in {x \in Renamed(f, t) \cup KindChanged(f, t) : ~OldParentStays(f, t, x[1])}}
    \cup {"rename-onto-removed-dir" : pr \in {x \in Renamed(f, t) : \E r \in Removed(f, t) : r.kind = "dir" /\ r.path = x[2].path /\ Below(Proj(f), r.path) # {}}}
UnsafeFull(t, fs) ==
    {"stale-remote-path" : e \in {x \in fs : Absent(Proj(t), x.path)}}
    \cup {"symlink-over-remote-file" : e \in {x \in t : x.kind = "symlink" /\ KindAt(fs, x.path) = "file"}}
    \cup {"symlink-leaves-its-directory" : e \in {x \in t : x.kind = "symlink" /\ x.val = "s2"}}
Unsafe(f, t, mode, fs) == IF mode = "full" THEN UnsafeFull(t, fs) ELSE UnsafeIncr(f, t)

\* what kinds of change a delta contains (used to spread the replayed behaviours over the delta classes; not a C43 clause)
Features(f, t, mode) ==
    IF mode = "full" THEN {"full"}
    ELSE {"removed-file" : e \in {x \in Removed(f, t) : x.kind # "dir"}}
         \cup {"removed-empty-dir" : e \in {x \in Removed(f, t) : x.kind = "dir" /\ Below(Proj(f), x.path) = {}}}
         \cup {"removed-dir-with-children" : e \in {x \in Removed(f, t) : x.kind = "dir" /\ Below(Proj(f), x.path) # {}}}
         \cup {"renamed-file" : pr \in {x \in Renamed(f, t) : x[1].kind # "dir"}}
         \cup {"renamed-dir" : pr \in {x \in Renamed(f, t) : x[1].kind = "dir"}}
         \cup {"renamed-changed" : pr \in {x \in Renamed(f, t) : ChangedContent(x)}}
         \cup {"swap" : pr \in {x \in Renamed(f, t) : \E y \in Renamed(f, t) : x[2].path = y[1].path}}
         \cup {"moved-between-levels" : pr \in {x \in Renamed(f, t) : Len(x[1].path) # Len(x[2].path)}}
         \cup {"kind-changed" : pr \in KindChanged(f, t)}
         \cup {"added-file" : e \in {x \in Added(f, t) : x.kind = "file"}} \cup {"added-dir" : e \in {x \in Added(f, t) : x.kind = "dir"}}
         \cup {"added-symlink" : e \in {x \in Added(f, t) : x.kind = "symlink"}}
         \cup {"modified-content" : pr \in {x \in Modified(f, t) : x[1].val # x[2].val}}
         \cup {"modified-exec" : pr \in {x \in Modified(f, t) : x[1].exec # x[2].exec}}

(* ------------------------------------------------------------------ edits: one per commit *)
File(i, p, v, x) == [id |-> i, path |-> p, kind |-> "file", val |-> v, exec |-> x]
Dir(i, p) == [id |-> i, path |-> p, kind |-> "dir", val |-> "", exec |-> FALSE]
Link(i, p, v) == [id |-> i, path |-> p, kind |-> "symlink", val |-> v, exec |-> FALSE]
Free(t, p) == \A e \in t : e.path # p
TreeParentOK(t, p) == Len(p) = 1 \/ \E d \in t : d.path = ParentOf(p) /\ d.kind = "dir"
Kids(t, e) == {x \in t : Under(e.path, x.path)}
MoveTo(t, e, q) == {IF x = e \/ Under(e.path, x.path) THEN [x EXCEPT !.path = Rebase(x.path, e.path, q)] ELSE x : x \in t}
Retyped(e, k) == CASE k = "file" -> File(e.id, e.path, "c1", FALSE) [] k = "dir" -> Dir(e.id, e.path) [] k = "symlink" -> Link(e.id, e.path, "s1")
KindsExplored == IF Symlinks THEN {"file", "dir", "symlink"} ELSE {"file", "dir"}
Edits(t, fresh) ==
    LET adds == {t \cup {Retyped([id |-> fresh, path |-> p], k)} : p \in {q \in TreePaths : Free(t, q) /\ TreeParentOK(t, q)}, k \in KindsExplored}
        removes == {t \ ({e} \cup Kids(t, e)) : e \in t}
        renames == UNION {{MoveTo(t, e, q) : q \in {p \in TreePaths : Free(t, p) /\ ~Under(e.path, p) /\ p # e.path
                                                          /\ (Kids(t, e) # {} => Len(p) = 1)
                                                          /\ TreeParentOK(t \ ({e} \cup Kids(t, e)), p)}} : e \in t}
        swaps == {MoveTo(MoveTo(MoveTo(t, e1, <<"swap">>), e2, e1.path), [e1 EXCEPT !.path = <<"swap">>], e2.path)
                  : e1 \in {x \in t : Len(x.path) = 1}, e2 \in {x \in t : Len(x.path) = 1}} \ {t}
        modifies == {(t \ {e}) \cup {[e EXCEPT !.val = CASE @ = "c1" -> "c2" [] @ = "c2" -> "c1" [] @ = "s1" -> "s2" [] OTHER -> "s1"]}
                     : e \in {x \in t : x.kind # "dir"}}
        chmods == {(t \ {e}) \cup {[e EXCEPT !.exec = ~@]} : e \in {x \in t : x.kind = "file"}}
        retypes == {(t \ {e}) \cup {Retyped(e, k)} : e \in {x \in t : Kids(t, x) = {}}, k \in KindsExplored} \ {t}
    IN {x \in adds \cup removes \cup renames \cup swaps \cup modifies \cup chmods \cup retypes : ValidTree(x)}

InitTree(n) == CASE n = "files" -> {File(1, <<"a">>, "c1", FALSE), File(2, <<"b">>, "c2", TRUE), Dir(3, <<"d">>), File(4, <<"d", "a">>, "c1", FALSE)}
                 [] n = "links" -> {Link(1, <<"a">>, "s1"), Dir(3, <<"d">>), Link(4, <<"d", "a">>, "s1"), File(2, <<"b">>, "c1", FALSE)}
                 [] n = "small" -> {File(1, <<"a">>, "c1", FALSE), Dir(3, <<"d">>)}
FirstFresh == 5

(* ------------------------------------------------------------------ the state machine *)
VARIABLES hist,      \* trees of the branch's mainline, oldest first; hist[Len(hist)] is the tip
          upl,       \* tree of the revision named by the remote marker file
          uplAt,     \* its index in hist; 0 = no marker yet; 99 = no longer on the mainline (uncommitted: "diverged")
          remote,    \* the remote directory (without the marker file)
          pc,        \* "idle" or the staging phase about to run
          st,        \* [pr, pd, n] staging state
          mode,      \* "incr" | "full" of the upload in progress / last finished
          last,      \* outcome of the last upload call: "none" | "ok" | "failed" | "refused"
          err,       \* "<phase>:<error>" of a failed upload
          unsafe,    \* Unsafe(...) of the upload in progress / last finished
          feat,      \* Features(...) of the upload in progress / last finished
          nedits, fresh
vars == <<hist, upl, uplAt, remote, pc, st, mode, last, err, unsafe, feat, nedits, fresh>>
Tip == hist[Len(hist)]
NoStage == [pr |-> <<>>, pd |-> <<>>, n |-> 0]

Init == /\ \E n \in InitNames : hist = <<InitTree(n)>>
        /\ upl = {} /\ uplAt = 0 /\ remote = {} /\ pc = "idle" /\ st = NoStage /\ mode = "none" /\ last = "none" /\ err = ""
        /\ unsafe = {} /\ feat = {} /\ nedits = 0 /\ fresh = FirstFresh

Alive == pc = "idle" /\ last # "failed"
Commit == /\ Alive /\ nedits < MaxEdits
          /\ \E t \in Edits(Tip, fresh) : hist' = Append(hist, t)
          /\ nedits' = nedits + 1 /\ fresh' = fresh + 1
          /\ UNCHANGED <<upl, uplAt, remote, pc, st, mode, last, err, unsafe, feat>>
Uncommit == /\ Alive /\ nedits < MaxEdits /\ Len(hist) >= 2
            /\ hist' = SubSeq(hist, 1, Len(hist) - 1)
            /\ uplAt' = IF uplAt = Len(hist) THEN 99 ELSE uplAt
            /\ nedits' = nedits + 1
            /\ UNCHANGED <<upl, remote, pc, st, mode, last, err, unsafe, feat, fresh>>
\* cmd_upload.run(full, overwrite): refuses when the uploaded revision is not an ancestor of the tip, unless overwrite
UploadStart(m, ow) ==
    /\ Alive /\ uplAt # Len(hist)
    /\ (ow => uplAt = 99)
    /\ IF uplAt = 99 /\ ~ow
       THEN /\ last' = "refused" /\ last # "refused" /\ UNCHANGED <<pc, st, unsafe, feat, mode, err>>
       ELSE LET eff == IF uplAt = 0 THEN "full" ELSE m IN
            /\ mode' = eff /\ last' = "none" /\ err' = "" /\ st' = NoStage
            /\ unsafe' = Unsafe(upl, Tip, eff, remote) /\ feat' = Features(upl, Tip, eff)
            /\ pc' = IF eff = "full" THEN "Full" ELSE "Removed"
    /\ UNCHANGED <<hist, upl, uplAt, remote, nedits, fresh>>
S == [fs |-> remote, pr |-> st.pr, pd |-> st.pd, n |-> st.n, ok |-> TRUE, err |-> ""]
Phase(name, next, R) ==
    /\ pc = name
    /\ remote' = R.fs /\ st' = [pr |-> R.pr, pd |-> R.pd, n |-> R.n]
    /\ IF R.ok THEN pc' = next /\ UNCHANGED <<last, err>>
       ELSE pc' = "idle" /\ last' = "failed" /\ err' = name \o ":" \o R.err
    /\ UNCHANGED <<hist, upl, uplAt, mode, unsafe, feat, nedits, fresh>>
DoRemoved == Phase("Removed", "RenameToTemp", PhaseRemoved(S, upl, Tip))
DoRenameToTemp == Phase("RenameToTemp", "FinishRenames", PhaseRenameTemp(S, upl, Tip))
DoFinishRenames == Phase("FinishRenames", "FinishDeletions", PhaseFinishRenames(S))
DoFinishDeletions == Phase("FinishDeletions", "KindChanged", PhaseFinishDeletions(S))
DoKindChanged == Phase("KindChanged", "Added", PhaseKindChanged(S, upl, Tip))
DoAdded == Phase("Added", "Modified", PhaseAdded(S, upl, Tip))
DoModified == Phase("Modified", "SetMarker", PhaseModified(S, upl, Tip))
DoFull == Phase("Full", "SetMarker", PhaseFull(S, Tip))
SetMarker == /\ pc = "SetMarker" /\ pc' = "idle" /\ last' = "ok" /\ upl' = Tip /\ uplAt' = Len(hist) /\ st' = NoStage
             /\ UNCHANGED <<hist, remote, mode, err, unsafe, feat, nedits, fresh>>
Next == Commit \/ Uncommit \/ (\E m \in {"incr", "full"}, ow \in BOOLEAN : UploadStart(m, ow))
        \/ DoRemoved \/ DoRenameToTemp \/ DoFinishRenames \/ DoFinishDeletions \/ DoKindChanged \/ DoAdded \/ DoModified
        \/ DoFull \/ SetMarker
Spec == Init /\ [][Next]_vars
\* the configuration TLC proves correct explores only uploads whose delta is in the safe class
SafeOnly == OnlySafe => unsafe = {}

(* ------------------------------------------------------------------ C43 and supporting invariants *)
UploadCorrect == (pc = "idle" /\ last = "ok") => remote = Proj(upl)
UploadNeverFails == last # "failed"
TypeOK == /\ \A i \in 1..Len(hist) : ValidTree(hist[i])
          /\ WellFormedFs(remote)
          /\ ((last = "ok" /\ uplAt # 99) => uplAt \in 1..Len(hist) /\ upl = hist[uplAt])
\* a failed or refused upload does not move the marker; a refused one does not touch the remote directory
MarkerHonest == [][(last' \in {"failed", "refused"} /\ last' # last) => UNCHANGED <<upl, uplAt>>]_vars
RefusalIsNoop == [][(last' = "refused" /\ last # "refused") => UNCHANGED remote]_vars
\* anti-vacuity
WitnessSwap == ~(last = "ok" /\ mode = "incr" /\ \E pr \in Pairs(hist[1], upl) : \E qr \in Pairs(hist[1], upl) :
                    pr # qr /\ pr[1].path = qr[2].path /\ pr[2].path = qr[1].path)
WitnessKindChange == ~(last = "ok" /\ mode = "incr" /\ Len(hist) >= 2 /\ \E pr \in Pairs(hist[1], upl) : pr[1].kind = "dir" /\ pr[2].kind = "file")
WitnessOverwrite == ~(last = "ok" /\ mode = "incr" /\ Len(hist) = 1 /\ nedits >= 2)
WitnessFailed == last # "failed"
=============================================================================
