----------------------------- MODULE EolTrace -----------------------------
(* C45: outputs recorded from the real filter stacks (and fresh checkouts) are judged by the laws of Eol;
   rows whose laws fail (verdict) or which differ from the transcribed converters (drift) are written back. *)
EXTENDS Eol, TLC, Json, IOUtils, SequencesExt
Rows == JsonDeserialize(IOEnv.VF_IN)
VARIABLE i
Init == i \in 1..Len(Rows)
Next == UNCHANGED i
Bad == SelectSeq([k \in 1..Len(Rows) |->
                    LET r == Rows[k] IN
                    [row |-> k, failed |-> SetToSeq(Failed(r.c, r.impl)), drift |-> ~Conforms(r.c, r.impl)]],
                 LAMBDA r : r.failed # <<>> \/ r.drift)
ASSUME JsonSerialize(IOEnv.VF_OUT, [n |-> Len(Rows), bad |-> Bad])
=============================================================================
