------------------------------ MODULE TagsGen ------------------------------
(* E1 + E2 for C24: TLC enumerates every (src, dst, master) tag dictionary over NameSet x (Vals + absent),
   overwrite, ignore_master and selector, checks the C24 laws on the specification's own MergeTo (one initial
   state per case) and exports the case table with the specified outcome.  Without master the table also
   contains the Store/Load cases (every dictionary). *)
EXTENDS Tags, TLC, Json, IOUtils
CONSTANTS NameSet,        \* tag names, e.g. {"a", "b", "c"}
          Vals,           \* tag values, e.g. {"r1", "r2"}
          WithMaster,     \* TRUE: the destination is bound to a master branch with its own dictionary
          IgnoreOpts,     \* values of ignore_master to enumerate when WithMaster (subset of BOOLEAN)
          SelMode         \* "subsets": selector=None and every name subset; "sizes": None and one subset per size
                          \* (names are symmetric); "none": selector=None only
Dicts == [NameSet -> Vals \cup {Absent}]
EmptyDict == [n \in NameSet |-> Absent]
NameSeq == SetToSeq(NameSet)
SelSeqs == CASE SelMode = "subsets" -> {SetToSeq(S) : S \in SUBSET NameSet}
             [] SelMode = "sizes"   -> {SubSeq(NameSeq, 1, k) : k \in 0..Len(NameSeq)}
             [] SelMode = "none"    -> {}
Sels == {[all |-> TRUE, sel |-> <<>>]} \cup {[all |-> FALSE, sel |-> s] : s \in SelSeqs}
Masters == IF WithMaster THEN Dicts ELSE {EmptyDict}
Igs == IF WithMaster THEN IgnoreOpts ELSE {FALSE}
MergeCases == {[kind |-> "merge", src |-> s, dst |-> d, master |-> m, hasMaster |-> WithMaster,
                ignoreMaster |-> ig, overwrite |-> ow, selAll |-> sl.all, sel |-> sl.sel] :
               s \in Dicts, d \in Dicts, m \in Masters, ig \in Igs, ow \in BOOLEAN, sl \in Sels}
StoreCases == IF WithMaster THEN {} ELSE {[kind |-> "store", d |-> d] : d \in Dicts}
VARIABLE c
Init == c \in MergeCases \/ c \in StoreCases
Next == UNCHANGED c
LawsHoldOnSpec == Failed(c, SpecOut(c)) = {} /\ Conforms(c, SpecOut(c))
\* anti-vacuity: WitnessConflict (and with a master WitnessMasterDiverges) are invariants TLC must violate; the
\* other shapes are assumptions evaluated in the generating run itself (a false assumption fails the run).
HasConflict(x)   == SpecOut(x).conflicts # <<>> /\ SpecOut(x).dst # x.dst
HasOverwrite(x)  == x.overwrite /\ \E n \in NameSet : Differs(x, x.dst, n)
HasUnselected(x) == ~x.selAll /\ \E n \in NameSet : n \notin Selected(x) /\ x.src[n] # Absent /\ x.src[n] # x.dst[n]
\* destination and master accept different tags from the same source
HasMasterDiverges(x) == /\ UsesMaster(x) /\ SpecOut(x).dst # SpecOut(x).master /\ x.dst # x.master
                        /\ \E n \in NameSet : SpecOut(x).dst[n] # x.dst[n] /\ SpecOut(x).master[n] = x.master[n]
WitnessConflict == ~(c.kind = "merge" /\ HasConflict(c))
WitnessMasterDiverges == ~(c.kind = "merge" /\ HasMasterDiverges(c))
ASSUME \E x \in MergeCases : HasOverwrite(x)
ASSUME SelMode = "none" \/ \E x \in MergeCases : HasUnselected(x)
ASSUME ~WithMaster \/ \E x \in MergeCases : HasMasterDiverges(x)
\* exported expected result: the specified final dictionaries and reports
Expected(x) == LET s == SpecOut(x) IN
               IF x.kind = "merge" THEN [dst |-> s.dst, master |-> s.master, updates |-> s.updates,
                                         conflicts |-> s.conflicts]
               ELSE [back |-> s.back]
Export == JsonSerialize(IOEnv.VF_OUT,
              SetToSeq({[c |-> x, spec |-> Expected(x)] : x \in MergeCases})
              \o SetToSeq({[c |-> x, spec |-> Expected(x)] : x \in StoreCases}))
ASSUME IF "VF_OUT" \in DOMAIN IOEnv THEN Export ELSE TRUE
=============================================================================
