--------------------------- MODULE CmdlineTrace ---------------------------
(* C50: results recorded from the real breezy.cmdline.split / Splitter are judged by the laws of Cmdline;
   rows whose laws fail (verdict) or whose output differs from the transcribed machine (drift) are written back. *)
EXTENDS Cmdline, TLC, Json, IOUtils, SequencesExt
Rows == JsonDeserialize(IOEnv.VF_IN)
VARIABLE i
Init == i \in 1..Len(Rows)
Next == UNCHANGED i
Bad == SelectSeq([k \in 1..Len(Rows) |->
                    LET r == Rows[k] IN
                    [row |-> k, failed |-> SetToSeq(Failed(r.c, r.impl)), drift |-> r.impl # SpecOut(r.c)]],
                 LAMBDA r : r.failed # <<>> \/ r.drift)
ASSUME JsonSerialize(IOEnv.VF_OUT, [n |-> Len(Rows), bad |-> Bad])
=============================================================================
