---------------------------- MODULE RebaseTrace ----------------------------
(* E3 for C51: plans recorded from the real generate_simple_plan on real repositories (with their round trip
   through the plan file of a real working tree and the real rebase_todo) are judged by the laws of Rebase. *)
EXTENDS Rebase, Json, IOUtils, SequencesExt
Rows == JsonDeserialize(IOEnv.VF_IN)
VARIABLE i
Init == i \in 1..Len(Rows)
Next == UNCHANGED i
Bad == SelectSeq([k \in 1..Len(Rows) |->
                    [row |-> k, failed |-> SetToSeq(Failed(Rows[k].c, Rows[k].impl)),
                     drift |-> ~Conforms(Rows[k].c, Rows[k].impl)]],
                 LAMBDA r : r.failed # <<>> \/ r.drift)
ASSUME JsonSerialize(IOEnv.VF_OUT, [n |-> Len(Rows), bad |-> Bad])
=============================================================================
