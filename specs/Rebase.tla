------------------------------ MODULE Rebase ------------------------------
(* Rebase plans (property C51): breezy/plugins/rewrite/rebase.py generate_simple_plan, marshall_rebase_plan /
   unmarshall_rebase_plan (through RebaseState1.write_plan / read_plan), rebase_todo.

   A case is  c = [P |-> graph (lib/Dag), stop |-> tip of the branch being rebased, onto |-> new base,
                   skip |-> skip_full_merged]
   used as the `rebase` command does:  todo_set = find_difference(stop, onto)[0], start_revid = None.
   Revision r is the real revision id "r<r>"; the replacement of r is NewId(r) = 100 + r.

   An observation of the real code is
     o = [status  |-> "ok" | "unrelated" (UnrelatedBranches raised),
          plan    |-> sequence of [old, new, parents] in the iteration order of the replace map,
          back    |-> the same after write_plan / re-open of the working tree / read_plan,
          info, infoBack |-> [revno, rev] last-revision info written into / read from the plan file,
          todo0   |-> rebase_todo before any replacement revision exists (sequence of old revisions),
          present |-> replacement revisions (new ids) that were then really created in the repository,
          todo1   |-> rebase_todo afterwards] *)
EXTENDS Dag, TLC

NewBase == 100
NewId(r) == NewBase + r
TodoSet(c) == Ancestry(c.P, c.stop) \ Ancestry(c.P, c.onto)         \* find_difference(stop, onto)[0]
OntoUnique(c) == Ancestry(c.P, c.onto) \ Ancestry(c.P, c.stop)
Unrelated(c) == ~Related(c.P, c.stop, c.onto)                        \* find_lca == {null:}

(* ---- generate_simple_plan, transcribed.  topo_sort order is replaced by revision-number order (any
        topological order gives the same map: an entry only depends on entries of its ancestors). *)
OldParents(P, r) == IF P[r] = <<>> THEN <<Null>> ELSE P[r]           \* get_parent_map: roots have (null:,)
OntoDominates(P, p, onto) == p = Null \/ p \in Ancestry(P, onto)     \* heads((p, onto)) == {onto}

RECURSIVE FoldOthers(_, _, _, _, _, _)
FoldOthers(P, onto, done, additional, others, acc) ==
    IF others = <<>> THEN acc
    ELSE LET op == Head(others)
             acc2 == IF op \notin additional \/ OntoDominates(P, op, onto) THEN acc
                     ELSE IF op \in done
                          THEN (IF acc[1] = onto THEN [acc EXCEPT ![1] = NewId(op)] ELSE Append(acc, NewId(op)))
                          ELSE Append(acc, op)
         IN FoldOthers(P, onto, done, additional, Tail(others), acc2)

NewParents(P, r, onto, done) ==            \* done = revisions already in the replace map
    LET old  == OldParents(P, r)
        left == IF OntoDominates(P, old[1], onto) THEN <<onto>>
                ELSE IF old[1] \in done THEN <<NewId(old[1])>>
                ELSE <<onto, old[1]>>
    IN IF Len(old) > 1 THEN FoldOthers(P, onto, done, Heads(P, SeqRange(Tail(old))), Tail(old), left) ELSE left

PlanMap(c) ==                              \* old revision -> new parents
    LET P == c.P
        todo == TodoSet(c)
        M[k \in 0..Len(P)] ==
            IF k = 0 THEN <<>>
            ELSE LET prev == M[k - 1] IN
                 IF k \notin todo THEN prev
                 ELSE LET np == NewParents(P, k, c.onto, DOMAIN prev) IN
                      IF c.skip /\ Len(P[k]) > 1 /\ Len(np) = 1 THEN prev ELSE prev @@ (k :> np)
    IN M[Len(P)]

(* ---- the laws of C51 on OBSERVED plans *)
Entries(plan) == SeqRange(plan)
Keys(plan) == {e.old : e \in Entries(plan)}
\* exactly the revisions in the branch's history but not in the target's (skip_full_merged may leave out merges)
LawKeys(c, o) == IF c.skip THEN Keys(o.plan) \subseteq TodoSet(c) /\ \A r \in TodoSet(c) \ Keys(o.plan) : IsMerge(c.P, r)
                 ELSE Keys(o.plan) = TodoSet(c)
\* one entry per revision, replacement ids are new and distinct
LawEntries(c, o) ==
    /\ \A i, j \in DOMAIN o.plan : i # j => o.plan[i].old # o.plan[j].old /\ o.plan[i].new # o.plan[j].new
    /\ \A e \in Entries(o.plan) : e.new = NewId(e.old) /\ e.parents # <<>>
\* every new parent is the new base or the replacement of a revision rewritten EARLIER in the plan (with
\* skip_full_merged also a revision that the plan leaves untouched)
LawOrder(c, o) ==
    \A i \in DOMAIN o.plan : \A p \in SeqRange(o.plan[i].parents) :
        \/ p = c.onto
        \/ \E j \in 1..(i - 1) : o.plan[j].new = p
        \/ c.skip /\ p \in DOMAIN c.P /\ p \notin Keys(o.plan)
\* the first new parent is never an un-rewritten revision other than the new base
LawLeft(c, o) == \A e \in Entries(o.plan) : e.parents[1] = c.onto \/ \E f \in Entries(o.plan) : f.new = e.parents[1]
\* saved and loaded unchanged
LawMarshal(c, o) == Entries(o.back) = Entries(o.plan) /\ Len(o.back) = Len(o.plan) /\ o.infoBack = o.info
\* rebase_todo = entries whose replacement revision is absent
LawTodo(c, o) ==
    /\ SeqRange(o.todo0) = Keys(o.plan) /\ Len(o.todo0) = Len(o.plan)
    /\ SeqRange(o.todo1) = {e.old : e \in {f \in Entries(o.plan) : f.new \notin SeqRange(o.present)}}
    /\ Len(o.todo1) = Len(o.plan) - Len(o.present)

LawNames == <<"keys", "entries", "order", "left", "marshal", "todo">>
Law(n, c, o) == CASE n = "keys" -> LawKeys(c, o) [] n = "entries" -> LawEntries(c, o) [] n = "order" -> LawOrder(c, o)
                  [] n = "left" -> LawLeft(c, o) [] n = "marshal" -> LawMarshal(c, o) [] n = "todo" -> LawTodo(c, o)
Failed(c, o) == IF o.status = "ok" THEN {n \in SeqRange(LawNames) : ~Law(n, c, o)} ELSE {}

(* ---- specified outcome in observation shape; which replacement revisions exist is an input of rebase_todo,
        so SpecOut takes the set that is present *)
RECURSIVE SeqOfSet(_)
SeqOfSet(S) == IF S = {} THEN <<>> ELSE LET x == CHOOSE y \in S : \A z \in S : y <= z IN <<x>> \o SeqOfSet(S \ {x})
SpecPlan(c) == LET m == PlanMap(c) IN
               [i \in 1..Cardinality(DOMAIN m) |->
                   LET r == SeqOfSet(DOMAIN m)[i] IN [old |-> r, new |-> NewId(r), parents |-> m[r]]]
SpecOutOf(plan, present) ==
    LET left == {e.old : e \in {f \in Entries(plan) : f.new \notin present}}
    IN [status |-> "ok", plan |-> plan, back |-> plan, info |-> [revno |-> 0, rev |-> 0],
        infoBack |-> [revno |-> 0, rev |-> 0], todo0 |-> SeqOfSet(Keys(plan)),
        present |-> SeqOfSet(present \cap {e.new : e \in Entries(plan)}), todo1 |-> SeqOfSet(left)]
SpecOut(c, present) == IF Unrelated(c) THEN [status |-> "unrelated"] ELSE SpecOutOf(SpecPlan(c), present)
Conforms(c, o) ==
    IF Unrelated(c) THEN o.status = "unrelated"
    ELSE o.status = "ok" /\ Entries(o.plan) = Entries(SpecPlan(c))
=============================================================================
