------------------------- MODULE HistoryChannelGen -------------------------
(* E1 + E2 for C35 / C44: the bounded universe of histories.

   The revision graph of a history is chosen first, from Dag!Dags (every graph over 1..n with ordered parent lists, at
   most MaxParents parents, the last revision reaching all others) -- one initial state per graph.  The trees are then
   produced by a version-control session that follows the graph: the working tree of revision r starts as the tree of
   its left-hand parent merged with the other parents (keep ours / take theirs / add what only they have), is edited
   (add file / symlink / directory, modify, chmod, change kind with the same object, remove, rename / move, also of
   directories) and committed with some metadata; after the last revision the tags are placed.
   TLC (a) explores this exhaustively for small constants and checks the in-spec laws on EVERY reachable state:
   generated trees and histories are well formed; DropEmptyDirs (declarative) = repeated deletion (operational), is
   idempotent, well formed, keeps every non-directory; the projection does not depend on revision numbers or object
   identities; the ideal channel satisfies every law of C35 / C44 and the laws reject channels that lose an
   executable bit, keep empty directories apart, exchange merge parents, add a revision or move a tag;
   (b) random-walks it (-simulate) for the larger constants; the final state of every walk (done = TRUE) is a
   history the harness may materialise as a real branch.  Pools of many cheap walks (GenWF, DropEmptyDirsLaws, and the
   expensive laws on a sample: SampledLaws) are classified by the harness and replayed as a stratified sample, so that
   rare situations (a move out of a populated directory -- PrefillDirs --, a merge whose parents cross the channel in
   different rounds) are always among the replayed histories. *)
EXTENDS HistoryChannel, TLC
CONSTANTS TopNames,      \* names usable at the top level
          DirNames,      \* subset of TopNames that may be directories
          ChildNames,    \* names usable inside a directory
          SubDirs,       \* BOOLEAN: may a child be an (always empty) directory
          NContents,     \* contents / link targets are 1..NContents
          MinRevs, MaxRevs, MaxEdits, MaxParents,
          NMsg, NWho, NTs, NTz,    \* metadata indices 0..N-1
          MetaChoices,   \* how many metadata records are offered at each commit
          TagNames,
          Pointless,     \* BOOLEAN: commits without any change allowed
          NewRoots,      \* BOOLEAN: more than one root revision allowed
          SampleEvery,   \* SampledLaws checks the expensive in-spec laws on the finished histories with nobj % SampleEvery = 0
          PrefillDirs    \* subset of DirNames: the session starts with these directories full of (plain) files, so that
                         \* moves out of / between populated directories are frequent, not a rare late event

Paths == {<<n>> : n \in TopNames} \cup {<<d, c>> : d \in DirNames, c \in ChildNames}
DirOK(p) == (Len(p) = 1 /\ p[1] \in DirNames) \/ (Len(p) = 2 /\ SubDirs)
GenTree(t) == WFTree(t) /\ PathsOf(t) \subseteq Paths /\ \A e \in t : e.k = "directory" => DirOK(e.p)
\* metadata offered at a commit: MetaChoices records picked from the NMsg x NWho x NTs x NTz grid by a number that
\* moves with the state, so that all combinations occur over a set of histories without every single commit
\* branching into the whole grid
MetaOf(j) == [msg |-> j % NMsg, who |-> (j \div 2) % NWho, ts |-> (j \div 3) % NTs, tz |-> (j \div 5) % NTz]

\* the graphs: the tip (last revision) reaches every revision; one root unless NewRoots
Plans == {P \in UNION {Dags(n, MaxParents) : n \in MinRevs..MaxRevs} :
            /\ Ancestry(P, Len(P)) = 1..Len(P)
            /\ (NewRoots \/ Cardinality(Roots(P)) = 1)}

VARIABLES plan,   \* the revision graph to be built
          lim,    \* edits per commit in this session (1..MaxEdits; sessions of careful and of sweeping committers)
          h,      \* the history committed so far
          wt,     \* working tree of the revision being prepared
          nobj,   \* next fresh object identity
          nedit,  \* edits since the last commit
          done
vars == <<plan, lim, h, wt, nobj, nedit, done>>

PrefillPaths == {<<d>> : d \in PrefillDirs} \cup {<<d, c>> : d \in PrefillDirs, c \in ChildNames}
PrefillNo == CHOOSE f \in [PrefillPaths -> 1..Cardinality(PrefillPaths)] : \A p, q \in PrefillPaths : p # q => f[p] # f[q]
Prefill == {[p |-> p, k |-> IF Len(p) = 1 THEN "directory" ELSE "file", c |-> IF Len(p) = 1 THEN 0 ELSE 1, x |-> FALSE,
             o |-> PrefillNo[p]] : p \in PrefillPaths}
Init == /\ plan \in Plans /\ lim \in 1..MaxEdits
        /\ h = [P |-> <<>>, T |-> <<>>, M |-> <<>>, tags |-> {}, tip |-> 0]
        /\ wt = Prefill /\ nobj = Cardinality(PrefillPaths) + 1 /\ nedit = 0 /\ done = FALSE

Building == ~done /\ NRevs(h) < Len(plan)
CanEdit == Building /\ nedit < lim
Edit(t2) == GenTree(t2) /\ t2 # wt /\ wt' = t2 /\ nedit' = nedit + 1 /\ UNCHANGED <<plan, lim, h, done>>
Fresh(p, k, c, x) == [p |-> p, k |-> k, c |-> c, x |-> x, o |-> nobj]

Add(p, k, c, x) == /\ CanEdit /\ ~Has(wt, p) /\ IsDirAt(wt, ParentPath(p))
                   /\ Edit(wt \cup {Fresh(p, k, c, x)}) /\ nobj' = nobj + 1
AddFile(p, c, x) == Add(p, "file", c, x)
AddLink(p, c) == Add(p, "symlink", c, FALSE)
Mkdir(p) == DirOK(p) /\ Add(p, "directory", 0, FALSE)
Modify(p, c) == /\ CanEdit /\ Has(wt, p) /\ At(wt, p).k # "directory" /\ At(wt, p).c # c
                /\ Edit((wt \ {At(wt, p)}) \cup {[At(wt, p) EXCEPT !.c = c]}) /\ UNCHANGED nobj
Chmod(p) == /\ CanEdit /\ Has(wt, p) /\ At(wt, p).k = "file"
            /\ Edit((wt \ {At(wt, p)}) \cup {[At(wt, p) EXCEPT !.x = ~@]}) /\ UNCHANGED nobj
\* same object, other kind (a file id may change kind); a directory must be empty to stop being one
ChangeKind(p, k, c) == /\ CanEdit /\ Has(wt, p) /\ At(wt, p).k # k /\ Under(wt, p) = {}
                       /\ (k = "directory" => DirOK(p) /\ c = 0) /\ (k # "directory" => c >= 1)
                       /\ Edit((wt \ {At(wt, p)}) \cup {[At(wt, p) EXCEPT !.k = k, !.c = c, !.x = FALSE]}) /\ UNCHANGED nobj
Remove(p) == /\ CanEdit /\ Has(wt, p)
             /\ Edit(wt \ ({At(wt, p)} \cup Under(wt, p))) /\ UNCHANGED nobj
Moved(t, p, q) == {IF e.p = p \/ PathPrefix(p, e.p) THEN [e EXCEPT !.p = q \o SubSeq(e.p, Len(p) + 1, Len(e.p))] ELSE e : e \in t}
Rename(p, q) == /\ CanEdit /\ Has(wt, p) /\ ~Has(wt, q) /\ p # q /\ ~PathPrefix(p, q)
                /\ Edit(Moved(wt, p, q)) /\ UNCHANGED nobj

\* merging revision trees: keep ours, take theirs, or add what only they have
UnionTree(t1, t2) == LET top == t1 \cup {e \in t2 : Len(e.p) = 1 /\ e.p \notin PathsOf(t1) /\ e.o \notin ObjsOf(t1)} IN
    top \cup {e \in t2 : /\ Len(e.p) = 2 /\ e.p \notin PathsOf(top) /\ e.o \notin ObjsOf(top)
                         /\ \E d \in top : d.p = ParentPath(e.p) /\ d.k = "directory" /\ d \in t2}
MergeTree(t1, t2, how) == CASE how = "ours" -> t1 [] how = "theirs" -> t2 [] how = "union" -> UnionTree(t1, t2)
Hows == {"ours", "theirs", "union"}
\* the working tree revision r starts from, given the trees T of the earlier revisions
RECURSIVE MergeAll(_, _, _, _)
MergeAll(t, T, ps, how) == IF ps = <<>> THEN t ELSE MergeAll(MergeTree(t, T[Head(ps)], how), T, Tail(ps), how)
StartTree(T, ps, how) == IF ps = <<>> THEN {} ELSE MergeAll(T[ps[1]], T, Tail(ps), how)

\* commit the working tree as the next revision of the plan and prepare the one after it
Commit(k, how) ==
    LET r == NRevs(h) + 1
        T2 == Append(h.T, wt) IN
    /\ Building
    /\ (Pointless \/ nedit > 0 \/ Len(plan[r]) > 1 \/ (r = 1))
    /\ h' = [h EXCEPT !.P = Append(@, plan[r]), !.T = T2, !.M = Append(@, MetaOf(7 * r + 3 * nobj + nedit + k)), !.tip = r]
    /\ IF r < Len(plan)
       THEN /\ (Len(plan[r + 1]) <= 1 => how = "ours")              \* the choice only matters for a merge
            /\ GenTree(StartTree(T2, plan[r + 1], how)) /\ wt' = StartTree(T2, plan[r + 1], how)
       ELSE how = "ours" /\ wt' = wt
    /\ nedit' = 0 /\ UNCHANGED <<plan, lim, nobj, done>>
\* the session ends when the plan is complete; tags are placed on revisions of the branch
Finish(tg) == /\ ~done /\ NRevs(h) = Len(plan)
              /\ \A n \in TagNames : tg[n] = 0 \/ tg[n] \in TipAncestry(h)
              /\ h' = BranchPart([h EXCEPT !.tags = {[name |-> n, rev |-> tg[n]] : n \in {n \in TagNames : tg[n] # 0}}])
              /\ done' = TRUE /\ UNCHANGED <<plan, lim, wt, nobj, nedit>>

Next == \/ \E p \in Paths, c \in 1..NContents, x \in BOOLEAN : AddFile(p, c, x)
        \/ \E p \in Paths, c \in 1..NContents : AddLink(p, c) \/ Modify(p, c)
        \/ \E p \in Paths : Mkdir(p) \/ Chmod(p) \/ Remove(p)
        \/ \E p \in Paths, k \in Kinds, c \in 0..NContents : ChangeKind(p, k, c)
        \/ \E p, q \in Paths : Rename(p, q)
        \/ \E k \in 0..(MetaChoices - 1), how \in Hows : Commit(k, how)
        \/ \E tg \in [TagNames -> 0..MaxRevs] : Finish(tg)

(* ------------------------------------------------------------------ in-spec laws (INVARIANTS) *)
\* (every committed tree has been the working tree of an earlier state, so the tree laws are stated on wt)
GenWF == /\ GenTree(wt) /\ \A e \in wt : e.o < nobj
         /\ (nedit = 0 => WFHistory(h) /\ \A r \in RevsOf(h) : GenTree(h.T[r]))
         /\ (done => h.tip = NRevs(h) /\ TipAncestry(h) = RevsOf(h))
DropEmptyDirsLaws == DropLaws(wt)

\* the projection mentions neither revision numbers nor object identities
ProjectionIdFree == done =>
    LET pr == Projection(h) IN
    /\ \A f \in (IF NRevs(h) <= 4 THEN Perms(NRevs(h)) ELSE Transpositions(NRevs(h))) :
          ValidPerm(h, f) => Projection(Relabel(h, f)) = pr
    /\ Projection(RenameObjs(h, 7)) = pr

\* some valid renumbering other than the identity when there is one (the channel is free to pick any)
SomePerm(hh) == LET V == {f \in Perms(NRevs(hh)) : ValidPerm(hh, f)}
                    W == {f \in V : \E i \in 1..NRevs(hh) : f[i] # i} IN
                IF W = {} THEN CHOOSE f \in V : TRUE ELSE CHOOSE f \in W : TRUE
SomeExec == \E r \in RevsOf(h) : \E e \in h.T[r] : e.x
SomeEmptyDir == \E r \in RevsOf(h) : HasEmptyDir(h.T[r])
NoExec(o) == [o EXCEPT !.T = [r \in 1..Len(o.P) |-> {[e EXCEPT !.x = FALSE] : e \in o.T[r]}]]
SwapParents(o) == [o EXCEPT !.P = [r \in 1..Len(o.P) |-> IF Len(o.P[r]) = 2 THEN <<o.P[r][2], o.P[r][1]>> ELSE o.P[r]]]
TagMoved(o) == [o EXCEPT !.tags = {[name |-> g.name, rev |-> IF g.rev = 1 THEN Len(o.P) ELSE g.rev - 1] : g \in o.tags}]

(* LawsHoldOnSpec: the ideal channel (identity on the projection, under some renumbering of the revisions and
   without object identities) satisfies every clause of C35 / C44, the clause-wise form of FastRoundTrip equals the
   one-piece form, and the laws are not vacuous: channels that lose an executable bit, keep empty directories apart,
   exchange merge parents, move a tag, add a revision or fail are rejected (the empty-directory difference only by
   the exact reading, as the properties except it). *)
LawsHoldOnSpec == done =>
    LET f == SomePerm(h)
        I == IdealObs(h, f)
        U == UnfoldFn(h.P, FullLabel(h))
        asym == \E r \in RevsOf(h) : Len(h.P[r]) = 2 /\ U[h.P[r][1]] # U[h.P[r][2]]
        tagd == \E g \in h.tags : U[g.rev] # U[IF g.rev = 1 THEN NRevs(h) ELSE g.rev - 1]
        keeps == [I EXCEPT !.T = [r \in 1..Len(I.P) |-> Forget(Relabel(h, f).T[r])]]
        nox == NoExec(I)   swp == SwapParents(I)   tgm == TagMoved(I)
        io == IdealObjects(h)
        used == {x \in UNION {{[r |-> r, o |-> o] : o \in io.emit[r]} : r \in RevsOf(h)} :
                   \E q \in RevsOf(h) : \E o2 \in io.emit[q] : x.o.id \in o2.refs}
    IN /\ GitFailed(h, I) = {} /\ GitTreesExact(h, I) /\ Git2Failed(h, I) = {}
       \* the incremental conversion is closed and complete; leaving out an object something refers to is noticed
       /\ LawObjectClosure(h, io) /\ LawObjectSets(h, io)
       /\ (used # {} => LET x == CHOOSE x \in used : TRUE
                             cut == [io EXCEPT !.emit[x.r] = @ \ {x.o}]
                         IN ~LawObjectClosure(h, cut) /\ ~LawObjectSets(h, cut))
       \* rounds: the part a parent of the tip reaches means alone what it means inside the whole history, and is carried
       /\ \A k \in SeqRange(h.P[h.tip]) :
             /\ Projection(Upto(h, k)).all = Unfold(h.P, FullLabel(h), k)
             /\ GitFailed(Upto(h, k), IdealObs(Upto(h, k), SomePerm(Upto(h, k)))) = {}
       /\ FastFailed(h, I) = {} /\ FastRoundTrip(h, I) /\ FastExact(h, keeps)
       /\ (SomeExec => "trees" \in GitFailed(h, nox) /\ "trees" \in FastFailed(h, nox))
       /\ (SomeEmptyDir => ~GitTreesExact(h, keeps) /\ LawGitTrees(h, keeps) /\ ~FastExact(h, I))
       /\ (asym => FastFailed(h, swp) # {})
       /\ (tagd => "tags" \in FastFailed(h, tgm))
       /\ "count" \in FastFailed(h, [I EXCEPT !.nrevs = @ + 1])
       /\ GitFailed(h, [I EXCEPT !.ok = FALSE]) = SeqRange(GitLawNames)
       /\ \A o \in {nox, swp, tgm} : (FastFailed(h, o) = {}) <=> FastRoundTrip(h, o)

\* for large pools of random walks: the same laws on a sample of the finished histories (every walk still satisfies
\* GenWF and DropEmptyDirsLaws)
SampledLaws == (done /\ nobj % SampleEvery = 0) => (ProjectionIdFree /\ LawsHoldOnSpec)

\* anti-vacuity witnesses for the antecedents above: TLC must reach these (invariants that must be VIOLATED); the
\* other classes (renames, kind changes, deletions, symlinks, ...) are counted on the histories handed to the harness
WitnessEmptyDir == ~(done /\ SomeEmptyDir /\ SomeExec /\ h.tags # {})
WitnessAsymMerge == ~(done /\ \E r \in RevsOf(h) : Len(h.P[r]) = 2 /\ h.T[h.P[r][1]] # h.T[h.P[r][2]])
=============================================================================
