-------------------------- MODULE CountedLockTrace --------------------------
(* E2/E3 for C28: call sequences executed on the real wrappers (CountedLock over a logging lock, LockableFiles over
   a LockDir on a logging transport, real branch / repository / working tree objects) with the observation after
   every call are judged against CountedLock!Step.  Rows: [w, ops, obs].  Output: rows whose first differing call
   fails a clause of the property (verdict) or merely differs from the specification (drift). *)
EXTENDS CountedLock, TLC, Json, IOUtils, SequencesExt
Rows == JsonDeserialize(IOEnv.VF_IN)
VARIABLE i
Init == i \in 1..Len(Rows)
Next == UNCHANGED i
Bad == SelectSeq([k \in 1..Len(Rows) |->
                    LET j == Judge(Rows[k]) IN [row |-> k, failed |-> SetToSeq(j.failed), drift |-> j.at # 0, at |-> j.at]],
                 LAMBDA r : r.drift)
ASSUME JsonSerialize(IOEnv.VF_OUT, [n |-> Len(Rows), bad |-> Bad])
=============================================================================
