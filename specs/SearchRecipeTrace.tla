-------------------------- MODULE SearchRecipeTrace --------------------------
(* E3 for C33: recipes built by the real client functions (after the real serialisation) and replayed by the real
   server-side recreate_search_from_recipe on a real repository holding the graph are judged by the laws of
   SearchRecipe.  Rows [c |-> case, impl |-> observation]; cases come from SearchRecipeGen (exhaustive small table)
   or from the harness's seeded random generator (larger graphs).  Written back: rows with failed laws (verdict) and
   rows whose observation differs from the specification's outcome (drift). *)
EXTENDS SearchRecipe, TLC, Json, IOUtils, SequencesExt
VARIABLE i
Init == i = 0
Next == UNCHANGED i
Bad(R) == SelectSeq([k \in 1..Len(R) |->
                       [row |-> k, failed |-> SetToSeq(Failed(R[k].c, R[k].impl)),
                        drift |-> ~Conforms(R[k].c, R[k].impl)]],
                    LAMBDA r : r.failed # <<>> \/ r.drift)
ASSUME LET R == JsonDeserialize(IOEnv.VF_IN) IN JsonSerialize(IOEnv.VF_OUT, [n |-> Len(R), bad |-> Bad(R)])
=============================================================================
