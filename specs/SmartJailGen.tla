--------------------------- MODULE SmartJailGen ---------------------------
(* E1 + E2 for C31: TLC enumerates every client path of the bounded hostile alphabet (one initial state per case),
   checks the property on the model (JailInvariant: not rejected => inside the served directory; and that the
   unguarded translation would escape only in the input classes that key the signatures) and exports the case
   table with the model's verdict per path.  For control-directory opens the jail hook's invariant is still
   violated by the model (witness WitnessOpenJailHolds, known finding: "a//.." under a jail subdirectory). *)
EXTENDS SmartJail, TLC, Json, IOUtils, SequencesExt
CONSTANTS MaxNames,      \* names per path for the DeepRootForms
          ShallowNames,  \* names per path for the other (root, form) combinations
          MaxSepLevel,   \* separators "/" (0), "%2F" (1), "%252F" (2)
          RootSel,       \* "all" or one of Roots    (the harness runs one slice per TLC start, in parallel)
          FormSel,       \* "all" or one of Forms
          DeepAll,       \* TRUE: both DeepRootForms get MaxNames; FALSE: only ("/", relative)
          FirstSel,      \* "all" or the first name of the path
          WithOpen       \* TRUE: also the control-directory-open cases
SeqsOf(S, n) == [1..n -> S]
FirstOk(ns) == FirstSel = "all" \/ ns[1] = FirstSel
PathShapes(max) ==
    UNION {{[names |-> ns, seps |-> ss] : ns \in {x \in SeqsOf(Names, n) : FirstOk(x)},
                                          ss \in SeqsOf(0..MaxSepLevel, n - 1)} : n \in 1..max}
    \cup (IF FirstSel \in {"all", ""} THEN {[names |-> <<>>, seps |-> <<>>]} ELSE {})
\* combinations in which a path can get past the root match with few names
DeepRootForms == IF DeepAll THEN {<<"/", "rel">>, <<"/a/", "rooted">>} ELSE {<<"/", "rel">>}
NamesFor(rf) == IF rf \in DeepRootForms THEN MaxNames ELSE ShallowNames
SelRoots == IF RootSel = "all" THEN Roots ELSE {RootSel}
SelForms == IF FormSel = "all" THEN Forms ELSE {FormSel}
RootForms == {rf \in SelRoots \X SelForms : ~(rf[1] = "/" /\ rf[2] = "rooted")}     \* "/"-rooted = abs
PathCases == UNION {{[kind |-> "path", root |-> rf[1], form |-> rf[2], names |-> p.names, seps |-> p.seps] :
                     p \in PathShapes(NamesFor(rf))} : rf \in RootForms}
\* control-directory opens by URL during a request (jail hook)
OpenNames == {"a", "..", "%2E%2E", ""}
OpenCases == IF WithOpen THEN
                {[kind |-> "open", jail |-> j, scheme |-> s, names |-> ns] :
                 j \in {"root", "a"}, s \in {"backing", "foreign-in", "foreign-out"},
                 ns \in UNION {SeqsOf(OpenNames, n) : n \in 0..3}}
             ELSE {}
VARIABLE c
Init == c \in PathCases \/ c \in OpenCases
Next == UNCHANGED c
IsPath == c.kind = "path"
LawsHoldOnSpec == IF IsPath THEN GuardedHolds(c) ELSE OpenEscapesOnlyKnown(c)
S == SpecOut(c)
\* anti-vacuity / deviation witnesses: TLC must violate these
WitnessUnguardedJailHolds == IsPath => JailInvariantS(SpecOutUnguarded(c))    \* what the guard prevents
WitnessOpenJailHolds == ~IsPath => OpenInvariant(c)
WitnessAboveRoot == ~(IsPath /\ S.plain.rej = "above-root")
WitnessNotChild  == ~(IsPath /\ c.root # "/" /\ S.vfs.rej = "not-child")
WitnessInsideDeep == ~(IsPath /\ S.vfs.where = "in" /\ KnownDeviation(c))   \* guarded class, separator popped
WitnessUserdir == ~(IsPath /\ S.vfs.rej = "no" /\ Len(ServedRel(S.vfs.rel)) >= 3
                    /\ ServedRel(S.vfs.rel)[2] = <<Tok("h", 0)>>)
WitnessJailBreak == ~(~IsPath /\ c.scheme = "backing" /\ ~JailAllows(c))

Verdict(x) == LET s == SpecOut(x) IN
              [plain |-> [rej |-> s.plain.rej, where |-> s.plain.where],
               vfs |-> [rej |-> s.vfs.rej, where |-> s.vfs.where],
               vfsclone |-> [rej |-> s.vfsclone.rej, where |-> s.vfsclone.where],
               dev |-> KnownDeviation(x), dev2 |-> SlashFirstDeviation(x)]
\* every witness in ONE pass (a TLC start costs seconds): each must be reached by some case
Reached(W(_)) == \E x \in PathCases \cup OpenCases : W(x)
WitnessesReached ==
    /\ Reached(LAMBDA x : x.kind = "path" /\ KnownDeviation(x) /\ SpecOut(x).vfs.rej = "escaped-separator"
                          /\ SpecOutUnguarded(x).vfs.where = "out")
    /\ Reached(LAMBDA x : x.kind = "path" /\ SlashFirstDeviation(x) /\ SpecOut(x).vfsclone.rej = "escaped-separator"
                          /\ LET u == SpecOutUnguarded(x) IN u.vfs.where = "in" /\ u.vfsclone.where = "out")
    /\ Reached(LAMBDA x : x.kind = "path" /\ SpecOut(x).vfs.rej = "escaped-separator"
                          /\ SpecOutUnguarded(x).vfsclone.where = "in")
    /\ Reached(LAMBDA x : x.kind = "path" /\ ".." \in Rng(x.names) /\ SpecOut(x).plain.rej = "above-root")
    /\ Reached(LAMBDA x : x.kind = "path" /\ "U+00E9" \in Rng(x.names) /\ SpecOut(x).vfs.where = "unres")
    /\ Reached(LAMBDA x : x.kind = "path" /\ "~" \in Rng(x.names)
                          /\ LET s == SpecOut(x) IN s.vfs.rej = "no" /\ Len(ServedRel(s.vfs.rel)) >= 3
                                                    /\ ServedRel(s.vfs.rel)[2] = <<Tok("h", 0)>>)
    /\ Reached(LAMBDA x : x.kind = "open" /\ x.scheme = "backing" /\ ~JailAllows(x))
    /\ Reached(LAMBDA x : x.kind = "open" /\ OpenOut(x).where = "out")
    /\ Reached(LAMBDA x : x.kind = "open" /\ x.jail = "a" /\ OpenOut(x).where = "in")
Export == JsonSerialize(IOEnv.VF_OUT,
              SetToSeq({[c |-> x, spec |-> Verdict(x)] : x \in PathCases})
              \o SetToSeq({[c |-> x, spec |-> OpenOut(x)] : x \in OpenCases}))
ASSUME IF "VF_OUT" \in DOMAIN IOEnv THEN Export ELSE TRUE
ASSUME IF "VF_WITNESSES" \in DOMAIN IOEnv THEN WitnessesReached ELSE TRUE
=============================================================================
