---------------------------- MODULE HistoryC22Gen ----------------------------
(* E1 + E2 for C22: every branch (graph, tip) of the bounded universe, with the other tips s used by `ancestor:`,
   is one initial state.  Design checks on the specification itself: every specifier form has a meaning on every
   branch, the meanings are consistent with one another (before: of a mainline number is the previous number,
   mainline: of a mainline revision is itself, -1 = last:1 = the tip, ...).  The dotted numbering is NOT specified
   (History only constrains observed maps), so there is no SpecOut for the map.  Exported per case: the specifier
   list as tuples <<k, a, b>>. *)
EXTENDS HistoryGenLib, Json, IOUtils
Cases == {[par |-> x[1], t |-> x[2], others |-> SetToSeq(OthersOf(x[1], x[2]))] : x \in Branches}
\* one initial state per graph (cheap), its cases as successor states: TLC's workers share the law evaluation
VARIABLE c
Init == c \in {[par |-> P, t |-> -1] : P \in Graphs2}
Next == c.t = -1 /\ c' \in {[par |-> c.par, t |-> t, others |-> SetToSeq(OthersOf(c.par, t))] : t \in TipsOf(c.par)}
IsCase == c.t # -1
Specs(x) == SpecsOf(x.par, x.t, SeqRange(x.others))
M(x, sp) == Meaning(x.par, x.t, sp)
LawsHoldOnSpec == IsCase =>
    LET P == c.par
        n == RevnoOf(P, c.t)
        lh == LeftHand(P, c.t)
    IN /\ \A sp \in Specs(c) : M(c, sp) # {} /\ M(c, sp) \subseteq (DOMAIN P \cup Ghosts(P) \cup {Null, ERR})
       /\ M(c, Spec("neg", 1, "")) = {c.t} /\ M(c, Spec("last", 1, "")) = {c.t} /\ M(c, Spec("num", n, "")) = {c.t}
       /\ \A a \in 2..n : M(c, Spec("before", a, "num")) = M(c, Spec("num", a - 1, ""))
       /\ \A a \in 1..n : M(c, Spec("mainline", lh[a], "")) = {lh[a]}
       /\ \A r \in Anc0(P, c.t) : LET m == M(c, Spec("mainline", r, ""))
                                  IN \A x \in m : x \in SeqRange(lh) /\ r \in Anc0(P, x)
       /\ \A s \in SeqRange(c.others) : \A x \in M(c, Spec("ancestor", s, "")) \ {ERR} : x \in AncG(P, c.t) \cap AncG(P, s)
       /\ \A s \in SeqRange(c.others) : (s # Null /\ s \in Anc0(P, c.t)) => M(c, Spec("ancestor", s, "")) = {s}
WCrissCross(x) == \E s \in SeqRange(x.others) : Cardinality(M(x, Spec("ancestor", s, ""))) > 1
\* a number qualified with another branch names a revision that the context branch merged (not on its mainline)
WOtherMerged(x) == \E sp \in Specs(x) : /\ sp.k = "mainline" /\ sp.b = "bnum"
                                        /\ LET r == BaseO(x.par, "bnum", sp.a, sp.o)
                                           IN r \in Anc0(x.par, x.t) \ LeftSet(x.par, x.t) /\ M(x, sp) # {r} /\ M(x, sp) # {ERR}
\* ... or one whose parent is not the context branch's previous number
WOtherBefore(x) == \E sp \in Specs(x) : /\ sp.k = "before" /\ sp.b = "bnum" /\ sp.a >= 2 /\ sp.a - 1 <= RevnoOf(x.par, x.t)
                                        /\ M(x, sp) # {LeftHand(x.par, x.t)[sp.a - 1]} /\ ERR \notin M(x, sp)
WMergedMerge(x) == \E r \in Anc0(x.par, x.t) \ LeftSet(x.par, x.t) : IsMerge(x.par, r)
SpecTuple(sp) == <<sp.k, sp.a, sp.b, sp.o>>
CaseRow(x) == [c |-> x, specs |-> SetToSeq({SpecTuple(sp) : sp \in Specs(x)})]
\* anti-vacuity: each of these must be reached by some case (checked in the export run: VF_WITNESSES)
WitnessesReached ==
    /\ \E x \in SmallOnly(Cases) : WCrissCross(x)
    /\ \E x \in SmallOnly(Cases) : WMergedMerge(x)
    /\ \E x \in SmallOnly(Cases) : WOtherMerged(x)
    /\ \E x \in SmallOnly(Cases) : WOtherBefore(x)
Export == JsonSerialize(IOEnv.VF_OUT, SetToSeq({CaseRow(x) : x \in Picked(Cases)}))
ASSUME IF "VF_OUT" \in DOMAIN IOEnv THEN Export ELSE TRUE
ASSUME IF "VF_WITNESSES" \in DOMAIN IOEnv THEN WitnessesReached ELSE TRUE
=============================================================================
