---------------------------- MODULE CountedLock ----------------------------
(* Reentrant lock wrappers of breezy: counting and mode bookkeeping above ONE underlying ("physical") lock.
   Wrapper variants w:
     "counted"  breezy.counted_lock.CountedLock over a lock object
     "lockable" breezy.bzr.lockable_files.LockableFiles over a LockDir
     "branch"   BzrBranch (control_files = LockableFiles over LockDir; token passed through)
     "repo"     PackRepository (_write_lock_count for writes: NO underlying lock, token ignored;
                control_files read lock for reads)
     "knitrepo" breezy.repository.Repository's generic locking over control_files (knit format; token passed through)
     "tree"     DirStateWorkingTree (lock_read / lock_write / lock_tree_write, no tokens; takes the branch lock too:
                read for lock_read and lock_tree_write, write for lock_write)
   One deterministic step function Step(w, s, op) describes all of them; the MC module explores all call
   sequences, the Trace module folds Step over call sequences recorded from the real objects.

   State record s:
     count : nesting depth                        mode : "none" | "r" | "w"
     bmode : mode of the lock of the object one level down that the wrapper locks along with itself
             (tree: its branch; branch: its repository; otherwise "none")
     phys  : state of the underlying lock object: "none" | "r" (read; LockDir read locks are not on disk)
             | "w" (write lock physically taken by this object: <lock>/held is ours)
             | "wtok" (write lock adopted with the token of another holder: nothing taken on disk)
     ext   : another holder (second object) holds the on-disk lock
     op, out : last call and its outcome ("ok" or the name of the refusing exception)
     ev    : call on the underlying lock object made by the last call: "none" | "acqR" | "acqW" | "rel"
     dev   : on-disk event of the last call: "none" | "take" (rename -> held) | "drop" (rename held -> ...) *)
EXTENDS Integers, Sequences, FiniteSets

Wrappers == {"counted", "lockable", "branch", "repo", "knitrepo", "tree"}
WriteOps == {"lock_write", "lock_write_good", "lock_write_bad", "lock_tree_write"}
EnvOps == {"ext_acquire", "ext_release"}
Ops(w) == CASE w = "repo" -> {"lock_read", "lock_write", "lock_write_good", "lock_write_bad", "unlock"}
            [] w = "tree" -> {"lock_read", "lock_write", "lock_tree_write", "unlock"}
            [] OTHER -> {"lock_read", "lock_write", "lock_write_good", "lock_write_bad", "unlock"} \cup EnvOps

Init0 == [count |-> 0, mode |-> "none", bmode |-> "none", phys |-> "none", ext |-> FALSE,
          op |-> "init", out |-> "ok", ev |-> "none", dev |-> "none"]

\* environment actions are only taken when they succeed: the other holder can take the on-disk lock unless we hold it
\* physically, and gives it up only while we have not adopted it
Enabled(w, s, op) ==
    /\ op \in Ops(w)
    /\ op = "ext_acquire" => (~s.ext /\ s.phys # "w")
    /\ op = "ext_release" => (s.ext /\ s.phys # "wtok")

Refuse(s, op, exc) == [s EXCEPT !.op = op, !.out = exc, !.ev = "none", !.dev = "none"]
Quiet(s, op) == [s EXCEPT !.op = op, !.out = "ok", !.ev = "none", !.dev = "none"]
Deeper(s, op) == [Quiet(s, op) EXCEPT !.count = s.count + 1]

\* the token kinds: "none" (no token), "good" (the token of the lock currently held on disk - ours or the other
\* holder's; a stale token when nothing is held), "bad" (a token that never matches)
Tok(op) == CASE op = "lock_write_good" -> "good" [] op = "lock_write_bad" -> "bad" [] OTHER -> "none"

LockRead(w, s, op) ==
    IF s.count > 0 THEN Deeper(s, op)
    ELSE [Quiet(s, op) EXCEPT !.count = 1, !.mode = "r", !.phys = "r", !.ev = "acqR",
                              !.bmode = IF w \in {"tree", "branch"} THEN "r" ELSE "none"]

\* CountedLock / LockableFiles / BzrBranch: the first write lock goes to the underlying lock (with the token);
\* nested ones validate the token against the lock on disk
LockWriteTok(w, s, op) ==
    LET tk == Tok(op)
        sub == IF w = "branch" THEN "w" ELSE "none"
    IN
    IF s.count = 0 THEN
        CASE tk = "none" -> IF s.ext THEN Refuse(s, op, "LockContention")
                            ELSE [Quiet(s, op) EXCEPT !.count = 1, !.mode = "w", !.phys = "w", !.ev = "acqW", !.dev = "take",
                                                      !.bmode = sub]
          [] tk = "good" -> IF s.ext THEN [Quiet(s, op) EXCEPT !.count = 1, !.mode = "w", !.phys = "wtok", !.ev = "acqW",
                                                               !.bmode = sub]
                            ELSE Refuse(s, op, "TokenMismatch")
          [] tk = "bad"  -> Refuse(s, op, "TokenMismatch")
    ELSE IF s.mode = "r" THEN Refuse(s, op, "ReadOnlyError")
    ELSE IF tk = "bad" THEN Refuse(s, op, "TokenMismatch")
    ELSE Deeper(s, op)

\* PackRepository: writes are counted in _write_lock_count, no underlying lock, token ignored
LockWriteRepo(s, op) ==
    IF s.count = 0 THEN [Quiet(s, op) EXCEPT !.count = 1, !.mode = "w"]
    ELSE IF s.mode = "r" THEN Refuse(s, op, "ReadOnlyError")
    ELSE Deeper(s, op)

\* working tree: lock_write needs the branch write lock, lock_tree_write the branch read lock
LockWriteTree(s, op) ==
    IF s.count = 0 THEN [Quiet(s, op) EXCEPT !.count = 1, !.mode = "w", !.phys = "w", !.ev = "acqW", !.dev = "take",
                                             !.bmode = IF op = "lock_write" THEN "w" ELSE "r"]
    ELSE IF s.mode = "r" THEN Refuse(s, op, "ReadOnlyError")
    ELSE IF op = "lock_write" /\ s.bmode = "r" THEN Refuse(s, op, "ReadOnlyError")     \* branch only read-locked
    ELSE Deeper(s, op)

Unlock(w, s, op) ==
    IF s.count = 0 THEN Refuse(s, op, "LockNotHeld")
    ELSE IF s.count > 1 THEN [Quiet(s, op) EXCEPT !.count = s.count - 1]
    ELSE [Quiet(s, op) EXCEPT !.count = 0, !.mode = "none", !.bmode = "none", !.phys = "none",
                              !.ev = IF s.phys = "none" THEN "none" ELSE "rel",
                              !.dev = IF s.phys = "w" THEN "drop" ELSE "none"]

Step(w, s, op) ==
    CASE op = "lock_read" -> LockRead(w, s, op)
      [] op \in WriteOps -> (CASE w = "repo" -> LockWriteRepo(s, op) [] w = "tree" -> LockWriteTree(s, op)
                               [] OTHER -> LockWriteTok(w, s, op))
      [] op = "unlock" -> Unlock(w, s, op)
      [] op = "ext_acquire" -> [Quiet(s, op) EXCEPT !.ext = TRUE]
      [] op = "ext_release" -> [Quiet(s, op) EXCEPT !.ext = FALSE]

\* what the harness can observe on the real object after a call
\* (disk: <lock>/held exists and is ours; bdisk: the tree's branch lock is held on disk)
Obs(w, s) == [out |-> s.out, count |-> s.count, mode |-> s.mode, bmode |-> s.bmode, ev |-> s.ev, dev |-> s.dev,
              locked |-> s.count > 0, disk |-> s.phys = "w", bdisk |-> (w = "tree" /\ s.bmode = "w")]
Core(s) == <<s.count, s.mode, s.bmode, s.phys, s.ext>>

(* ---- judging a recorded call sequence (row = [w, ops, obs]): fold Step over ops and classify every call whose
   observation differs from the specified one by the clauses of C28 (evaluated with the specified pre-state: the
   expected physical-lock log is a function of the call sequence).  `at` is the first differing call. *)
\* failed clauses as <<clause, call, mode before the call>>; pre = state before the call, t = specified state after it
FailedAt(row, pre, t, k) ==
    LET e == Obs(row.w, t)
        o == row.obs[k]
        op == row.ops[k]
    IN  \* physical lock taken exactly at the first lock, released exactly at the matching last unlock
        (IF \/ o.ev # e.ev \/ o.dev # e.dev \/ o.disk # e.disk \/ o.bdisk # e.bdisk
            \/ (o.bmode = "none") # (e.bmode = "none")
         THEN {<<"phys", op, pre.mode>>} ELSE {})
        \* a write lock requested while only read-locked is refused without changing the lock state
        \cup (IF pre.mode = "r" /\ op \in WriteOps THEN {<<"write_in_read", op, pre.mode>>} ELSE {})
        \* unlocking more often than locking is refused
        \cup (IF pre.count = 0 /\ op = "unlock" THEN {<<"extra_unlock", op, pre.mode>>} ELSE {})
\* The specified run depends on the call sequence only.  Every call whose observation differs from it is classified;
\* the scan does not stop at the first difference, so that the CONSEQUENCES of a bookkeeping slip (no release at the
\* matching last unlock, a surplus unlock accepted) are judged even if the slip itself is not one of the clauses.
RECURSIVE Run(_, _, _, _)
Run(w, s, ops, k) == IF k > Len(ops) THEN <<>> ELSE LET t == Step(w, s, ops[k]) IN <<t>> \o Run(w, t, ops, k + 1)
\* at = first differing call; failed = the clauses failed by the EARLIEST differing call that fails any (later ones
\* are knock-on effects of the same slip and would only blur the signature)
JudgeWith(row, exp) ==
    LET D == {k \in 1..Len(row.ops) : row.obs[k] # Obs(row.w, exp[k])}
        F(k) == FailedAt(row, IF k = 1 THEN Init0 ELSE exp[k - 1], exp[k], k)
        V == {k \in D : F(k) # {}}
        Least(S) == CHOOSE k \in S : \A j \in S : k <= j
    IN [at |-> IF D = {} THEN 0 ELSE Least(D), failed |-> IF V = {} THEN {} ELSE F(Least(V))]
Judge(row) == JudgeWith(row, Run(row.w, Init0, row.ops, 1))
=============================================================================
