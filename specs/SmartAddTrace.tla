--------------------------- MODULE SmartAddTrace ---------------------------
(* E3 for C11: the versioned sets recorded around real smart_add calls are judged by the law of SmartAdd.tla.
   Rows: [c |-> case (sets as sequences), o |-> [before, after, changed, err]]. *)
EXTENDS SmartAdd, TLC, Json, IOUtils, SequencesExt
Rows == JsonDeserialize(IOEnv.VF_IN)
Case(k) == LET r == Rows[k].c IN
           [lay |-> Range(r.lay), ign |-> Range(r.ign), conf |-> Range(r.conf), pre |-> Range(r.pre),
            args |-> Range(r.args), rec |-> r.rec]
VARIABLE i
Init == i \in 1..Len(Rows)
Next == UNCHANGED i
Bad == SelectSeq([k \in 1..Len(Rows) |->
                    [row |-> k, failed |-> SetToSeq(Failed(Case(k), Rows[k].o)),
                     extra |-> SetToSeq(Extra(Case(k), Rows[k].o)), missing |-> SetToSeq(Missing(Case(k), Rows[k].o)),
                     extraRoles |-> SetToSeq({Role(Case(k), p) : p \in Extra(Case(k), Rows[k].o)}),
                     missingRoles |-> SetToSeq({Role(Case(k), p) : p \in Missing(Case(k), Rows[k].o)}),
                     drift |-> ~SetupOK(Case(k), Rows[k].o)]],
                 LAMBDA r : r.failed # <<>> \/ r.drift)
ASSUME JsonSerialize(IOEnv.VF_OUT, [n |-> Len(Rows), bad |-> Bad])
=============================================================================
