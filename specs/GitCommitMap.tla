--------------------------- MODULE GitCommitMap ---------------------------
(* C34: the git commit <-> revision mapping of breezy.git.mapping.BzrGitMapping (default mapping git-v1),
   transcribed at the level of "which revision properties are set and what they carry":

     Import(c)  <- import_commit(commit, lookup, strict=True)
     Export(r)  <- export_commit(rev, tree, parent_lookup, lossy=True, verifiers={})

   An abstract commit is a record over small field classes; the harness concretises every class to hostile
   bytes.  Text is modelled by the little codec algebra below (what bytes are there x which codec reads them).

   c.enc    : encoding header          "absent" | "utf-8" | "iso-8859-1" | "false" | "bogus"
   c.tb     : bytes of names/message   "ascii" | "utf8" (valid UTF-8, non-ASCII) | "latin1" (invalid as UTF-8)
   c.ident  : "same" (author = committer) | "diff"
   c.teq    : author time = commit time ?
   c.atz, c.ctz : "0" | "neg0" (-0000) | "p60" (+0100) | "m330" (-0530)
   c.gpg    : gpgsig header present ?
   c.mt     : number of mergetag headers
   c.extra  : sequence of extra header classes  "hgrename" (HG:rename-source) | "hgextra" (HG:extra with a known
              key) | "hgbad" (HG:extra with an unknown key) | "unknown" (unrecognised header)
   c.msg    : "missing" | "empty" | "text" | "nonl" (no trailing newline) | "marker" (contains \n--BZR--\n lookalike)
   c.par    : number of parents *)
EXTENDS Naturals, Sequences, FiniteSets

Range(s) == {s[i] : i \in DOMAIN s}

(* ---------------------------------------------------------------- codec algebra *)
\* unicode classes: "A" ascii text, "E" the intended non-ASCII text, "M" mojibake (UTF-8 bytes read as latin-1)
Decode(tb, codec) ==
    CASE tb = "ascii" -> "A"
      [] tb = "utf8"   /\ codec = "utf8"   -> "E"
      [] tb = "utf8"   /\ codec = "latin1" -> "M"
      [] tb = "latin1" /\ codec = "latin1" -> "E"
      [] tb = "latin1" /\ codec = "utf8"   -> "FAIL"            \* UnicodeDecodeError
Encode(u, codec) ==
    CASE u = "A" -> "ascii"
      [] u = "E" /\ codec = "utf8"   -> "utf8"
      [] u = "E" /\ codec = "latin1" -> "latin1"
      [] u = "M" /\ codec = "latin1" -> "utf8"
      [] u = "M" /\ codec = "utf8"   -> "utf8-twice"            \* never equal to an input class
CodecOf(encName) == CASE encName = "utf-8" -> "utf8" [] encName = "iso-8859-1" -> "latin1" [] OTHER -> "NONE"

TzNum(z) == CASE z \in {"0", "neg0"} -> "0" [] z = "p60" -> "3600" [] z = "m330" -> "-19800"
TzNeg(z) == z = "neg0"
TzOf(num, neg) == IF neg THEN (IF num = "0" THEN "neg0" ELSE "BAD")
                  ELSE CASE num = "0" -> "0" [] num = "3600" -> "p60" [] num = "-19800" -> "m330" [] OTHER -> "BAD"

(* ---------------------------------------------------------------- import_commit *)
\* the codec import_commit ends up decoding with
ImportCodec(c) ==
    IF c.enc \in {"absent", "false"}                       \* "for encoding in ('utf-8', 'latin1')"
    THEN IF Decode(c.tb, "utf8") # "FAIL" THEN "utf8" ELSE "latin1"
    ELSE CodecOf(c.enc)

\* why import_commit raises ("" = accepted); order as in the code: decoding first, extra headers afterwards
Reject(c) ==
    IF c.enc = "bogus" THEN "UnknownCommitEncoding"
    ELSE IF Decode(c.tb, ImportCodec(c)) = "FAIL" THEN "UnicodeDecodeError"
    ELSE IF "hgbad" \in Range(c.extra) THEN "UnknownMercurialCommitExtra"
    ELSE IF "unknown" \in Range(c.extra) THEN "UnknownCommitExtra"
    ELSE ""
Accepted(c) == Reject(c) = ""

TagKey == <<"git-mergetag-0", "git-mergetag-1", "git-mergetag-2">>
MergetagKeys(n) == {TagKey[i] : i \in 1..n}

\* revision property keys set by import_commit
Keys(c) ==
       (IF c.enc # "absent" THEN {"git-explicit-encoding"} ELSE {})
  \cup (IF c.enc \in {"absent", "false"} /\ ImportCodec(c) # "utf8" THEN {"git-implicit-encoding"} ELSE {})
  \cup (IF c.ident = "diff" THEN {"author"} ELSE {})
  \cup (IF ~c.teq THEN {"author-timestamp"} ELSE {})
  \cup (IF TzNum(c.atz) # TzNum(c.ctz) THEN {"author-timezone"} ELSE {})
  \cup (IF TzNeg(c.atz) THEN {"author-timezone-neg-utc"} ELSE {})
  \cup (IF TzNeg(c.ctz) THEN {"commit-timezone-neg-utc"} ELSE {})
  \cup (IF c.gpg THEN {"git-gpg-signature"} ELSE {})
  \cup MergetagKeys(c.mt)
  \cup (IF c.extra # <<>> THEN {"git-extra"} ELSE {})
  \cup (IF c.msg = "missing" THEN {"git-missing-message"} ELSE {})

\* the abstract revision (only defined for accepted commits)
Import(c) ==
    LET codec == ImportCodec(c)
        u == Decode(c.tb, codec)
        keys == Keys(c)
        val(k) == CASE k = "git-explicit-encoding" -> c.enc
                    [] k = "git-implicit-encoding" -> "latin1"
                    [] k = "author" -> [who |-> "A", u |-> u]
                    [] k = "author-timestamp" -> "T2"
                    [] k = "author-timezone" -> TzNum(c.atz)
                    [] k = "git-gpg-signature" -> "SIG"
                    [] k = "git-extra" -> c.extra
                    [] k = "git-missing-message" -> "true"
                    [] OTHER -> ""
    IN [props |-> [k \in keys |-> val(k)],
        committer |-> [who |-> "C", u |-> u],
        timestamp |-> "T1", timezone |-> TzNum(c.ctz),
        message |-> IF c.msg = "missing" THEN [kind |-> "empty", u |-> u] ELSE [kind |-> c.msg, u |-> u],
        parents |-> c.par]

(* ---------------------------------------------------------------- export_commit *)
Has(r, k) == k \in DOMAIN r.props
ExplicitEnc(r) == IF Has(r, "git-explicit-encoding") THEN r.props["git-explicit-encoding"] ELSE "absent"
\* the encoding name export_commit passes to str.encode, AS CODED:
\*   rev.properties["git-explicit-encoding"], else git-implicit-encoding, else utf-8
CodedEncName(r) == IF Has(r, "git-explicit-encoding") THEN r.props["git-explicit-encoding"]
                   ELSE IF Has(r, "git-implicit-encoding") THEN "iso-8859-1" ELSE "utf-8"
\* what a round trip needs: the explicit header "false" means "no usable encoding", as import_commit treats it
IntendedEncName(r) == IF Has(r, "git-explicit-encoding") /\ r.props["git-explicit-encoding"] # "false"
                      THEN r.props["git-explicit-encoding"]
                      ELSE IF Has(r, "git-implicit-encoding") THEN "iso-8859-1" ELSE "utf-8"

NTags(r) == IF ~Has(r, "git-mergetag-0") THEN 0 ELSE IF ~Has(r, "git-mergetag-1") THEN 1
            ELSE IF ~Has(r, "git-mergetag-2") THEN 2 ELSE 3

ExportWith(r, encName, msgKind) ==
    LET codec == CodecOf(encName)
        author == IF Has(r, "author") THEN r.props["author"] ELSE r.committer
        neg(k) == Has(r, k)
        atzNum == IF Has(r, "author-timezone") THEN r.props["author-timezone"] ELSE r.timezone
    IN [enc   |-> ExplicitEnc(r),
        tb    |-> Encode(r.committer.u, codec),
        ident |-> IF author.who = r.committer.who THEN "same" ELSE "diff",
        teq   |-> (IF Has(r, "author-timestamp") THEN r.props["author-timestamp"] ELSE r.timestamp) = r.timestamp,
        atz   |-> TzOf(atzNum, neg("author-timezone-neg-utc")),
        ctz   |-> TzOf(r.timezone, neg("commit-timezone-neg-utc")),
        gpg   |-> Has(r, "git-gpg-signature"),
        mt    |-> NTags(r),
        extra |-> IF Has(r, "git-extra") THEN r.props["git-extra"] ELSE <<>>,
        msg   |-> msgKind,
        par   |-> r.parents]

\* the mapping a byte-exact round trip needs
ExportIntended(r) ==
    ExportWith(r, IntendedEncName(r), IF Has(r, "git-missing-message") THEN "missing" ELSE r.message.kind)

\* export_commit as the pinned code has it.  Two deviations, in the order the code reaches them:
\*   * "false" is handed to str.encode as a codec name                           -> LookupError
\*   * git-missing-message: `commit.message != ""` is evaluated on a fresh dulwich Commit, which has no
\*     _message attribute yet                                                  -> AttributeError
Raises(x) == [raises |-> x]
ExportAsCoded(r) ==
    IF CodecOf(CodedEncName(r)) = "NONE" THEN Raises("LookupError")
    ELSE IF Has(r, "git-missing-message") THEN Raises("AttributeError")
    ELSE ExportWith(r, CodedEncName(r), r.message.kind)

Deviation(c) == IF c.enc = "false" THEN "raises:LookupError"
                ELSE IF c.msg = "missing" THEN "raises:AttributeError" ELSE "none"
\* get_revision_id AS CODED decodes an existing message with the header value as codec and only expects
\* UnicodeDecodeError (an empty message is decoded without a codec lookup); otherwise every way of deriving the
\* id gives revid_prefix:sha1
RevidCoded(c) == IF c.enc = "false" /\ c.msg \notin {"missing", "empty"} THEN "unstable:get_revision_id-raises-LookupError" ELSE "stable"

(* ---------------------------------------------------------------- design theorems (checked by TLC in Gen) *)
RoundTripIntended(c) == Accepted(c) => ExportIntended(Import(c)) = c
AsCodedAgreesOrDeviates(c) ==
    Accepted(c) => IF Deviation(c) = "none" THEN ExportAsCoded(Import(c)) = c
                   ELSE ExportAsCoded(Import(c)) = Raises(CASE Deviation(c) = "raises:LookupError" -> "LookupError"
                                                            [] OTHER -> "AttributeError")

(* ---------------------------------------------------------------- what the spec predicts for the harness *)
Val(r, k) == IF Has(r, k) THEN r.props[k] ELSE "-"
SpecOut(c) ==
    IF ~Accepted(c) THEN [accepted |-> FALSE, reject |-> Reject(c), keys |-> {}, enc |-> "-", ienc |-> "-", atz |-> "-",
                          out |-> "-", revid |-> "-"]
    ELSE LET r == Import(c) IN
         [accepted |-> TRUE, reject |-> "", keys |-> DOMAIN r.props,
          enc |-> Val(r, "git-explicit-encoding"),
          ienc |-> IF Has(r, "git-implicit-encoding") THEN "latin1" ELSE "-",
          atz |-> Val(r, "author-timezone"),
          out |-> IF Deviation(c) = "none" THEN "same" ELSE Deviation(c), revid |-> RevidCoded(c)]

(* ---------------------------------------------------------------- the laws of C34 on OBSERVED results
   o.accepted : import_commit returned (did not raise)
   o.out      : outcome of export for the commit parsed from its bytes: "same" | "differs" | "raises:<Type>"
   o.outC     : the same for the commit handed over as a constructed dulwich object
   o.revid    : "stable" iff both imports give revision_id_foreign_to_bzr(sha1 of the bytes) *)
LawRoundTrip(c, o) == o.accepted => (o.out = "same" /\ o.outC = "same")
LawRevid(c, o) == o.accepted => o.revid = "stable"
LawNames == <<"roundtrip", "revid">>
Law(n, c, o) == CASE n = "roundtrip" -> LawRoundTrip(c, o) [] n = "revid" -> LawRevid(c, o)
Failed(c, o) == {n \in Range(LawNames) : ~Law(n, c, o)}

\* conformance of the implementation with the transcription (drift, not verdict)
Conforms(c, o) ==
    LET s == SpecOut(c) IN
    /\ o.accepted = s.accepted
    /\ o.reject = s.reject
    /\ Range(o.keys) = s.keys
    /\ o.enc = s.enc /\ o.ienc = s.ienc /\ o.atz = s.atz
    /\ (s.accepted => o.out = s.out /\ o.outC = s.out)
    /\ o.revid = s.revid
=============================================================================
