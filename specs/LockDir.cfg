SPECIFICATION Spec
VIEW View
CONSTANTS
  Lockers = {"x", "y"}
  Breakers = {"a"}
  MaxAttempts = 2
  Steal = FALSE
  DeadStart = FALSE
  MaxFaults = 0
  MaxCrashes = 0
INVARIANT TypeOK
INVARIANT MutualExclusion
INVARIANT HolderOnDisk
INVARIANT StealOnlyDead
INVARIANT Recoverable
INVARIANT FailedNotHeld
INVARIANT QuiescentClean
