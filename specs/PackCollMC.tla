----------------------------- MODULE PackCollMC -----------------------------
(* Model-checking configuration of PackColl: every writer commits one new key per commit and autopacks everything
   it knows as soon as it has more than MaxPacks packs in memory (the real planner's choice is a parameter of the
   actions; trace validation uses the recorded one).  All interleavings, all crash points. *)
EXTENDS PackColl
NeedsPack(p) == pc[p] = "lock" /\ obs[p] = {} /\ Cardinality(mem[p]) > MaxPacks
WriterStep(p) ==
  \/ Load(p)
  \/ Publish(p, {Key(p, done[p] + 1)})
  \/ (NeedsPack(p) /\ mem[p] \subseteq (packsDir \cap idxDir) /\ PackOk(p, mem[p]))
  \/ (NeedsPack(p) /\ ~(mem[p] \subseteq (packsDir \cap idxDir)) /\ Refresh(p))      \* RetryAutopack
  \/ (~NeedsPack(p) /\ LockNames(p))
  \/ PutNames(p, Merge(p, namesFile)) \/ ClearObsolete(p) \/ UnlockNames(p)
  \/ (\E i \in AllIds : ObsoletePack(p, i) \/ ObsoleteIdx(p, i))
  \/ SetTip(p)
PackerStep(p) ==
  \/ Load(p)
  \/ (pc[p] = "write" /\ mem[p] \subseteq (packsDir \cap idxDir) /\ PackOk(p, mem[p]))
  \/ (pc[p] = "write" /\ ~(mem[p] \subseteq (packsDir \cap idxDir)) /\ Refresh(p))     \* RetryPackOperations
  \/ LockNames(p) \/ PutNames(p, Merge(p, namesFile)) \/ ClearObsolete(p) \/ UnlockNames(p)
  \/ (\E i \in AllIds : ObsoletePack(p, i) \/ ObsoleteIdx(p, i))
  \/ EndPack(p)
ReaderStep(p) == Load(p) \/ (\E i \in mem[p] : ReadPack(p, i)) \/ ReaderDone(p)
Next == \E p \in Procs : (p \in Writers /\ WriterStep(p)) \/ (p \in Readers /\ ReaderStep(p))
                        \/ (p \in Packers /\ PackerStep(p)) \/ Crash(p)
Spec == Init /\ [][Next]_vars
\* anti-vacuity
WitnessAutopackRace == ~(\E p, q \in Writers : p # q /\ pc[p] = "obsolete" /\ pc[q] = "obsolete")
WitnessReaderReload == ~(\E r \in Readers : atLoad[r] # {} /\ atLoad[r] # mem[r] /\ pc[r] = "read" /\ done[r] = 0 /\ nextId > InitPacks + 2)
WitnessBothCommitted == ~(\A p \in Writers : done[p] = MaxCommits)
=============================================================================
