----------------------------- MODULE StackingMC -----------------------------
(* E1 + E2 for C08: a development repository D holds a whole history (every graph up to MaxRev revisions, at most MaxPar
   parents, NGhosts ghosts, an edit pattern); the base repository B holds a non-empty ancestry-closed part of it (the
   SPLIT POINT); the stacked branch S is created on B at any revision k of B and then goes through up to MaxActs of:
   commit (optionally merging a visible revision outside the tip's ancestry; at most MaxCommits), fetch / push / pull of
   any revision of D.  TLC checks StackedComplete and Readable in every state; the same module generates the behaviours
   that are replayed on real stacked 2a branches (`step` says what to do). *)
EXTENDS Stacking
CONSTANTS MaxRev, NGhosts, MaxPar, Pats, AllPatsUpTo, MaxActs, MaxCommits
VARIABLES h,        \* the history of everything that exists (grows with commits)
          n0,       \* revisions 1..n0 are the universe held by D
          base,     \* content of the fallback repository B
          loc,      \* content of the stacked repository S itself
          tip,      \* tip of the stacked branch (0 = the branch does not exist yet)
          acts,     \* actions taken on the stacked branch
          step      \* [a, r, m]: last action, revision argument, merged revision
vars == <<h, n0, base, loc, tip, acts, step>>
GhostSet == IF NGhosts = 0 THEN {} ELSE {GhostId}
AllGraphs == UNION {GhostDags(n, MaxPar, GhostSet) : n \in 1..MaxRev}
RECURSIVE SumSeq(_)
SumSeq(q) == IF q = <<>> THEN 0 ELSE Head(q) + SumSeq(Tail(q))
PatOf(P) == ((SumSeq([r \in DOMAIN P |-> SumSeq(P[r]) + Len(P[r])]) + Len(P)) % Cardinality(Pats)) + 1
PatsFor(P) == IF Len(P) <= AllPatsUpTo THEN Pats ELSE {PatOf(P)} \cap Pats
Dev == Content(h, 1..n0)
Commits == Len(h.P) - n0

Init == /\ \E P \in AllGraphs : h = [P |-> P] /\ n0 = Len(P)
        /\ base = Empty /\ loc = Empty /\ tip = 0 /\ acts = 0 /\ step = [a |-> "graph", r |-> 0, m |-> 0]
Build == /\ step.a = "graph"
         /\ \E pat \in PatsFor(h.P) : h' = History(h.P, pat)
         /\ \E X \in ClosedSubsets(h.P) \ {{}} : base' = Content(h', X)
         /\ step' = [a |-> "split", r |-> 0, m |-> 0] /\ UNCHANGED <<n0, loc, tip, acts>>
\* push and pull move a branch tip, which needs a revno: the left-hand history must end in a root, not in a ghost
\* (Branch._update_revisions raises GhostRevisionsHaveNoRevno otherwise; that is not a statement about the repository)
MainlineOk(P, r) == P[LeftHand(P, r)[1]] = <<>>
BranchStackedAt(k) == /\ step.a = "split" /\ k \in base.revs
                      /\ loc' = BranchedLocal /\ tip' = k /\ step' = [a |-> "branch", r |-> k, m |-> 0]
                      /\ UNCHANGED <<h, n0, base, acts>>
Active == tip # 0 /\ acts < MaxActs
CommitToStacked(m) ==
    /\ Active /\ Commits < MaxCommits
    /\ m = 0 \/ (m \in Visible(loc, base).revs /\ m \notin Ancestry(h.P, tip) /\ tip \notin Ancestry(h.P, m))
    /\ h' = Extend(h, IF m = 0 THEN <<tip>> ELSE <<tip, m>>, CommitTree(h, tip))
    /\ loc' = StackedCommit(h', loc) /\ tip' = Len(h'.P)
    /\ acts' = acts + 1 /\ step' = [a |-> "commit", r |-> Len(h'.P), m |-> m] /\ UNCHANGED <<n0, base>>
Copy(how, r) == /\ Active /\ r \in 1..n0 /\ (how # "fetch" => MainlineOk(h.P, r))
                /\ loc' = StackedFetch(h, Dev, loc, base, r)
                /\ tip' = IF how = "fetch" THEN tip ELSE r
                /\ acts' = acts + 1 /\ step' = [a |-> how, r |-> r, m |-> 0] /\ UNCHANGED <<h, n0, base>>
FetchIntoStacked(r) == Copy("fetch", r)
PushToStacked(r) == Copy("push", r)
PullIntoStacked(r) == Copy("pull", r)
Next == \/ Build \/ \E k \in DOMAIN h.P : BranchStackedAt(k)
        \/ \E m \in 0..Len(h.P) : CommitToStacked(m)
        \/ \E r \in 1..n0 : FetchIntoStacked(r) \/ PushToStacked(r) \/ PullIntoStacked(r)
Spec == Init /\ [][Next]_vars
Built == step.a # "graph"

(* ---- C08 on the model *)
InvStackedComplete == Built => StackedComplete(h, loc)
InvReadable == Built => Readable(h, loc, base)
\* the stacked repository never duplicates what its fallback holds, and what is visible stays closed under ancestry
InvNoDuplicates == Built => loc.revs \cap base.revs = {}
InvVisibleClosed == Built => AncestryClosed(h.P, Visible(loc, base).revs)
LawsHoldOnSpec == (Built /\ tip # 0) => Let(StackObsOf(h, loc, base), LAMBDA o : StackFailed([P |-> h.P], o)) = {}
\* anti-vacuity
WitnessParentInvFromFallback == ~(Built /\ \E p \in loc.invs : p \notin loc.revs /\ p \in base.revs)
WitnessMergeCommit == ~(step.a = "commit" /\ step.m # 0 /\ step.m \in base.revs)
WitnessCarriedFallbackText == ~(Built /\ \E r \in loc.revs : \E f \in DOMAIN h.T[r] : h.fv[r][f] \in base.revs)
WitnessPushThenCommit == ~(step.a = "commit" /\ tip > n0 /\ \E r \in loc.revs : r <= n0)
=============================================================================
