-------------------------- MODULE PerFileGraphTrace --------------------------
(* E3 for C02: histories built on real branches (2a, pack-0.92), read back from the repository and judged by the rule
   of PerFileGraph.  One row per history: row.c = [P, T] as projected from the real repository (revision graph and
   revision trees), row.impl = [fv, fp, check] (get_file_revision, text-key parent map, Repository.check()).
   Sets arrive as JSON arrays. *)
EXTENDS PerFileGraph, Json, IOUtils, SequencesExt
Rows == JsonDeserialize(IOEnv.VF_IN)
VARIABLE i
Init == i \in 1..Len(Rows)
Next == UNCHANGED i
ObsOfRow(r) == [fv |-> r.impl.fv,
                fp |-> [k \in DOMAIN r.impl.fp |-> [f \in DOMAIN r.impl.fp[k] |-> Rng(r.impl.fp[k][f])]],
                nodup |-> \A k \in DOMAIN r.impl.fp : \A f \in DOMAIN r.impl.fp[k] :
                              Len(r.impl.fp[k][f]) = Cardinality(Rng(r.impl.fp[k][f])),
                check |-> r.impl.check]
Bad == SelectSeq([k \in 1..Len(Rows) |->
                    Let(Rule(Rows[k].c.P, Rows[k].c.T), LAMBDA R :
                        [row |-> k, failed |-> SetToSeq(FailedR(Rows[k].c, R, ObsOfRow(Rows[k]))), drift |-> FALSE,
                         spec |-> [fv |-> R.fv, fp |-> R.fp]])],
                 LAMBDA r : r.failed # <<>>)
ASSUME JsonSerialize(IOEnv.VF_OUT, [n |-> Len(Rows), bad |-> Bad])
=============================================================================
