------------------------------ MODULE History ------------------------------
(* Branch-level history, shape only (properties C21, C22, C25).

   A history is a revision graph P of lib/Dag (P[r] = ordered parent list, P[r][1] the left-hand parent, revisions
   1..n in creation order, Null = 0 the null revision, a parent outside DOMAIN P a ghost) plus, per branch, a tip,
   the recorded revision number, a tag dictionary and the append_revisions_only flag.  This module holds

     * the tip-changing operations of a branch as operators from (graph, tip, operation) to an outcome
       (new tip, recorded revno, error), transcribed from GenericInterBranch._update_revisions / _basic_push,
       Branch._revision_relations, BzrBranch.set_last_revision_info + BzrBranch8._check_history_violation,
       Branch.generate_revision_history, BzrBranch.update, uncommit();
     * the laws of C21 stated on OBSERVED outcomes (so the same text judges the transcription and the real code);
     * the meaning of every revision-specifier form and the laws of C22 on observed revno maps / resolutions;
     * the log view operators (reverse_by_depth, _rebase_merge_depth transcribed) and the laws of C25 on observed
       log listings.

   Ghosts occur only as non-left-hand parents (a left-hand ghost has no revision number at all:
   GhostRevisionsHaveNoRevno); they matter to Heads / ancestry walks. *)
EXTENDS Dag, Integers

ERR == -1                      \* "resolution failed / exception" where a revision is expected
(* Ancestry by fixpoint iteration: same meaning as Dag!Ancestry / AncestryG / Heads / CommonAncestors / MergedBy (checked
   by HistoryC21Gen!FastAgreesWithDag), an order of magnitude cheaper for TLC to evaluate than the recursive function. *)
RECURSIVE CloseG(_, _)
CloseG(P, S) == LET N == S \cup UNION {ParentSet(P, x) : x \in S} IN IF N = S THEN S ELSE CloseG(P, N)
AncG(P, r) == IF r = Null THEN {} ELSE CloseG(P, {r})                 \* with the ghosts that are reached
Anc0(P, r) == AncG(P, r) \cap DOMAIN P                                \* {} for Null and for ghosts
HeadsF(P, S) == LET T == IF S = {Null} THEN S ELSE S \ {Null} IN {x \in T : \A y \in T \ {x} : x \notin AncG(P, y)}
CommonAnc(P, a, b) == Anc0(P, a) \cap Anc0(P, b)
MergedByF(P, m) == Anc0(P, m) \ ({m} \cup Anc0(P, LeftParent(P, m)))
LeftSet(P, r) == SeqRange(LeftHand(P, r))          \* LeftHand(P, Null) = <<>>
RevnoOf(P, r) == Len(LeftHand(P, r))               \* 0 for the null revision
IsAnc0(P, a, d) == a = Null \/ a \in Anc0(P, d)    \* graph.is_ancestor: null: is an ancestor of everything
SetMax(S) == CHOOSE x \in S : \A y \in S : y <= x
SetMin(S) == CHOOSE x \in S : \A y \in S : x <= y

(* ======================================================================== C21: tip-changing operations ==== *)
(* An operation o on a target branch with tip t (append-only flag o.ao), given a source / requested revision s:
     o.op    "pull" "push"      target.pull(source) / source.push(target); o.ow the overwrite argument in one of its
                                forms (0 False, 1 True, 2 {"history"}, 3 {"tags"}, 4 {"history", "tags"}), o.stop
                                stop_revision (Null = none), o.bound: the target is bound to a master with the same tip
             "update"           the target is bound to a master whose tip is s; target.update()
             "genhist"          target.generate_revision_history(s, last_rev = t if o.lr)
             "setlast"          target.set_last_revision_info(revno of s, s)
             "uncommit"         uncommit(target, revno = revno(s) + 1)     (s on t's left-hand history, or Null)
             "commit"           a new revision is committed on the target
   Outcome: [tip, revno, exc] as recorded by the branch afterwards (exc = "" when no error). *)
Out(tip, revno, exc) == [tip |-> tip, revno |-> revno, exc |-> exc]
Same(P, t, exc) == Out(t, RevnoOf(P, t), exc)

\* BzrBranch.set_last_revision_info with BzrBranch8._check_history_violation
SetLast(P, t, ao, r) ==
    IF ao /\ t # Null /\ t \notin LeftSet(P, r) THEN Same(P, t, "AppendRevisionsOnlyViolation")
    ELSE Out(r, RevnoOf(P, r), "")

\* Branch._revision_relations(a, b): via graph.heads
Relation(P, a, b) ==
    LET h == HeadsF(P, {a, b})
    IN IF h = {b} THEN "b_descends_from_a" ELSE IF h = {a, b} THEN "diverged" ELSE "a_descends_from_b"

\* branch._fix_overwrite_type + the callers' ("history" in overwrite): only these forms of the overwrite argument
\* overwrite HISTORY; {"tags"} (pull --overwrite-tags) must leave the divergence check in force
OwForms == 0..4
OwHistory(ow) == ow \in {1, 2, 4}
OwTags(ow) == ow \in {1, 3, 4}
\* GenericInterBranch._update_revisions(stop_revision, overwrite): fetch, classify, set the tip
UpdateRevisions(P, t, s, stop, ow, ao) ==
    IF stop = Null /\ s = Null THEN Same(P, t, "")                        \* source has no commits
    ELSE LET req == IF stop = Null THEN s ELSE stop
             rel == Relation(P, req, t)                                    \* _check_if_descendant_or_diverged(req, t)
         IN IF ~ow /\ rel = "b_descends_from_a" THEN Same(P, t, "")        \* target already has req
            ELSE IF ~ow /\ rel = "diverged" THEN Same(P, t, "DivergedBranches")
            ELSE SetLast(P, t, ao, req)

\* GenericInterBranch._basic_push: skips _update_revisions when the stop revision is the current tip
PushRevisions(P, t, s, stop, ow, ao) ==
    IF stop # Null /\ stop = t THEN Same(P, t, "") ELSE UpdateRevisions(P, t, s, stop, ow, ao)

NewRev(P) == Len(P) + 1
OpOut(P, t, s, o) ==
    CASE o.op = "pull"     -> UpdateRevisions(P, t, s, o.stop, OwHistory(o.ow), o.ao)
      [] o.op = "push"     -> PushRevisions(P, t, s, o.stop, OwHistory(o.ow), o.ao)
      [] o.op = "update"   -> IF s = Null THEN Same(P, t, "") ELSE SetLast(P, t, o.ao, s)    \* pull(master, overwrite)
      [] o.op = "genhist"  -> IF o.lr /\ ~IsAnc0(P, t, s) THEN Same(P, t, "DivergedBranches")
                              ELSE SetLast(P, t, o.ao, s)
      [] o.op = "setlast"  -> SetLast(P, t, o.ao, s)
      [] o.op = "uncommit" -> SetLast(P, t, o.ao, s)
      [] o.op = "commit"   -> Out(NewRev(P), RevnoOf(P, t) + 1, "")

\* what a harness observes: the outcome read from a freshly opened branch (tip, revno), from the live object
\* (ctip, crevno), for a bound target also the master's (mtip, mrevno; else -1), and the parents of a new tip (np)
SpecObs(P, t, s, o) ==
    LET r == OpOut(P, t, s, o)
    IN [tip |-> r.tip, revno |-> r.revno, exc |-> r.exc, ctip |-> r.tip, crevno |-> r.revno,
        mtip |-> IF o.bound THEN r.tip ELSE -1, mrevno |-> IF o.bound THEN r.revno ELSE -1,
        np |-> IF o.op = "commit" THEN (IF t = Null THEN <<>> ELSE <<t>>) ELSE <<>>]

\* the operations exercised for a pair of tips
Op(k, ow, ao, stop, lr, bound) == [op |-> k, ow |-> ow, ao |-> ao, stop |-> stop, lr |-> lr, bound |-> bound]
OpsOf(P, t, s) ==
    {Op(k, w, FALSE, Null, FALSE, FALSE) : k \in {"pull", "push"}, w \in OwForms}
    \cup {Op(k, w, TRUE, Null, FALSE, FALSE) : k \in {"pull", "push"}, w \in {0, 1, 3}}
    \cup {Op("pull", w, FALSE, x, FALSE, FALSE) : w \in {0, 1, 3}, x \in Anc0(P, s) \ {s}}
    \cup {Op("push", 0, a, x, FALSE, FALSE) : a \in BOOLEAN, x \in Anc0(P, s) \ {s}}
    \cup {Op("push", w, FALSE, x, FALSE, FALSE) : w \in {2, 3}, x \in Anc0(P, s) \ {s}}
    \cup {Op(k, w, FALSE, Null, FALSE, TRUE) : k \in {"pull", "push"}, w \in {0, 3}}
    \cup {Op("update", 0, a, Null, FALSE, FALSE) : a \in BOOLEAN}
    \cup (IF s = Null THEN {} ELSE {Op("genhist", 0, a, Null, FALSE, FALSE) : a \in BOOLEAN})
    \cup (IF s = Null \/ t = Null THEN {} ELSE {Op("genhist", 0, FALSE, Null, TRUE, FALSE)})
    \cup {Op("setlast", 0, a, Null, FALSE, FALSE) : a \in BOOLEAN}
    \cup (IF t # Null /\ s # t /\ s \in LeftSet(P, t) \cup {Null}
          THEN {Op("uncommit", 0, a, Null, FALSE, FALSE) : a \in BOOLEAN} ELSE {})
    \cup (IF s = t \/ t = Null THEN {Op("commit", 0, a, Null, FALSE, FALSE) : a \in BOOLEAN} ELSE {})

(* ---- the laws of C21 on an observed outcome r (record as SpecObs) of operation o on (P, t, s) *)
PAfter(P, r) == IF r.tip = NewRev(P) THEN Append(P, r.np) ELSE P      \* the graph including a newly committed tip
Requested(s, o) == IF o.stop = Null THEN s ELSE o.stop

\* "without overwrite, pull and push move the tip to the requested revision when it descends from the current
\*  tip, leave it when the target already contains it, and otherwise fail with a divergence error leaving it"
LawTip(P, t, s, o, r) ==
    (o.op \in {"pull", "push"} /\ ~OwHistory(o.ow)) =>
        LET q == Requested(s, o)
        IN IF q = Null \/ q \in Anc0(P, t) THEN r.tip = t /\ r.exc = ""               \* already contained
           ELSE IF IsAnc0(P, t, q)                                                    \* q descends from the tip
                THEN \/ r.tip = q /\ r.exc = ""
                     \/ o.ao /\ t # Null /\ t \notin LeftSet(P, q) /\ r.tip = t /\ r.exc # ""   \* append-only refusal
           ELSE r.tip = t /\ r.exc = "DivergedBranches"
\* "the recorded revision number always equals the length of the tip's left-hand history"
LawRevno(P, t, s, o, r) ==
    LET Q == PAfter(P, r)
    IN /\ r.revno = RevnoOf(Q, r.tip)
       /\ r.crevno = RevnoOf(Q, r.ctip)
       /\ (r.mtip # -1 => r.mrevno = RevnoOf(Q, r.mtip))
\* "with append-only history enabled, no operation moves the tip to a revision whose left-hand history lacks
\*  the previous tip"
LawAppendOnly(P, t, s, o, r) ==
    (o.ao /\ t # Null) => /\ (r.tip # t => t \in LeftSet(PAfter(P, r), r.tip))
                          /\ (r.ctip # t => t \in LeftSet(PAfter(P, r), r.ctip))
\* the live object and a freshly opened one agree on what is recorded
LawCoherent(P, t, s, o, r) == r.ctip = r.tip /\ r.crevno = r.revno

C21Laws == <<"tip", "revno", "appendonly", "coherent">>
C21Law(n, P, t, s, o, r) ==
    CASE n = "tip" -> LawTip(P, t, s, o, r) [] n = "revno" -> LawRevno(P, t, s, o, r)
      [] n = "appendonly" -> LawAppendOnly(P, t, s, o, r) [] n = "coherent" -> LawCoherent(P, t, s, o, r)
C21Failed(P, t, s, o, r) == {n \in SeqRange(C21Laws) : ~C21Law(n, P, t, s, o, r)}

(* ======================================================================== C22: revnos and revision specs ==== *)
(* A specifier is [k, a, b]:
     k = "num" a            the string "a"                      k = "neg" a     "-a"
     k = "last" a           "last:a"                            k = "revid" a   "revid:<id of a>"
     k = "dotted" a         the dotted revno the branch itself reports for revision a
     k = "nodotted"         a dotted revno that names nothing   k = "tag" a     "tag:<tag set on a>", "notag"
     k = "mainline" a       "mainline:revid:<a>"                k = "ancestor" a  "ancestor:<branch with tip a>"
     k = "before" a, b      "before:" + the specifier [k |-> b, a |-> a]
   Specifiers that carry ANOTHER branch (o = the tip of that branch, Null = a branch without commits; o = -1: none):
     k = "bnum" a, o        "revno:a:<branch with tip o>"       k = "bneg" a, o   "-a:<branch with tip o>"
     k = "mainline" a, b, o "mainline:" + [k |-> b, a, o]       k = "before" a, b, o  likewise (b = "bnum" or "bneg")
     k = "branch" a         "branch:<branch with tip a>"        k = "submit" a    "submit:", submit branch has tip a
   The inner specifier is resolved in the branch it names; mainline: / before: / ancestor: / submit: relate the
   result to the CONTEXT branch (its mainline, its repository, its tip).
   Meaning = the set of acceptable results (a revision, Null for null:, a ghost id, or ERR for "does not resolve").
   More than one acceptable result only where the definition is silent (see DESIGN C22). *)
SpecO(k, a, b, o) == [k |-> k, a |-> a, b |-> b, o |-> o]
Spec(k, a, b) == SpecO(k, a, b, -1)
Present(P, r) == r \in DOMAIN P

\* first (oldest) mainline revision that has r in its ancestry: graph.find_lefthand_merger
FirstMerger(P, tip, r) ==
    LET lh == LeftHand(P, tip)
        I == {i \in DOMAIN lh : r \in Anc0(P, lh[i])}
    IN IF I = {} THEN ERR ELSE lh[SetMin(I)]

\* graph.find_unique_lca: LCAs, then LCAs of those, ... until unique; Null when nothing is in common.  A ghost that
\* both sides reach is a common ancestor like any other (nothing is known about what lies behind it).
RECURSIVE UniqueLcaOf(_, _)
UniqueLcaOf(P, S) ==
    LET common == {x \in DOMAIN P \cup Ghosts(P) : \A y \in S : x \in AncG(P, y)}
        l == HeadsF(P, common)
    IN IF common = {} THEN Null ELSE IF Cardinality(l) = 1 THEN CHOOSE x \in l : TRUE ELSE UniqueLcaOf(P, l)

\* the revision a simple specifier denotes (ERR if none)
Base(P, tip, k, a) ==
    LET lh == LeftHand(P, tip)
    IN CASE k = "num"  -> IF a = 0 THEN Null ELSE IF a <= Len(lh) THEN lh[a] ELSE ERR
         [] k = "neg"  -> IF a >= Len(lh) THEN lh[1] ELSE lh[Len(lh) - a + 1]      \* documented: clamps to revno 1
         [] k = "last" -> IF a <= Len(lh) THEN lh[Len(lh) - a + 1] ELSE IF a = Len(lh) + 1 THEN Null ELSE ERR
         [] k \in {"revid", "dotted", "tag"} -> a
         [] OTHER -> ERR

\* the revision a number denotes in the OTHER branch (tip o) it is qualified with
BaseO(P, k, a, o) ==
    IF o = Null THEN (IF k = "bnum" /\ a = 0 THEN Null ELSE ERR)
    ELSE Base(P, o, IF k = "bnum" THEN "num" ELSE "neg", a)
Inner(P, tip, sp) == IF sp.b \in {"bnum", "bneg"} THEN BaseO(P, sp.b, sp.a, sp.o) ELSE Base(P, tip, sp.b, sp.a)
CommonMeaning(P, tip, other) ==
    LET ca == AncG(P, tip) \cap AncG(P, other)                 \* common ancestors, ghosts included
        l == HeadsF(P, ca)
        u == UniqueLcaOf(P, {tip, other})
    IN IF other = Null \/ ca = {} THEN {ERR}
       ELSE IF Cardinality(l) = 1 THEN (IF l \subseteq DOMAIN P THEN l ELSE l \cup {ERR})    \* a ghost cannot be "in history"
       ELSE ca \cup (IF u = Null \/ u \notin DOMAIN P THEN {ERR} ELSE {})

Meaning(P, tip, sp) ==
    CASE sp.k \in {"num", "neg"} -> {Base(P, tip, sp.k, sp.a)}
      [] sp.k \in {"bnum", "bneg"} -> {BaseO(P, sp.k, sp.a, sp.o)}
      [] sp.k = "branch" -> IF sp.a = Null THEN {ERR} ELSE {sp.a}
      [] sp.k \in {"ancestor", "submit"} -> CommonMeaning(P, tip, sp.a)
      [] sp.k = "mainline" /\ sp.b # "" ->
            LET r == Inner(P, tip, sp) IN IF r = ERR \/ r = Null THEN {ERR} ELSE {FirstMerger(P, tip, r)}
      [] sp.k = "last" -> IF sp.a = RevnoOf(P, tip) + 1 THEN {Null, ERR} ELSE {Base(P, tip, sp.k, sp.a)}
      [] sp.k = "revid" -> IF Present(P, sp.a) THEN {sp.a} ELSE {sp.a, ERR}          \* ghost / unknown id
      [] sp.k = "dotted" -> {sp.a}
      [] sp.k \in {"nodotted", "notag"} -> {ERR}
      [] sp.k = "tag" -> {sp.a}
      [] sp.k = "mainline" /\ sp.b = "" -> IF Present(P, sp.a) THEN {FirstMerger(P, tip, sp.a)}
                              ELSE {ERR} \cup {FirstMerger(P, tip, x) : x \in {y \in Anc0(P, tip) : sp.a \in ParentSet(P, y)}}
      [] sp.k = "before" ->
            LET b == Inner(P, tip, sp)
            IN IF b = ERR \/ b = Null \/ ~Present(P, b) THEN {ERR}
               ELSE IF P[b] = <<>> THEN {Null, ERR}                    \* the two resolution paths differ here
               ELSE IF ~Present(P, P[b][1]) THEN {P[b][1], ERR}
               ELSE {P[b][1]}

\* other branches worth naming inside a specifier: those whose tip is not on the context mainline (merged, diverged,
\* descendant) and the branch without commits
\* (of several, the oldest and the newest: every resolution opens the named branch)
BranchOthers(P, tip, others) ==
    LET C == {s \in others : s # Null /\ s \notin LeftSet(P, tip)}
    IN (others \cap {Null}) \cup (IF C = {} THEN {} ELSE {SetMin(C), SetMax(C)})
OtherSpecs(P, s) ==
    LET m == RevnoOf(P, s)
    IN {SpecO("bnum", a, "", s) : a \in 0..(m + 1)} \cup {SpecO("bneg", a, "", s) : a \in {1, m + 1}}
       \cup {SpecO(k, a, "bnum", s) : k \in {"mainline", "before"}, a \in 1..m}
       \cup {SpecO(k, 1, "bneg", s) : k \in {"mainline", "before"}}
SpecsOf(P, tip, others) ==
    LET n == RevnoOf(P, tip)
        A == Anc0(P, tip)
        All == DOMAIN P \cup Ghosts(P)
    IN {Spec("num", a, "") : a \in 0..(n + 1)} \cup {Spec("neg", a, "") : a \in 1..(n + 2)}
       \cup {Spec("last", a, "") : a \in 1..(n + 2)} \cup {Spec("revid", a, "") : a \in All}
       \cup {Spec("dotted", a, "") : a \in A} \cup {Spec("nodotted", 0, ""), Spec("notag", 0, "")}
       \cup {Spec("tag", a, "") : a \in DOMAIN P} \cup {Spec("mainline", a, "") : a \in All}
       \cup {Spec("ancestor", a, "") : a \in others}
       \cup {Spec("before", a, "num") : a \in 1..(n + 1)} \cup {Spec("before", a, "revid") : a \in DOMAIN P}
       \cup {Spec("before", a, "dotted") : a \in A} \cup {Spec("before", a, "tag") : a \in DOMAIN P}
       \cup {Spec("branch", s, "") : s \in BranchOthers(P, tip, others)}
       \cup {Spec("submit", s, "") : s \in BranchOthers(P, tip, others)}
       \cup UNION {OtherSpecs(P, s) : s \in BranchOthers(P, tip, others)}

(* ---- the laws of C22 on an observation ob of the branch (P, tip):
     ob.getrev   <<get_rev_id(0), ..., get_rev_id(revno + 1)>>                 (ERR = exception)
     ob.map      the dotted revno map as a sequence of [r, d] (d a sequence of numbers)
     ob.back     sequence of [r, d, back, revno]: d = revision_id_to_dotted_revno(r) and
                 back = dotted_revno_to_revision_id(d) asked of fresh branch objects (cold caches, random order),
                 revno = revision_id_to_revno(r) (ERR when not on the mainline)
     ob.res      sequence of [sp, ih, ar]: spec.in_history(branch).rev_id and spec.as_revision_id(branch) *)
DottedOf(m, r) == LET I == {i \in DOMAIN m : m[i].r = r} IN IF I = {} THEN <<>> ELSE m[CHOOSE i \in I : TRUE].d
LawGetRev(P, tip, ob) ==
    LET lh == LeftHand(P, tip)
    IN /\ Len(ob.getrev) = Len(lh) + 2
       /\ ob.getrev[1] = Null
       /\ \A i \in DOMAIN lh : ob.getrev[i + 1] = lh[i]
       /\ ob.getrev[Len(lh) + 2] = ERR
LawMapDomain(P, tip, ob) ==
    /\ {ob.map[i].r : i \in DOMAIN ob.map} = Anc0(P, tip)
    /\ Len(ob.map) = Cardinality(Anc0(P, tip))
LawMapInjective(P, tip, ob) == \A i, j \in DOMAIN ob.map : i # j => ob.map[i].d # ob.map[j].d
LawMapMainline(P, tip, ob) ==
    LET lh == LeftHand(P, tip)
    IN /\ \A i \in DOMAIN lh : DottedOf(ob.map, lh[i]) = <<i>>
       /\ \A i \in DOMAIN ob.map : Len(ob.map[i].d) = 1 => ob.map[i].r \in SeqRange(lh)
\* structure implied by the numbering scheme x.y.z = "z-th revision of the y-th branch off mainline revision x"
LawMapStructure(P, tip, ob) ==
    \A i \in DOMAIN ob.map :
        LET r == ob.map[i].r
            d == ob.map[i].d
        IN (r \in Anc0(P, tip) /\ r \notin LeftSet(P, tip)) =>
              /\ Len(d) = 3
              /\ IF d[3] > 1 THEN P[r] # <<>> /\ DottedOf(ob.map, P[r][1]) = <<d[1], d[2], d[3] - 1>>
                 ELSE /\ d[3] = 1 /\ d[2] >= 1
                      /\ IF P[r] = <<>> \/ ~Present(P, P[r][1]) THEN d[1] = 0
                         ELSE LET pd == DottedOf(ob.map, P[r][1]) IN pd # <<>> /\ d[1] = pd[1]
LawRoundTrip(P, tip, ob) ==
    /\ {ob.back[i].r : i \in DOMAIN ob.back} = Anc0(P, tip)
    /\ \A i \in DOMAIN ob.back :
          /\ ob.back[i].back = ob.back[i].r
          /\ ob.back[i].d = DottedOf(ob.map, ob.back[i].r)
          /\ ob.back[i].revno = (IF ob.back[i].r \in LeftSet(P, tip) THEN RevnoOf(P, ob.back[i].r) ELSE ERR)
BadSpecs(P, tip, ob) ==
    {i \in DOMAIN ob.res : ob.res[i].ih \notin Meaning(P, tip, ob.res[i].sp)
                           \/ ob.res[i].ar \notin Meaning(P, tip, ob.res[i].sp)}
LawSpecs(P, tip, ob) == BadSpecs(P, tip, ob) = {}

C22Laws == <<"getrev", "mapdomain", "mapinjective", "mapmainline", "mapstructure", "roundtrip", "specs">>
C22Law(n, P, tip, ob) ==
    CASE n = "getrev" -> LawGetRev(P, tip, ob) [] n = "mapdomain" -> LawMapDomain(P, tip, ob)
      [] n = "mapinjective" -> LawMapInjective(P, tip, ob) [] n = "mapmainline" -> LawMapMainline(P, tip, ob)
      [] n = "mapstructure" -> LawMapStructure(P, tip, ob) [] n = "roundtrip" -> LawRoundTrip(P, tip, ob)
      [] n = "specs" -> LawSpecs(P, tip, ob)
C22Failed(P, tip, ob) == {n \in SeqRange(C22Laws) : ~C22Law(n, P, tip, ob)}

(* ======================================================================== C25: log views ==== *)
(* A log row is [r, n, d]: revision, dotted revno (sequence of numbers), merge depth. *)
Row(r, n, d) == [r |-> r, n |-> n, d |-> d]
RevSeq(s) == [i \in 1..Len(s) |-> s[Len(s) - i + 1]]
RECURSIVE CatDesc(_, _)
CatDesc(f, S) == IF S = {} THEN <<>> ELSE LET m == SetMax(S) IN f[m] \o CatDesc(f, S \ {m})

\* log.reverse_by_depth: a fake row of the current depth is put in front; every row of the current depth opens a
\* chunk collecting the deeper rows that follow it; chunks are reversed, their tails recursively; fakes dropped.
RECURSIVE RevByDepthAt(_, _)
RevByDepthAt(rows, depth) ==
    LET w == <<Row(-1, <<>>, depth)>> \o rows
        starts == {i \in DOMAIN w : w[i].d = depth}
        EndOf(i) == LET later == {j \in starts : j > i} IN IF later = {} THEN Len(w) ELSE SetMin(later) - 1
        chunk == [i \in starts |->
                    <<w[i]>> \o (IF EndOf(i) > i THEN RevByDepthAt(SubSeq(w, i + 1, EndOf(i)), depth + 1) ELSE <<>>)]
    IN CatDesc(chunk, starts)
ReverseByDepth(rows) == SelectSeq(RevByDepthAt(rows, 0), LAMBDA x : x.r # -1)

\* log._rebase_merge_depth
RebaseDepth(rows) ==
    IF rows # <<>> /\ rows[1].d # 0 /\ rows[Len(rows)].d # 0
    THEN LET m == SetMin({rows[i].d : i \in DOMAIN rows})
         IN IF m # 0 THEN [i \in DOMAIN rows |-> Row(rows[i].r, rows[i].n, rows[i].d - m)] ELSE rows
    ELSE rows
Forward(rows) == RebaseDepth(ReverseByDepth(rows))

RowRevs(rows) == {rows[i].r : i \in DOMAIN rows}
EachOnce(rows) == \A i, j \in DOMAIN rows : i # j => rows[i].r # rows[j].r
Prefix(rows, k) == IF k = 0 \/ k >= Len(rows) THEN rows ELSE SubSeq(rows, 1, k)
Shallow(rows, levels) == IF levels = 0 THEN rows ELSE SelectSeq(rows, LAMBDA x : x.d < levels)
MainlineRows(P, tip, a, b) == [i \in 1..(b - a + 1) |-> Row(LeftHand(P, tip)[b - i + 1], <<b - i + 1>>, 0)]   \* newest first
\* what the mainline range a..b denotes with merged revisions: those revisions and everything they merged
RangeRevs(P, tip, a, b) ==
    LET lh == LeftHand(P, tip) IN Anc0(P, lh[b]) \ (IF a = 1 THEN {} ELSE Anc0(P, lh[a - 1]))

(* A request q = [dir ("reverse" | "forward"), levels, limit (0 = none), a, b (mainline revno range, 0 0 = none),
   file (0 = none, else index into the case's files), deltas (match files using deltas)].
   An observation ob of the branch (P, tip):
     ob.ms    branch.iter_merge_sorted_revisions() as rows
     ob.logs  sequence of [q, rows] *)
Req(dir, levels, limit, a, b, file, deltas) ==
    [dir |-> dir, levels |-> levels, limit |-> limit, a |-> a, b |-> b, file |-> file, deltas |-> deltas]
LogOf(ob, q) == LET I == {i \in DOMAIN ob.logs : ob.logs[i].q = q} IN IF I = {} THEN <<>> ELSE ob.logs[CHOOSE i \in I : TRUE].rows
HasLog(ob, q) == \E i \in DOMAIN ob.logs : ob.logs[i].q = q
FullRev(ob) == LogOf(ob, Req("reverse", 0, 0, 0, 0, 0, TRUE))
Plain(q) == q.file = 0
\* the same request without limit / with all levels / in reverse
NoLimit(q) == [q EXCEPT !.limit = 0]
AllLevels(q) == [q EXCEPT !.levels = 0]
Reversed(q) == [q EXCEPT !.dir = "reverse"]

\* every revision of the ancestry exactly once, with the dotted revno and depth of the branch's merge-sorted data
LawComplete(P, tip, ob) ==
    LET full == FullRev(ob)
    IN /\ RowRevs(full) = Anc0(P, tip) /\ EachOnce(full)
       /\ RowRevs(ob.ms) = Anc0(P, tip) /\ EachOnce(ob.ms)
       /\ \A i \in DOMAIN full : \E j \in DOMAIN ob.ms : ob.ms[j] = full[i]
       /\ \A i \in DOMAIN full : (full[i].d = 0) = (full[i].r \in LeftSet(P, tip))
       /\ \A i \in DOMAIN full : full[i].d = 0 => full[i].n = <<RevnoOf(P, full[i].r)>>
\* every listed row of every plain request carries the revision's revno and depth
LawRowData(P, tip, ob) ==
    \A k \in DOMAIN ob.logs : Plain(ob.logs[k].q) =>
        \A i \in DOMAIN ob.logs[k].rows : \E j \in DOMAIN ob.ms : ob.ms[j] = ob.logs[k].rows[i]
\* forward = reverse-by-depth of reverse (same request otherwise; all levels, no limit)
LawForward(P, tip, ob) ==
    \A k \in DOMAIN ob.logs :
        LET q == ob.logs[k].q
        IN (Plain(q) /\ q.dir = "forward" /\ q.levels = 0 /\ q.limit = 0 /\ HasLog(ob, Reversed(q)))
              => ob.logs[k].rows = Forward(LogOf(ob, Reversed(q)))
\* one level = the left-hand history (of the range)
LawMainline(P, tip, ob) ==
    \A k \in DOMAIN ob.logs :
        LET q == ob.logs[k].q
            a == IF q.a = 0 THEN 1 ELSE q.a
            b == IF q.b = 0 THEN RevnoOf(P, tip) ELSE q.b
            want == MainlineRows(P, tip, a, b)
        IN (Plain(q) /\ q.levels = 1 /\ q.limit = 0)
              => ob.logs[k].rows = (IF q.dir = "reverse" THEN want ELSE RevSeq(want))
\* a range lists exactly the revisions it denotes, each once
LawRange(P, tip, ob) ==
    \A k \in DOMAIN ob.logs :
        LET q == ob.logs[k].q
        IN (Plain(q) /\ q.levels = 0 /\ q.limit = 0 /\ q.a # 0)
              => RowRevs(ob.logs[k].rows) = RangeRevs(P, tip, q.a, q.b) /\ EachOnce(ob.logs[k].rows)
\* levels = k lists the rows of depth < k of the full listing; limit = l lists its first l rows
LawLevelsLimit(P, tip, ob) ==
    \A k \in DOMAIN ob.logs :
        LET q == ob.logs[k].q
        IN /\ (Plain(q) /\ q.levels > 1 /\ q.limit = 0 /\ HasLog(ob, AllLevels(q)))
                 => ob.logs[k].rows = Shallow(LogOf(ob, AllLevels(q)), q.levels)
           /\ (Plain(q) /\ q.limit # 0 /\ HasLog(ob, NoLimit(q)))
                 => ob.logs[k].rows = Prefix(LogOf(ob, NoLimit(q)), q.limit)
\* a file's mainline revisions are the same whether matched by the per-file graph or by deltas
MainOnly(rows) == SelectSeq(rows, LAMBDA x : x.d = 0)
BadFile(P, tip, ob) ==
    {k \in DOMAIN ob.logs :
        LET q == ob.logs[k].q
            other == [q EXCEPT !.deltas = ~q.deltas]
        IN q.file # 0 /\ HasLog(ob, other) /\ MainOnly(ob.logs[k].rows) # MainOnly(LogOf(ob, other))}
LawFile(P, tip, ob) == BadFile(P, tip, ob) = {}

C25Laws == <<"complete", "rowdata", "forward", "mainline", "range", "levelslimit", "file">>
C25Law(n, P, tip, ob) ==
    CASE n = "complete" -> LawComplete(P, tip, ob) [] n = "rowdata" -> LawRowData(P, tip, ob)
      [] n = "forward" -> LawForward(P, tip, ob) [] n = "mainline" -> LawMainline(P, tip, ob)
      [] n = "range" -> LawRange(P, tip, ob) [] n = "levelslimit" -> LawLevelsLimit(P, tip, ob)
      [] n = "file" -> LawFile(P, tip, ob)
C25Failed(P, tip, ob) == {n \in SeqRange(C25Laws) : ~C25Law(n, P, tip, ob)}

(* ---- file content model for the per-file clause.  A file is touched (given fresh, unique content) by the
   revisions in T; every other revision takes the content of the per-file head among its parents' versions and is
   FORCED to touch when there are several (a real merge would need a resolution).  ver[r] = the revision whose
   content the file has in r (Null = not present).  TouchClosure adds the forced revisions. *)
RECURSIVE VerUpTo(_, _, _)
VerUpTo(P, T, n) ==        \* <<ver[1..n], forced subset of 1..n>>
    IF n = 0 THEN <<<<>>, {}>>
    ELSE LET prev == VerUpTo(P, T, n - 1)
             v == prev[1]
             pv == {v[p] : p \in ParentSet(P, n) \cap (1..(n - 1))} \ {Null}
             h == HeadsF(P, pv)
         IN IF n \in T THEN <<Append(v, n), prev[2]>>
            ELSE IF pv = {} THEN <<Append(v, Null), prev[2]>>
            ELSE IF Cardinality(h) = 1 THEN <<Append(v, CHOOSE x \in h : TRUE), prev[2]>>
            ELSE <<Append(v, n), prev[2] \cup {n}>>
VerOf(P, T) == VerUpTo(P, T, Len(P))[1]
TouchClosure(P, T) == T \cup VerUpTo(P, T, Len(P))[2]
\* the file is introduced once (a file id is minted by one `add`): at most one touching revision has no parent with it
SingleOrigin(P, T) ==
    LET v == VerOf(P, T)
    IN Cardinality({r \in TouchClosure(P, T) : \A p \in ParentSet(P, r) \cap DOMAIN P : v[p] = Null}) <= 1
\* mainline revisions (newest first) whose tree differs from their left parent's in this file
FileMainline(P, tip, ver) ==
    LET lh == LeftHand(P, tip)
        Prev(i) == IF i = 1 THEN Null ELSE ver[lh[i - 1]]
    IN SelectSeq(RevSeq(lh), LAMBDA m : LET i == CHOOSE j \in DOMAIN lh : lh[j] = m IN ver[m] # Prev(i))
=============================================================================
