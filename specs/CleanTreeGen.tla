--------------------------- MODULE CleanTreeGen ---------------------------
(* E1 + E2 for C46: TLC enumerates every valid layout x tree flavour x nested-branch format x option combination,
   checks that the expected deletions satisfy the laws (design check), and exports the case table.
   Always = elements present in every layout (quick tier: {"v", "i.o"}; thorough: {}). *)
EXTENDS CleanTree, Json, IOUtils, SequencesExt
CONSTANTS Always
Layouts == {L \in SUBSET Elements : ValidLayout(L) /\ Always \subseteq L}
Plain   == {L \in Layouts : "nested" \notin L /\ "nb" \notin L}
Opts    == [unknown : BOOLEAN, ignored : BOOLEAN, detritus : BOOLEAN, dry : BOOLEAN]
Case(L, fl, nk, o) == [lay |-> SetToSeq(L), fl |-> fl, nk |-> nk, unknown |-> o.unknown, ignored |-> o.ignored,
                       detritus |-> o.detritus, dry |-> o.dry]
\* the nested-branch format only matters when the layout has a nested branch
CaseSet == {Case(L, fl, "bzr", o) : L \in Plain, fl \in {"bzr", "git"}, o \in Opts}
           \cup {Case(L, fl, nk, o) : L \in Layouts \ Plain, fl \in {"bzr", "git"}, nk \in {"bzr", "git"}, o \in Opts}
VARIABLE c
Init == c \in CaseSet
Next == UNCHANGED c
LawsHoldOnSpec == /\ Failed(c, SpecGone(c)) = {}
                  /\ SpecGone(c) \subseteq Present(Range(c.lay))
                  \* nothing the options ask for is kept back except for the documented reasons
                  /\ Deletable(c) \ SpecGone(c) \subseteq {"ud", "ud/f", "link"}
\* anti-vacuity witnesses: TLC must find these states
WitnessNestedAtRisk == ~("nested" \in Range(c.lay) /\ c.unknown /\ ~c.dry /\ "ud/f" \in Deletable(c)
                         /\ "ud" \notin Deletable(c))
\* ignored-only run: the detritus name that is ignored goes, the detritus name that is merely unknown stays
WitnessTwoCategories == ~("x~" \in SpecGone(c) /\ ~c.detritus /\ "x.THIS" \in Range(c.lay) /\ "x.THIS" \notin SpecGone(c))
WitnessDryRun == ~(c.dry /\ c.unknown /\ "u" \in Range(c.lay) /\ SpecGone(c) = {})
WitnessFlavoursDiffer == ~(c.fl = "git" /\ "link" \in Deletable(c) /\ "link" \notin SpecGone(c))
Export == JsonSerialize(IOEnv.VF_OUT, SetToSeq({[c |-> x, spec |-> SetToSeq(SpecGone(x))] : x \in CaseSet}))
ASSUME IF "VF_OUT" \in DOMAIN IOEnv THEN Export ELSE TRUE
=============================================================================
