--------------------------- MODULE GitShaMapTrace ---------------------------
(* Trace validation (code -> spec) for C38.  A batch of executions, each recorded from ONE real cache backend, is read
   from JSON.  An execution is a sequence of events
       [k |-> "start" | "commit" | "abort" | "reopen" | "repack"]
       [k |-> "rev", c |-> [rev, sha, tree, ver], objs |-> <<[t, sha, fid, rev], ...>>]     one CacheUpdater
       [k |-> "q", q |-> look-up name, a |-> <<args>>, r |-> [k, s, l]]                      a look-up and its answer
       [k |-> "raised", call |-> "start" | "rev" | "commit" | "abort" | "reopen", exc |-> name]   an update call raised
                                                             (last event of the trace: the rest of the sequence is skipped)
   (all ids are small tokens; the harness interns the real bytes).  Update events drive the abstract state of
   GitShaMap; a look-up event is right iff  r = Lookup(state, a)  - decided here, not in python.  A wrong answer
   does not stop the trace: it prints one BAD line <<"BAD", tid, l, q, class, detail>> where class/detail say HOW the
   answer is wrong (raised / returned some of the entries that share a sha / ignored the open write group / other),
   which the harness turns into the violation signature.  A fully consumed trace prints one ACCEPT line. *)
EXTENDS GitShaMap, Json, IOUtils, TLCExt
Traces == JsonDeserialize(IOEnv.VF_IN)
VARIABLES tid, l
tvars == <<vars, tid, l>>
Evs == Traces[tid].events
SeqSet(s) == {s[i] : i \in DOMAIN s}

\* how a wrong answer r to look-up (q, a) is wrong
Kinds(S) == {x[1] : x \in S}
Class(q, a, r) ==
    LET x == Answer(q, a)
        y == AnswerWithLimbo(q, a) IN
    IF r.k = "exc"
    THEN IF r.s = "KeyError" /\ x.k = "one" /\ q \in {"blob_id", "tree_id"}
            /\ Cardinality({o \in VisO \cup lobjs : o.sha = x.s /\ o.t = (IF q = "blob_id" THEN "blob" ELSE "tree")}) > 1
         THEN <<"raises-on-shared-sha", r.s>> ELSE <<"raises", r.s>>
    ELSE IF q = "git_sha" /\ r.k = "set" /\ y.k = "set" /\ SeqSet(r.l) # {} /\ SeqSet(r.l) \subseteq y.e
         THEN <<"keeps-some-of-shared-sha", IF Kinds(y.e) = {"blob"} THEN "blob" ELSE IF Kinds(y.e) = {"tree"} THEN "tree"
                                            ELSE IF Kinds(y.e) = {"commit"} THEN "commit" ELSE "mixed">>
    ELSE IF q = "missing" /\ r.k = "set" /\ wg /\ SeqSet(r.l) = Lookup(commits, objs, q, a).e
         THEN <<"ignores-open-write-group", "-">>
    ELSE IF x.k = "exc" THEN <<"answers-unknown-key", r.k>>
    ELSE <<"other", r.k>>

\* would the abstract map accept this update call in the state reached?  (a backend that raises there is wrong)
Accepts(call) == CASE call = "start" -> ~wg
                   [] call \in {"rev", "commit", "abort"} -> wg
                   [] OTHER -> ~wg

TraceInit == Init /\ tid \in 1..Len(Traces) /\ l = 1
Consume ==
    /\ l <= Len(Evs)
    /\ LET e == Evs[l] IN
       CASE e.k = "start"  -> StartWG
         [] e.k = "rev"    -> AddRevision(e.c, SeqSet(e.objs))
         [] e.k = "commit" -> CommitWG
         [] e.k = "abort"  -> AbortWG
         [] e.k = "reopen" -> Reopen
         [] e.k = "repack" -> Repack
         [] e.k = "raised" -> /\ UNCHANGED vars
                              /\ IF Accepts(e.call) THEN PrintT(<<"BAD", tid, l, e.call, "raises", e.exc>>) ELSE TRUE
         [] e.k = "q"      -> /\ UNCHANGED vars
                              /\ IF Right(e.q, e.a, e.r) THEN TRUE
                                 ELSE PrintT(<<"BAD", tid, l, e.q, Class(e.q, e.a, e.r)[1], Class(e.q, e.a, e.r)[2]>>)
    /\ l' = l + 1 /\ tid' = tid
Finish ==
    /\ l = Len(Evs) + 1
    /\ PrintT(<<"ACCEPT", tid>>)
    /\ l' = l + 1 /\ UNCHANGED <<vars, tid>>
TraceNext == Consume \/ Finish
TraceSpec == TraceInit /\ [][TraceNext]_tvars
=============================================================================
