----------------------------- MODULE RebaseGen -----------------------------
(* E1 + E2 for C51: TLC enumerates every revision graph with MinRev..MaxRev revisions and at most MaxParents
   parents per revision (optionally single-root only), every (stop, onto) pair such that every revision matters
   (is an ancestor of stop or onto) and stop has revisions of its own (optionally only stop = newest revision),
   and both skip_full_merged settings; checks the C51 laws on the transcribed planner (rebase_todo with no
   replacement and with the first half of the plan's replacements present) and exports the case table. *)
EXTENDS Rebase, Json, IOUtils, SequencesExt
CONSTANTS MaxRev, MaxParents,    \* graphs with MinRev..MaxRev revisions, at most MaxParents ordered parents each
          MinRev,
          SingleRoot,             \* TRUE: only graphs whose single parentless revision is 1
          StopNewest              \* TRUE: only cases whose stop revision (branch tip) is the newest revision
\* every revision matters => the newest revision is stop or onto, so only those pairs are enumerated
Pairs(n) == {<<n, t>> : t \in 1..(n - 1)} \cup (IF StopNewest THEN {} ELSE {<<s, n>> : s \in 1..(n - 1)})
Valid(x) == /\ Ancestry(x.P, x.stop) \cup Ancestry(x.P, x.onto) = DOMAIN x.P
            /\ TodoSet(x) # {}
Graphs == {P \in UNION {Dags(n, MaxParents) : n \in MinRev..MaxRev} : SingleRoot => Roots(P) = {1}}
ValidCases == UNION {{x \in {[P |-> P, stop |-> st[1], onto |-> st[2], skip |-> k] : st \in Pairs(Len(P)), k \in BOOLEAN} :
                        Valid(x)} : P \in Graphs}
VARIABLE c
Init == c \in ValidCases
Next == UNCHANGED c
\* replacements already present when rebase_todo is asked: nothing, and the first half of the plan
DonePrefixes(plan) == {{plan[j].new : j \in 1..k} : k \in {0, (Len(plan) + 1) \div 2}}
LawsHoldOnSpec ==
    IF Unrelated(c) THEN TRUE
    ELSE LET plan == SpecPlan(c) IN
         \A pr \in DonePrefixes(plan) : LET o == SpecOutOf(plan, pr) IN o.status = "ok" /\ Failed(c, o) = {}
\* anti-vacuity: invariants TLC must violate (the harness additionally requires unrelated cases, merge entries and
\* rewritten root revisions among the exported expected plans)
HasSkipped(x)   == x.skip /\ ~Unrelated(x) /\ Keys(SpecPlan(x)) # TodoSet(x)
HasUntouched(x) == ~Unrelated(x) /\ \E e \in Entries(SpecPlan(x)) : \E p \in SeqRange(e.parents) : p # x.onto /\ p < NewBase
WitnessSkipped == ~HasSkipped(c)
WitnessUntouched == ~HasUntouched(c)
\* exported expected result: "unrelated" or the specified plan
Expected(x) == IF Unrelated(x) THEN [status |-> "unrelated"] ELSE [status |-> "ok", plan |-> SpecPlan(x)]
Export == JsonSerialize(IOEnv.VF_OUT, SetToSeq({[c |-> x, spec |-> Expected(x)] : x \in ValidCases}))
ASSUME IF "VF_OUT" \in DOMAIN IOEnv THEN Export ELSE TRUE
=============================================================================
