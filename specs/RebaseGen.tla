----------------------------- MODULE RebaseGen -----------------------------
(* E1 + E2 for C51: TLC enumerates every revision graph with up to MaxRev revisions and MaxParents parents per
   revision, every (stop, onto) pair such that every revision matters (is an ancestor of stop or onto) and stop
   has revisions of its own, and both skip_full_merged settings; checks the C51 laws on the transcribed planner
   (for every set of already-present replacements a prefix of the plan) and exports the case table. *)
EXTENDS Rebase, Json, IOUtils, SequencesExt
CONSTANTS MaxRev, MaxParents
\* every revision matters => the newest revision is stop or onto, so only those pairs are enumerated
Pairs(n) == {<<n, t>> : t \in 1..(n - 1)} \cup {<<s, n>> : s \in 1..(n - 1)}
Valid(x) == /\ Ancestry(x.P, x.stop) \cup Ancestry(x.P, x.onto) = DOMAIN x.P
            /\ TodoSet(x) # {}
ValidCases == UNION {{x \in {[P |-> P, stop |-> st[1], onto |-> st[2], skip |-> k] : st \in Pairs(Len(P)), k \in BOOLEAN} :
                        Valid(x)} : P \in DagsUpTo(MaxRev, MaxParents)}
VARIABLE c
Init == c \in ValidCases
Next == UNCHANGED c
\* replacements already present when rebase_todo is asked: nothing, and the first half of the plan
DonePrefixes(plan) == {{plan[j].new : j \in 1..k} : k \in {0, (Len(plan) + 1) \div 2}}
LawsHoldOnSpec ==
    IF Unrelated(c) THEN TRUE
    ELSE \A pr \in DonePrefixes(SpecPlan(c)) : LET o == SpecOut(c, pr) IN Failed(c, o) = {} /\ Conforms(c, o)
\* anti-vacuity: the interesting plan shapes exist in the table.  WitnessSkipped is an invariant TLC must violate;
\* the others are assumptions evaluated in the generating run itself (a false assumption fails the run).
HasSkipped(x)   == x.skip /\ ~Unrelated(x) /\ Keys(SpecPlan(x)) # TodoSet(x)
HasMergeKept(x) == ~Unrelated(x) /\ \E e \in Entries(SpecPlan(x)) : Len(e.parents) > 1
HasUntouched(x) == ~Unrelated(x) /\ \E e \in Entries(SpecPlan(x)) : \E p \in SeqRange(e.parents) : p # x.onto /\ p < NewBase
HasRootInTodo(x) == ~Unrelated(x) /\ \E r \in TodoSet(x) : x.P[r] = <<>>
WitnessSkipped == ~HasSkipped(c)
ASSUME \E x \in ValidCases : HasMergeKept(x)
ASSUME \E x \in ValidCases : HasUntouched(x)
ASSUME \E x \in ValidCases : Unrelated(x)
ASSUME \E x \in ValidCases : HasRootInTodo(x)
\* exported expected result: "unrelated" or the specified plan
Expected(x) == IF Unrelated(x) THEN [status |-> "unrelated"] ELSE [status |-> "ok", plan |-> SpecPlan(x)]
Export == JsonSerialize(IOEnv.VF_OUT, SetToSeq({[c |-> x, spec |-> Expected(x)] : x \in ValidCases}))
ASSUME IF "VF_OUT" \in DOMAIN IOEnv THEN Export ELSE TRUE
=============================================================================
