--------------------------- MODULE HistoryChannel ---------------------------
(* Histories as carried by lossy channels (C35: native -> git -> native, git -> native -> git objects;
   C44: fast-export -> fast-import).

   A channel is specified as the IDENTITY ON AN ABSTRACT PROJECTION of the history.  This module defines
   abstract trees, abstract histories, the projection, and the properties' laws as operators on an OBSERVED
   result, so that the same text judges the ideal channel (design check, HistoryChannelGen) and the real code
   (HistoryChannelTrace).

   Abstract tree: a set of entries [p, k, c, x, o]
       p  path, a non-empty sequence of names              k  "file" | "symlink" | "directory"
       c  content index (file text / link target; 0 for a directory)
       x  executable bit (files only)                       o  object identity (the file id; survives renames)
   Abstract history: [P, T, M, tags, tip]
       P  revision graph as in Dag (P[r] = ordered parents of r, P[r][1] = left-hand parent, parents < r)
       T  T[r] = tree of r        M  M[r] = [msg, who, ts, tz] (indices into the harness' value tables)
       tags  set of [name, rev]   tip  the branch tip
   Revision NUMBERS are names local to one repository: a channel does not preserve revision ids, so everything
   below relates two histories through Unfold, which replaces every revision by its label and the unfolding of
   its parents (by position) -- the result does not mention revision numbers at all. *)
EXTENDS Dag, Naturals, Sequences, FiniteSets

(* ------------------------------------------------------------------ trees *)
PathPrefix(p, q) == Len(p) < Len(q) /\ SubSeq(q, 1, Len(p)) = p          \* proper prefix
ParentPath(p) == SubSeq(p, 1, Len(p) - 1)
PathsOf(t) == {e.p : e \in t}
ObjsOf(t) == {e.o : e \in t}
Has(t, p) == \E e \in t : e.p = p
At(t, p) == CHOOSE e \in t : e.p = p
IsDirAt(t, p) == p = <<>> \/ \E e \in t : e.p = p /\ e.k = "directory"
Under(t, p) == {e \in t : PathPrefix(p, e.p)}
Kinds == {"file", "symlink", "directory"}

WFTree(t) == /\ \A e, f \in t : (e.p = f.p \/ e.o = f.o) => e = f       \* one entry per path, one path per object
             /\ \A e \in t : Len(e.p) >= 1 /\ IsDirAt(t, ParentPath(e.p)) /\ e.k \in Kinds
             /\ \A e \in t : (e.k # "file" => e.x = FALSE) /\ (e.k = "directory" <=> e.c = 0)

(* What git (and a plain fast-import stream) can represent: a directory exists only as the container of something.
   Declarative form: a directory stays iff some non-directory lies below it. *)
DropEmptyDirs(t) == {e \in t : e.k # "directory" \/ \E f \in t : f.k # "directory" /\ PathPrefix(e.p, f.p)}
\* operational form (what an implementation does): delete childless directories until none is left
EmptyDirsOf(t) == {e \in t : e.k = "directory" /\ ~\E f \in t : ParentPath(f.p) = e.p}
RECURSIVE PruneIter(_)
PruneIter(t) == IF EmptyDirsOf(t) = {} THEN t ELSE PruneIter(t \ EmptyDirsOf(t))
HasEmptyDir(t) == EmptyDirsOf(t) # {}

\* the observable part of an entry: object identities (file ids) do not cross a channel
Forget(t) == {[p |-> e.p, k |-> e.k, c |-> e.c, x |-> e.x] : e \in t}
Carried(t) == Forget(DropEmptyDirs(t))

DropLaws(t) == LET d == DropEmptyDirs(t) IN
    /\ d = PruneIter(t)                                    \* declarative = operational
    /\ DropEmptyDirs(d) = d                                \* idempotent
    /\ WFTree(d) /\ EmptyDirsOf(d) = {}
    /\ {e \in t : e.k # "directory"} \subseteq d /\ d \subseteq t
    /\ Carried(d) = Carried(t)

(* ------------------------------------------------------------------ histories *)
NRevs(h) == Len(h.P)
RevsOf(h) == 1..Len(h.P)
TipAncestry(h) == IF h.tip = 0 THEN {} ELSE Ancestry(h.P, h.tip)
WFHistory(h) == /\ Len(h.T) = Len(h.P) /\ Len(h.M) = Len(h.P) /\ h.tip \in 0..Len(h.P)
                /\ \A r \in RevsOf(h) : (\A i \in DOMAIN h.P[r] : h.P[r][i] \in 1..(r - 1)) /\ NoDuplicates(h.P[r])
                /\ \A r \in RevsOf(h) : WFTree(h.T[r])
                /\ \A g \in h.tags : g.rev \in RevsOf(h)
                /\ \A g1, g2 \in h.tags : g1.name = g2.name => g1 = g2

(* Unfold: revision r as  [l |-> its label, ps |-> the unfoldings of its parents, in order].  L[r] is the label. *)
UnfoldFn(P, L) == LET U[r \in 1..Len(P)] == [l |-> L[r], ps |-> [i \in 1..Len(P[r]) |-> U[P[r][i]]]] IN U
Unfold(P, L, r) == IF r = 0 THEN [l |-> "null", ps |-> <<>>] ELSE UnfoldFn(P, L)[r]
\* left-hand only: the mainline chain
LeftFn(P, L) == LET U[r \in 1..Len(P)] == [l |-> L[r], ps |-> IF P[r] = <<>> THEN <<>> ELSE <<U[P[r][1]]>>] IN U

NoLabel(h) == [r \in RevsOf(h) |-> 0]
TreeLabel(h) == [r \in RevsOf(h) |-> Carried(h.T[r])]
ExactTreeLabel(h) == [r \in RevsOf(h) |-> Forget(h.T[r])]
MsgLabel(h) == [r \in RevsOf(h) |-> h.M[r].msg]
WhoLabel(h) == [r \in RevsOf(h) |-> h.M[r].who]
TimeLabel(h) == [r \in RevsOf(h) |-> <<h.M[r].ts, h.M[r].tz>>]
FullLabel(h) == [r \in RevsOf(h) |-> [t |-> Carried(h.T[r]), m |-> [msg |-> h.M[r].msg, who |-> h.M[r].who,
                                                                     ts |-> h.M[r].ts, tz |-> h.M[r].tz]]]
TagsIn(h) == {g \in h.tags : g.rev \in TipAncestry(h)}

(* The projection a history-preserving channel is the identity on. *)
Projection(h) == [n     |-> Cardinality(TipAncestry(h)),
                  shape |-> Unfold(h.P, NoLabel(h), h.tip),
                  all   |-> Unfold(h.P, FullLabel(h), h.tip),
                  tags  |-> {[name |-> g.name, at |-> Unfold(h.P, FullLabel(h), g.rev)] : g \in TagsIn(h)}]

(* Renaming revisions (pi: a bijection on the revision numbers that keeps parents smaller). *)
Perms(n) == {f \in [1..n -> 1..n] : \A i, j \in 1..n : i # j => f[i] # f[j]}
\* exchanging two neighbouring numbers; any two valid numberings of a graph are connected by such steps
Transpositions(n) == {[i \in 1..n |-> IF i = k THEN k + 1 ELSE IF i = k + 1 THEN k ELSE i] : k \in 1..(n - 1)}
Inv(f, n) == [j \in 1..n |-> CHOOSE i \in 1..n : f[i] = j]
ValidPerm(h, f) == \A r \in RevsOf(h) : \A i \in DOMAIN h.P[r] : f[h.P[r][i]] < f[r]
Relabel(h, f) == LET n == NRevs(h) g == Inv(f, n) IN
    [P    |-> [j \in 1..n |-> [i \in DOMAIN h.P[g[j]] |-> f[h.P[g[j]][i]]]],
     T    |-> [j \in 1..n |-> h.T[g[j]]],
     M    |-> [j \in 1..n |-> h.M[g[j]]],
     tags |-> {[name |-> t.name, rev |-> f[t.rev]] : t \in h.tags},
     tip  |-> IF h.tip = 0 THEN 0 ELSE f[h.tip]]
\* renaming object identities inside the trees
RenameObjs(h, k) == [h EXCEPT !.T = [r \in RevsOf(h) |-> {[e EXCEPT !.o = e.o + k] : e \in h.T[r]}]]
\* the part of the history a branch carries: the ancestry of the tip, renumbered in order
BranchPart(h) == LET A == TipAncestry(h)
                   rank(r) == Cardinality({a \in A : a <= r})
                   nth(j) == CHOOSE r \in A : rank(r) = j
                   n == Cardinality(A) IN
    [P    |-> [j \in 1..n |-> [i \in DOMAIN h.P[nth(j)] |-> rank(h.P[nth(j)][i])]],
     T    |-> [j \in 1..n |-> h.T[nth(j)]],
     M    |-> [j \in 1..n |-> h.M[nth(j)]],
     tags |-> {[name |-> t.name, rev |-> rank(t.rev)] : t \in TagsIn(h)},
     tip  |-> n]

(* ------------------------------------------------------------------ the laws
   Every law takes the source history h and an observation o recorded from the implementation (or produced by
   the ideal channel below) and is TRUE when the property's clause holds.  o.ok = FALSE means the operation
   raised; then every clause about its result fails.

   Observed history (o.rt for C35, o itself for C44): [ok, P, T, M, tags, tip, nrevs]; T[r] a set of
   [p, k, c, x] (no object identities), nrevs = number of revisions present in the target repository. *)
ObsHist(o) == [P |-> o.P, T |-> [r \in 1..Len(o.P) |-> {[p |-> e.p, k |-> e.k, c |-> e.c, x |-> e.x, o |-> 0] : e \in o.T[r]}],
               M |-> o.M, tags |-> o.tags, tip |-> o.tip]
ObsTreeLabel(o) == [r \in 1..Len(o.P) |-> Carried(ObsHist(o).T[r])]

\* C35 -- GitRoundTrip: after push native -> git and fetch back, tree' = DropEmptyDirs(tree) for every revision
\* of the branch, and the revisions are related by position in an unchanged graph.
LawGitShape(h, o) == o.ok /\ Unfold(o.P, [r \in 1..Len(o.P) |-> 0], o.tip) = Unfold(h.P, NoLabel(h), h.tip)
LawGitTrees(h, o) == o.ok /\ Unfold(o.P, ObsTreeLabel(o), o.tip) = Unfold(h.P, TreeLabel(h), h.tip)
\* stricter reading (conformance only): no stray empty directory appears either
GitTreesExact(h, o) == o.ok /\ Unfold(o.P, [r \in 1..Len(o.P) |-> Forget(ObsHist(o).T[r])], o.tip) = Unfold(h.P, TreeLabel(h), h.tip)

\* C35 -- IncrementalEqualsScratch: s.warm[r] (cache filled in topological order), s.coldp[r] (parent trees, cold
\* cache), s.scratch[r] (no parents, empty cache); staged pushes create the commits a single push creates.
LawIncremental(h, s) == s.ok /\ \A r \in 1..Len(s.scratch) : s.warm[r] = s.scratch[r] /\ s.coldp[r] = s.scratch[r]
LawStaged(h, s) == s.ok /\ s.staged = s.oneshot
\* C35 -- the objects generated for a revision incrementally are the objects a from-scratch conversion generates:
\* s.emit[r] = the objects [id, refs] emitted for revision r when the revisions are converted in order with their parent
\* trees and a cache that has seen the earlier revisions; s.full[r] = the ids of all blobs and trees of revision r
\* converted alone with no parent and an empty cache.  ObjectClosure: what an emitted object refers to has been
\* emitted for this or an earlier revision (a pack built from the emitted objects is complete).  ObjectSets: over the
\* whole history nothing a from-scratch conversion produces is missing, nothing else (but the commits) is produced.
EmitIds(s, r) == {o.id : o \in s.emit[r]}
SeenUpTo(s, r) == UNION {EmitIds(s, q) : q \in 1..r}
LawObjectClosure(h, s) == s.ok /\ \A r \in 1..Len(s.emit) : \A o \in s.emit[r] : o.refs \subseteq SeenUpTo(s, r)
LawObjectSets(h, s) == s.ok /\ Len(s.emit) = Len(s.full)
                            /\ {i \in SeenUpTo(s, Len(s.emit)) : i \notin s.commits} = UNION {s.full[r] : r \in 1..Len(s.full)}

\* C35 -- GitOriginStable: g.orig[r] = [commit, tree, objs] of the git commit at position r,
\* g.exp[r] what the object store of the imported repository reproduces for it.
LawGitOrigin(h, g) == g.ok /\ Len(g.exp) = Len(g.orig) /\ \A r \in 1..Len(g.orig) : g.exp[r] = g.orig[r]

\* C44 -- FastRoundTrip: Projection(imported) = Projection(source), clause by clause
LawFastCount(h, o) == o.ok /\ o.nrevs = Cardinality(TipAncestry(h)) /\ Cardinality(Ancestry(o.P, o.tip)) = o.nrevs
LawFastShape(h, o) == o.ok /\ Unfold(o.P, [r \in 1..Len(o.P) |-> 0], o.tip) = Unfold(h.P, NoLabel(h), h.tip)
LawFastLeft(h, o)  == o.ok /\ LeftFn(o.P, [r \in 1..Len(o.P) |-> 0])[o.tip] = LeftFn(h.P, NoLabel(h))[h.tip]
LawFastTrees(h, o) == o.ok /\ Unfold(o.P, ObsTreeLabel(o), o.tip) = Unfold(h.P, TreeLabel(h), h.tip)
LawFastMsg(h, o)   == o.ok /\ Unfold(o.P, MsgLabel(o), o.tip) = Unfold(h.P, MsgLabel(h), h.tip)
LawFastWho(h, o)   == o.ok /\ Unfold(o.P, WhoLabel(o), o.tip) = Unfold(h.P, WhoLabel(h), h.tip)
LawFastTime(h, o)  == o.ok /\ Unfold(o.P, TimeLabel(o), o.tip) = Unfold(h.P, TimeLabel(h), h.tip)
LawFastTags(h, o)  == o.ok /\ {[name |-> g.name, at |-> Unfold(o.P, FullLabel(ObsHist(o)), g.rev)] : g \in o.tags}
                              = Projection(h).tags
FastExact(h, o)    == o.ok /\ Unfold(o.P, [r \in 1..Len(o.P) |-> Forget(ObsHist(o).T[r])], o.tip) = Unfold(h.P, ExactTreeLabel(h), h.tip)
\* the whole law in one piece; equivalent to the conjunction of the clauses (checked by TLC in Gen)
FastRoundTrip(h, o) == o.ok /\ o.nrevs = Projection(h).n /\ Projection(ObsHist(o)) = Projection(h)

GitLawNames == <<"shape", "trees">>
GitLaw(n, h, o) == CASE n = "shape" -> LawGitShape(h, o) [] n = "trees" -> LawGitTrees(h, o)
GitFailed(h, o) == {n \in SeqRange(GitLawNames) : ~GitLaw(n, h, o)}
ShaLawNames == <<"incremental", "staged", "closure", "objects">>
ShaLaw(n, h, s) == CASE n = "incremental" -> LawIncremental(h, s) [] n = "staged" -> LawStaged(h, s)
                     [] n = "closure" -> LawObjectClosure(h, s) [] n = "objects" -> LawObjectSets(h, s)
ShaFailed(h, s) == {n \in SeqRange(ShaLawNames) : ~ShaLaw(n, h, s)}
FastLawNames == <<"count", "shape", "left", "trees", "message", "committer", "time", "tags">>
FastLaw(n, h, o) == CASE n = "count" -> LawFastCount(h, o) [] n = "shape" -> LawFastShape(h, o)
                      [] n = "left" -> LawFastLeft(h, o) [] n = "trees" -> LawFastTrees(h, o)
                      [] n = "message" -> LawFastMsg(h, o) [] n = "committer" -> LawFastWho(h, o)
                      [] n = "time" -> LawFastTime(h, o) [] n = "tags" -> LawFastTags(h, o)
FastFailed(h, o) == {n \in SeqRange(FastLawNames) : ~FastLaw(n, h, o)}

(* ------------------------------------------------------------------ transfers in rounds
   A history need not cross a channel at once: first the part a revision k reaches, later the rest, into the SAME
   target.  The part reached by k is a history of its own (Upto); the ideal channel carries it like any other, and
   what the target holds after the last round is what a single transfer gives.  GitRoundTrip is therefore also
   stated on o.rt2, the target filled in two rounds (cut at a parent of the tip). *)
Upto(h, k) == BranchPart([h EXCEPT !.tip = k])
LawGitShape2(h, o) == LawGitShape(h, o)
LawGitTrees2(h, o) == LawGitTrees(h, o)
Git2LawNames == <<"staged-shape", "staged-trees">>
Git2Failed(h, o) == {n \in SeqRange(Git2LawNames) :
                       ~(CASE n = "staged-shape" -> LawGitShape2(h, o) [] n = "staged-trees" -> LawGitTrees2(h, o))}

(* ------------------------------------------------------------------ abstract git objects of a tree
   One tree object per directory that git keeps (root included), one blob per file / symlink; a tree object is its
   content relative to the directory, so equal sub-trees are one object, as in git. *)
RelTree(t, d) == {[p |-> SubSeq(e.p, Len(d) + 1, Len(e.p)), k |-> e.k, c |-> e.c, x |-> e.x] :
                    e \in {e \in DropEmptyDirs(t) : PathPrefix(d, e.p)}}
TreeId(t, d) == [k |-> "tree", v |-> RelTree(t, d)]
BlobId(e) == [k |-> "blob", v |-> <<e.k, e.c>>]
KeptDirs(t) == {<<>>} \cup {e.p : e \in {e \in DropEmptyDirs(t) : e.k = "directory"}}
ObjRefs(t, d) == {TreeId(t, e.p) : e \in {e \in DropEmptyDirs(t) : ParentPath(e.p) = d /\ e.k = "directory"}}
                 \cup {BlobId(e) : e \in {e \in t : ParentPath(e.p) = d /\ e.k # "directory"}}
AbsObjects(t) == {[id |-> TreeId(t, d), refs |-> ObjRefs(t, d)] : d \in KeptDirs(t)}
                 \cup {[id |-> BlobId(e), refs |-> {}] : e \in {e \in t : e.k # "directory"}}
\* the ideal incremental conversion: for every revision the objects not produced for an earlier one
IdealObjects(h) ==
    LET ids(r) == {o.id : o \in AbsObjects(h.T[r])}
        before(r) == UNION {ids(q) : q \in 1..(r - 1)} IN
    [ok |-> TRUE, commits |-> {},
     emit |-> [r \in RevsOf(h) |-> {o \in AbsObjects(h.T[r]) : o.id \notin before(r)}],
     full |-> [r \in RevsOf(h) |-> ids(r)]]

(* ------------------------------------------------------------------ the ideal channels (the specification of
   the implementation: identity on the projection; revision numbers and object identities are NOT preserved) *)
IdealObs(h, f) == LET r == Relabel(BranchPart(h), f) IN
    [ok |-> TRUE, P |-> r.P, T |-> [j \in 1..Len(r.P) |-> Carried(r.T[j])], M |-> r.M, tags |-> r.tags, tip |-> r.tip,
     nrevs |-> Len(r.P)]
=============================================================================
