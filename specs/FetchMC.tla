------------------------------ MODULE FetchMC ------------------------------
(* E1 for C03: the fetch as a state machine over every bounded universe.
   A behaviour first chooses a revision graph (every graph up to MaxRev revisions with at most MaxPar parents and NGhosts
   ghosts; initial states), then Build chooses the edit pattern (all of Pats for graphs up to AllPatsUpTo revisions, one
   pattern picked by the shape of the graph above that) - which fixes the history, held completely by the repository
   "src" - and ANY ancestry-closed subset of it as the content of the repository "tgt" (partially overlapping targets).
   Fetch(s, t, rev) is the specification of C03; it is followed by the same fetch again (the re-fetch).  One fetch per
   behaviour is complete: every target content a fetch can produce is closed (TargetClosed) and therefore itself one of
   the contents Build starts from. *)
EXTENDS Fetch
CONSTANTS MaxRev, NGhosts, MaxPar, Pats, AllPatsUpTo
VARIABLES h,         \* the history (constant along a behaviour once built)
          present,   \* [repo -> content]
          last       \* [a, rev]: the last action
vars == <<h, present, last>>
GhostSet == IF NGhosts = 0 THEN {} ELSE {GhostId}
AllGraphs == UNION {GhostDags(n, MaxPar, GhostSet) : n \in 1..MaxRev}
RECURSIVE SumSeq(_)
SumSeq(q) == IF q = <<>> THEN 0 ELSE Head(q) + SumSeq(Tail(q))
PatOf(P) == ((SumSeq([r \in DOMAIN P |-> SumSeq(P[r]) + Len(P[r])]) + Len(P)) % Cardinality(Pats)) + 1
PatsFor(P) == IF Len(P) <= AllPatsUpTo THEN Pats ELSE {PatOf(P)} \cap Pats

Init == /\ \E P \in AllGraphs : h = [P |-> P]
        /\ present = <<>> /\ last = [a |-> "graph", rev |-> 0]
Build == /\ last.a = "graph"
         /\ \E pat \in PatsFor(h.P) : h' = History(h.P, pat)
         /\ \E X \in ClosedSubsets(h.P) : present' = [src |-> Content(h', DOMAIN h.P), tgt |-> Content(h', X)]
         /\ last' = [a |-> "init", rev |-> 0]
Fetch(s, t, rev) == /\ last.a \in {"init", "fetch"} /\ rev \in present[s].revs
                    /\ last.a = "fetch" => rev = last.rev
                    /\ present' = [present EXCEPT ![t] = FetchOut(h.P, present[s], present[t], rev)]
                    /\ last' = [a |-> IF last.a = "fetch" THEN "refetch" ELSE "fetch", rev |-> rev]
                    /\ UNCHANGED h
Next == Build \/ \E rev \in DOMAIN h.P : Fetch("src", "tgt", rev)
Spec == Init /\ [][Next]_vars
Built == last.a # "graph"
Fetched == last.a \in {"fetch", "refetch"}

(* ---- C03 on the model *)
\* an unstacked target stays closed under (non-ghost) ancestry, and never holds more than the source
TargetClosed == Built => (AncestryClosed(h.P, present["tgt"].revs) /\ present["tgt"].revs \subseteq present["src"].revs)
\* per-kind completeness: inventories, text keys and signatures of exactly the revisions held
KindsComplete == Built => present["tgt"] = Content(h, present["tgt"].revs)
\* the fetched revision and all its non-ghost ancestors have arrived; ghosts are not invented
Arrived == Fetched => (Ancestry(h.P, last.rev) \subseteq present["tgt"].revs /\ GhostId \notin present["tgt"].revs)
\* fetching the same revision again transfers nothing and changes nothing
RefetchIsNoop == [][last'.a = "refetch" => present' = present]_vars
\* the laws that judge real executions hold on the specification's own outcome
LawsHoldOnSpec == last.a = "fetch" =>
                      Let(ObsOf(h, present["src"], present["tgt"], FetchOut(h.P, present["src"], present["tgt"], last.rev)),
                          LAMBDA o : FetchFailed([P |-> h.P, rev |-> last.rev], o)) = {}
\* anti-vacuity: TLC must reach these
WitnessPartialOverlap == ~(last.a = "fetch" /\ \E r \in present["tgt"].revs : r \notin Ancestry(h.P, last.rev))
WitnessGhostAncestor == ~(last.a = "fetch" /\ \E a \in Ancestry(h.P, last.rev) : GhostId \in ParentSet(h.P, a))
WitnessCarriedText == ~(last.a = "fetch" /\ \E r \in present["tgt"].revs :
                          /\ \E f \in DOMAIN h.fv[r] : h.fv[r][f] # r
                          /\ \E q \in present["tgt"].revs : IsMerge(h.P, q) /\ DOMAIN h.fp[q] # {})
=============================================================================
