---------------------------- MODULE HistoryGenLib ----------------------------
(* Shared by the History*Gen modules: the bounded universe of histories.
   All graphs with MinRev..MaxRev revisions, <= MaxPar parents each (ordered, distinct; the left-hand parent is
   always a present revision; with NGhosts = 1 the ghost 99 may occur among the other parents), and all pairs of
   tips (t, s), t, s \in revisions + Null, such that every revision is in the ancestry of t or s -- a graph with
   further revisions behaves, for the pair, like the smaller graph without them, which is enumerated as well.
   Sampling for replay: the cases whose index in TLC's normalised enumeration is = Offset modulo Stride. *)
EXTENDS History, TLC, SequencesExt
CONSTANTS MinRev, MaxRev, MaxPar, NGhosts, Stride, Offset
GhostIds == IF NGhosts = 0 THEN {} ELSE {99}
ParentLists(n) ==
    {<<>>} \cup UNION {{<<l>> \o rest : rest \in DistinctSeqs(((1..(n - 1)) \ {l}) \cup GhostIds, MaxPar - 1)} : l \in 1..(n - 1)}
RECURSIVE GraphsOf(_)
GraphsOf(n) == IF n = 0 THEN {<<>>} ELSE {Append(P, ps) : P \in GraphsOf(n - 1), ps \in ParentLists(n)}
Graphs == UNION {GraphsOf(m) : m \in MinRev..MaxRev}
Covers(P, t, s) == Anc0(P, t) \cup Anc0(P, s) = DOMAIN P
Triples == {x \in Graphs \X (0..MaxRev) \X (0..MaxRev) : x[2] <= Len(x[1]) /\ x[3] <= Len(x[1]) /\ Covers(x[1], x[2], x[3])}
\* branches: a graph, a tip, and the other tips s that make (t, s) a covering pair
Branches == {x \in Graphs \X (1..MaxRev) : x[2] <= Len(x[1]) /\ \E s \in 0..Len(x[1]) : Covers(x[1], x[2], s)}
OthersOf(P, t) == {s \in 0..Len(P) : Covers(P, t, s)}
Sample(S) == LET all == SetToSeq(S) IN {all[k] : k \in {j \in DOMAIN all : (j + Offset) % Stride = 0}}
B2N(b) == IF b THEN 1 ELSE 0
=============================================================================
