---------------------------- MODULE HistoryGenLib ----------------------------
(* Shared by the History*Gen modules: the bounded universe of histories.
   All graphs with MinRev..MaxRev revisions, <= MaxPar parents each (ordered, distinct; the left-hand parent is
   always a present revision; with NGhosts = 1 the ghost 99 may occur among the other parents), and all pairs of
   tips (t, s), t, s \in revisions + Null, such that every revision is in the ancestry of t or s -- a graph with
   further revisions behaves, for the pair, like the smaller graph without them, which is enumerated as well.
   Larger graphs: see Graphs.  Sampling for replay: the cases whose index in TLC's normalised enumeration is = Offset modulo Stride. *)
EXTENDS History, TLC, SequencesExt, Json, IOUtils
CONSTANTS MinRev, MaxRev, MaxPar, NGhosts, Stride, Offset
GhostIds == IF NGhosts = 0 THEN {} ELSE {99}
ParentLists(n) ==
    {<<>>} \cup UNION {{<<l>> \o rest : rest \in DistinctSeqs(((1..(n - 1)) \ {l}) \cup GhostIds, MaxPar - 1)} : l \in 1..(n - 1)}
RECURSIVE GraphsOf(_)
GraphsOf(n) == IF n = 0 THEN {<<>>} ELSE {Append(P, ps) : P \in GraphsOf(n - 1), ps \in ParentLists(n)}
\* thorough tiers also feed seeded random larger graphs (<= MaxRev revisions, at most two heads) through the same
\* modules: a JSON list of graphs in the file named by VF_GRAPHS replaces the enumeration
\* VF_EXTRA names a JSON list of LONG graphs (more than MaxRev revisions, e.g. 40) that are added to the universe: they
\* are used with their heads as tips only and are always exported (never sampled away)
Extra == IF "VF_EXTRA" \in DOMAIN IOEnv THEN SeqRange(JsonDeserialize(IOEnv.VF_EXTRA)) ELSE {}
Graphs == (IF "VF_GRAPHS" \in DOMAIN IOEnv THEN SeqRange(JsonDeserialize(IOEnv.VF_GRAPHS))
           ELSE UNION {GraphsOf(m) : m \in MinRev..MaxRev}) \cup Extra
IsLong(P) == Len(P) > MaxRev
\* every revision is an ancestor of a head (a revision that is nobody's parent), so (t, s) covers P iff {t, s} contains
\* all heads: no ancestry computation is needed to enumerate the universe
HeadsOfGraph(P) == DOMAIN P \ UNION {ParentSet(P, r) : r \in DOMAIN P}
Covers(P, t, s) == HeadsOfGraph(P) \subseteq {t, s}
Graphs2 == {P \in Graphs : Cardinality(HeadsOfGraph(P)) <= 2}
PairsOf(P) == LET h == HeadsOfGraph(P)
              IN IF Cardinality(h) = 1 THEN LET x == CHOOSE y \in h : TRUE IN {<<x, y>> : y \in 0..Len(P)} \cup {<<y, x>> : y \in 0..Len(P)}
                 ELSE {<<x, y>> \in h \X h : x # y}
\* (filters over products, not UNIONs of many small sets: TLC's UNION is quadratic in the number of sets)
Triples == {x \in {P \in Graphs2 : ~IsLong(P)} \X (0..MaxRev) \X (0..MaxRev) : <<x[2], x[3]>> \in PairsOf(x[1])}
MaxLen == SetMax({Len(P) : P \in Graphs2})
\* branches: a graph, a tip, and the other tips s that make (t, s) a covering pair
TipsOf(P) == IF IsLong(P) THEN HeadsOfGraph(P) ELSE {p[1] : p \in PairsOf(P)} \ {Null}
Branches == {x \in Graphs2 \X (1..MaxLen) : x[2] \in TipsOf(x[1])}
OthersOf(P, t) == IF IsLong(P) THEN (HeadsOfGraph(P) \ {t}) \cup {Null} ELSE {p[2] : p \in {q \in PairsOf(P) : q[1] = t}}
Sample(S) == LET all == SetToSeq(S) IN {all[k] : k \in {j \in DOMAIN all : (j + Offset) % Stride = 0}}
SmallOnly(S) == {x \in S : ~IsLong(x.par)}
Picked(S) == Sample(SmallOnly(S)) \cup (S \ SmallOnly(S))
B2N(b) == IF b THEN 1 ELSE 0
=============================================================================
