SPECIFICATION Spec
CONSTANTS
  Writers = {"w1", "w2"}
  Readers = {"r"}
  InitPacks = 1
  MaxCommits = 2
  MaxPacks = 2
  MaxCrashes = 1
INVARIANT TypeOK
INVARIANT ListedPresent
INVARIANT NoLoss
INVARIANT NoLatched
INVARIANT VisibleWhole
