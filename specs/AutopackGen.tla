---------------------------- MODULE AutopackGen ----------------------------
(* E1 + E2 for C07: TLC enumerates the bounded domain of pack-count multisets (non-increasing sequences of at most
   MaxPacks counts from Vals, plus 0..MaxZeros revision-less packs, total = sum of the counts = what
   CombinedGraphIndex.key_count() returns), checks the well-formedness laws on the transcription (one initial
   state per case) and exports the case table with the transcription's answers.
   Dedup = TRUE generates the OUT-OF-DOMAIN class total < sum (a key_count() that de-duplicated revisions present
   in two packs) instead; it is only used to document what the planner would do there (IndexError). *)
EXTENDS Autopack, TLC, Json, IOUtils, SequencesExt
CONSTANTS Vals, MaxPacks, MaxZeros, Dedup
RECURSIVE Multi(_, _)
Multi(k, top) == IF k = 0 THEN {<<>>}
                 ELSE UNION {{<<v>> \o s : s \in Multi(k - 1, v)} : v \in {x \in Vals : x <= top}}
Top == CHOOSE v \in Vals : \A w \in Vals : w <= v
CountSeqs == UNION {Multi(k, Top) : k \in 1..MaxPacks}
Totals(s) == IF Dedup THEN {t \in Head(s)..(SumSeq(s) - 1) : TRUE} ELSE {SumSeq(s)}
Cases == UNION {[counts : {s}, zeros : 0..MaxZeros, total : Totals(s)] : s \in CountSeqs}
\* one initial state per case; the laws are evaluated on the successor (done = TRUE) so that TLC's workers share the work
VARIABLES c, done
Init == c \in Cases /\ done = FALSE
Next == done = FALSE /\ done' = TRUE /\ UNCHANGED c
Obs(x) == SpecOut(x) @@ [e2e |-> FALSE, after |-> 0]
LawsHoldOnSpec == done => LET o == Obs(c) IN Failed(c, o) = {} /\ Conforms(c, o)
\* anti-vacuity witnesses: TLC must find these states
WitnessPlan == ~(SpecOut(c).auto.kind = "plan" /\ Len(SpecOut(c).auto.packs) < Len(c.counts) /\ c.zeros = 0)
WitnessNoneAbove == ~(SpecOut(c).auto.kind = "none" /\ c.zeros > 0)
WitnessPartBucket == ~(\E i \in 1..Len(c.counts) : c.counts[i] > 10 /\ c.counts[i] < 20 /\ SpecOut(c).auto.kind = "plan")
WitnessError == ~(SpecOut(c).plan.kind = "error")
Export == JsonSerialize(IOEnv.VF_OUT, SetToSeq({[c |-> x] : x \in Cases}))
ASSUME IF "VF_OUT" \in DOMAIN IOEnv THEN Export ELSE TRUE
=============================================================================
