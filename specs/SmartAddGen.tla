---------------------------- MODULE SmartAddGen ----------------------------
(* E1 + E2 for C11: TLC enumerates layouts x ignore lists x conflicts x pre-versioned sets x argument sets x recurse,
   checks that the declarative statement of the property and the transcribed directory walk agree on every case
   (plus sanity clauses of the statement), and exports the cases with the expected additions. *)
EXTENDS SmartAdd, TLC, Json, IOUtils, SequencesExt
CONSTANTS IgnSets,      \* the ignore lists to enumerate (subsets of Pats)
          MaxArgs       \* at most this many paths are named
ParentClosed(S) == \A p \in S : Par(p) = "" \/ Par(p) \in S
\* the helper files of a conflict come together
Layouts(ign) == {L \in SUBSET (Items \ {"@ign"}) : ParentClosed(L) /\ ("f.THIS" \in L <=> "f.OTHER" \in L)}
WithIgn(L, ign) == IF ign = {} THEN L ELSE L \cup {"@ign"}
PreChoices(L) == IF Flavour = "bzr" THEN {P \in {{}, {"f"}, {"d"}, {"d", "d/f"}} : P \subseteq L}
                 ELSE SUBSET ({"f", "d/f"} \cap L)
ConfChoices(L, P) == IF "f" \in P /\ "f.THIS" \in L THEN {{}, {"f"}} ELSE {{}}
ArgChoices(L) == {A \in SUBSET ({"."} \cup (ArgPaths \cap L)) : A # {} /\ Cardinality(A) <= MaxArgs}
Cases == UNION {UNION {UNION {UNION {
            {[lay |-> WithIgn(L, ign), ign |-> ign, conf |-> cf, pre |-> P, args |-> A, rec |-> r]
                 : A \in ArgChoices(L), r \in BOOLEAN}
            : cf \in ConfChoices(L, P)} : P \in PreChoices(L)} : L \in Layouts(ign)} : ign \in IgnSets}
VARIABLE c
Init == c \in Cases
Next == UNCHANGED c
\* design checks: the statement and the walk agree; sanity clauses of the statement
LawsHoldOnSpec ==
    /\ ExpectedAdded(c) = WalkAdded(c)
    /\ ExpectedAdded(c) \subseteq c.lay \ c.pre
    /\ Flavour = "bzr" => (Named(c) \subseteq c.pre \cup ExpectedAdded(c))
    /\ Flavour = "bzr" => \A p \in ExpectedAdded(c) : Par(p) = "" \/ Par(p) \in c.pre \cup ExpectedAdded(c)
    /\ ~c.rec => ExpectedAdded(c) = NamedAdded(c)
    /\ \A p \in ExpectedAdded(c) \ NamedAdded(c) : ~Ctl(p) /\ p \notin Helpers(c) /\ ~Ignored(c, p)
\* anti-vacuity
WitnessNamedIgnored == ~(\E a \in Named(c) : Ignored(c, a) /\ a \in ExpectedAdded(c))
WitnessNestedSkipped == ~(c.rec /\ "." \in c.args /\ "n/@" \in c.lay /\ "n" \notin ExpectedAdded(c) /\ "d" \in ExpectedAdded(c))
WitnessHelperSkipped == ~(c.rec /\ "f.THIS" \in c.lay /\ "f.THIS" \notin ExpectedAdded(c) /\ "f.OTHER" \in c.lay /\ c.conf # {})
WitnessVersionedOverridesIgnore == ~(Flavour = "bzr" /\ "d" \in c.pre /\ "d" \in c.ign /\ "d/g.o" \in ExpectedAdded(c) /\ "d" \notin c.args)
Out(x) == [c |-> [lay |-> SetToSeq(x.lay), ign |-> SetToSeq(x.ign), conf |-> SetToSeq(x.conf), pre |-> SetToSeq(x.pre),
                  args |-> SetToSeq(x.args), rec |-> x.rec],
           exp |-> SetToSeq(ExpectedAdded(x))]
Export == JsonSerialize(IOEnv.VF_OUT, SetToSeq({Out(x) : x \in Cases}))
ASSUME IF "VF_OUT" \in DOMAIN IOEnv THEN Export ELSE TRUE
=============================================================================
