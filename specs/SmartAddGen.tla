---------------------------- MODULE SmartAddGen ----------------------------
(* E1 + E2 for C11: TLC enumerates layouts x ignore lists x conflicts x pre-versioned sets x argument sets x recurse,
   checks that the declarative statement of the property and the transcribed directory walk agree on every case
   (plus sanity clauses of the statement), and exports the cases with the expected additions. *)
EXTENDS SmartAdd, TLC, Json, IOUtils, SequencesExt
CONSTANTS IgnSets,      \* the ignore lists to enumerate (subsets of Pats)
          MaxArgs,      \* at most this many paths are named
          LaySel        \* {} = every layout; otherwise the layouts (sets of items without "@ign") to enumerate
ParentClosed(S) == \A p \in S : Par(p) = "" \/ Par(p) \in S
\* the helper files of a conflict come together
AllLayouts == {L \in SUBSET (Items \ {"@ign"}) : ParentClosed(L) /\ ("f.THIS" \in L <=> "f.OTHER" \in L)}
Layouts(ign) == IF LaySel = {} THEN AllLayouts ELSE LaySel \cap AllLayouts
WithIgn(L, ign) == IF ign = {} THEN L ELSE L \cup {"@ign"}
\* f is pre-versioned only where that matters: where a conflict on it can be recorded
PreChoices(L) == LET withF == IF "f.THIS" \in L THEN {"f"} ELSE {} IN
                 IF Flavour = "bzr" THEN {P \in {{}, {"d"}, {"d", "d/f"}} \cup {{"f"} \cap withF} : P \subseteq L}
                 ELSE {P \in SUBSET ({"d/f"} \cup withF) : P \subseteq L}
ConfChoices(L, P) == IF "f" \in P /\ "f.THIS" \in L THEN {{}, {"f"}} ELSE {{}}
ArgChoices(L) == {A \in SUBSET ({"."} \cup (ArgPaths \cap L)) : A # {} /\ Cardinality(A) <= MaxArgs}
Cases == UNION {UNION {UNION {UNION {
            {[lay |-> WithIgn(L, ign), ign |-> ign, conf |-> cf, pre |-> P, args |-> A, rec |-> r]
                 : A \in ArgChoices(L), r \in BOOLEAN}
            : cf \in ConfChoices(L, P)} : P \in PreChoices(L)} : L \in Layouts(ign)} : ign \in IgnSets}
VARIABLE c
Init == c \in Cases
Next == UNCHANGED c
\* design checks: the statement and the walk agree; sanity clauses of the statement
LawsHoldOnSpec ==
    LET e == ExpectedAdded(c)
        na == NamedAdded(c)
    IN /\ e = WalkAdded(c)
       /\ e \subseteq c.lay \ c.pre
       /\ Flavour = "bzr" => (Named(c) \subseteq c.pre \cup e)
       /\ Flavour = "bzr" => \A p \in e : Par(p) = "" \/ Par(p) \in c.pre \cup e
       /\ ~c.rec => e = na
       /\ \A p \in e \ na : ~Ctl(p) /\ p \notin Helpers(c) /\ ~Ignored(c, p)
\* anti-vacuity: every exported case carries the names of the witness predicates it satisfies; the harness requires each
\* name to occur (TLC evaluates them, one run)
WitNamedIgnored(x, e) == \E a \in Named(x) : Ignored(x, a) /\ a \in e
WitNestedSkipped(x, e) == /\ x.rec /\ "." \in x.args /\ "n/@" \in x.lay /\ "n" \notin e
                          /\ (IF Flavour = "bzr" THEN "d" ELSE "d/f") \in e
WitHelperSkipped(x, e) == x.rec /\ "." \in x.args /\ "f.THIS" \in x.lay /\ "f.THIS" \notin e /\ x.conf # {}
WitHelperAddedWithoutConflict(x, e) == x.rec /\ "f.THIS" \in e /\ x.conf = {}
WitVersionedOverridesIgnore(x, e) == /\ Flavour = "bzr" /\ "d" \in x.pre /\ "d" \in x.ign /\ "d/g.o" \in e
                                     /\ "d" \notin x.args
WitIgnoredDirSkipped(x, e) == x.rec /\ "." \in x.args /\ "d" \in x.ign /\ "d/g.o" \in x.lay /\ "d/g.o" \notin e
                              /\ "d" \notin x.pre /\ "d/@" \notin x.lay /\ ~IgnoredB(x, "d/g.o")
Wits(x, e) == {w \in {"NamedIgnored", "NestedSkipped", "HelperSkipped", "HelperAddedWithoutConflict",
                   "VersionedOverridesIgnore", "IgnoredDirSkipped"} :
              CASE w = "NamedIgnored" -> WitNamedIgnored(x, e) [] w = "NestedSkipped" -> WitNestedSkipped(x, e)
                [] w = "HelperSkipped" -> WitHelperSkipped(x, e) [] w = "HelperAddedWithoutConflict" -> WitHelperAddedWithoutConflict(x, e)
                [] w = "VersionedOverridesIgnore" -> WitVersionedOverridesIgnore(x, e)
                [] w = "IgnoredDirSkipped" -> WitIgnoredDirSkipped(x, e)}
Out(x) == LET e == ExpectedAdded(x) IN
          [c |-> [lay |-> SetToSeq(x.lay), ign |-> SetToSeq(x.ign), conf |-> SetToSeq(x.conf), pre |-> SetToSeq(x.pre),
                  args |-> SetToSeq(x.args), rec |-> x.rec],
           exp |-> SetToSeq(e), wit |-> SetToSeq(Wits(x, e))]
Export == JsonSerialize(IOEnv.VF_OUT, SetToSeq({Out(x) : x \in Cases}))
ASSUME IF "VF_OUT" \in DOMAIN IOEnv THEN Export ELSE TRUE
=============================================================================
