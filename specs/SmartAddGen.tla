---------------------------- MODULE SmartAddGen ----------------------------
(* E1 + E2 for C11: TLC enumerates layouts x ignore lists x conflicts x pre-versioned sets x argument sets x recurse,
   checks that the declarative statement of the property and the transcribed directory walk agree on every case
   (plus sanity clauses of the statement), and exports the cases with the expected additions. *)
EXTENDS SmartAdd, TLC, Json, IOUtils, SequencesExt
CONSTANTS IgnSets,      \* the ignore lists to enumerate (subsets of Pats)
          MaxArgs       \* at most this many paths are named
ParentClosed(S) == \A p \in S : Par(p) = "" \/ Par(p) \in S
\* the helper files of a conflict come together
Layouts(ign) == {L \in SUBSET (Items \ {"@ign"}) : ParentClosed(L) /\ ("f.THIS" \in L <=> "f.OTHER" \in L)}
WithIgn(L, ign) == IF ign = {} THEN L ELSE L \cup {"@ign"}
PreChoices(L) == IF Flavour = "bzr" THEN {P \in {{}, {"f"}, {"d"}, {"d", "d/f"}} : P \subseteq L}
                 ELSE SUBSET ({"f", "d/f"} \cap L)
ConfChoices(L, P) == IF "f" \in P /\ "f.THIS" \in L THEN {{}, {"f"}} ELSE {{}}
ArgChoices(L) == {A \in SUBSET ({"."} \cup (ArgPaths \cap L)) : A # {} /\ Cardinality(A) <= MaxArgs}
Cases == UNION {UNION {UNION {UNION {
            {[lay |-> WithIgn(L, ign), ign |-> ign, conf |-> cf, pre |-> P, args |-> A, rec |-> r]
                 : A \in ArgChoices(L), r \in BOOLEAN}
            : cf \in ConfChoices(L, P)} : P \in PreChoices(L)} : L \in Layouts(ign)} : ign \in IgnSets}
VARIABLE c
Init == c \in Cases
Next == UNCHANGED c
\* design checks: the statement and the walk agree; sanity clauses of the statement
LawsHoldOnSpec ==
    /\ ExpectedAdded(c) = WalkAdded(c)
    /\ ExpectedAdded(c) \subseteq c.lay \ c.pre
    /\ Flavour = "bzr" => (Named(c) \subseteq c.pre \cup ExpectedAdded(c))
    /\ Flavour = "bzr" => \A p \in ExpectedAdded(c) : Par(p) = "" \/ Par(p) \in c.pre \cup ExpectedAdded(c)
    /\ ~c.rec => ExpectedAdded(c) = NamedAdded(c)
    /\ \A p \in ExpectedAdded(c) \ NamedAdded(c) : ~Ctl(p) /\ p \notin Helpers(c) /\ ~Ignored(c, p)
\* anti-vacuity: every exported case carries the names of the witness predicates it satisfies; the harness requires each
\* name to occur (TLC evaluates them, one run)
WitNamedIgnored(x) == \E a \in Named(x) : Ignored(x, a) /\ a \in ExpectedAdded(x)
WitNestedSkipped(x) == /\ x.rec /\ "." \in x.args /\ "n/@" \in x.lay /\ "n" \notin ExpectedAdded(x)
                       /\ (IF Flavour = "bzr" THEN "d" ELSE "d/f") \in ExpectedAdded(x)
WitHelperSkipped(x) == x.rec /\ "." \in x.args /\ "f.THIS" \in x.lay /\ "f.THIS" \notin ExpectedAdded(x) /\ x.conf # {}
WitHelperAddedWithoutConflict(x) == x.rec /\ "f.THIS" \in ExpectedAdded(x) /\ x.conf = {}
WitVersionedOverridesIgnore(x) == /\ Flavour = "bzr" /\ "d" \in x.pre /\ "d" \in x.ign /\ "d/g.o" \in ExpectedAdded(x)
                                  /\ "d" \notin x.args
WitIgnoredDirSkipped(x) == x.rec /\ "." \in x.args /\ "d" \in x.ign /\ "d/g.o" \in x.lay /\ "d/g.o" \notin ExpectedAdded(x)
                           /\ "d" \notin x.pre /\ "d/@" \notin x.lay /\ ~Ignored(x, "d/g.o")
Wits(x) == {w \in {"NamedIgnored", "NestedSkipped", "HelperSkipped", "HelperAddedWithoutConflict",
                   "VersionedOverridesIgnore", "IgnoredDirSkipped"} :
              CASE w = "NamedIgnored" -> WitNamedIgnored(x) [] w = "NestedSkipped" -> WitNestedSkipped(x)
                [] w = "HelperSkipped" -> WitHelperSkipped(x) [] w = "HelperAddedWithoutConflict" -> WitHelperAddedWithoutConflict(x)
                [] w = "VersionedOverridesIgnore" -> WitVersionedOverridesIgnore(x)
                [] w = "IgnoredDirSkipped" -> WitIgnoredDirSkipped(x)}
Out(x) == [c |-> [lay |-> SetToSeq(x.lay), ign |-> SetToSeq(x.ign), conf |-> SetToSeq(x.conf), pre |-> SetToSeq(x.pre),
                  args |-> SetToSeq(x.args), rec |-> x.rec],
           exp |-> SetToSeq(ExpectedAdded(x)), wit |-> SetToSeq(Wits(x))]
Export == JsonSerialize(IOEnv.VF_OUT, SetToSeq({Out(x) : x \in Cases}))
ASSUME IF "VF_OUT" \in DOMAIN IOEnv THEN Export ELSE TRUE
=============================================================================
