------------------------------ MODULE Stacking ------------------------------
(* Stacked repositories - property C08.
   breezy/bzr/vf_repository.py VersionedFileCommitBuilder._ensure_fallback_inventories, get_missing_parent_inventories,
   groupcompress_repo.py GCRepositoryPackCollection._check_new_inventories, pack_repo.py, bzr/branch.py set_stacked_on_url,
   remote.py.

   A stacked repository S keeps only part of a history itself (its LOCAL content, what `x.without_fallbacks()` lists) and
   reads everything else from its fallback repository B.  Contents are those of Fetch.tla (revs, invs, texts, sigs over
   a history h = [P, T, fv, fp]).  The operators below give the local content after each operation C08 quantifies over;
   StackedComplete is the invariant the property states. *)
EXTENDS Fetch

PresentParentSet(P, r) == ParentSet(P, r) \cap DOMAIN P                   \* ghosts have no inventory anywhere
Visible(loc, base) == Join(loc, base)

\* file f got its version in r itself: the (file, version) of r differs from that of every parent holding f
Differs(h, r, f) == \A p \in PresentParentSet(h.P, r) : f \notin DOMAIN h.T[p] \/ h.fv[p][f] # h.fv[r][f]

(* ---- C08, the invariant: for every revision present in S itself, the parent inventories are present locally and so is
   every text whose (file, version) differs from all parents'. *)
StackedComplete(h, loc) ==
    \A r \in loc.revs :
        /\ PresentParentSet(h.P, r) \subseteq loc.invs
        /\ \A f \in DOMAIN h.T[r] : Differs(h, r, f) => <<f, h.fv[r][f]>> \in loc.texts
\* ... so that every visible revision can be read from S together with B
Readable(h, loc, base) ==
    LET v == Visible(loc, base)
    IN \A r \in v.revs : r \in v.invs /\ \A f \in DOMAIN h.T[r] : <<f, h.fv[r][f]>> \in v.texts

(* ---- the operations *)
\* a new stacked branch holds nothing itself
BranchedLocal == Empty
\* fetch / push / pull of rev from source content s: the revisions S cannot see yet arrive with their inventories, texts and
\* signatures - plus the inventories of their parents, which may live in the fallback only
StackedFetch(h, s, loc, base, rev) ==
    LET new == AncIn(h.P, s, rev) \ (loc.revs \cup base.revs)
        pinv == UNION {PresentParentSet(h.P, r) : r \in new}
    IN [revs |-> loc.revs \cup new, invs |-> loc.invs \cup new \cup pinv,
        texts |-> loc.texts \cup {k \in s.texts : k[2] \in new}, sigs |-> loc.sigs \cup (s.sigs \cap new)]
\* a commit of revision c = Len(h.P) (h already extended) on top of parents ps: the revision, its inventory, the inventories
\* of its parents, and the texts it introduces
StackedCommit(h, loc) ==
    LET c == Len(h.P)
    IN [revs |-> loc.revs \cup {c}, invs |-> loc.invs \cup {c} \cup PresentParentSet(h.P, c),
        texts |-> loc.texts \cup {<<f, c>> : f \in DOMAIN h.fp[c]}, sigs |-> loc.sigs]
\* the tree a commit to the stacked branch records: the tip's tree with file "a" rewritten (re-added when absent)
CommitTree(h, tip) == LET base == h.T[tip]
                          c == Len(h.P) + 1
                      IN [f \in DOMAIN base \cup {"a"} |->
                            IF f = "a" THEN Ent(IF "a" \in DOMAIN base THEN base["a"].alt ELSE FALSE, c) ELSE base[f]]

(* ---- the laws of C08 on an OBSERVED stacked repository
   c : [P]   the graph of every revision that exists anywhere (universe + commits made so far)
   o : outcome "ok" / exception class of the action;  lrevs linvs lsigs ltexts lroot: keys of the repository ITSELF
       (without_fallbacks; lroot = text keys of the root directory);  vis: revisions visible through S + fallback;
       fv[r]: file -> version for every entry of revision r's tree read through S + fallback ("root" = the root directory),
       read[r] / diff[r]: "ok" or the exception from reading every file of the tree / diffing it against each parent
       ("" when not visible);  check: Repository.check();  tipread: reading the branch tip's tree *)
StackLawCompletes(c, o) == o.outcome = "ok"
StackLawParentInvs(c, o) == \A r \in Set(o.lrevs) : PresentParentSet(c.P, r) \subseteq Set(o.linvs)
StackLawTexts(c, o) ==
    \A r \in Set(o.lrevs) : \A f \in DOMAIN o.fv[r] :
        (\A p \in PresentParentSet(c.P, r) : f \notin DOMAIN o.fv[p] \/ o.fv[p][f] # o.fv[r][f])
            => <<f, o.fv[r][f]>> \in (Set(o.ltexts) \cup Set(o.lroot))
StackLawReadable(c, o) == \A r \in Set(o.vis) : o.read[r] = "ok"
StackLawDiffable(c, o) == \A r \in Set(o.vis) : o.diff[r] = "ok"
StackLawCheck(c, o) == o.check = "ok"
StackLawTip(c, o) == o.tipread = "ok"
StackLawNames == <<"completes", "parent-inventories", "texts", "readable", "diffable", "check", "tip">>
StackLaw(n, c, o) == CASE n = "completes" -> StackLawCompletes(c, o) [] n = "parent-inventories" -> StackLawParentInvs(c, o)
                       [] n = "texts" -> StackLawTexts(c, o) [] n = "readable" -> StackLawReadable(c, o)
                       [] n = "diffable" -> StackLawDiffable(c, o) [] n = "check" -> StackLawCheck(c, o)
                       [] n = "tip" -> StackLawTip(c, o)
StackFailed(c, o) == IF o.outcome # "ok" THEN {"completes"} ELSE {n \in Set(StackLawNames) : ~StackLaw(n, c, o)}

\* the observation the specification predicts
StackObsOf(h, loc, base) ==
    LET v == Visible(loc, base)
    IN [outcome |-> "ok", lrevs |-> SetToSeq(loc.revs), linvs |-> SetToSeq(loc.invs), lsigs |-> SetToSeq(loc.sigs),
        ltexts |-> SetToSeq(loc.texts), lroot |-> <<>>, vis |-> SetToSeq(v.revs),
        fv |-> [r \in DOMAIN h.P |-> IF r \in v.revs THEN h.fv[r] ELSE <<>>],
        read |-> [r \in DOMAIN h.P |-> IF r \in v.revs THEN (IF r \in v.invs /\ \A f \in DOMAIN h.T[r] : <<f, h.fv[r][f]>> \in v.texts
                                                              THEN "ok" ELSE "unreadable") ELSE ""],
        diff |-> [r \in DOMAIN h.P |-> IF r \in v.revs THEN (IF PresentParentSet(h.P, r) \subseteq v.invs THEN "ok" ELSE "undiffable") ELSE ""],
        check |-> "ok", tipread |-> "ok"]
=============================================================================
