------------------------------ MODULE OsUtils ------------------------------
(* Path, line and date utilities of breezy.osutils (Rust crates/osutils behind breezy._osutils_rs): declarative
   definitions / transcriptions and the algebraic laws of property C47 as operators on *observed* results.
   The property has four independent parts, selected by the constant Part:
     "sel"  : minimum_path_selection, is_inside, is_inside_any  -- paths are sequences of segments (strings)
     "path" : splitpath, joinpath                               -- paths are sequences of characters
     "text" : split_lines, chunks_to_lines                      -- text is a sequence over {"a", "LF", "CR"}
     "date" : format_highres_date / unpack_highres_date         -- only the input grid and the inverse law;
                                                                   formatting itself is not modelled *)
EXTENDS Integers, Sequences, FiniteSets
CONSTANTS Part,
          Segs, MaxDepth       \* part "sel": the universe of paths is every sequence of <= MaxDepth segments from Segs

Range(s) == {s[i] : i \in DOMAIN s}
RECURSIVE Flat(_)
Flat(ss) == IF ss = <<>> THEN <<>> ELSE Head(ss) \o Flat(Tail(ss))

(* ------------------------------------------------------------------ "sel": containment and minimal cover *)
RECURSIVE PathsOfLen(_)
PathsOfLen(k) == IF k = 0 THEN {<<>>} ELSE {Append(p, s) : p \in PathsOfLen(k - 1), s \in Segs}
Universe == UNION {PathsOfLen(k) : k \in 0..MaxDepth}
Inside(d, p) == Len(d) <= Len(p) /\ \A i \in 1..Len(d) : d[i] = p[i]     \* d is a prefix of p: p is d or lies below d; <<>> is the root
InsideAny(D, p) == \E d \in D : Inside(d, p)
MinSel(S) == {p \in S : ~\E q \in S : q # p /\ Inside(q, p)}
Covered(D) == {p \in Universe : InsideAny(D, p)}
(* c.paths : the input set (as a sequence);  o.sel : minimum_path_selection(paths) (as a sequence)
   o.any   : the p in Universe with is_inside_any(paths, p);  o.each : the p with is_inside(d, p) for some d *)
LawSubset(c, o)     == Range(o.sel) \subseteq Range(c.paths)
LawExactlyOne(c, o) == \A p \in Range(c.paths) : Cardinality({s \in Range(o.sel) : Inside(s, p)}) = 1
LawAntichain(c, o)  == \A a, b \in Range(o.sel) : a # b => ~Inside(a, b)
LawInsideAny(c, o)  == Range(o.any) = Covered(Range(c.paths))
LawInside(c, o)     == Range(o.each) = Covered(Range(c.paths))

(* ------------------------------------------------------------------ "path": splitpath / joinpath transcribed *)
RECURSIVE PureSplitFrom(_, _, _)
PureSplitFrom(p, i, cur) == IF i > Len(p) THEN <<cur>>                 \* str.split('/')
                            ELSE IF p[i] = "/" THEN <<cur>> \o PureSplitFrom(p, i + 1, <<>>)
                            ELSE PureSplitFrom(p, i + 1, Append(cur, p[i]))
PureSplit(p) == PureSplitFrom(p, 1, <<>>)
DotDot == <<".", ".">>
SplitPath(p) == LET ps == PureSplit(p) IN                              \* path.rs splitpath
                IF DotDot \in Range(ps) THEN [st |-> "split-error", split |-> <<>>]
                ELSE [st |-> "ok", split |-> SelectSeq(ps, LAMBDA f : f # <<>> /\ f # <<".">>)]
RECURSIVE JoinFrom(_, _)
JoinFrom(segs, k) == IF k > Len(segs) THEN <<>>
                     ELSE (IF k > 1 THEN <<"/">> ELSE <<>>) \o segs[k] \o JoinFrom(segs, k + 1)
JoinPath(segs) == IF <<>> \in Range(segs) \/ DotDot \in Range(segs) THEN [st |-> "join-error", joined |-> <<>>]
                  ELSE [st |-> "ok", joined |-> JoinFrom(segs, 1)]    \* path.rs joinpath (segments without '/')
\* a normalised relative path: the empty path, or non-empty segments none of which is "." or ".."
Normalised(p) == p = <<>> \/ \A f \in Range(PureSplit(p)) : f # <<>> /\ f # <<".">> /\ f # DotDot
(* c.p : the path;  o.st : "ok" / "split-error" / "join-error";  o.split : splitpath(p);  o.joined : joinpath(that) *)
LawSplitJoin(c, o) == Normalised(c.p) => (o.st = "ok" /\ o.joined = c.p)

(* ------------------------------------------------------------------ "text": lines *)
RECURSIVE LinesFrom(_, _, _)
LinesFrom(t, i, cur) == IF i > Len(t) THEN (IF cur = <<>> THEN <<>> ELSE <<cur>>)
                        ELSE IF t[i] = "LF" THEN <<Append(cur, "LF")>> \o LinesFrom(t, i + 1, <<>>)
                        ELSE LinesFrom(t, i + 1, Append(cur, t[i]))
Lines(t) == LinesFrom(t, 1, <<>>)
IsLine(l, last) == /\ l # <<>>
                   /\ \A i \in 1..(Len(l) - 1) : l[i] # "LF"
                   /\ (l[Len(l)] = "LF" \/ last)
AreLines(ls) == \A k \in DOMAIN ls : IsLine(ls[k], k = Len(ls))
(* c.t : the text;  c.cuts : non-decreasing cut positions, chunks = the pieces between them (possibly empty)
   o.lines : split_lines(t);  o.cl : chunks_to_lines(chunks);  o.cl1 : chunks_to_lines([t]) *)
LawSplitConcat(c, o) == Flat(o.lines) = c.t /\ AreLines(o.lines)
LawChunkConcat(c, o) == Flat(o.cl) = c.t /\ AreLines(o.cl)
LawChunkIndep(c, o)  == o.cl = o.cl1

(* ------------------------------------------------------------------ "date": the inverse law
   A timestamp is sign, seconds as two limbs (hi * 10^6 + lo; TLC integers are 32-bit) and microseconds;
   offsets are whole minutes.  c = what was formatted, o = what unpack_highres_date(format_highres_date(..))
   returned, projected to microseconds by the harness (o.ok = FALSE when either call raised). *)
LawDateInverse(c, o) == /\ o.ok
                        /\ o.neg = c.neg /\ o.hi = c.hi /\ o.lo = c.lo /\ o.us = c.us
                        /\ o.off = c.off

(* ------------------------------------------------------------------ dispatch *)
LawNames == CASE Part = "sel"  -> <<"subset", "exactlyone", "antichain", "insideany", "inside">>
              [] Part = "path" -> <<"splitjoin">>
              [] Part = "text" -> <<"splitconcat", "chunkconcat", "chunkindep">>
              [] Part = "date" -> <<"dateinverse">>
Law(n, c, o) == CASE n = "subset" -> LawSubset(c, o) [] n = "exactlyone" -> LawExactlyOne(c, o)
                  [] n = "antichain" -> LawAntichain(c, o) [] n = "insideany" -> LawInsideAny(c, o)
                  [] n = "inside" -> LawInside(c, o) [] n = "splitjoin" -> LawSplitJoin(c, o)
                  [] n = "splitconcat" -> LawSplitConcat(c, o) [] n = "chunkconcat" -> LawChunkConcat(c, o)
                  [] n = "chunkindep" -> LawChunkIndep(c, o) [] n = "dateinverse" -> LawDateInverse(c, o)
Failed(c, o) == {n \in Range(LawNames) : ~Law(n, c, o)}

\* what the definitions above predict
SpecOut(c) == CASE Part = "sel"  -> [sel |-> MinSel(Range(c.paths)), any |-> Covered(Range(c.paths)),
                                     each |-> Covered(Range(c.paths))]
                [] Part = "path" -> LET s == SplitPath(c.p) j == JoinPath(s.split) IN
                                    IF s.st # "ok" THEN [st |-> s.st, split |-> <<>>, joined |-> <<>>]
                                    ELSE [st |-> j.st, split |-> s.split, joined |-> j.joined]
                [] Part = "text" -> [lines |-> Lines(c.t), cl |-> Lines(c.t), cl1 |-> Lines(c.t)]
                [] Part = "date" -> [ok |-> TRUE, neg |-> c.neg, hi |-> c.hi, lo |-> c.lo, us |-> c.us, off |-> c.off]
\* conformance of a recorded row with the definitions
\* ("sel": `any` and `each` are already compared with Covered by their laws, so only `sel` is left to compare)
Conforms(c, o) == IF Part = "sel" THEN Range(o.sel) = MinSel(Range(c.paths)) ELSE o = SpecOut(c)
=============================================================================
