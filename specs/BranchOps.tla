----------------------------- MODULE BranchOps -----------------------------
(* One branch with its own repository, and the operations a client performs on it - property C32.
   Code: breezy/branch.py, breezy/bzr/branch.py, breezy/repository.py (the local path) and breezy/bzr/remote.py
   RemoteBranch / RemoteRepository / RemoteBzrDir with the verb handlers of breezy/bzr/smart/{branch,repository,
   bzrdir,packrepository}.py (the same operations through bzr://).

   THE ACCESS PATH IS NOT PART OF THE STATE: every operation has one effect and one return value, defined here once.
   C32 says that a client object opened on the local path and a client object opened through a smart server are both
   implementations of this one definition - in particular they agree with each other.

   Universe.  Revisions are numbers (lib/Dag: G[r] = ordered parents, creation order).  Five revisions are PREPARED in
   a source repository the client can fetch from:
        1 = r1 (root)   2 = r2 <- r1   3 = r3 <- r2   4 = x <- r1 (side)   5 = m <- (x, r3)  (merge, left parent x)
   and commits made by the client append to G.  0 is null:.  The tree of revision r is the opaque id r.
   Two other branches exist to pull from / be pushed from:  A (tip r3, tag t1 -> r2)  and  X (tip x, tags t1 -> x,
   t2 -> r1).  Tag names are t1, t2 (0 = no such tag); one configuration key with values 1, 2 (0 = unset).

   World W (what a FRESH local open of the stored branch sees, plus what the client session holds):
        G      all revisions that exist anywhere (grows by commits)
        revs   revisions stored in the repository                 tip, revno   the branch's last_revision_info
        tags   [t1, t2 -> revision or 0]                          cfg          stored value of the configuration key
        held   how often the client's branch object is write-locked (the lock directory is held iff held > 0)
        pend   configuration value set while write-locked: it is written when the outermost lock is released
               (Branch.unlock -> conf_store.save_changes); 0 = nothing pending
   An action is a tuple <<op, args...>>; Do(W, a) = [W |-> world after, out |-> [err, val]] where err is "" or the
   exception class and val is the returned value encoded as a sequence of numbers (encodings below). *)
EXTENDS Dag, Integers, SequencesExt

G0 == << <<>>, <<1>>, <<2>>, <<1>>, <<4, 3>> >>
TagNames == {"t1", "t2"}
NoTags == [t \in TagNames |-> 0]
Sources == [A |-> [tip |-> 3, tags |-> [t1 |-> 2, t2 |-> 0]],
            X |-> [tip |-> 4, tags |-> [t1 |-> 4, t2 |-> 1]]]
W0 == [G |-> G0, revs |-> {1}, tip |-> 1, revno |-> 1, tags |-> NoTags, cfg |-> 0, pend |-> 0, held |-> 0]

Anc(G, r) == IF r = Null THEN {} ELSE Ancestry(G, r)              \* ancestry including r
RevnoOf(G, r) == IF r = Null THEN 0 ELSE Revno(G, r)              \* length of the left-hand history
Ok(W, val) == [W |-> W, out |-> [err |-> "", val |-> val]]
Err(W, e) == [W |-> W, out |-> [err |-> e, val |-> <<>>]]
Locked(W) == W.held > 0
NCommits(W) == Len(W.G) - Len(G0)
SetTipTo(W, r) == [W EXCEPT !.tip = r, !.revno = RevnoOf(W.G, r)]

(* ---- tags: _reconcile_tags (see Tags.tla), for the two names *)
Takes(src, dst, ov, t) == src[t] # 0 /\ src[t] # dst[t] /\ (dst[t] = 0 \/ ov)
Clashes(src, dst, ov, t) == src[t] # 0 /\ dst[t] # 0 /\ src[t] # dst[t] /\ ~ov
MergedTags(src, dst, ov) == [t \in TagNames |-> IF Takes(src, dst, ov, t) THEN src[t] ELSE dst[t]]
\* <<update t1, update t2, conflict t1: source, destination, conflict t2: source, destination>>
TagReport(src, dst, ov) ==
    <<IF Takes(src, dst, ov, "t1") THEN src["t1"] ELSE 0, IF Takes(src, dst, ov, "t2") THEN src["t2"] ELSE 0,
      IF Clashes(src, dst, ov, "t1") THEN src["t1"] ELSE 0, IF Clashes(src, dst, ov, "t1") THEN dst["t1"] ELSE 0,
      IF Clashes(src, dst, ov, "t2") THEN src["t2"] ELSE 0, IF Clashes(src, dst, ov, "t2") THEN dst["t2"] ELSE 0>>

(* ---- GenericInterBranch._update_revisions + tag merge: what pull INTO and push INTO a branch (repository revs,
        tip, tags) do with a source (graph G, tip st, tags stags).  The revisions are fetched first; then, unless
        overwriting, "already merged" leaves the tip and a diverged source raises AFTER the fetch. *)
Transfer(G, revs, tip, tags, st, stags, ov) ==
    LET revs1 == revs \cup Anc(G, st)
        merged == st \in Anc(G, tip)
        ahead == tip = Null \/ tip \in Anc(G, st)
        newtip == IF ov THEN st ELSE IF merged THEN tip ELSE st
    IN IF ~ov /\ ~merged /\ ~ahead
       THEN [err |-> "DivergedBranches", revs |-> revs1, tip |-> tip, tags |-> tags, val |-> <<>>]
       ELSE [err |-> "", revs |-> revs1, tip |-> newtip, tags |-> MergedTags(stags, tags, ov),
             val |-> <<RevnoOf(G, tip), tip, RevnoOf(G, newtip), newtip>> \o TagReport(stags, tags, ov)]
Into(W, s, ov) ==
    LET x == Transfer(W.G, W.revs, W.tip, W.tags, Sources[s].tip, Sources[s].tags, ov)
        W1 == [SetTipTo(W, x.tip) EXCEPT !.revs = x.revs, !.tags = x.tags]
    IN IF x.err # "" THEN Err(W1, x.err) ELSE Ok(W1, x.val)
\* pull FROM / push FROM this branch into a fresh empty branch L: the result record and what L then holds
OutOf(W) ==
    LET x == Transfer(W.G, {}, Null, NoTags, W.tip, W.tags, FALSE)
    IN x.val \o <<x.tags["t1"], x.tags["t2"]>> \o SetToSortSeq(x.revs, <)

(* ---- encodings of read results *)
RECURSIVE FlatMap(_, _, _)
FlatMap(G, revs, r) == IF r > Len(G) THEN <<>>
                       ELSE (IF r \in revs THEN <<r, Len(G[r])>> \o G[r] ELSE <<>>) \o FlatMap(G, revs, r + 1)
Main(W) == LeftHand(W.G, W.tip)                          \* oldest first; <<>> for a null tip

(* ---- the merge-sorted view of the branch (Branch.iter_merge_sorted_revisions, newest first) and the dotted revnos
        (get_revision_id_to_revno_map): both are derived by the CLIENT from the tip and the graph and cached on the
        branch object, which is why they are read here.  Rows <<revision, merge depth, x, y, z>>: a mainline revision
        has depth 0 and revno x (y = z = 0); the revisions a mainline revision merged follow it, newest first, with
        depth 1 and the dotted revno base.branch.index.  Defined for graphs in which what a merge brings in is one
        chain whose oldest revision's left parent is on the mainline below the merge (ChainMerges; the universe and the
        client's commits only produce such graphs): base = revno of that left parent, branch = how many-th such chain
        off that base (in mainline order), index = position in the chain, oldest = 1. *)
ChainOf(G, r) == MergedBy(G, r)                           \* Dag: ancestry of r beyond r itself and its left parent's
ChainBase(G, lh, r) == LET p == LeftParent(G, Min(ChainOf(G, r)))
                       IN IF p = Null THEN 0 ELSE CHOOSE k \in DOMAIN lh : lh[k] = p
RowsAt(G, lh, i) ==
    LET r == lh[i]
        S == ChainOf(G, r)
        base == ChainBase(G, lh, r)
        br == 1 + Cardinality({j \in 1..(i - 1) : ChainOf(G, lh[j]) # {} /\ ChainBase(G, lh, lh[j]) = base})
        chain == SetToSortSeq(S, >)
    IN <<<<r, 0, i, 0, 0>>>> \o (IF S = {} THEN <<>>
                                ELSE [k \in DOMAIN chain |-> <<chain[k], 1, base, br, Cardinality({s \in S : s <= chain[k]})>>])
RECURSIVE RowsDown(_, _, _)
RowsDown(G, lh, i) == IF i = 0 THEN <<>> ELSE RowsAt(G, lh, i) \o RowsDown(G, lh, i - 1)
MergeSorted(W) == RowsDown(W.G, Main(W), Len(Main(W)))
RevnoMap(W) == LET rows == MergeSorted(W)
                   revs == SetToSortSeq({rows[k][1] : k \in DOMAIN rows}, <)
               IN [j \in DOMAIN revs |-> LET k == CHOOSE k \in DOMAIN rows : rows[k][1] = revs[j]
                                         IN <<revs[j], rows[k][3], rows[k][4], rows[k][5]>>]
ChainMerges(G) ==
    \A r \in DOMAIN G : Len(G[r]) > 1 =>
        LET S == ChainOf(G, r) IN
        /\ S # {}
        /\ \A s \in S : Len(G[s]) <= 1 /\ (s = Min(S) \/ G[s] = <<Max({t \in S : t < s})>>)
        /\ LeftParent(G, Min(S)) \in {Null} \cup SeqRange(LeftHand(G, LeftParent(G, r)))

(* ================================ the operations ================================
   State-changing operations: Change(W, a) = world after + return value.  Everything else only looks: Look(W, a) is its
   return value and the world stays as it is.  Do(W, a) puts the two together; Effect(W, a) is the world after alone
   (what the state machine needs - it spares computing the values of the reads). *)
Mutators == {"commit", "fetch", "settip", "genhist", "pull", "push", "settag", "deltag", "setcfg", "lock", "unlock"}
Change(W, a) ==
    LET op == a[1] IN
    CASE op = "commit" ->                                         \* MemoryTree.commit on the branch; returns the new id
           LET new == Len(W.G) + 1
               W1 == [W EXCEPT !.G = Append(W.G, IF W.tip = Null THEN <<>> ELSE <<W.tip>>), !.revs = @ \cup {new},
                               !.tip = new, !.revno = @ + 1]
           IN Ok(W1, <<new>>)
      [] op = "fetch" -> Ok([W EXCEPT !.revs = @ \cup Anc(W.G, a[2])], <<>>)      \* repository.fetch(source, revision_id)
      [] op = "settip" -> Ok(SetTipTo(W, a[2]), <<>>)             \* set_last_revision_info(true revno, present revision)
      [] op = "genhist" ->                                        \* generate_revision_history(revision)
           IF a[2] \in W.revs THEN Ok(SetTipTo(W, a[2]), <<>>) ELSE Err(W, "NoSuchRevision")
      [] op = "pull" -> Into(W, a[2], a[3] = 1)                   \* branch.pull(source, overwrite)
      [] op = "push" -> Into(W, a[2], a[3] = 1)                   \* source.push(branch, overwrite)
      [] op = "settag" -> Ok([W EXCEPT !.tags[a[2]] = a[3]], <<>>)
      [] op = "deltag" -> IF W.tags[a[2]] = 0 THEN Err(W, "NoSuchTag") ELSE Ok([W EXCEPT !.tags[a[2]] = 0], <<>>)
      [] op = "setcfg" -> Ok(IF Locked(W) THEN [W EXCEPT !.pend = a[2]] ELSE [W EXCEPT !.cfg = a[2]], <<>>)
      [] op = "lock" -> Ok([W EXCEPT !.held = @ + 1], <<IF Locked(W) THEN 0 ELSE 1>>)    \* 1 = a new token, 0 = the held one
      [] op = "unlock" ->
           IF ~Locked(W) THEN Err(W, "LockNotHeld")
           ELSE IF W.held > 1 THEN Ok([W EXCEPT !.held = @ - 1], <<>>)
           ELSE Ok([W EXCEPT !.held = 0, !.pend = 0, !.cfg = IF W.pend # 0 THEN W.pend ELSE @], <<>>)
Val(v) == [err |-> "", val |-> v]
Refusal(e) == [err |-> e, val |-> <<>>]
Look(W, a) ==
    LET op == a[1] IN
    \* a second client object (same access path): lock_write(token of the holder) . unlock - succeeds with that token
    CASE op = "relock" -> Val(<<0>>)
      [] op = "badtoken" -> Refusal("TokenMismatch")              \* ... lock_write(a token nobody issued)
      [] op = "contend" -> IF Locked(W) THEN Refusal("LockContention") ELSE Val(<<1>>)    \* ... lock_write() . unlock
      [] op = "lastinfo" -> Val(<<W.revno, W.tip>>)
      [] op = "revnoof" -> LET i == {k \in DOMAIN Main(W) : Main(W)[k] = a[2]}    \* revision_id_to_revno
                           IN IF i = {} THEN Refusal("NoSuchRevision") ELSE Val(<<CHOOSE k \in i : TRUE>>)
      [] op = "revidat" -> IF a[2] = 0 THEN Val(<<Null>>)                                 \* get_rev_id
                           ELSE IF a[2] > W.revno THEN Refusal("RevnoOutOfBounds") ELSE Val(<<Main(W)[a[2]]>>)
      [] op = "parentmap" -> Val(FlatMap(W.G, W.revs, 1))         \* get_parent_map(every id of G and one unknown id)
      [] op = "askabsent" -> Val(<<>>)                            \* get_parent_map(the id the NEXT commit will get): not there
      \* get_revision + revision_tree: <<tree id, 1 = recorded metadata intact>> \o parents
      [] op = "readrev" -> IF a[2] \in W.revs THEN Val(<<a[2], 1>> \o W.G[a[2]]) ELSE Refusal("NoSuchRevision")
      [] op = "mergesorted" -> Val(FlattenSeq(MergeSorted(W)))    \* list(iter_merge_sorted_revisions())
      [] op = "revnomap" -> Val(FlattenSeq(RevnoMap(W)))          \* get_revision_id_to_revno_map(), by revision
      [] op = "tags" -> Val(<<W.tags["t1"], W.tags["t2"]>>)
      [] op = "getcfg" -> Val(<<IF W.pend # 0 THEN W.pend ELSE W.cfg>>)
      [] op = "allrevs" -> Val(SetToSortSeq(W.revs, <))
      [] op = "pullout" -> Val(OutOf(W))                          \* L.pull(branch) into a fresh empty L
      [] op = "pushout" -> Val(OutOf(W))                          \* branch.push(L)
Do(W, a) == IF a[1] \in Mutators THEN Change(W, a) ELSE [W |-> W, out |-> Look(W, a)]
Effect(W, a) == IF a[1] \in Mutators THEN Change(W, a).W ELSE W

\* operations RemoteBranch can only do through its VFS fallback (_ensure_real): not available on a server without VFS
VfsOps == {"commit", "pull", "pushout"}

RECURSIVE RunFrom(_, _, _)
RunFrom(W, acts, i) == IF i > Len(acts) THEN <<>> ELSE LET r == Do(W, acts[i]) IN <<r>> \o RunFrom(r.W, acts, i + 1)
Run(acts) == RunFrom(W0, acts, 1)

(* ---- what a fresh local open of the stored branch shows (the projection the harness records after every call) *)
Disk(W) == [tip |-> W.tip, revno |-> W.revno, t1 |-> W.tags["t1"], t2 |-> W.tags["t2"], revs |-> SetToSortSeq(W.revs, <),
            trees |-> SetToSortSeq(W.revs, <), cfg |-> W.cfg, blocked |-> IF Locked(W) THEN 1 ELSE 0, rlocked |-> 0,
            extra |-> 0]

(* ---- state properties *)
AncClosed(W) == \A r \in W.revs : Anc(W.G, r) \subseteq W.revs
TipPresent(W) == W.tip \in W.revs \cup {Null}
RevnoIsLeftHandLength(W) == W.revno = RevnoOf(W.G, W.tip) /\ W.revno = Len(Main(W))
TagsKnownOrGhost(W) == \A t \in TagNames : W.tags[t] \in {0} \cup DOMAIN W.G          \* present, or absent from revs ("ghost")
LockBalanced(W) == W.held >= 0 /\ (W.held = 0 => W.pend = 0)
=============================================================================
