------------------------------- MODULE Tags -------------------------------
(* Tag dictionaries and their transfer between branches (property C24).
   breezy/tag.py: _reconcile_tags, InterTags.merge (= Tags.merge_to), MemoryTags.merge_to;
   breezy/git/branch.py: InterTagsFromGitToLocalGit.merge, InterTagsFromGitToNonGit.merge;
   breezy/bzr/tag.py: BasicTags._serialize_tag_dict / _deserialize_tag_dict (Store / Load).

   A tag dictionary over the name set N is a total function N -> Vals \cup {Absent}; Absent = "-" stands for
   "no such tag" (this keeps dictionaries JSON records with a fixed domain).  Names and values are abstract; the
   harness concretises them to hostile unicode names / arbitrary revision-id bytes, so Store/Load is identity.

   A case c of a transfer is
     [kind |-> "merge", src, dst, master : dictionaries, hasMaster, ignoreMaster, overwrite, selAll : BOOLEAN,
      sel : sequence of selected names (ignored when selAll, i.e. selector=None)]
   and the observed outcome o is
     [srcPre, dstPre, masterPre : dictionaries read back (fresh objects) after storing the case, before the merge,
      src, dst, master          : dictionaries read back (fresh objects) after the merge,
      updates : dictionary (Absent = not reported), conflicts : sequence of <<name, sourceValue, destValue>>,
      extra : number of tag names seen in any of these reads that the case never stored]
   A Store/Load case is [kind |-> "store", d] with outcome [back |-> dictionary read back, extra |-> number of
   tag names read back that were never stored]. *)
EXTENDS Naturals, Sequences, FiniteSets, SequencesExt

Absent == "-"
\* Range(f) == {f[x] : x \in DOMAIN f} comes from Functions (via SequencesExt)
Names(d) == DOMAIN d
Present(d) == {n \in DOMAIN d : d[n] # Absent}

(* ---- _reconcile_tags(source_dict, dest_dict, overwrite, selector), declaratively: the loop treats every
        source name independently.  selected = set of names the selector accepts. *)
Takes(src, dst, overwrite, selected, n) ==         \* the source value is written for n
    /\ n \in selected /\ src[n] # Absent /\ src[n] # dst[n]
    /\ (dst[n] = Absent \/ overwrite)
Clashes(src, dst, overwrite, selected, n) ==       \* n goes to the conflict list
    /\ n \in selected /\ src[n] # Absent /\ dst[n] # Absent /\ src[n] # dst[n] /\ ~overwrite
Reconcile(src, dst, overwrite, selected) ==
    [result    |-> [n \in DOMAIN dst |-> IF Takes(src, dst, overwrite, selected, n) THEN src[n] ELSE dst[n]],
     updates   |-> [n \in DOMAIN dst |-> IF Takes(src, dst, overwrite, selected, n) THEN src[n] ELSE Absent],
     conflicts |-> {<<n, src[n], dst[n]>> : n \in {m \in DOMAIN dst : Clashes(src, dst, overwrite, selected, m)}}]

Selected(c) == IF c.selAll THEN DOMAIN c.src ELSE Range(c.sel) \cap DOMAIN c.src
UsesMaster(c) == c.hasMaster /\ ~c.ignoreMaster

(* ---- InterTags.merge: nothing happens for an empty source; otherwise the destination and (unless
        ignore_master) its master are reconciled individually against the source; the reports are united. *)
MergeTo(c) ==
    LET sel == Selected(c)
        rd  == Reconcile(c.src, c.dst, c.overwrite, sel)
        rm  == Reconcile(c.src, c.master, c.overwrite, sel)
        act == Present(c.src) # {}
        um  == act /\ UsesMaster(c)
    IN [src       |-> c.src,
        dst       |-> IF act THEN rd.result ELSE c.dst,
        master    |-> IF um THEN rm.result ELSE c.master,
        updates   |-> [n \in DOMAIN c.dst |->
                          IF ~act THEN Absent
                          ELSE IF um /\ rm.updates[n] # Absent THEN rm.updates[n] ELSE rd.updates[n]],
        conflicts |-> IF ~act THEN {} ELSE rd.conflicts \cup (IF um THEN rm.conflicts ELSE {})]

(* ---- Store / Load: identity *)
Load(stored) == stored
Store(d) == d

(* ---- the laws of C24 on OBSERVED outcomes.  One clause set per written dictionary ("d_" destination,
        "m_" master of the destination).  before/after are the observed dictionaries around the merge. *)
ClauseAdded(c, before, after) ==          \* only in the source (and selected) => added with the source value
    \A n \in DOMAIN before : (n \in Selected(c) /\ c.src[n] # Absent /\ before[n] = Absent) => after[n] = c.src[n]
ClauseDstOnly(c, before, after) ==        \* not in the source => kept
    \A n \in DOMAIN before : c.src[n] = Absent => after[n] = before[n]
ClauseUnselected(c, before, after) ==     \* refused by the selector => not transferred
    \A n \in DOMAIN before : n \notin Selected(c) => after[n] = before[n]
ClauseEqual(c, before, after) ==          \* identical definitions => unchanged
    \A n \in DOMAIN before : c.src[n] = before[n] => after[n] = before[n]
Differs(c, before, n) == n \in Selected(c) /\ c.src[n] # Absent /\ before[n] # Absent /\ c.src[n] # before[n]
ClauseKeep(c, before, after) ==           \* differing, no overwrite => destination value kept
    \A n \in DOMAIN before : (Differs(c, before, n) /\ ~c.overwrite) => after[n] = before[n]
ClauseReport(c, before, conf) ==          \* ... and reported as a conflict (name, source value, destination value)
    \A n \in DOMAIN before : (Differs(c, before, n) /\ ~c.overwrite) => <<n, c.src[n], before[n]>> \in conf
ClauseOverwrite(c, before, after) ==      \* differing, overwrite requested => source value
    \A n \in DOMAIN before : (Differs(c, before, n) /\ c.overwrite) => after[n] = c.src[n]

MergeLawNames == <<"stored", "source_kept", "no_invented",
                   "d_added", "d_dstonly", "d_unselected", "d_equal", "d_keep", "d_report", "d_overwrite",
                   "m_added", "m_dstonly", "m_unselected", "m_equal", "m_keep", "m_report", "m_overwrite",
                   "m_ignored">>
MergeLaw(n, c, o) ==
    LET conf == Range(o.conflicts)
        um == UsesMaster(c)
    IN CASE n = "stored"       -> o.srcPre = c.src /\ o.dstPre = c.dst /\ (c.hasMaster => o.masterPre = c.master)
         [] n = "source_kept"  -> o.src = o.srcPre
         [] n = "no_invented"  -> o.extra = 0
         [] n = "d_added"      -> ClauseAdded(c, o.dstPre, o.dst)
         [] n = "d_dstonly"    -> ClauseDstOnly(c, o.dstPre, o.dst)
         [] n = "d_unselected" -> ClauseUnselected(c, o.dstPre, o.dst)
         [] n = "d_equal"      -> ClauseEqual(c, o.dstPre, o.dst)
         [] n = "d_keep"       -> ClauseKeep(c, o.dstPre, o.dst)
         [] n = "d_report"     -> ClauseReport(c, o.dstPre, conf)
         [] n = "d_overwrite"  -> ClauseOverwrite(c, o.dstPre, o.dst)
         [] n = "m_added"      -> um => ClauseAdded(c, o.masterPre, o.master)
         [] n = "m_dstonly"    -> um => ClauseDstOnly(c, o.masterPre, o.master)
         [] n = "m_unselected" -> um => ClauseUnselected(c, o.masterPre, o.master)
         [] n = "m_equal"      -> um => ClauseEqual(c, o.masterPre, o.master)
         [] n = "m_keep"       -> um => ClauseKeep(c, o.masterPre, o.master)
         [] n = "m_report"     -> um => ClauseReport(c, o.masterPre, conf)
         [] n = "m_overwrite"  -> um => ClauseOverwrite(c, o.masterPre, o.master)
         [] n = "m_ignored"    -> (c.hasMaster /\ c.ignoreMaster) => o.master = o.masterPre

StoreLawNames == <<"roundtrip">>
StoreLaw(n, c, o) == o.back = Load(Store(c.d)) /\ o.extra = 0

Failed(c, o) == IF c.kind = "merge" THEN {n \in Range(MergeLawNames) : ~MergeLaw(n, c, o)}
                ELSE {n \in Range(StoreLawNames) : ~StoreLaw(n, c, o)}

(* ---- what the specification says the outcome is (same shape as an observation) *)
SpecOut(c) ==
    IF c.kind = "merge"
    THEN LET m == MergeTo(c) IN
         [srcPre |-> c.src, dstPre |-> c.dst, masterPre |-> c.master,
          src |-> m.src, dst |-> m.dst, master |-> m.master, updates |-> m.updates,
          conflicts |-> SetToSeq(m.conflicts), extra |-> 0]
    ELSE [back |-> c.d, extra |-> 0]

\* conformance of an observation with the specified outcome (conflicts compared as a set)
Conforms(c, o) ==
    IF c.kind = "merge"
    THEN LET s == SpecOut(c) IN
         /\ o.dst = s.dst /\ o.src = s.src /\ (c.hasMaster => o.master = s.master)
         /\ o.updates = s.updates /\ Range(o.conflicts) = Range(s.conflicts)
    ELSE o.back = c.d /\ o.extra = 0
=============================================================================
