----------------------------- MODULE UncommitGen -----------------------------
(* E1 + E2 for C16: every graph with MinRev..MaxRev revisions (<= MaxPar ordered parents, <= 3 heads), every working tree
   on it (tip = one head, pending merges = the other heads in any order), standalone and bound, with every revision
   tagged (tag "<r>" on r, a second tag "u" on the tip, tag "g" on the absent revision 99; bound also untagged), and
   the behaviours
       Uncommit(n, keep)              n in 1..min(MaxN, revno), keep in BOOLEAN; also with tree=None; bound: also refused
                                      by the master
       Commit . Uncommit(1, keep)
   One initial state per graph, its cases as successor states (TLC's workers share the law evaluation).  TLC checks the
   laws of C16 on the transcription for every case and exports for replay the cases with Key % Stride = Offset of the
   graphs with GraphKey % GStride = Offset % GStride.  OneRoot: only revision 1 is a root (connected histories). *)
EXTENDS Uncommit, TLC, Json, IOUtils, SequencesExt
CONSTANTS MinRev, MaxRev, MaxPar, MaxN, OneRoot, GStride, Stride, Offset

ParentLists(k) ==
    (IF OneRoot /\ k > 1 THEN {} ELSE {<<>>}) \cup UNION {{<<l>> \o rest : rest \in DistinctSeqs((1..(k - 1)) \ {l}, MaxPar - 1)} : l \in 1..(k - 1)}
RECURSIVE GraphsOf(_)
GraphsOf(n) == IF n = 0 THEN {<<>>} ELSE {Append(P, ps) : P \in GraphsOf(n - 1), ps \in ParentLists(n)}
GHeads(P) == DOMAIN P \ UNION {ParentSet(P, r) : r \in DOMAIN P}
Graphs == {Q \in UNION {GraphsOf(m) : m \in MinRev..MaxRev} : Cardinality(GHeads(Q)) <= 3}
TreesOf(P) == LET H == GHeads(P)
              IN UNION {{<<t>> \o q : q \in {x \in DistinctSeqs(H \ {t}, 2) : Len(x) = Cardinality(H) - 1}} : t \in H}
TagsOf(P, tip) == [i \in 1..(Len(P) + 2) |->
                     IF i <= Len(P) THEN [name |-> ToString(i), rev |-> i]
                     ELSE IF i = Len(P) + 1 THEN [name |-> "u", rev |-> tip] ELSE [name |-> "g", rev |-> 99]]
MaxNOf(P, tip) == IF Len(LH(P, tip)) < MaxN THEN Len(LH(P, tip)) ELSE MaxN
ActsOf(P, tip, b) == {<<ActUncommit(n, k)>> : n \in 1..MaxNOf(P, tip), k \in BOOLEAN}
                     \cup {<<ActUncommitNoTree(n, k)>> : n \in 1..MaxNOf(P, tip), k \in BOOLEAN}
                     \cup (IF b THEN {<<ActUncommitRefused(n, FALSE)>> : n \in 1..MaxNOf(P, tip)} ELSE {})
                     \cup {<<ActCommit, ActUncommit(1, k)>> : k \in BOOLEAN}
\* bound cases also without any tag (a bound uncommit that has tags to drop is a known finding: see harness)
Case(P, w, b, tg, acts) == [P |-> P, tip |-> w[1], revno |-> Len(LH(P, w[1])), wtp |-> w,
                            tags |-> IF tg THEN TagsOf(P, w[1]) ELSE <<>>, bound |-> b, acts |-> acts]
CasesOf(P) == IF P = <<>> THEN {[P |-> P, tip |-> Null, revno |-> 0, wtp |-> <<>>, tags |-> <<>>, bound |-> b,
                                 acts |-> <<ActCommit, ActUncommit(1, k)>>] : b \in BOOLEAN, k \in BOOLEAN}
              ELSE UNION {UNION {{Case(P, w, x[1], x[2], acts) : acts \in ActsOf(P, w[1], x[1])}
                                 : x \in {<<FALSE, TRUE>>, <<TRUE, TRUE>>, <<TRUE, FALSE>>}} : w \in TreesOf(P)}

TagSet(seq) == {<<seq[i].name, seq[i].rev>> : i \in DOMAIN seq}
S0(x) == St(x.P, x.tip, x.revno, x.wtp, TagSet(x.tags), IF x.bound THEN x.tip ELSE 0, IF x.bound THEN x.revno ELSE 0)
SpecRun(x) == Run(S0(x), x.bound, x.acts)

VARIABLE c
Init == c \in {[P |-> P, tip |-> -1] : P \in Graphs}
Next == c.tip = -1 /\ c' \in CasesOf(c.P)
IsCase == c.tip # -1
LawsHoldOnSpec == IsCase => LET r == SpecRun(c)
                            IN /\ \A i \in DOMAIN c.acts : Enabled(r[i], c.acts[i])
                               /\ BehaviourFailed([i \in DOMAIN r |-> r[i].P], c.bound, c.acts, [i \in DOMAIN r |-> AsObs(r[i])]) = {}
\* anti-vacuity, evaluated by TLC at start-up: concrete cases with the documented answers, members of the case space
\* whenever the bounds admit their graph
InSpace(x) == (Len(x.P) \in MinRev..MaxRev /\ (~OneRoot \/ \A r \in 2..Len(x.P) : x.P[r] # <<>>)) =>
              (x.P \in Graphs /\ x \in CasesOf(x.P))
Final(x) == LET r == SpecRun(x) IN r[Len(r)]
ExTwiceMergedSide ==           \* side 2 - 4 merged twice (by 3 and by 5): re-recorded once, by its later revision
    LET P == <<<<>>, <<1>>, <<1, 2>>, <<2>>, <<3, 4>>>>
        x == Case(P, <<5>>, FALSE, TRUE, <<ActUncommit(2, FALSE)>>)
        f == Final(x)
    IN InSpace(x) /\ f.tip = 1 /\ f.revno = 1 /\ f.wtp = <<1, 4>>
       /\ {t[1] : t \in f.tags} = {"1", "2", "4", "g"}
ExUncommitAllWithMerges ==     \* null new tip: the list is the pending list, its first entry is not head-filtered
    LET P == <<<<>>, <<>>, <<2>>, <<1, 2>>, <<4, 3>>>>
        x == Case(P, <<5>>, TRUE, FALSE, <<ActUncommit(3, TRUE)>>)
        f == Final(x)
    IN InSpace(x) /\ f.tip = Null /\ f.revno = 0 /\ f.wtp = <<2, 3>> /\ f.mtip = Null /\ f.mrevno = 0
ExTagKeptOnMerged ==           \* the tag on the merged side revision survives: it is pending again
    LET P == <<<<>>, <<1>>, <<1, 2>>>>
        x == Case(P, <<3>>, FALSE, TRUE, <<ActUncommit(1, FALSE)>>)
        f == Final(x)
    IN InSpace(x) /\ f.wtp = <<1, 2>> /\ {t[1] : t \in f.tags} = {"1", "2", "g"}
ExOctopus ==
    LET P == <<<<>>, <<>>, <<>>>>
        x == Case(P, <<1, 2, 3>>, TRUE, TRUE, <<ActCommit, ActUncommit(1, FALSE)>>)
        r == SpecRun(x)
    IN InSpace(x) /\ r[2].P[4] = <<1, 2, 3>> /\ r[2].mtip = 4 /\ r[3].wtp = <<1, 2, 3>> /\ r[3].mtip = 1 /\ r[3].tags = r[1].tags
ExNoTree ==                    \* tree=None: the merged side revision 2 is not re-recorded, so its tag goes too
    LET P == <<<<>>, <<1>>, <<1, 2>>>>
        x == Case(P, <<3>>, FALSE, TRUE, <<ActUncommitNoTree(1, FALSE)>>)
        f == Final(x)
    IN InSpace(x) /\ f.tip = 1 /\ f.wtp = <<3>> /\ {t[1] : t \in f.tags} = {"1", "g"}
ExRefused ==
    LET P == <<<<>>, <<1>>>>
        x == Case(P, <<2>>, TRUE, FALSE, <<ActUncommitRefused(1, FALSE)>>)
    IN InSpace(x) /\ Final(x) = S0(x)
ASSUME ExTwiceMergedSide /\ ExUncommitAllWithMerges /\ ExTagKeptOnMerged /\ ExOctopus /\ ExNoTree /\ ExRefused

\* cheap deterministic sampling key (no sorting of the whole case space)
RECURSIVE SumSeq(_, _)
SumSeq(q, i) == IF i > Len(q) THEN 0 ELSE q[i] * (2 * i + 1) + SumSeq(q, i + 1)
RECURSIVE GraphKey(_, _)
GraphKey(P, r) == IF r > Len(P) THEN 0 ELSE (r * r + 1) * (1 + SumSeq(P[r], 1)) + GraphKey(P, r + 1)
Key(x) == (GraphKey(x.P, 1) \div GStride) + 7 * SumSeq(x.wtp, 1) + (IF x.bound THEN 5 ELSE 0) + 11 * Len(x.acts)
          + 13 * x.acts[Len(x.acts)].n + (IF x.acts[Len(x.acts)].keep THEN 3 ELSE 0) + Len(x.tags)
          + (IF x.acts[Len(x.acts)].tree THEN 0 ELSE 17) + (IF x.acts[Len(x.acts)].refuse THEN 19 ELSE 0)
\* two levels, so that the (single-threaded) export never builds the whole case space
Sampled == UNION {{x \in CasesOf(P) : Key(x) % Stride = Offset} : P \in {Q \in Graphs : GraphKey(Q, 1) % GStride = Offset % GStride}}
Export == JsonSerialize(IOEnv.VF_OUT, SetToSeq({[c |-> x] : x \in Sampled}))
ASSUME IF "VF_OUT" \in DOMAIN IOEnv THEN Export ELSE TRUE
=============================================================================
