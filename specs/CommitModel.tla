---------------------------- MODULE CommitModel ----------------------------
(* Commit of a (selected part of a) working tree - property C01.
   breezy/commit.py Commit.commit: iter_changes(basis, specific_files) -> filter_excluded -> _filter_iter_changes ->
   CommitBuilder.record_iter_changes -> finish_inventory -> builder.commit -> tip write -> update_basis_by_delta.

   A TREE is a function  FileId -> [parent, name, kind, exec, content]  on the versioned ids (the root directory "R" is
   implicit and never changes); content is a model value ("x" / "y"; a symlink's target; "-" for directories).
   A WORKING TREE is a tree (what is versioned, with the state found on disk) plus `missing`: versioned ids whose file
   is absent on disk (commit records those as deleted and unversions them).

   The module has three layers:
     * pure operators: ValidTree, PathOf, Selected, ExpectedCommitTree, EditSucc (the edit relation);
     * the property's LAWS as operators on an observed commit (c = input, o = what the real code did), so the same
       text judges the specification (CommitModelGen) and the implementation (CommitModelTrace);
     * the state machine (edits, commit, refused commit, failing commit) is CommitModelMC.tla. *)
EXTENDS Naturals, Sequences, FiniteSets, TLC

Root == "R"
Dash == "-"
Rng(s) == {s[k] : k \in DOMAIN s}

(* ------------------------------------------------------------------ trees *)
RECURSIVE AncN(_, _, _)
AncN(t, i, n) == IF n = 0 \/ i \notin DOMAIN t \/ t[i].parent \notin DOMAIN t THEN {}
                 ELSE {t[i].parent} \cup AncN(t, t[i].parent, n - 1)
Anc(t, i) == AncN(t, i, Cardinality(DOMAIN t))             \* proper ancestors (ids; the root is not an id)
Desc(t, i) == {j \in DOMAIN t : i \in Anc(t, j)}            \* proper descendants
RECURSIVE PathN(_, _, _)
PathN(t, i, n) == IF n = 0 \/ i \notin DOMAIN t THEN <<>> ELSE Append(PathN(t, t[i].parent, n - 1), t[i].name)
PathOf(t, i) == PathN(t, i, Cardinality(DOMAIN t))          \* sequence of names, root first
PrefixOf(q, p) == Len(q) <= Len(p) /\ SubSeq(p, 1, Len(q)) = q
InsideAny(P, p) == \E q \in P : PrefixOf(q, p)               \* osutils.is_inside_any
RestrictTo(t, S) == [i \in S |-> t[i]]

ValidTree(t) ==
    /\ \A i \in DOMAIN t : t[i].parent = Root \/ (t[i].parent \in DOMAIN t /\ t[t[i].parent].kind = "directory")
    /\ \A i, j \in DOMAIN t : (i # j) => <<t[i].parent, t[i].name>> # <<t[j].parent, t[j].name>>
    /\ \A i \in DOMAIN t : i \notin Anc(t, i)
    /\ \A i \in DOMAIN t : /\ t[i].kind \in {"file", "directory", "symlink"}
                           /\ (t[i].kind # "file" => ~t[i].exec)
                           /\ (t[i].kind = "directory") = (t[i].content = Dash)

(* ------------------------------------------------------------------ edits (the reachable working-tree states)
   An edit is a record [op, id, parent, name, kind]; EditSucc gives every enabled edit with the state it leads to.
   Only ids that the basis never had can be added; rename targets are the entry's own name or the spare name "d2" -
   chosen so that one name is a plain string prefix of a sibling's ("d" / "d2", "c/d" / "c/d2"): selecting or excluding the
   directory must not touch the sibling. *)
Ed(op, i, p, n, k) == [op |-> op, id |-> i, parent |-> p, name |-> n, kind |-> k]
Flip(c) == IF c = "x" THEN "y" ELSE "x"
Present(w, m) == DOMAIN w \ m
Dirs(w, m) == {Root} \cup {p \in Present(w, m) : w[p].kind = "directory"}
Used(w) == {<<w[i].parent, w[i].name>> : i \in DOMAIN w}
\* a directory whose versioned kind is still a file (kind changed on disk, not yet committed) cannot be a rename target
InvDirOk(b, w, p) == p = Root \/ \A q \in {p} \cup Anc(w, p) : ~(q \in DOMAIN b /\ b[q].kind # "directory")
NewEntry(p, n, k) == [parent |-> p, name |-> n, kind |-> k, exec |-> FALSE, content |-> IF k = "directory" THEN Dash ELSE "x"]

EditSucc(Ids, b, w, m) ==
    LET St(e, w2, m2) == [e |-> e, w |-> w2, m |-> m2]
        adds == {St(Ed("add", i, p, i, k), [j \in DOMAIN w \cup {i} |-> IF j = i THEN NewEntry(p, i, k) ELSE w[j]], m) :
                    i \in Ids \ (DOMAIN w \cup DOMAIN b), p \in Dirs(w, m), k \in {"file", "directory", "symlink"}}
        removes == {St(Ed("remove", i, Dash, Dash, Dash), RestrictTo(w, DOMAIN w \ ({i} \cup Desc(w, i))), m \ ({i} \cup Desc(w, i))) :
                    i \in DOMAIN w}
        deletes == {St(Ed("delete", i, Dash, Dash, Dash), w, m \cup {i} \cup Desc(w, i)) : i \in Present(w, m)}
        renames == UNION {{St(Ed("rename", i, p, n, Dash), [w EXCEPT ![i].parent = p, ![i].name = n], m) :
                             p \in {q \in Dirs(w, m) \ ({i} \cup Desc(w, i)) : InvDirOk(b, w, q)},
                             n \in {w[i].name, "d2"}} : i \in Present(w, m)}
        modifies == {St(Ed("modify", i, Dash, Dash, Dash), [w EXCEPT ![i].content = Flip(@)], m) :
                        i \in {j \in Present(w, m) : w[j].kind \in {"file", "symlink"}}}
        chmods == {St(Ed("chmod", i, Dash, Dash, Dash), [w EXCEPT ![i].exec = ~@], m) :
                        i \in {j \in Present(w, m) : w[j].kind = "file"}}
        kinds == UNION {{St(Ed("kind", i, Dash, Dash, k), [w EXCEPT ![i] = NewEntry(w[i].parent, w[i].name, k)], m) :
                           k \in CASE w[i].kind = "file" -> {"symlink", "directory"}
                                   [] w[i].kind = "symlink" -> {"file"}
                                   [] OTHER -> IF Desc(w, i) = {} THEN {"file"} ELSE {}} : i \in Present(w, m)}
    IN {s \in adds \cup removes \cup deletes \cup renames \cup modifies \cup chmods \cup kinds :
            /\ Cardinality(Used(s.w)) = Cardinality(DOMAIN s.w)       \* no two entries with the same (parent, name)
            /\ (s.w # w \/ s.m # m)}                                  \* no identity rename

(* ------------------------------------------------------------------ selection
   sel = [all |-> BOOLEAN, paths |-> set of paths] (all = no specific_files given); excl = set of paths.
   Selected is defined on file ids (DESIGN.md C01):
     seed  : ids whose basis OR working path lies inside a selected path;
     (i)   : closed under descendants (in the basis tree and in the working tree);
     (ii)  : plus every CHANGED working-tree ancestor of a changed selected entry (a new, moved, kind-changed or
             missing parent directory: what the entry needs to exist; the rule iter_changes(specific_files=) implements);
     (iii) : when such an ancestor is no longer a directory (missing, or its kind changed), everything the basis has
             below it goes with it;
     minus : ids whose basis OR working path lies inside an excluded path (commit.filter_excluded). *)
AllIds(b, w) == DOMAIN b \cup DOMAIN w
Pending(b, w, m, i) == \/ (i \in DOMAIN b) # (i \in DOMAIN w)
                       \/ i \in m
                       \/ (i \in DOMAIN b /\ i \in DOMAIN w /\ b[i] # w[i])
PathsOf(b, w, i) == (IF i \in DOMAIN b THEN {PathOf(b, i)} ELSE {}) \cup (IF i \in DOMAIN w THEN {PathOf(w, i)} ELSE {})
AllPaths(b, w) == UNION {PathsOf(b, w, i) : i \in AllIds(b, w)}
\* the ids a path p denotes: those whose basis or working path lies inside p
IdsInside(b, w, p) == {i \in AllIds(b, w) : \E q \in PathsOf(b, w, i) : PrefixOf(p, q)}
\* everything the selection rule needs to know about (basis, working tree), computed once per state
Info(b, w, m) ==
    [ids    |-> AllIds(b, w),
     inside |-> [p \in AllPaths(b, w) |-> IdsInside(b, w, p)],
     down   |-> [i \in AllIds(b, w) |-> (IF i \in DOMAIN b THEN Desc(b, i) ELSE {}) \cup (IF i \in DOMAIN w THEN Desc(w, i) ELSE {})],
     up     |-> [i \in AllIds(b, w) |-> IF i \in DOMAIN w /\ Pending(b, w, m, i)
                                         THEN {p \in Anc(w, i) : Pending(b, w, m, p)} ELSE {}],
     \* (iii): basis descendants of an id that stopped being a directory
     orphans |-> [i \in AllIds(b, w) |-> IF i \in DOMAIN b /\ i \in DOMAIN w /\ (i \in m \/ w[i].kind # "directory")
                                            THEN Desc(b, i) ELSE {}],
     b |-> b, w |-> w]
Inside(I, p) == IF p \in DOMAIN I.inside THEN I.inside[p] ELSE IdsInside(I.b, I.w, p)
Seed(I, sel) == IF sel.all THEN I.ids ELSE UNION {Inside(I, p) : p \in sel.paths}
Down(I, S) == S \cup UNION {I.down[i] : i \in S}
Up(I, S) == UNION {S \cup T \cup UNION {I.orphans[p] : p \in T} : T \in {UNION {I.up[i] : i \in S} \ S}}
Excluded(I, excl) == UNION {Inside(I, p) : p \in excl}
SelectedI(I, sel, excl) == Up(I, Down(I, Seed(I, sel))) \ Excluded(I, excl)
Selected(b, w, m, sel, excl) == SelectedI(Info(b, w, m), sel, excl)

\* the basis tree with the working tree's entry substituted for every selected id (absent if unversioned or missing)
ExpectedCommitTree(b, w, m, S) ==
    [i \in {j \in AllIds(b, w) : IF j \in S THEN j \in DOMAIN w /\ j \notin m ELSE j \in DOMAIN b} |->
        IF i \in S THEN w[i] ELSE b[i]]
\* the working tree after the commit: unchanged, except that selected missing entries are unversioned - and with a
\* missing directory everything versioned below it (necessarily missing too; WorkingTree.unversion is recursive)
Gone(w, m, S) == (S \cap m) \cup UNION {Desc(w, i) : i \in S \cap m}
WtAfter(w, m, S) == RestrictTo(w, DOMAIN w \ Gone(w, m, S))
MissAfter(w, m, S) == m \ Gone(w, m, S)
(* When the specification's Commit does not produce a revision (the state is then unchanged):
     Refused     Commit.commit's own preconditions: conflicts; a selected-file commit of a pending merge; a specific file
                 (or the other-tree path of an entry it selects) below something that is not a directory in the working
                 tree (the lookup fails);
     ~Feasible   the selection does not denote a commit that can satisfy C01: the result would not be a tree (an unselected
                 entry would lose its parent directory or collide with a selected one), a changed selected entry would be
                 recorded at another path than the working tree's (its moved parent directory is not selected), or an
                 unselected pending change would silently disappear (an added entry below a missing directory that is
                 committed as deleted). *)
\* the paths a selected-file commit looks up: the minimal specific files, and the other-tree paths of the ids inside them
LookedUp(c) == {p \in c.sel.paths : ~\E q \in c.sel.paths \ {p} : PrefixOf(q, p)}
               \cup {p \in UNION {PathsOf(c.b, c.w, i) : i \in UNION {IdsInside(c.b, c.w, q) : q \in c.sel.paths}} : ~InsideAny(c.sel.paths, p)}
BelowNonDir(c) == \E p \in LookedUp(c) : \E i \in DOMAIN c.w \ c.m :
                      c.w[i].kind # "directory" /\ PathOf(c.w, i) # p /\ PrefixOf(PathOf(c.w, i), p)
Refused(c) == c.conflicts \/ (c.merge /\ ~(c.sel.all /\ c.excl = {})) \/ BelowNonDir(c)
FeasibleS(b, w, m, S) ==
    \E exp \in {ExpectedCommitTree(b, w, m, S)} : \E w2 \in {WtAfter(w, m, S)} : \E m2 \in {MissAfter(w, m, S)} :
        /\ ValidTree(exp)
        /\ \A i \in S \cap DOMAIN exp : Pending(b, w, m, i) => PathOf(exp, i) = PathOf(w, i)
        /\ \A i \in AllIds(b, w) \ S : Pending(b, w, m, i) => Pending(exp, w2, m2, i)
Feasible(c) == FeasibleS(c.b, c.w, c.m, Selected(c.b, c.w, c.m, c.sel, c.excl))
SpecOutcome(c) == IF Refused(c) \/ ~Feasible(c) \/ c.fault # "none" THEN "raised" ELSE "ok"

(* ------------------------------------------------------------------ the laws of C01 on an observed commit
   c : [b, w, m, sel, excl, merge, conflicts, fault]   the input (trees as above; fault = "none" or the injected failure)
   o : [outcome ("ok" | "raised"), tipMoved, revsAdded, tree, changed, w2, m2]
       tree = projection of revision_tree(new tip); changed = ids WorkingTree.iter_changes(new basis) reports;
       w2, m2 = the working tree afterwards. *)
SelOf(c) == Selected(c.b, c.w, c.m, c.sel, c.excl)
\* (laws take the selected ids S as a value, so that TLC computes them once per commit)
\* the new revision's tree = basis with the selected entries substituted, and nothing else
LawTree(c, S, o) == o.outcome = "ok" => o.tree = ExpectedCommitTree(c.b, c.w, c.m, S)
\* exactly one new revision, and it is the tip
LawAdvance(c, S, o) == o.outcome = "ok" => (o.tipMoved /\ o.revsAdded = 1)
\* the working tree reports no changes for the selected ids
LawSelectedClean(c, S, o) == o.outcome = "ok" => (o.changed \cap S = {})
\* unselected pending changes remain pending, and the working tree itself is what it was
LawPendingRemain(c, S, o) == o.outcome = "ok" =>
    /\ \A i \in AllIds(c.b, c.w) \ S : Pending(c.b, c.w, c.m, i) => i \in o.changed
    /\ o.w2 = WtAfter(c.w, c.m, S) /\ o.m2 = MissAfter(c.w, c.m, S)
\* a commit that raises leaves the tip and the set of revisions unchanged
LawFailAtomic(c, S, o) == o.outcome = "raised" => (~o.tipMoved /\ o.revsAdded = 0)

LawNames == <<"tree", "advance", "selected-clean", "pending-remain", "fail-atomic">>
Law(n, c, S, o) == CASE n = "tree" -> LawTree(c, S, o) [] n = "advance" -> LawAdvance(c, S, o)
                     [] n = "selected-clean" -> LawSelectedClean(c, S, o) [] n = "pending-remain" -> LawPendingRemain(c, S, o)
                     [] n = "fail-atomic" -> LawFailAtomic(c, S, o)
FailedS(c, S, o) == {n \in Rng(LawNames) : ~Law(n, c, S, o)}
Failed(c, o) == UNION {FailedS(c, S, o) : S \in {SelOf(c)}}
\* what the specification's Commit / refused Commit / CommitFails produce for c when S is selected
SpecOutS(c, S) ==
    IF ~Refused(c) /\ c.fault = "none" /\ FeasibleS(c.b, c.w, c.m, S)
    THEN [outcome |-> "ok", tipMoved |-> TRUE, revsAdded |-> 1, tree |-> ExpectedCommitTree(c.b, c.w, c.m, S),
          \* what iter_changes(new basis) reports: computed from the resulting state, independently of S
          changed |-> {i \in AllIds(c.b, c.w) : Pending(ExpectedCommitTree(c.b, c.w, c.m, S), WtAfter(c.w, c.m, S), MissAfter(c.w, c.m, S), i)},
          w2 |-> WtAfter(c.w, c.m, S), m2 |-> MissAfter(c.w, c.m, S)]
    ELSE [outcome |-> "raised", tipMoved |-> FALSE, revsAdded |-> 0, tree |-> c.b, changed |-> {}, w2 |-> c.w, m2 |-> c.m]
SpecOut(c) == SpecOutS(c, SelOf(c))

(* ------------------------------------------------------------------ bounded universe: bases and selections *)
F(p, n, c) == [parent |-> p, name |-> n, kind |-> "file", exec |-> FALSE, content |-> c]
D(p, n) == [parent |-> p, name |-> n, kind |-> "directory", exec |-> FALSE, content |-> Dash]
\* B0: a, d/, d/b          B1: a (executable, "y"), c/, c/d/, c/d/b -> "x" (symlink)
Bases == [B0 |-> [i \in {"a", "b", "d"} |-> CASE i = "a" -> F(Root, "a", "x") [] i = "d" -> D(Root, "d") [] i = "b" -> F("d", "b", "x")],
          B1 |-> [i \in {"a", "b", "c", "d"} |->
                    CASE i = "a" -> [F(Root, "a", "y") EXCEPT !.exec = TRUE] [] i = "c" -> D(Root, "c") [] i = "d" -> D("c", "d")
                      [] i = "b" -> [parent |-> "d", name |-> "b", kind |-> "symlink", exec |-> FALSE, content |-> "x"]]]
SubsetsUpTo(S, n) == {T \in SUBSET S : Cardinality(T) <= n}
\* specific_files: none given (all), or 1..n of the paths P; exclude: 0..n of them
SelChoicesN(P, n) == {[all |-> TRUE, paths |-> {}]} \cup {[all |-> FALSE, paths |-> Q] : Q \in SubsetsUpTo(P, n) \ {{}}}
ExclChoicesN(P, n) == SubsetsUpTo(P, n)
=============================================================================
