-------------------------- MODULE CleanTreeTrace --------------------------
(* E3 for C46: the sets of paths that disappeared in real clean_tree() runs are judged by the laws of CleanTree; one
   state per recorded row {c, impl: {gone: [...]}}.  Rows with failed laws (verdict) or whose deletions differ from
   the expected ones (drift) are written back. *)
EXTENDS CleanTree, Json, IOUtils, SequencesExt
Rows == JsonDeserialize(IOEnv.VF_IN)
VARIABLE i
Init == i \in 1..Len(Rows)
Next == UNCHANGED i
Gone(k) == Range(Rows[k].impl.gone)
Bad == SelectSeq([k \in 1..Len(Rows) |->
                    [row |-> k, failed |-> SetToSeq(Failed(Rows[k].c, Gone(k))),
                     offending |-> SetToSeq(Gone(k) \ Deletable(Rows[k].c)),
                     drift |-> Gone(k) # SpecGone(Rows[k].c)]],
                 LAMBDA r : r.failed # <<>> \/ r.drift)
ASSUME JsonSerialize(IOEnv.VF_OUT, [n |-> Len(Rows), bad |-> Bad])
=============================================================================
