----------------------------- MODULE BundleGen -----------------------------
(* E1 + E2 for C40.  The universe is every revision graph with up to MaxRev revisions and at most MaxPar parents per
   revision (ordered parent lists, several roots allowed), in TLC's normalised order.  Every graph is one initial state on which TLC checks the set
   laws of InstallBundle and that the specified outcome satisfies the observation laws, for EVERY (base, target) with
   base \in Ancestry(target) \cup {null} in both bundle formats and for EVERY directive case (submit, target) with
   something to merge, every choice of the bundle's base among the common ancestors, and every field combination.
   The case table (with the specified revision sets) is exported for the replay: of all graphs, or of the members the
   harness names by index (VF_IDX, a JSON list drawn from its seeded generator). *)
EXTENDS Bundle, Json, IOUtils, SequencesExt
CONSTANTS MaxRev, MaxPar
Universe == SetToSeq(DagsUpTo(MaxRev, MaxPar))
Picked == IF "VF_IDX" \in DOMAIN IOEnv THEN JsonDeserialize(IOEnv.VF_IDX) ELSE [i \in 1..Len(Universe) |-> i]

BPairs(P) == {<<b, t>> \in (DOMAIN P \cup {Null}) \X (DOMAIN P) : b # t /\ (b = Null \/ b \in Ancestry(P, t))}
MPairs(P) == {<<s, t>> \in (DOMAIN P) \X (DOMAIN P) : t \notin Ancestry(P, s)}
BCase(P, x, f) == [P |-> P, base |-> x[1], target |-> x[2], fmt |-> f]
MCase(P, x, m) == [P |-> P, submit |-> x[1], target |-> x[2], md |-> m, merge |-> TRUE]

FullCombo == [msg |-> TRUE, patch |-> TRUE, bundle |-> TRUE, src |-> FALSE]
(* the set laws of the channel, on the specification itself *)
SetLaws(P) ==
    \A x \in BPairs(P) :
        LET before == AncOf(P, x[1])
            repo == Holding(P, before)
            after == InstallBundle(P, Source(P), repo, x[1], x[2])
        IN /\ InstallPre(P, repo, x[1])
           /\ Carried(P, x[1], x[2]) \cap before = {}
           /\ DOMAIN after = Ancestry(P, x[2]) /\ AncestryClosed(P, DOMAIN after)
           /\ \A r \in DOMAIN after : after[r] = Source(P)[r]                    \* carried and kept records unchanged
           /\ x[2] \in Carried(P, x[1], x[2])
MdSetLaws(P) ==
    \A x \in MPairs(P) : \A b \in CommonAncestors(P, x[1], x[2]) \cup {Null} :
        LET c == MCase(P, x, FullCombo)
        IN /\ InstallPre(P, Holding(P, AncOf(P, x[1])), b)
           /\ MdSpecAfter(c, b) = AncOf(P, x[1]) \cup AncOf(P, x[2])
           /\ AncestryClosed(P, MdSpecAfter(c, b))
           /\ x[2] \in Carried(P, b, x[2])
MdSpecObs(c, b) ==
    [present |-> c.md, same |-> SetToSeq(MdFields), verify |-> IF c.md.patch THEN "verified" ELSE "inapplicable",
     patchTamper |-> <<"failed">>, bundleTamper |-> <<[section |-> "x", outcome |-> "rejected"]>>,
     written |-> IF c.md.bundle THEN SetToSeq(Carried(c.P, b, c.target)) ELSE <<>>,
     before |-> SetToSeq(AncOf(c.P, c.submit)), after |-> SetToSeq(MdSpecAfter(c, b)),
     mergeBundle |-> "m", mergeBranch |-> "m"]

VARIABLE c
Init == c \in 1..Len(Universe)
Next == UNCHANGED c
LawsHoldOnSpec ==
    LET P == Universe[c]
    IN /\ WellFormed(P) /\ SetLaws(P) /\ MdSetLaws(P)
       /\ \A x \in BPairs(P), f \in BundleFormats :
              BundleFailed(BCase(P, x, f), BundleSpecObs(BCase(P, x, f), SetToSeq)) = {}
       /\ \A x \in MPairs(P) : \A b \in CommonAncestors(P, x[1], x[2]) \cup {Null} :
              MdFailed(MCase(P, x, FullCombo), MdSpecObs(MCase(P, x, FullCombo), b)) = {}
       /\ MPairs(P) # {} => LET x == CHOOSE y \in MPairs(P) : TRUE        \* the field laws do not depend on the graph
                             IN \A m \in MdCombos : MdFailed(MCase(P, x, m), MdSpecObs(MCase(P, x, m), Null)) = {}
\* anti-vacuity witnesses: TLC must find these graphs
WitnessMergeCarried == ~ \E x \in BPairs(Universe[c]) :
                            /\ x[1] # Null /\ Carried(Universe[c], x[1], x[2]) # Ancestry(Universe[c], x[2])
                            /\ \E r \in Carried(Universe[c], x[1], x[2]) : IsMerge(Universe[c], r) /\ r # x[2]
WitnessCrissCross == ~ \E x \in MPairs(Universe[c]) : Cardinality(LCAs(Universe[c], x[1], x[2])) > 1
WitnessDiverged == ~ \E x \in MPairs(Universe[c]) :
                        x[1] \notin Ancestry(Universe[c], x[2]) /\ Related(Universe[c], x[1], x[2])
HistOut(i) ==
    LET P == Universe[i]
    IN [idx |-> i, P |-> P,
        bcases |-> SetToSeq({[base |-> x[1], target |-> x[2], written |-> SetToSeq(Carried(P, x[1], x[2])),
                              after |-> SetToSeq(Ancestry(P, x[2]))] : x \in BPairs(P)}),
        mcases |-> SetToSeq({[submit |-> x[1], target |-> x[2], after |-> SetToSeq(AncOf(P, x[1]) \cup AncOf(P, x[2])),
                              lcas |-> SetToSeq(LCAs(P, x[1], x[2]))] : x \in MPairs(P)})]
Export == JsonSerialize(IOEnv.VF_OUT, [n |-> Len(Universe), formats |-> SetToSeq(BundleFormats),
                                       combos |-> SetToSeq(MdCombos), hist |-> [k \in DOMAIN Picked |-> HistOut(Picked[k])]])
ASSUME IF "VF_OUT" \in DOMAIN IOEnv THEN Export ELSE TRUE
=============================================================================
