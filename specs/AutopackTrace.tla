--------------------------- MODULE AutopackTrace ---------------------------
(* E3 for C07: outcomes recorded from the real pack_distribution / _max_pack_count / plan_autopack_combinations /
   _do_autopack (stub packs for the case table, real packs of a real 2a repository for end-to-end rows) are judged
   by the laws of Autopack; rows with failed laws (verdict) or differing from the transcription (drift) are
   written back as JSON. *)
EXTENDS Autopack, TLC, Json, IOUtils, SequencesExt
Rows == JsonDeserialize(IOEnv.VF_IN)
VARIABLE i
Init == i \in 1..Len(Rows)
Next == UNCHANGED i
Bad == SelectSeq([k \in 1..Len(Rows) |->
                    [row |-> k, failed |-> SetToSeq(Failed(Rows[k].c, Rows[k].impl)),
                     drift |-> ~Conforms(Rows[k].c, Rows[k].impl)]],
                 LAMBDA r : r.failed # <<>> \/ r.drift)
ASSUME JsonSerialize(IOEnv.VF_OUT, [n |-> Len(Rows), bad |-> Bad])
=============================================================================
