---------------------------- MODULE BundleTrace ----------------------------
(* E3 for C40: observations recorded from real bundle writes / installs and merge-directive round trips / merges are
   judged by the laws of Bundle.tla, one row per execution:  row.kind \in {"bundle", "md"},  row.c the case as exported
   by BundleGen (with P read back from the real source repository),  row.impl the observation.  failed = the laws of C40
   that do not hold on the observation. *)
EXTENDS Bundle, Json, IOUtils, SequencesExt
Rows == JsonDeserialize(IOEnv.VF_IN)
VARIABLE i
Init == i \in 1..Len(Rows)
Next == UNCHANGED i
FailedOf(r) == IF r.kind = "bundle" THEN BundleFailed(r.c, r.impl) ELSE MdFailed(r.c, r.impl)
Bad == SelectSeq([k \in 1..Len(Rows) |-> [row |-> k, failed |-> SetToSeq(FailedOf(Rows[k])), drift |-> FALSE]],
                 LAMBDA r : r.failed # <<>>)
ASSUME JsonSerialize(IOEnv.VF_OUT, [n |-> Len(Rows), bad |-> Bad])
=============================================================================
