"""C11 — adding files versions exactly the intended paths."""
import os
import shutil

from vf import env, tlc, table, core

META = dict(
    property_id="C11", level="model_checking", design_ref="DESIGN.md §4 C11",
    technique="TLA+ statement of the expected additions of smart_add (declarative) proved equal by TLC to a transcription "
              "of the code's directory walk on every enumerated case; the TLC case table (layouts x ignore lists x "
              "conflicts x pre-versioned sets x argument sets x recurse) executed through the real smart_add on real "
              "bzr and git working trees; the recorded versioned sets judged by TLC with the same law",
    level_text="The input space that matters (which paths exist, which ignore patterns apply, which paths are named, "
               "nested control directories, conflict helpers, what is already versioned) is finite and small once "
               "names are fixed, and smart_add only looks at names, kinds and the ignore rules, so complete "
               "enumeration over a representative namespace is the right level: thorough executes every case, quick "
               "a seeded sample.",
    level_note="Ignore matching is tabulated in the spec for the 4 patterns x 11 paths used (the glob engine itself "
               "is property C48's); user-wide ignore defaults are emptied. Names with CR/LF, unversionable kinds "
               "(fifo, socket), symlinked directories, unsupported nested formats and case-insensitive file systems "
               "are outside the model. Trusted: TLC, the JSON bridge, the set-up code of this harness.",
)

PATS = ["*.o", "d", "./d/f", "!g.o"]
CTL = {"bzr": ".bzr", "git": ".git"}
IGN = {"bzr": ".bzrignore", "git": ".gitignore"}
FMT = {"bzr": "2a", "git": "git"}
WITNESSES = {"bzr": {"NamedIgnored", "NestedSkipped", "HelperSkipped", "HelperAddedWithoutConflict", "VersionedOverridesIgnore",
                     "IgnoredDirSkipped"},
             "git": {"NamedIgnored", "NestedSkipped", "HelperSkipped", "HelperAddedWithoutConflict", "IgnoredDirSkipped"}}


def tla_sets(sets):
    return "{%s}" % ", ".join("{%s}" % ", ".join('"%s"' % p for p in s) for s in sets)


def consts(fl, ignsets, laysel=(), maxargs=2):
    return {"Flavour": '"%s"' % fl, "MaxArgs": maxargs, "IgnSets": tla_sets(ignsets), "LaySel": tla_sets(laysel)}


ITEMS = ["f", "g.o", "d", "d/f", "d/g.o", "d/@", "n", "n/@", "f.THIS", "f.OTHER"]
FULL = ["f", "g.o", "d", "d/f", "d/g.o", "n", "n/@", "f.THIS", "f.OTHER"]      # every witness occurs on this layout


def all_layouts():
    """The layouts of SmartAddGen!AllLayouts (for seeding the quick tier's selection)."""
    out = []
    for m in range(1 << len(ITEMS)):
        L = [p for i, p in enumerate(ITEMS) if m >> i & 1]
        if all("/" not in p or p.split("/")[0] in L for p in L) and (("f.THIS" in L) == ("f.OTHER" in L)):
            out.append(L)
    return out


_cfg_n = [0]


def cfg_file(ctx, text):
    """Write a cfg into the staged specs directory under a name of our own (vf.tlc derives names from the directory
    listing, which races between threads)."""
    d = tlc.stage(ctx.workdir)
    _cfg_n[0] += 1
    name = "C11_%d.cfg" % _cfg_n[0]
    with open(os.path.join(d, name), "w") as f:
        f.write(text)
    return name


def parallel(fn, argsets, width):
    """Several TLC runs side by side (enumerating initial states and exporting JSON is single-threaded in TLC)."""
    from concurrent.futures import ThreadPoolExecutor
    with ThreadPoolExecutor(max(1, width)) as ex:
        return list(ex.map(lambda a: fn(*a), argsets))


def concrete(fl, nested, p):
    if p == "@ign":
        return IGN[fl]
    if p.endswith("/@"):
        return p[:-1] + CTL[nested]
    return p


class Tree:
    """One reusable tree per (worker, flavour); reset between cases by restoring the pristine tree-state files."""

    def __init__(self, workdir, fl):
        from breezy import controldir
        self.fl = fl
        self.root = os.path.join(workdir, "tree-" + fl)
        controldir.ControlDir.create_standalone_workingtree(
            self.root, format=controldir.format_registry.make_controldir(FMT[fl]))
        # what smart_add / add / add_conflicts write: bzr .bzr/checkout/{dirstate,conflicts,...}, git .git/index
        self.state = os.path.join(self.root, ".bzr", "checkout") if fl == "bzr" else os.path.join(self.root, ".git")
        self.pristine = {n: open(os.path.join(self.state, n), "rb").read() for n in self.state_files()}

    def state_files(self):
        if self.fl == "git":
            return [n for n in ("index",) if os.path.exists(os.path.join(self.state, n))]
        return [n for n in os.listdir(self.state) if os.path.isfile(os.path.join(self.state, n))]

    def reset(self):
        for n in os.listdir(self.root):
            p = os.path.join(self.root, n)
            if n == CTL[self.fl]:
                continue
            if os.path.isdir(p) and not os.path.islink(p):
                shutil.rmtree(p)
            else:
                os.unlink(p)
        for n in self.state_files():
            if n not in self.pristine:
                os.unlink(os.path.join(self.state, n))
        for n, data in self.pristine.items():
            with open(os.path.join(self.state, n), "wb") as f:
                f.write(data)

    def open(self):
        from breezy.workingtree import WorkingTree
        return WorkingTree.open(self.root)

    def build(self, c, nested):
        for p in sorted(c["lay"], key=len):
            q = os.path.join(self.root, concrete(self.fl, nested, p))
            if p == "@ign":
                lines = [("/" + x[2:] if self.fl == "git" and x.startswith("./") else x) for x in PATS if x in c["ign"]]
                with open(q, "w") as f:
                    f.write("".join(l + "\n" for l in lines))
            elif p.endswith("/@"):
                os.mkdir(q)
                if nested == "bzr":
                    with open(os.path.join(q, "branch-format"), "w") as f:
                        f.write("Bazaar-NG meta directory, format 1\n")
            elif p in ("d", "n"):
                os.mkdir(q)
            else:
                with open(q, "w") as f:
                    f.write("content of %s\n" % p)


def versioned(wt, fl):
    """{versioned path: identity of the entry} as WorkingTree.all_versioned_paths reports; git: files only."""
    out = {}
    with wt.lock_read():
        for path in wt.all_versioned_paths():
            if path == "":
                continue
            try:
                kind = wt.stored_kind(path)
            except Exception:       # noqa: an entry the inventory view hides (below a tree reference)
                kind = "?"
            if fl == "git" and kind == "directory":
                continue
            fid = wt.path2id(path)
            out[path] = "%s %s" % (kind, fid.decode("utf-8", "replace") if fid else "")
    return out


TREES = {}


def run_cases(sub, chunk):
    if sub.workdir not in TREES:
        TREES.clear()
        TREES[sub.workdir] = {}
    trees = TREES[sub.workdir]
    rows = []
    for fl, nested, c in chunk:
        if fl not in trees:
            trees[fl] = Tree(sub.workdir, fl)
        t = trees[fl]
        t.reset()
        t.build(c, nested)
        back = {concrete(fl, nested, p): p for p in c["lay"]}
        wt = t.open()
        with wt.lock_write():
            if c["pre"]:
                wt.add(sorted(c["pre"], key=len))
            if c["conf"]:
                if fl == "bzr":
                    from breezy.bzr.conflicts import TextConflict
                else:
                    from breezy.git.workingtree import TextConflict
                wt.add_conflicts([TextConflict(p) for p in c["conf"]])
        before = versioned(wt, fl)
        err = ""
        try:
            wt.smart_add([os.path.join(t.root, concrete(fl, nested, a)) for a in sorted(c["args"])], recurse=c["rec"])
        except BaseException as e:  # noqa: the law says smart_add succeeds on these inputs (Rust panics are BaseExceptions)
            if isinstance(e, (KeyboardInterrupt, SystemExit)):
                raise
            err = type(e).__name__
            if wt.is_locked():
                sub.machinery("smart_add left the tree locked after %s" % err)
        after = versioned(t.open(), fl)
        rows.append({"c": c, "fl": fl, "nested": nested,
                     "o": {"before": sorted(back.get(p, p) for p in before), "after": sorted(back.get(p, p) for p in after),
                           "changed": sorted(back.get(p, p) for p in before if after.get(p) != before[p] and p in after),
                           "err": err}})
        sub.count(1)
    sub.cov.setdefault("_collect", []).extend(rows)


def run(ctx):
    env.init()
    import logging
    from breezy import ignores
    logging.getLogger("brz").setLevel(logging.ERROR)      # "skipping nested tree ..." warnings
    ignores._set_user_ignores([])           # no user-wide ignore patterns (the default list contains *.o)
    ctx.assume("user-wide ignore list (~/.config/breezy/ignore) is empty; the tree's ignore file is the only source of patterns")
    allsets = [[p for i, p in enumerate(PATS) if m >> i & 1] for m in range(16)]
    jobs = []
    gen = []
    for fl in ("bzr", "git"):
        if ctx.quick:       # two lists and one layout on which every witness occurs; the rest seeded
            fixed = [["*.o"], ["d"]]
            lays = [FULL] + ctx.rng.sample([L for L in all_layouts() if L != FULL], 39)
            groups = [(fixed + [ctx.rng.choice([x for x in allsets if x not in fixed])], lays)]
        else:
            groups = [(allsets[i:i + 2], ()) for i in range(0, 16, 2)]
        gen += [(fl, cfg_file(ctx, table.cfg(consts(fl, g, lays), ("LawsHoldOnSpec",)))) for g, lays in groups]
    got = parallel(lambda fl, name: (fl, tlc.json_cases(ctx, "SmartAddGen", cfg=name, label="SmartAddGen %s" % fl, workers=2)[0]),
                   gen, core.max_workers() // 2)
    for fl in ("bzr", "git"):
        cases = [k for f, part in got if f == fl for k in part]
        if not cases:
            ctx.machinery("SmartAddGen exported no cases for %s" % fl)
        seen = set().union(*(k["wit"] for k in cases))
        if WITNESSES[fl] - seen:
            ctx.machinery("vacuity guard: no generated %s case satisfies %s" % (fl, sorted(WITNESSES[fl] - seen)))
        cases.sort(key=lambda k: repr(sorted(k["c"].items())))
        ctx.cov.setdefault("generated", {})[fl] = len(cases)
        if ctx.quick:
            cases = ctx.rng.sample(cases, min(1500, len(cases)))
        for i, k in enumerate(cases):
            # nested control directories of the tree's own kind; every tenth case in thorough uses the other kind
            other = {"bzr": "git", "git": "bzr"}[fl]
            jobs.append((fl, other if (not ctx.quick and i % 10 == 9) else fl, k["c"]))
    core.fork_map(ctx, run_cases, jobs)
    rows = ctx.collected
    if len(rows) != len(jobs):
        ctx.machinery("executed %d of %d cases" % (len(rows), len(jobs)))
    for r in rows:
        c = r["c"]
        if c["rec"] and (len(c["lay"]) > 2):
            ctx.nontrivial((r["fl"], r["nested"], tuple(c["lay"]), tuple(c["ign"]), tuple(c["conf"]), tuple(c["pre"]),
                            tuple(c["args"]), c["rec"]))
    for fl in ("bzr", "git"):
        part = [r for r in rows if r["fl"] == fl]
        ctx.sample({"flavour": fl, "case": part[len(part) // 2]["c"], "observed": part[len(part) // 2]["o"]})
        for row, failed, drift in judge(ctx, fl, part):
            c, o = row["c"], row["o"]
            for law in failed:
                if law == "no-error":
                    sig = "no-error:%s:%s" % (fl, o["err"])
                elif law == "exactly-expected":
                    sig = "exactly-expected:%s:extra=%s:missing=%s" % (fl, "+".join(row["extra_roles"]) or "-",
                                                                       "+".join(row["missing_roles"]) or "-")
                else:
                    sig = "old-unchanged:%s" % fl
                ctx.violation(sig, "%s smart_add(%s, recurse=%s) on layout %s, ignores %s, conflicts %s, versioned %s: "
                                   "law %s fails: versioned after = %s, unexpected %s, not added %s, changed %s, error %r" % (
                                       fl, c["args"], c["rec"], c["lay"], c["ign"], c["conf"], c["pre"], law, o["after"],
                                       row["extra"], row["missing"], o["changed"], o["err"]),
                              {"flavour": fl, "nested_control_dir": row["nested"], "case": c, "observed": o})
            if drift and not failed:
                ctx.drift("%s: versioned-before %s is not the case's pre-versioned set %s" % (fl, o["before"], c["pre"]), row)
    ctx.cov["exhaustive"] = not ctx.quick
    ctx.rule("cases = every (layout over {f, g.o, d/, d/f, d/g.o, d/<ctl>/, n/, n/<ctl>/, f.THIS+f.OTHER}, ignore list "
             "subset of {*.o, d, ./d/f, !g.o}, text conflict on f or none, pre-versioned subset of {f, d, d/f}, 1-2 named "
             "paths out of {., d, g.o, d/g.o, n} that exist, recurse) enumerated by TLC (quick: 1500 per flavour sampled "
             "from 40 seeded layouts x 3 ignore lists); non-trivial = recursing over a layout with more than two paths")


def judge(ctx, fl, rows):
    """table.judge with the flavour constant, chunks side by side; the Trace module also reports which kind of path deviates."""
    import json

    def one(off):
        part = rows[off:off + 20000]
        fin = os.path.join(ctx.workdir, "rows_%s_%d.json" % (fl, off))
        with open(fin, "w") as f:
            json.dump([{"c": r["c"], "o": r["o"]} for r in part], f)
        data, res = tlc.json_cases(ctx, "SmartAddTrace", cfg=names[off], env={"VF_IN": fin},
                                   label="SmartAddTrace %s" % fl, workers=2)
        os.unlink(fin)
        if data["n"] != len(part):
            ctx.machinery("trace module consumed %s of %d rows" % (data["n"], len(part)))
        out = []
        for b in data["bad"]:
            row = dict(part[b["row"] - 1])
            row.update(extra=list(b["extra"]), missing=list(b["missing"]), extra_roles=sorted(set(b["extraRoles"])),
                       missing_roles=sorted(set(b["missingRoles"])))
            out.append((row, list(b["failed"]), bool(b["drift"])))
        return out

    offs = [(o,) for o in range(0, len(rows), 20000)]
    names = {o: cfg_file(ctx, table.cfg({"Flavour": '"%s"' % fl})) for o, in offs}
    res = parallel(one, offs, max(1, min(len(offs), core.max_workers() // 2)))
    ctx.count(0, traces=len(rows))
    return [x for part in res for x in part]
