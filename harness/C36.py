"""C36 — git identifier mappings round-trip."""
import json
import os
import re
import shutil
import tempfile
from urllib.parse import unquote_to_bytes

from vf import env, table, core

META = dict(
    property_id="C36", level="model_checking", design_ref="DESIGN.md §4 C36",
    technique="TLA+ transcription of the git identifier mappings (file-id escaping, file ids, revision ids, branch/tag "
              "refs, git<->breezy URLs, parent location) with the inverse laws stated on the domain each pair defines; "
              "TLC proves the laws on the transcription over bounded grammars and exports the cases; the real Python "
              "and Rust functions are run both ways on every case and TLC judges the recorded results",
    level_text="Exhaustive over bounded grammars that contain the escape characters: all strings up to 5 tokens "
               "over {_, space, form feed, s, c, a} for escaping, paths with non-UTF-8 bytes for file ids, names "
               "built from the ref prefixes, and URL records (every known git scheme and rsync style, user, port, path "
               "segments with ~ space , = %, branch | ref | neither incl. HEAD). Laws are TLC-checked on the "
               "transcription, each case is executed on the real functions (set_parent/get_parent on a real local git "
               "repository) and the same laws are evaluated by TLC on the recorded results. The functions are small "
               "and defined by cases on prefixes and single characters, so small-scope exhaustion is the right level.",
    level_note="Quoting is urllib's and enters the spec as tables; selected branches and refs are compared after "
               "URL-unquoting (they travel as segment parameters). Alphabets are chosen so that prefix tests on strings "
               "and on leading tokens coincide. Trusted: TLC, the JSON bridge, dulwich's config writer.",
)

SITE = {"escape": "escape_file_id/unescape_file_id", "fileid": "generate_file_id/parse_file_id",
        "revid": "revision_id_foreign_to_bzr/revision_id_bzr_to_foreign",
        "branchref": "branch_name_to_ref/ref_to_branch_name", "refbranch": "ref_to_branch_name/branch_name_to_ref",
        "tagref": "tag_name_to_ref/ref_to_tag_name", "urlloc": "git_url_to_bzr_url",
        "urlsel": "_git_rs.bzr_url_to_git_url", "parent": "GitBranch.set_parent/get_parent"}

_ARM = re.compile(r"<X([0-9A-F]{2})>")


def unarm(s):
    """spec string -> bytes  (<Xhh> is the byte hh)."""
    out, pos = bytearray(), 0
    for m in _ARM.finditer(s):
        out += s[pos:m.start()].encode("ascii")
        out.append(int(m.group(1), 16))
        pos = m.end()
    out += s[pos:].encode("ascii")
    return bytes(out)


def arm(b):
    """bytes -> spec string."""
    if isinstance(b, str):
        b = b.encode("utf-8", "surrogateescape")
    return "".join(chr(x) if 0x20 <= x < 0x7f and x not in (0x3c, 0x3e) else "<X%02X>" % x for x in b)


def _try(f, *a, ok=arm):
    """Result of f as a spec string; 'ERR' for the ValueError family the functions document, 'ERR:<Type>' otherwise."""
    try:
        return ok(f(*a))
    except ValueError:
        return "ERR"
    except Exception as e:        # noqa: BLE001
        return "ERR:" + type(e).__name__


def _esc(c):
    from breezy.git import mapping
    x = unarm(c["s"])
    try:
        esc = mapping.escape_file_id(x)
    except Exception as e:        # noqa: BLE001
        return {"esc": "ERR:" + type(e).__name__, "back": "ERR", "direct": _try(mapping.unescape_file_id, x)}
    return {"esc": arm(esc), "back": _try(mapping.unescape_file_id, esc), "direct": _try(mapping.unescape_file_id, x)}


def _fid(c):
    from breezy.git.mapping import default_mapping as m, encode_git_path, decode_git_path
    p = unarm(c["s"])
    ps = decode_git_path(p)

    def back(fid, want_type=str):
        r = m.parse_file_id(fid)
        if not isinstance(r, want_type):
            raise TypeError(type(r))
        return encode_git_path(r)
    o = {}
    for given, f, b in ((p, "fid", "back"), (ps, "fidS", "backS")):
        try:
            fid = m.generate_file_id(given)
        except Exception as e:    # noqa: BLE001
            o[f], o[b] = "ERR:" + type(e).__name__, "ERR"
        else:
            o[f], o[b] = arm(fid), _try(back, fid)
    return o


def _sha(c):
    from breezy import errors
    from breezy.git.mapping import default_mapping as m

    def foreign(revid):
        try:
            sha, mapping = m.revision_id_bzr_to_foreign(revid)
        except errors.InvalidRevisionId as e:
            raise ValueError(revid) from e
        if mapping != m:
            raise TypeError(mapping)
        return sha
    sha = c["s"].encode("ascii")
    revid = _try(m.revision_id_foreign_to_bzr, sha)
    given = c["prefix"].encode("ascii") + sha
    fwd = _try(foreign, given)
    return {"revid": revid, "back": revid if revid.startswith("ERR") else _try(foreign, unarm(revid)), "fwd": fwd,
            "fwdback": fwd if fwd.startswith("ERR") else _try(m.revision_id_foreign_to_bzr, unarm(fwd))}


def _ref(c):
    from breezy.git import refs
    r = unarm(c["s"])
    n = r.decode("utf-8")
    def then(first, second, *a):
        """first(*a) as spec string, and second applied to it (both 'ERR...' when the first raised)."""
        x = _try(first, *a)
        if x.startswith("ERR"):
            return x, x
        v = unarm(x)
        return x, _try(second, v.decode("utf-8") if second in (refs.branch_name_to_ref, refs.tag_name_to_ref) else v)
    o = {}
    o["bref"], o["bback"] = then(refs.branch_name_to_ref, refs.ref_to_branch_name, n)
    o["tref"], o["tback"] = then(refs.tag_name_to_ref, refs.ref_to_tag_name, n)
    o["rb"], o["rbb"] = then(refs.ref_to_branch_name, refs.branch_name_to_ref, r)
    o["rt"], o["rtt"] = then(refs.ref_to_tag_name, refs.tag_name_to_ref, r)
    return o


def _sel_kwargs(sel):
    if sel["k"] == "branch":
        return {"branch": unarm(sel["v"]).decode("utf-8")}
    if sel["k"] == "ref":
        return {"ref": unarm(sel["v"])}
    return {}


def _url(c):
    from breezy.git.urls import git_url_to_bzr_url, bzr_url_to_git_url
    loc = unarm(c["loc"]).decode("utf-8")
    o = {"plain": _try(git_url_to_bzr_url, loc)}
    try:
        bz = git_url_to_bzr_url(loc, **_sel_kwargs(c["sel"]))
        o["bz"] = arm(bz)
        back_loc, branch, ref = bzr_url_to_git_url(bz)
    except Exception as e:        # noqa: BLE001 - a refusal is an observation, judged by the laws
        err = "ERR:" + type(e).__name__
        o.setdefault("bz", err)
        o.update(loc=err, branch=err, branchU=err, ref=err, refU=err)
        return o

    def un(v):
        return "-" if v is None else arm(unquote_to_bytes(v))
    o.update(loc=arm(back_loc), branch="-" if branch is None else arm(branch), branchU=un(branch),
             ref="-" if ref is None else arm(ref), refU=un(ref))
    return o


def _parent(c, workdir):
    """set_parent(breezy URL) on a fresh local git branch, get_parent() on a freshly opened branch object."""
    from dulwich.repo import Repo
    from breezy import urlutils
    from breezy.controldir import ControlDir
    base = tempfile.mkdtemp(prefix="c36-", dir=workdir)
    try:
        os.mkdir(os.path.join(base, "repo"))
        Repo.init(os.path.join(base, "repo")).close()
        baseurl = urlutils.local_path_to_url(base)
        target = unarm(c["bz"]).decode("utf-8").replace("@BASE@", baseurl)

        def roundtrip():
            ControlDir.open(os.path.join(base, "repo")).open_branch().set_parent(target)
            got = ControlDir.open(os.path.join(base, "repo")).open_branch().get_parent()
            return "<None>" if got is None else got.replace(baseurl, "@BASE@")
        return {"parent": _try(roundtrip)}
    finally:
        shutil.rmtree(base, ignore_errors=True)


def _special(tokens):
    return "+".join(sorted({{"_": "underscore", " ": "space", "<X0C>": "formfeed", "<XFF>": "non-utf8",
                             "<XC3><XA9>": "non-ascii", "/": "slash", "refs/": "refs-prefix", "heads/": "heads",
                             "tags/": "tags", "HEAD": "HEAD"}.get(t, "plain") for t in tokens})) or "empty"


def input_class(c, law):
    """Narrow class of a case for violation signatures (no concrete values)."""
    k = c["kind"]
    if k in ("esc", "fid", "ref"):
        return _special(c["x"])
    if k == "sha":
        return "sha=%s,prefix=%s" % (c["sha"], c["prefix"] or "none")
    bz = c["bz"]
    sel = "ref-selected" if ",ref=" in bz else "branch-selected" if ",branch=" in bz else "nothing-selected"
    if k == "parent" or law == "urlsel":
        return sel
    return "%s:%s" % (c["u"]["form"] + ("-ssh" if c["u"]["scheme"] == "ssh" else ""), sel)


def _nontrivial(c):
    k = c["kind"]
    if k in ("esc", "fid"):
        return any(t in ("_", " ", "<X0C>", "<XFF>", "<XC3><XA9>") for t in c["x"])
    if k == "ref":
        return len(c["x"]) > 0
    if k == "sha":
        return True
    return c["sel"]["k"] != "none" or c["u"]["form"] != "url" or c["u"]["scheme"] == "ssh"


def _chunk(sub, cases):
    rows = []
    fn = {"esc": _esc, "fid": _fid, "sha": _sha, "ref": _ref, "url": _url}
    for k in cases:
        c = k["c"]
        impl = _parent(c, sub.workdir) if c["kind"] == "parent" else fn[c["kind"]](c)
        rows.append({"c": c, "impl": impl})
        sub.count(1)
        if _nontrivial(c):
            sub.nontrivial((c["kind"], c["s"], c["loc"], json.dumps(c["sel"], sort_keys=True), c["prefix"]))
    with open(os.path.join(os.path.dirname(sub.workdir), "rows_%s.json" % os.path.basename(sub.workdir)), "w") as f:
        json.dump(rows, f)


def run(ctx):
    env.init()
    consts = ({"NEsc": 5, "NFid": 3, "NRef": 3, "NPath": 1, "Full": "FALSE"} if ctx.quick else
              {"NEsc": 5, "NFid": 5, "NRef": 4, "NPath": 2, "Full": "TRUE"})
    cases = table.generate(ctx, "GitIdsGen", consts, invariants=("LawsHoldOnSpec", "CodedDeviatesExactly"),
                           witnesses=("WitnessUrlRef",))
    if not cases:
        ctx.machinery("generator produced no cases")
    key = lambda r: json.dumps(r["c"], sort_keys=True)          # noqa: E731
    cases.sort(key=key)
    kinds = {}
    for k in cases:
        kinds[k["c"]["kind"]] = kinds.get(k["c"]["kind"], 0) + 1
    if set(kinds) != {"esc", "fid", "sha", "ref", "url", "parent"}:
        ctx.machinery("a kind of case is missing: %s" % kinds)
    core.fork_map(ctx, _chunk, cases)
    rows = []
    for fn in sorted(os.listdir(ctx.workdir)):
        if fn.startswith("rows_w"):
            with open(os.path.join(ctx.workdir, fn)) as f:
                rows.extend(json.load(f))
            os.unlink(os.path.join(ctx.workdir, fn))
    if len(rows) != len(cases):
        ctx.machinery("replayed %d of %d cases" % (len(rows), len(cases)))
    rows.sort(key=key)
    ctx.cov.update(cases_per_kind=kinds, exhaustive=True)
    ctx.rule("TLC enumerates: escaping = all strings <= %(NEsc)s tokens over {_, space, FF, s, c, a}; file ids = all paths "
             "<= %(NFid)s tokens over {_, space, FF, s, a, /, e-acute, byte 0xFF} as bytes and as str; refs = all names "
             "<= %(NRef)s tokens over {a, /, refs/, heads/, tags/, HEAD, space, e-acute} as branch name, tag name and "
             "ref; SHAs x revision-id prefixes; URLs = (6 git schemes x user? x port? | rsync style x user? x "
             "absolute?) x paths of <= %(NPath)s segments from {p, ~u, 'a b', 'c,d', 'e=f', r.git, e-acute, 'x%%y'} "
             "x (none | 10 branch names | 10 refs); parent = set_parent/get_parent on a fresh local git repository for "
             "a sample of those locations plus local file URLs. non-trivial = contains an escape character / a "
             "non-empty name / a selection, rsync style or scheme replacement" % consts)
    ctx.assume("URL-form locations are valid breezy URLs without segment parameters (special characters %-quoted); "
               "branch names are str without lone surrogates; refs handed to ref_to_*_name are UTF-8")
    for kind in ("esc", "fid", "ref", "url", "parent"):
        ctx.sample(next(r for r in reversed(rows) if r["c"]["kind"] == kind and _nontrivial(r["c"])))
    ndrift = 0
    for row, failed, drift in table.judge(ctx, "GitIdsTrace", rows, chunk=40000):
        c, o = row["c"], row["impl"]
        for law in failed:
            ctx.violation("%s:%s:%s" % (law, SITE[law], input_class(c, law)),
                          "law %s fails on %s: %s" % (law, {k: v for k, v in c.items() if v not in ("", [])}, o), row)
        if drift and not failed:
            ndrift += 1
            if ndrift <= 20:
                ctx.drift("implementation differs from the transcription on %s: %s" % (c, o), row)
            else:
                ctx.cov["drift"] += 1


def replay(ctx, rep):
    env.init()
    c = rep["replay"]["c"]
    fn = {"esc": _esc, "fid": _fid, "sha": _sha, "ref": _ref, "url": _url}
    impl = _parent(c, ctx.workdir) if c["kind"] == "parent" else fn[c["kind"]](c)
    print("case:", c)
    print("recorded:", rep["replay"]["impl"])
    print("now:     ", impl)
    for row, failed, drift in table.judge(ctx, "GitIdsTrace", [{"c": c, "impl": impl}]):
        for law in failed:
            ctx.violation("%s:%s:%s" % (law, SITE[law], input_class(c, law)), "replayed: %s" % impl, row)
