"""C39 — diffs apply back to the text they describe."""
import io

from vf import env, table, tlc, core

META = dict(
    property_id="C39", level="model_checking", design_ref="DESIGN.md §4 C39",
    technique="TLA+ model of unified-diff hunks and a transcription of iter_patched_from_hunks as a line-cursor machine "
              "with a conflict outcome, model-checked by TLC over all (old, new, context, perturbation) of a small line "
              "alphabet; TLC's case table executed on the real internal_diff / parse_patches / as_bytes / stats_values / "
              "iter_patched / iter_patched_from_hunks; TLC judges the recorded hunks and outcomes with the same laws",
    level_text="Exhaustive over all pairs of texts of at most 2 lines over {a, b, '-- x', empty line} (thorough: 3 lines over "
               "{a, b, '-- x'} and over {a, empty line, '++ y'}) with and without final newline, and a 7-line text "
               "against its single and double point edits (multi-hunk diffs), each with context 0, 1 and 3 and with "
               "every single-line substitution / insertion / deletion / truncation of the old text. TLC proves the laws "
               "on a reference diff and the transcribed patcher; on the recorded side TLC runs the REAL hunks through the "
               "transcribed patcher to decide which perturbed texts must be conflicts. The patcher is a simple cursor "
               "machine and the diff format is line-local, so small texts around the hunk boundaries are the right scope.",
    level_note="The diff algorithm (patiencediff) is not modelled: any correct diff is accepted (ValidDiff). Line content "
               "is abstracted to tokens; the harness maps tokens to bytes (including '-- x' / '++ y' whose patch lines "
               "look like file headers, empty lines, and a last line without newline). Rust pieces (_patch_rs: "
               "iter_lines_handle_nl, get_patch_names, parse_range) are rebuilt from the tree and executed, not modelled. "
               "Trusted: TLC, JSON bridge.",
)

TOK = {"a": b"a\n", "b": b"b\n", "d": b"-- x\n", "e": b"\n", "p": b"++ y\n",
       "a!": b"a", "b!": b"b", "d!": b"-- x", "p!": b"++ y"}
UNTOK = {v: k for k, v in TOK.items()}

SIG_TYPEERROR = "conflict:PatchConflict.__init__/rstrip-str-on-bytes:context-mismatch-raises-TypeError"
SIG_RUNTIME = "conflict:iter_patched_from_hunks/next(orig_lines):old-text-ends-early-raises-RuntimeError"

FULL = {"Toks": '{"a","b","d"}', "NoNl": '{"a!","b!","d!"}'}
ALT = {"Toks": '{"a","e","p"}', "NoNl": '{"p!"}'}
QUICK = {"Toks": '{"a","b","d","e"}', "NoNl": '{"a!","d!"}'}


def toks(lines):
    return [UNTOK.get(l, "?") for l in lines]


def hunk_records(patch):
    from breezy import patches
    kind = {patches.ContextLine: "ctx", patches.InsertLine: "ins", patches.RemoveLine: "rem"}
    return [{"op": h.orig_pos, "or": h.orig_range, "mp": h.mod_pos, "mr": h.mod_range,
             "lines": [{"k": kind.get(type(l), "?"), "t": UNTOK.get(l.contents, "?")} for l in h.lines]}
            for h in patch.hunks]


def outcome(fn):
    try:
        return {"kind": "ok", "out": toks(list(fn()))}
    except Exception as e:            # the exception class is the observation
        return {"kind": type(e).__name__, "out": []}


def observe(c):
    from breezy import diff, patches
    old = [TOK[t] for t in c["old"]]
    new = [TOK[t] for t in c["new"]]
    buf = io.BytesIO()
    diff.internal_diff("old", old, "new", new, buf, context_lines=c["ctx"])
    data = buf.getvalue()
    o = {"empty": data == b"", "npatch": 0, "hunks": [], "hunks2": [], "stats": [0, 0, 0],
         "app1": {"kind": "ok", "out": []}, "app2": {"kind": "ok", "out": []}, "perts": []}
    if o["empty"]:
        return o
    lines = data.splitlines(True)
    ps = list(patches.parse_patches(iter(lines)))
    o["npatch"] = len(ps)
    patch = ps[0]
    o["hunks"] = hunk_records(patch)
    again = list(patches.parse_patches(iter(patch.as_bytes().splitlines(True))))
    o["hunks2"] = hunk_records(again[0]) if len(again) == 1 else [{"npatch": len(again)}]
    o["stats"] = [int(x) for x in patch.stats_values()]
    o["app1"] = outcome(lambda: patches.iter_patched(old, lines))
    o["app2"] = outcome(lambda: patches.iter_patched_from_hunks(old, patch.hunks))
    for p in c["perts"]:
        pl = [TOK[t] for t in p]
        o["perts"].append(outcome(lambda: patches.iter_patched_from_hunks(pl, patch.hunks)))
    return o


def signature(f, row):
    clause, why, kind = f
    c = row["c"]
    if clause == "conflict":
        if why == "mismatch" and kind == "TypeError":
            return SIG_TYPEERROR
        if why == "exhausted" and kind == "RuntimeError":
            return SIG_RUNTIME
        if kind == "ok":
            return "conflict:iter_patched_from_hunks:wrong-output-returned-for-%s" % why
        return "conflict:iter_patched_from_hunks:%s-raises-%s" % (why, kind)
    nonl = any(t.endswith("!") for t in c["old"] + c["new"])
    return "%s:%s:ctx=%d:no-newline=%s" % (clause, kind or "-", c["ctx"], nonl)


def _chunk(sub, cases):
    rows = []
    for k in cases:
        c = k["c"]
        rows.append({"c": c, "impl": observe(c)})
        sub.count(1 + len(c["perts"]))
        if c["old"] != c["new"]:
            sub.nontrivial((tuple(c["old"]), tuple(c["new"]), c["ctx"]))
    for row, failed, drift in table.judge(sub, "PatchApplyTrace", rows, workers=2):
        seen = set()
        for f in failed:
            sig = signature(f, row)
            if sig in seen:
                continue
            seen.add(sig)
            c, o = row["c"], row["impl"]
            ex = ""
            if f[0] == "conflict":
                k = next((i for i, r in enumerate(o["perts"]) if r["kind"] == f[2]), 0)
                ex = " e.g. perturbed old %s -> %s" % (c["perts"][k], o["perts"][k]["kind"])
            sub.violation(sig, "clause %s fails: old=%s new=%s context=%d hunks=%s%s" % (
                list(f), c["old"], c["new"], c["ctx"], o["hunks"], ex),
                {"c": {k2: c[k2] for k2 in ("old", "new", "ctx")}, "failed": list(f), "hunks": o["hunks"],
                 "app1": o["app1"], "stats": o["stats"], "example": ex})
        if drift and not failed:
            sub.drift("recorded diff / patched texts differ from the specification: old=%s new=%s context=%d hunks=%s" % (
                row["c"]["old"], row["c"]["new"], row["c"]["ctx"], row["impl"]["hunks"]))
    multi = [r for r in rows if len(r["impl"]["hunks"]) >= 2]
    if multi:
        m = multi[0]
        sub.sample({"old": m["c"]["old"], "new": m["c"]["new"], "ctx": m["c"]["ctx"], "hunks": m["impl"]["hunks"],
                    "perturbations": len(m["c"]["perts"]),
                    "perturbation_outcomes": sorted({r["kind"] for r in m["impl"]["perts"]})})
    sub.cov.setdefault("_collect", []).append({"multi_hunk_diffs": len(multi), "rows": len(rows)})


WITNESSES = ("WitnessStillMatches", "WitnessMismatch", "WitnessExhausted", "WitnessNoNewline")


def run(ctx):
    env.init()
    import re
    q = ctx.quick
    if q:
        fams = [("short, {a, b, '-- x', empty line}", dict(QUICK, MaxLen=2, Ctxs="{0,1,3}", LongLen=7, LongEdits='"subst2"'))]
    else:
        fams = [("short, full alphabet", dict(FULL, MaxLen=3, Ctxs="{0,1,3}", LongLen=7, LongEdits='"all2"')),
                ("short, empty lines and +++ lookalike", dict(ALT, MaxLen=3, Ctxs="{0,1,3}", LongLen=7, LongEdits='"none"'))]
    cases = []
    for name, consts in fams:
        got = table.generate(ctx, "PatchApplyGen", consts, label="PatchApplyGen " + name)
        ctx.cov.setdefault("families", []).append({"family": name, "cases": len(got)})
        cases.extend(got)
    small = dict(FULL, MaxLen=1, Ctxs="{0}", LongLen=7, LongEdits='"none"')
    res = tlc.run(ctx, "PatchApplyGen", cfg_text=table.cfg(small, WITNESSES), extra=("-continue",), allow_violation=True, workers=2)
    found = set(re.findall(r"Invariant (\w+) is violated", res["output"]))
    if set(WITNESSES) - found:
        ctx.machinery("vacuity guard: witnesses not reached: %s" % sorted(set(WITNESSES) - found))
    ctx.add_tlc(res, "witnesses")
    if not cases:
        ctx.machinery("empty case table")
    core.fork_map(ctx, _chunk, cases, nproc=8 if q else 16, chunks_per_proc=1)
    if sum(x["rows"] for x in ctx.collected) != len(cases):
        ctx.machinery("judged %d of %d cases" % (sum(x["rows"] for x in ctx.collected), len(cases)))
    ctx.cov["multi_hunk_diffs"] = sum(x["multi_hunk_diffs"] for x in ctx.collected)
    if not ctx.cov["multi_hunk_diffs"]:
        ctx.machinery("no multi-hunk diff was produced by internal_diff")
    ctx.cov["exhaustive"] = True
    ctx.rule("all (old, new, context in {0,1,3}) with old/new well-formed texts (only the last line may lack its newline) "
             + ("of at most 2 lines over {a, b, '-- x', empty line}" if q else
                "of at most 3 lines over {a, b, '-- x'} and over {a, empty line, '++ y'}")
             + ", and a 7-line text against its %s point edits; for each case every single-line substitution / insertion / "
             "deletion / truncation of old is applied too (an evaluation = one application); non-trivial = old differs "
             "from new" % ("single and double-substitution" if q else "single and double"))
