"""C10 — all tree-comparison implementations report the same changes."""
import copy
import itertools
import json
import os
import shutil

from vf import env, table, core, tlc
from harness import table_common

META = dict(
    property_id="C10", level="model_checking", design_ref="DESIGN.md §4 C10",
    technique="TLA+ model of trees as functions file-id -> entry with declarative Diff / Apply / Restrict (path filter "
              "with the parents rule), model-checked by TLC over all tree pairs within a bounded number of edits and all "
              "filters of a family; every exported pair is realised as a real working tree against its basis and as two "
              "real revisions (2a, pack-0.92, git), the change tuples of InterDirStateTree, InterCHKRevisionTree, "
              "InterInventoryTree and InterGitTrees are recorded for the same arguments, and TLC judges them with the "
              "same TLA+ laws",
    level_text="Bounded-exhaustive: TLC enumerates every pair (s, t) with t reachable from a start tree over {a, b, d/, "
               "d/a, e/} by at most 2 edits (3 in thorough) out of rename, reparent, sibling-name swap, kind change, "
               "content change, exec change, add, delete and unversioned extras, proves Apply(s, Diff(s,t)) = t and the "
               "parent-completeness of every filtered delta on the model, and exports the pairs. The real comparisons "
               "are run on the pairs (a seeded sample in quick; all 2-edit pairs plus a sample of 3-edit pairs in "
               "thorough) with include_unchanged x want_unversioned and path filters, and TLC evaluates optimised = "
               "generic, Apply(source, unfiltered) = target, filtered result parent-valid and complete on the "
               "recorded tuples. The comparisons are functions of the two trees, so small-scope exhaustion of the tree "
               "shapes is the right level; the compiled fast paths (dirstate, CHK) are exercised through the real "
               "objects.",
    level_note="Five file ids, five names, two text variants per file, kinds file/directory (no symlinks, no tree "
               "references). 'Generic' = InterInventoryTree constructed directly (InterTree.iter_changes is abstract). "
               "Git is path-keyed: judged at path level with a rename counted as remove + add. Filters are sets of at "
               "most two versioned paths (and the set of all paths). Validity of a filtered delta = every entry has a "
               "versioned directory chain to the root (the property's 'every parent needed'); unique names are not "
               "promised by a path filter (TLC exhibits the counter-example as a witness). Trusted: TLC, the JSON bridge, "
               "the working-tree mutation script (public WorkingTree API).",
)

IDS = ["fa", "fb", "dd", "fda", "de"]
NOE = dict(v=False, parent="-", name="-", kind="-", exec=False, content=0)
WITNESSES = ("WitnessParentsRule", "WitnessDirRenameChild", "WitnessSwap", "WitnessKindChange", "WitnessExtras",
             "WitnessNameCollision")
FLAGS = [(False, False), (True, False), (False, True), (True, True)]
IMPLS = {"chk": "InterCHKRevisionTree", "inv": "InterInventoryTree(2a revision trees)",
         "old": "InterInventoryTree(pack-0.92 revision trees)", "ds": "InterDirStateTree",
         "wt": "InterInventoryTree(working tree)"}


# ----------------------------------------------------------------------------- abstract trees
def path(t, i):
    if i == "root":
        return []
    return path(t, t[i]["parent"]) + [t[i]["name"]]


def spath(t, i):
    return "/".join(path(t, i))


def text(i, c):
    """Every id has its own text (git's rename detection must be able to recognise it); the variant alters one line."""
    return ("".join("%s line %d\n" % (i, k) for k in range(8)) + "variant %d of %s\n" % (c, i)).encode()


def tree_key(t):
    return json.dumps(t, sort_keys=True)


def empty_tree():
    return {i: dict(NOE) for i in IDS}


# ----------------------------------------------------------------------------- real worlds
class BzrWorld:
    """A standalone dirstate working tree (format 2a or pack-0.92) that is driven, with the public WorkingTree API, to
    any abstract tree; revisions for abstract trees are made by committing it."""

    def __init__(self, top, fmt):
        from breezy import controldir
        self.dir = top
        self.wt = controldir.ControlDir.create_standalone_workingtree(
            top, format=controldir.format_registry.make_controldir(fmt))
        self.cur = empty_tree()
        self.extras = set()
        self.n = 0
        self.revs = {}
        self.rootid = self.wt.path2id("")

    def mutate(self, tgt, tx=()):
        wt, m, root = self.wt, copy.deepcopy(self.cur), self.dir
        for p in self.extras:
            if os.path.lexists(os.path.join(root, p)):
                os.unlink(os.path.join(root, p))
        self.extras = set()
        with wt.lock_tree_write():
            ver = [i for i in IDS if m[i]["v"]]
            movers = [i for i in ver if not tgt[i]["v"]
                      or (m[i]["parent"], m[i]["name"]) != (tgt[i]["parent"], tgt[i]["name"])]
            rekind = [i for i in ver if tgt[i]["v"] and tgt[i]["kind"] != m[i]["kind"]]
            # 1. park everything that moves (or goes) under a private name at the root, parents first
            for i in sorted(movers, key=lambda i: len(path(m, i))):
                wt.rename_one(spath(m, i), "tmp-" + i)
                m[i]["parent"], m[i]["name"] = "root", "tmp-" + i
            # 2. unversion what goes away; a kind change is unversion + re-add of the same file id
            for i in ver:
                if not tgt[i]["v"] or i in rekind:
                    p = spath(m, i)
                    wt.unversion([p])
                    full = os.path.join(root, p)
                    if os.path.isdir(full):
                        shutil.rmtree(full)
                    else:
                        os.unlink(full)
                    m[i] = dict(NOE)
            # 3. place everything at its target position, parents first
            for i in sorted([i for i in IDS if tgt[i]["v"]], key=lambda i: len(path(tgt, i))):
                p = spath(tgt, i)
                if not m[i]["v"]:
                    full = os.path.join(root, p)
                    if tgt[i]["kind"] == "directory":
                        os.mkdir(full)
                    else:
                        with open(full, "wb") as f:
                            f.write(text(i, tgt[i]["content"]))
                    wt.add([p], [tgt[i]["kind"]], ids=[i.encode()])
                elif m[i]["name"] == "tmp-" + i:
                    wt.rename_one("tmp-" + i, p)
                m[i] = dict(tgt[i])
            # 4. texts and exec bits
            for i in IDS:
                if tgt[i]["v"] and tgt[i]["kind"] == "file":
                    full = os.path.join(root, spath(tgt, i))
                    with open(full, "rb") as f:
                        old = f.read()
                    if old != text(i, tgt[i]["content"]):
                        with open(full, "wb") as f:
                            f.write(text(i, tgt[i]["content"]))
                    os.chmod(full, 0o755 if tgt[i]["exec"] else 0o644)
        for p in tx:
            rel = "/".join(([] if p == "root" else path(tgt, p)) + ["x"])
            with open(os.path.join(root, rel), "w") as f:
                f.write("unversioned extra\n")
            self.extras.add(rel)
        self.cur = copy.deepcopy(tgt)

    def commit(self):
        self.n += 1
        return self.wt.commit("c%d" % self.n, rev_id=b"r%d" % self.n)

    def basis(self, s):
        """Make the revision of abstract tree s the basis of the working tree (committing it first if needed)."""
        k = tree_key(s)
        if k not in self.revs:
            self.mutate(s)
            self.revs[k] = self.commit()
        elif self.wt.last_revision() != self.revs[k]:
            with self.wt.lock_write():
                self.wt.branch.generate_revision_history(self.revs[k])
                self.wt.set_parent_ids([self.revs[k]])
        return self.revs[k]


class GitWorld:
    """The git flavour: path-keyed, files only (directories exist on disk but are not versionable by themselves)."""

    def __init__(self, top):
        from breezy import controldir
        self.dir = top
        self.wt = controldir.ControlDir.create_standalone_workingtree(
            top, format=controldir.format_registry.make_controldir("git"))
        self.files = {}         # path -> (id, content, exec) in the index
        self.n = 0
        self.revs = {}

    @staticmethod
    def files_of(t):
        return {spath(t, i): (i, t[i]["content"], t[i]["exec"]) for i in IDS if t[i]["v"] and t[i]["kind"] == "file"}

    def mutate(self, tgt, tx=()):
        wt, root = self.wt, self.dir
        want = self.files_of(tgt)
        with wt.lock_write():
            # (the index is read back: committing a directory that became a file drops the file from the index)
            have = {p for p, e in wt.iter_entries_by_dir() if e.kind == "file"}
            gone = sorted(have - set(want))
            if gone:
                wt.unversion(gone)
            for n in os.listdir(root):
                if n != ".git":
                    full = os.path.join(root, n)
                    if os.path.isdir(full):
                        shutil.rmtree(full)
                    else:
                        os.unlink(full)
            for i in sorted([i for i in IDS if tgt[i]["v"]], key=lambda i: len(path(tgt, i))):
                full = os.path.join(root, spath(tgt, i))
                if tgt[i]["kind"] == "directory":
                    os.mkdir(full)
                else:
                    with open(full, "wb") as f:
                        f.write(text(i, tgt[i]["content"]))
                    os.chmod(full, 0o755 if tgt[i]["exec"] else 0o644)
            new = sorted(set(want) - have)
            if new:
                wt.add(new)
        for p in tx:
            rel = "/".join(([] if p == "root" else path(tgt, p)) + ["x"])
            with open(os.path.join(root, rel), "w") as f:
                f.write("unversioned extra\n")
        self.files = want

    def commit(self):
        self.n += 1
        return self.wt.commit("c%d" % self.n)

    def basis(self, s):
        k = json.dumps(sorted(self.files_of(s).items()))
        if k not in self.revs:
            self.mutate(s)
            self.revs[k] = self.commit()
        elif self.wt.last_revision() != self.revs[k]:
            with self.wt.lock_write():
                self.wt.branch.generate_revision_history(self.revs[k])
        return self.revs[k]


# ----------------------------------------------------------------------------- normalisation of change tuples
def _p(p):
    return ["-"] if p is None else ([] if p == "" else p.split("/"))


def _x(x):
    return "-" if x is None else ("y" if x else "n")


def _n(x):
    return "-" if x is None else x


def norm_bzr(changes, rootid):
    def ident(f):
        return "-" if f is None else ("root" if f == rootid else f.decode())
    return [dict(id=ident(c.file_id), op=_p(c.path[0]), np=_p(c.path[1]), cc=bool(c.changed_content),
                 ov=bool(c.versioned[0]), nv=bool(c.versioned[1]), opar=ident(c.parent_id[0]), npar=ident(c.parent_id[1]),
                 on=_n(c.name[0]), nn=_n(c.name[1]), ok=_n(c.kind[0]), nk=_n(c.kind[1]),
                 ox=_x(c.executable[0]), nx=_x(c.executable[1])) for c in changes]


def norm_git(changes):
    return [dict(op=_p(c.path[0]), np=_p(c.path[1]), cc=bool(c.changed_content), ov=bool(c.versioned[0]),
                 nv=bool(c.versioned[1]), ok=_n(c.kind[0]), nk=_n(c.kind[1]), ox=_x(c.executable[0]),
                 nx=_x(c.executable[1]), cp=bool(getattr(c, "copied", False))) for c in changes]


def error_rec(e):
    return [dict(id="error", op=["-"], np=["-"], cc=False, ov=False, nv=False, opar="-", npar="-", on="-",
                 nn=type(e).__name__, ok="-", nk="-", ox="-", nx="-")]


def git_error_rec(e):
    return [dict(op=["error"], np=[type(e).__name__], cc=False, ov=False, nv=False, ok="-", nk="-", ox="-", nx="-", cp=False)]


class Table:
    """Distinct records of one pair -> 1-based indices (what the trace module reads)."""

    def __init__(self):
        self.recs, self.idx = [], {}

    def put(self, recs):
        out = []
        for r in recs:
            k = json.dumps(r, sort_keys=True)
            if k not in self.idx:
                self.recs.append(r)
                self.idx[k] = len(self.recs)
            out.append(self.idx[k])
        return sorted(out)


# ----------------------------------------------------------------------------- replay
def filters_for(sub, pair, quick):
    """The filters replayed for a pair, out of the family TLC checked in-spec: single paths, pairs of paths, all paths
    (with and without the root)."""
    paths = sorted(tuple(p) for p in pair["paths"])
    nonroot = [p for p in paths if p]
    singles = [[p] for p in paths]
    doubles = [list(c) for c in itertools.combinations(paths, 2)]
    full = [paths] + ([nonroot] if nonroot else [])
    if quick or pair.get("deep"):
        fam = singles + doubles + full
        return sub.rng.sample(fam, min(4, len(fam)))
    return singles + full + sub.rng.sample(doubles, min(8, len(doubles)))


def _call(fn, kw, norm, err):
    try:
        return norm(fn(**kw))
    except Exception as e:      # an implementation that raises is recorded, and judged, as such
        return err(e)


def _replay(sub, pairs):
    from breezy.tree import InterTree
    from breezy.bzr.inventorytree import InterInventoryTree
    w2a = BzrWorld(os.path.join(sub.workdir, "w2a"), "2a")
    wold = BzrWorld(os.path.join(sub.workdir, "wold"), "pack-0.92")
    wgit = GitWorld(os.path.join(sub.workdir, "wgit"))
    rows, classes = [], set()
    for pair in sorted(pairs, key=lambda p: tree_key(p["s"])):      # pairs with the same source share its revision
        s, t, tx = pair["s"], pair["t"], pair["tx"]
        fams = filters_for(sub, pair, sub.quick)
        queries = [(None, iu, wu) for iu, wu in FLAGS]
        for f in fams:
            queries += [(f, iu, wu) for iu, wu in ((False, False), (True, True))]
        tab, gtab = Table(), Table()
        obs = [dict(o={}, g={}) for _ in queries]

        def kwargs(f, iu, wu, **extra):
            kw = dict(include_unchanged=iu, want_unversioned=wu, **extra)
            if f is not None:
                kw["specific_files"] = ["/".join(p) for p in f]
            return kw

        # --- 2a: working tree against basis, then the two revision trees
        rs = w2a.basis(s)
        w2a.mutate(t, tx)
        wt = w2a.wt
        with wt.lock_read():
            basis = wt.basis_tree()
            with basis.lock_read():
                opt = InterTree.get(basis, wt)
                classes.add(("ds", type(opt).__name__))
                gen = InterInventoryTree(basis, wt)
                for k, (f, iu, wu) in enumerate(queries):
                    obs[k]["o"]["ds"] = tab.put(_call(opt.iter_changes, kwargs(f, iu, wu),
                                                      lambda c: norm_bzr(c, w2a.rootid), error_rec))
                    obs[k]["o"]["wt"] = tab.put(_call(gen.iter_changes, kwargs(f, iu, wu),
                                                      lambda c: norm_bzr(c, w2a.rootid), error_rec))
        rt = w2a.commit()
        repo = wt.branch.repository
        with repo.lock_read():
            ts, tt = repo.revision_tree(rs), repo.revision_tree(rt)
            opt = InterTree.get(ts, tt)
            classes.add(("chk", type(opt).__name__))
            gen = InterInventoryTree(ts, tt)
            for k, (f, iu, wu) in enumerate(queries):
                obs[k]["o"]["chk"] = tab.put(_call(opt.iter_changes, kwargs(f, iu, wu),
                                                   lambda c: norm_bzr(c, w2a.rootid), error_rec))
                obs[k]["o"]["inv"] = tab.put(_call(gen.iter_changes, kwargs(f, iu, wu),
                                                   lambda c: norm_bzr(c, w2a.rootid), error_rec))
        # --- pack-0.92 revision trees (plain inventories): InterTree.get gives the generic comparison
        rs = wold.basis(s)
        wold.mutate(t, tx)
        rt = wold.commit()
        repo = wold.wt.branch.repository
        with repo.lock_read():
            ts, tt = repo.revision_tree(rs), repo.revision_tree(rt)
            opt = InterTree.get(ts, tt)
            classes.add(("old", type(opt).__name__))
            for k, (f, iu, wu) in enumerate(queries):
                obs[k]["o"]["old"] = tab.put(_call(opt.iter_changes, kwargs(f, iu, wu),
                                                   lambda c: norm_bzr(c, wold.rootid), error_rec))
        # --- git: working tree against basis, then revision trees
        rs = wgit.basis(s)
        wgit.mutate(t, tx)
        wt = wgit.wt
        with wt.lock_read():
            basis = wt.basis_tree()
            with basis.lock_read():
                opt = InterTree.get(basis, wt)
                classes.add(("gitwt", type(opt).__name__))
                for k, (f, iu, wu) in enumerate(queries):
                    obs[k]["g"]["wt"] = gtab.put(_call(opt.iter_changes, kwargs(f, iu, wu, require_versioned=False),
                                                       norm_git, git_error_rec))
        rt = wgit.commit()
        repo = wt.branch.repository
        with repo.lock_read():
            ts, tt = repo.revision_tree(rs), repo.revision_tree(rt)
            opt = InterTree.get(ts, tt)
            classes.add(("gitrt", type(opt).__name__))
            for k, (f, iu, wu) in enumerate(queries):
                obs[k]["g"]["rt"] = gtab.put(_call(opt.iter_changes, kwargs(f, iu, wu, require_versioned=False),
                                                   norm_git, git_error_rec))
        qs = [dict(f=(["all"] if f is None else ["only", [list(p) for p in f]]), iu=iu, wu=wu, o=obs[k]["o"], g=obs[k]["g"])
              for k, (f, iu, wu) in enumerate(queries)]
        rows.append(dict(s=s, t=t, tx=tx, recs=tab.recs, grecs=gtab.recs, qs=qs))
        sub.count(len(qs))
        if s != t and len(sub.cov["samples"]) < 1:
            k = next((k for k, q in enumerate(qs) if q["f"] != ["all"]), 0)
            sub.sample({"source": _short(s), "target": _short(t), "extras_in": tx,
                        "query": {"specific_files": None if qs[k]["f"] == ["all"] else ["/".join(p) for p in qs[k]["f"][1]],
                                  "include_unchanged": qs[k]["iu"], "want_unversioned": qs[k]["wu"]},
                        "InterDirStateTree": [tab.recs[n - 1] for n in qs[k]["o"]["ds"]],
                        "InterInventoryTree(working tree)": [tab.recs[n - 1] for n in qs[k]["o"]["wt"]],
                        "InterGitTrees(working tree)": [gtab.recs[n - 1] for n in qs[k]["g"]["wt"]]})
        if s != t:
            for q in qs:
                sub.nontrivial((tree_key(s), tree_key(t), tuple(tx), json.dumps(q["f"]), q["iu"], q["wu"]))
    for name in ("w2a", "wold", "wgit"):
        shutil.rmtree(os.path.join(sub.workdir, name), ignore_errors=True)
    sub.cov.setdefault("_collect", []).append({"classes": sorted(classes), "pairs": len(rows)})
    judge(sub, rows)


def _kinds(s, t):
    out = set()
    for i in IDS:
        a, b = s[i], t[i]
        if a == b:
            continue
        if not a["v"]:
            out.add("add")
        elif not b["v"]:
            out.add("delete")
        else:
            if a["parent"] != b["parent"]:
                out.add("reparent")
            if a["name"] != b["name"]:
                out.add("rename")
            if a["kind"] != b["kind"]:
                out.add("kind")
            elif a["content"] != b["content"]:
                out.add("content")
            if a["exec"] != b["exec"]:
                out.add("exec")
    return "+".join(sorted(out)) or "none"


def _dir_path_became_file(s, t):
    """Input class: the path of a non-empty source directory holds a file in the target."""
    files_t = {tuple(path(t, i)) for i in IDS if t[i]["v"] and t[i]["kind"] == "file"}
    return any(s[i]["v"] and s[i]["kind"] == "directory" and tuple(path(s, i)) in files_t
               and any(s[j]["v"] and s[j]["parent"] == i for j in IDS) for i in IDS)


def _is_unchanged(r):
    return (r["ov"] and r["nv"] and not r["cc"] and r["opar"] == r["npar"] and r["on"] == r["nn"]
            and r["ok"] == r["nk"] and r["ox"] == r["nx"])


def _inside(path, flt):
    return path != ["-"] and any(path[:len(f)] == list(f) for f in flt)


def _diff_classes(recs, opt, gen, q):
    """Input classes of a disagreement between an optimised and the generic change set (one per differing record)."""
    flt = None if q["f"] == ["all"] else q["f"][1]

    def sort_of(r):
        return ("error-%s" % r["nn"] if r["id"] == "error" else "unversioned" if r["id"] == "-" else
                ("unchanged-" if _is_unchanged(r) else "changed-") + "entry")

    def where(r):
        if flt is None:
            return "whole-tree"
        if _inside(r["op"], flt) or _inside(r["np"], flt):
            return "inside-filter"
        if any(r["np"] == list(f[:len(r["np"])]) for f in flt):
            return "ancestor-of-filter-path"
        return "outside-filter"
    a = {(recs[k - 1]["id"], json.dumps(recs[k - 1]["np"])): recs[k - 1] for k in opt}
    b = {(recs[k - 1]["id"], json.dumps(recs[k - 1]["np"])): recs[k - 1] for k in gen}
    cls = set()
    for key in sorted(set(a) | set(b)):
        x, y = a.get(key), b.get(key)
        if x == y:
            continue
        if x is not None and y is not None:
            cls.add("%s-differs-in-%s" % (sort_of(y), "+".join(sorted(k for k in x if x[k] != y[k]))))
        elif x is not None:
            cls.add("only-optimised-reports-%s-%s" % (sort_of(x), where(x)))
        else:
            cls.add("only-generic-reports-%s-%s" % (sort_of(y), where(y)))
    return sorted(cls) or ["same-records-different-multiplicity"]


def judge(ctx, rows, chunk=150):
    for off in range(0, len(rows), chunk):
        part = rows[off:off + chunk]
        fin = os.path.join(ctx.workdir, "rows_%d.json" % off)
        with open(fin, "w") as f:
            json.dump(part, f)
        data, _ = tlc.json_cases(ctx, "TreeDiffTrace", cfg_text=table.cfg(), env={"VF_IN": fin}, label="TreeDiffTrace",
                                 workers=2, timeout=3000)
        os.unlink(fin)
        nq = sum(len(r["qs"]) for r in part)
        if data["n"] != len(part) or data["nq"] != nq:
            ctx.machinery("trace module consumed %s rows / %s queries of %d / %d" % (data["n"], data["nq"], len(part), nq))
        ctx.count(0, traces=nq)
        for b in data["bad"]:
            row = part[b["row"] - 1]
            q = row["qs"][b["q"] - 1]
            s, t = row["s"], row["t"]
            where = "%s, include_unchanged=%s, want_unversioned=%s, %s -> %s" % (
                "no filter" if q["f"] == ["all"] else "filter %s" % ["/".join(p) for p in q["f"][1]],
                q["iu"], q["wu"], _short(s), _short(t))
            replay = dict(s=s, t=t, tx=row["tx"], query={k: q[k] for k in ("f", "iu", "wu")},
                          observed={k: [row["recs"][n - 1] for n in v] for k, v in q["o"].items()},
                          observed_git={k: [row["grecs"][n - 1] for n in v] for k, v in q["g"].items()}, verdict=b)
            # one input class with several symptoms in the dirstate fast path (lstat error, missing records): see the
            # known finding; everything else is classified by what differs
            swapped = q["f"] != ["all"] and _dir_path_became_file(s, t)
            swap_sig = "%s:InterDirStateTree.iter_changes:filtered,non-empty-directory-path-now-a-file"
            for law in b.get("failed", []):
                if law == "dirstate=generic" and swapped:
                    ctx.violation(swap_sig % law, "law %s fails for InterDirStateTree (%s)" % (law, where), replay)
                elif law in ("chk=generic", "dirstate=generic"):
                    name, a, g = (("InterCHKRevisionTree", "chk", "inv") if law == "chk=generic" else
                                  ("InterDirStateTree", "ds", "wt"))
                    for cls in _diff_classes(row["recs"], q["o"][a], q["o"][g], q):
                        ctx.violation("%s:%s.iter_changes:%s" % (law, name, cls),
                                      "%s and InterInventoryTree disagree: %s (%s)" % (name, cls, where), replay)
                else:
                    culprits = b.get("culprits") or {}
                    for k in (culprits.get(law, []) if isinstance(culprits, dict) else []):
                        if k == "ds" and swapped:
                            ctx.violation(swap_sig % law, "law %s fails for InterDirStateTree (%s)" % (law, where), replay)
                        else:
                            ctx.violation("%s:%s:%s" % (law, IMPLS[k].split("(")[0] + ("" if "(" not in IMPLS[k] else "/" + k), _kinds(s, t)),
                                          "law %s fails for %s (%s)" % (law, IMPLS[k], where), replay)
            for law in b.get("gitfailed", []):
                for k in b.get("gitculprits", []):
                    ctx.violation("%s:InterGitTrees/%s:%s" % (law, "working-tree" if k == "wt" else "revision-trees", _kinds(s, t)),
                                  "law %s fails for InterGitTrees on %s (%s)" % (law, k, where), replay)
            if b.get("drift") and not b.get("failed"):
                ctx.drift("%s differ(s) from the declarative Diff/Restrict (%s)" % (",".join(b["drift"]), where), replay)


def _short(t):
    return "{" + ", ".join("%s=%s%s%s" % (i, spath(t, i), "/" if t[i]["kind"] == "directory" else "",
                                         ("*" if t[i]["exec"] else "") + ("'" if t[i]["content"] else ""))
                           for i in IDS if t[i]["v"]) + "}"


def _generate(ctx, consts, witnesses, label):
    """One TLC run: enumerate the pairs, check LawsHoldOnSpec on every one, reach every witness (-continue), export.
    (Like table_common.generate, but the laws and witnesses are evaluated on non-initial states here.)"""
    import re
    out = os.path.join(ctx.workdir, "pairs_%d.json" % len(os.listdir(ctx.workdir)))
    res = tlc.run(ctx, "TreeDiffGen", cfg_text=table.cfg(consts, ("LawsHoldOnSpec",) + tuple(witnesses)), allow_violation=True,
                  workers=16, extra=("-continue",) if witnesses else (), env={"VF_OUT": out}, timeout=3000)
    ctx.add_tlc(res, label)
    found = set(re.findall(r"Error: Invariant (\w+) is violated", res["output"]))
    if "LawsHoldOnSpec" in found:
        ctx.machinery("TreeDiffGen violates LawsHoldOnSpec with %s -- the model itself is wrong:\n%s" % (consts, res["output"][-3000:]))
    missing = [w for w in witnesses if w not in found]
    if missing:
        ctx.machinery("vacuity guard: TreeDiffGen did not reach witness(es) %s with %s" % (missing, consts))
    if "states generated" not in res["output"] or not os.path.exists(out):
        ctx.machinery("TreeDiffGen did not complete / wrote no pair file:\n%s" % res["output"][-2000:])
    with open(out) as f:
        pairs = json.load(f)
    os.unlink(out)
    if not pairs or res["distinct"] != 2 * len(pairs):
        ctx.machinery("TreeDiffGen exported %d pairs but checked %s states" % (len(pairs), res["distinct"]))
    return pairs


def run(ctx):
    env.init()
    table_common.narrow_jvm()
    if ctx.quick:
        runs = [dict(MaxEdits=2, Starts='"all"', MaxFilter=1)]
    else:
        runs = [dict(MaxEdits=2, Starts='"all"', MaxFilter=2), dict(MaxEdits=3, Starts='"few"', MaxFilter=1)]
    pairs, seen = [], set()
    for n, consts in enumerate(runs):
        part = _generate(ctx, consts, WITNESSES if n == 0 else (), "TreeDiffGen %s" % consts)
        part.sort(key=lambda p: (tree_key(p["s"]), tree_key(p["t"]), p["tx"]))
        fresh = []
        for p in part:
            k = (tree_key(p["s"]), tree_key(p["t"]), tuple(p["tx"]))
            if k not in seen:
                seen.add(k)
                fresh.append(p)
        if n == 1:
            for p in fresh:
                p["deep"] = True
            fresh = ctx.rng.sample(fresh, min(len(fresh), 3000))
        pairs += fresh
    enumerated = len(seen)
    if ctx.quick:
        pairs = ctx.rng.sample(pairs, min(len(pairs), 700))
    core.fork_map(ctx, _replay, pairs, chunks_per_proc=1 if ctx.quick else 4)
    classes = sorted({tuple(c) for w in ctx.collected for c in w["classes"]})
    done = sum(w["pairs"] for w in ctx.collected)
    if done != len(pairs):
        ctx.machinery("replayed %d of %d pairs" % (done, len(pairs)))
    expect = {"ds": "InterDirStateTree", "chk": "InterCHKRevisionTree", "old": "InterInventoryTree",
              "gitwt": "InterGitTrees", "gitrt": "InterGitTrees"}
    for k, name in classes:
        if expect[k] != name:
            ctx.drift("InterTree.get selected %s where %s was expected (%s)" % (name, expect[k], k))
    ctx.cov["implementations"] = ["%s=%s" % c for c in classes]
    ctx.cov["pairs_enumerated"] = enumerated
    ctx.cov["pairs_replayed"] = len(pairs)
    ctx.sample({"pair": {"s": _short(pairs[0]["s"]), "t": _short(pairs[0]["t"]), "extras_in": pairs[0]["tx"]}})
    ctx.rule("pairs (s, t, extras): s = parent-closed subset of {fa=a, fb=b, dd=d/, fda=d/a, de=e/} at home, t = s after "
             "<= 2 edits (thorough: also <= 3 edits from the full tree and the trees lacking one id) out of rename to a "
             "free name in {a..e}, reparent, swap of two sibling names, kind change, content change, exec change, add "
             "at home, delete, unversioned file x dropped in a directory; %d pairs enumerated by TLC, %d replayed (%s); "
             "per pair: no filter x 4 (include_unchanged, want_unversioned) settings, plus %s. Non-trivial = s # t"
             % (enumerated, len(pairs),
                "seeded sample" if ctx.quick else "all <=2-edit pairs and a seeded sample of 3000 3-edit pairs",
                "4 sampled filters (single paths, pairs of paths, all paths) x 2 settings" if ctx.quick else
                "every single-path filter, the all-paths filters and 8 sampled two-path filters x 2 settings (4 sampled "
                "filters for 3-edit pairs)"))
    ctx.cov["exhaustive"] = False
    ctx.assume("file ids / names / texts are interchangeable beyond the five of each used")
    ctx.assume("validity of a filtered delta means parent-completeness; name collisions with unselected entries are "
               "outside what a path filter can promise")
